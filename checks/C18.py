"""C18 — each low-level send function validates its parameters and encodes one message.

proof phase   : translator gen_sendfns (src/lowlevel/*.c -> coq/SendFns.v), Properties_C18.v
correspondence: every public bidib_send_* function is called in the real library (harness/ext_C18.inc) and in the
                extracted generated function on the same arguments; the wire bytes after bidib_flush() must agree
                (`corr_sendfns`); where the model predicts an out-of-bounds access the implementation must produce a
                sanitizer report, where it predicts never-written bytes those positions are wildcards.
oracle        : the extracted hand-written specification (SendSpec.spec_call) judges the implementation's wire output:
                rejected <-> nothing on the wire; accepted <-> exactly one message (first message for the compound
                bidib_send_sys_reset) with the specified address, type (< 0x80), data, length byte <= 127; no sanitizer report.
"""
import os, re, sys, subprocess, json
import vlib, flowgen
from vlib import Rng, hexs, unhex

KEY_MACROMAP = "accessory_para_set_macromap.data_size0"
KEY_FW121 = "fw_update_op_data.data_size121"
KEY_CONFIGX = "lc_configx_set.pairs-half-copied"

BOUNDARY = [0, 1, 2, 3, 4, 5, 7, 8, 9, 13, 15, 16, 17, 31, 32, 33, 59, 60, 63, 64, 65, 67, 70, 71, 72, 118, 119, 120, 121, 122, 123,
            127, 128, 129, 130, 131, 135, 136, 139, 143, 151, 152, 191, 192, 193, 223, 224, 250, 251, 252, 253, 254, 255]
ADDRS = [(0, 0, 0), (5, 0, 0), (5, 6, 0), (5, 6, 7), (254, 253, 1), (0, 3, 4), (9, 0, 2)]
DEPTH_ADDR = [(0, 0, 0), (5, 0, 0), (5, 6, 0), (5, 6, 7)]

# an accepted tuple to sweep around (parameter name -> value; everything else 0)
BASE_HINT = {
    "sys_clock": {"tcode1": 128, "tcode2": 64, "tcode3": 192},
    "accessory_para_get": {"para_num": 251},
    "bm_mirror_multiple": {"size": 8},
    "lc_configx_set": {"pairs_num": 1},
    "accessory_para_set_macromap": {"data_size": 1},
}
# the caller's side of the contract (mirror of SendSpec.buf_lengths): lengths of the pointer arguments
BUF_LEN = {
    "accessory_para_set_macromap": lambda p: [p["data_size"]],
    "fw_update_op_data": lambda p: [p["data_size"]],
    "bm_mirror_multiple": lambda p: [p["size"] // 8],
    "lc_configx_set": lambda p: [2 * p["pairs_num"]],
    "vendor_set": lambda p: [p["vendor_data_name_length"], p["vendor_data_value_length"]],
    "vendor_get": lambda p: [p["name_length"]],
    "string_set": lambda p: [p["string_size"]],
}

# ------------------------------------------------------------------ function table (from the SendFns.v the model is built from)
def fn_table(cdir):
    txt = open(os.path.join(cdir, "SendFns.v")).read()
    names = re.findall(r'^\| F_(\w+)$', re.search(r'Inductive fn :=\n(.*?)\.\n', txt, re.S).group(1), re.M)
    fns = []
    for i, short in enumerate(names):
        m = re.search(r'^Definition gen_bidib_send_%s\b(.*?) : outcome :=' % re.escape(short), txt, re.M)
        sc = []; bufs = []
        for grp, ty in re.findall(r'\(([^()]*?) : (Z|list Z)\)', m.group(1)):
            (sc if ty == "Z" else bufs).extend(grp.split())
        has_addr = sc[:3] == ["node_address_top", "node_address_sub", "node_address_subsub"]
        compound = re.search(r'Definition compound .*?\| F_%s => (true|false)' % re.escape(short), txt, re.S).group(1) == "true"
        fns.append({"idx": i, "short": short, "name": "bidib_send_" + short, "scalars": sc, "bufs": bufs, "has_addr": has_addr, "compound": compound})
    return fns

# ------------------------------------------------------------------ case generation
def mk_case(f, addr, params, r, fill=None):
    """params: values of the non-address scalars by name; buffers are made well-formed"""
    names = f["scalars"][3:] if f["has_addr"] else f["scalars"]
    p = {n: params.get(n, 0) for n in names}
    sc = (list(addr) if f["has_addr"] else []) + [p[n] for n in names]
    bufs = []
    if f["bufs"]:
        if f["short"] not in BUF_LEN: raise RuntimeError("no buffer-length rule for " + f["short"])
        for k, ln in enumerate(BUF_LEN[f["short"]](p)):
            if fill is not None and k < len(fill) and fill[k] is not None: b = list(fill[k])[:ln] + [0] * max(0, ln - len(fill[k]))
            else: b = [r.below(256) for _ in range(ln)]
            if f["short"] == "accessory_para_set_macromap" and ln > 0 and (fill is None): b[-1] = 0xFF if not r.chance(1, 6) else r.below(256)
            bufs.append(b)
    return {"f": f["idx"], "sc": sc, "bufs": bufs}

def gen_cases(fns, r, quick, only=None, first_id=0):
    """cases for the functions whose index is in `only` (all if None)"""
    cases = []
    def add(c, tag):
        c["tag"] = tag; cases.append(c)
    for f in fns:
        if only is not None and f["idx"] not in only: continue
        names = f["scalars"][3:] if f["has_addr"] else f["scalars"]
        base = dict(BASE_HINT.get(f["short"], {}))
        # 1. every address form with the base tuple
        for a in ADDRS: add(mk_case(f, a, base, r), "addr")
        # 2. every scalar over 0..255 around the base tuple (all depths in thorough, depth 1 and 3 in quick)
        for n in names:
            for a in (DEPTH_ADDR if not quick else [DEPTH_ADDR[1], DEPTH_ADDR[3]] if f["bufs"] else [DEPTH_ADDR[1]]):
                for v in range(256):
                    p = dict(base); p[n] = v
                    add(mk_case(f, a, p, r), "sweep:" + n)
        # 3. boundary values of two parameters at once
        if len(names) >= 2:
            pairs = [(names[i], names[j]) for i in range(len(names)) for j in range(i + 1, len(names))]
            if quick and len(pairs) > 6: pairs = [pairs[r.below(len(pairs))] for _ in range(6)]
            bset = BOUNDARY if not quick else [0, 1, 8, 16, 17, 59, 60, 63, 64, 70, 71, 119, 120, 121, 127, 128, 151, 152, 191, 192, 223, 224, 251, 254, 255]
            for (n1, n2) in pairs:
                for v1 in bset:
                    for v2 in bset:
                        if f["bufs"] and quick and r.chance(2, 3): continue
                        p = dict(base); p[n1] = v1; p[n2] = v2
                        add(mk_case(f, DEPTH_ADDR[r.below(4)], p, r), "pair")
        # 3b. every parameter at one of its two extremes at once: all tuples of {0x00, 0xFF}^n (n <= 8 parameters), the combinations
        # a "default values" shortcut would test for
        if 2 <= len(names) <= 8:
            for bits in range(1 << len(names)):
                p = {n: (0xFF if bits >> i & 1 else 0x00) for i, n in enumerate(names)}
                add(mk_case(f, DEPTH_ADDR[bits % 4], p, r), "extremes")
        # 4. random tuples from the boundary set / uniformly
        for _ in range(60 if quick else 10000):
            p = {n: (r.choice(BOUNDARY) if r.chance(2, 3) else r.below(256)) for n in names}
            for n, v in base.items():
                if r.chance(1, 2): p[n] = v
            add(mk_case(f, r.choice(ADDRS), p, r), "random")
    # 5. payloads: every length 0..max+1 at every depth, with contents that exercise the copy loops
    by = {f["short"]: f for f in fns if only is None or f["idx"] in only}
    def payload(short, pfun, lens, fills=(None,)):
        if short not in by: return
        for a in DEPTH_ADDR:
            for ln in lens:
                for fill in fills:
                    add(mk_case(by[short], a, pfun(ln), r, fill(ln) if fill else None), "payload")
    white = lambda ln: [[r.choice([0x20, 0x09, 0x0D, 0x0A]) if r.chance(1, 4) else r.range(0x30, 0x46) for _ in range(ln)]]
    nowhite = lambda ln: [[r.range(0x30, 0x46) for _ in range(ln)]]
    allwhite = lambda ln: [[0x20] * ln]
    special = lambda ln: [[r.choice([0xFE, 0xFD, 0x00, 0xFF]) for _ in range(ln)]]
    payload("fw_update_op_data", lambda ln: {"data_size": ln}, list(range(0, 124)) + [127, 128, 200, 254, 255], (nowhite, white, allwhite, special))
    payload("vendor_get", lambda ln: {"name_length": ln}, list(range(0, 124)) + [127, 128, 255], (None, special))
    payload("string_set", lambda ln: {"namespace": 1, "string_id": 2, "string_size": ln}, list(range(0, 122)) + [127, 128, 255], (None, special))
    payload("accessory_para_set_macromap", lambda ln: {"anum": 3, "data_size": ln}, list(range(0, 19)) + [255], (None, lambda ln: [[1] * ln], lambda ln: [[0xFF] * ln]))
    payload("lc_configx_set", lambda ln: {"port0": 5, "port1": 6, "pairs_num": ln}, list(range(0, 11)) + [255], (None, lambda ln: [[0x11 * (i % 15 + 1) for i in range(2 * ln)]]))
    payload("bm_mirror_multiple", lambda ln: {"mnum": 8, "size": ln}, list(range(0, 145)) + [248, 255], (None,))
    if "vendor_set" in by:
        for a in DEPTH_ADDR:
            for tot in list(range(0, 8)) + list(range(112, 124)) + [128, 255, 256, 300, 510]:
                splits = {0, tot // 2, tot, max(0, tot - 1), min(tot, 255), max(0, tot - 255)}
                for nl in sorted(splits):
                    vl = tot - nl
                    if 0 <= nl <= 255 and 0 <= vl <= 255:
                        add(mk_case(by["vendor_set"], a, {"vendor_data_name_length": nl, "vendor_data_value_length": vl}, r), "payload")
    # dedupe, number
    seen = set(); out = []
    for c in cases:
        k = (c["f"], tuple(c["sc"]), tuple(tuple(b) for b in c["bufs"]))
        if k in seen: continue
        seen.add(k); c["id"] = first_id + len(out); out.append(c)
    return out

def script_of(fns, cs):
    L = ["start 1 - 0"]
    for c in cs:
        f = fns[c["f"]]
        call = "%d %s %s%s" % (f["idx"], f["name"], hexs(c["sc"]), "".join(" " + hexs(b) for b in c["bufs"]))
        # a compound function (bidib_send_sys_reset) never returns without a bus: first message only, own process
        L += ["case %d" % c["id"], "seqon 0", "reset_nodes"] + (["sendfn_first " + call] if f["compound"] else ["sendfn " + call, "flush"])
    return "\n".join(L) + "\n"

# ------------------------------------------------------------------ judging
def wire_msgs(lines):
    chunks = [unhex(l[2:]) for l in lines if l.startswith("w ")]
    if not chunks: return []
    pk = flowgen.decode_wire(chunks)
    if pk is None: return None
    return [m for p in pk for m in p]

def canon(a):
    out = []
    for x in a:
        if x == 0: break
        out.append(x)
    return tuple(out)

def oracle(f, spec_line, msgs, crashed):
    """judge the implementation's output against the specification; returns None or (kind, reason)"""
    if crashed: return ("sanitizer", "the call ends in a sanitizer report / crash: " + crashed)
    if msgs is None: return ("wire-not-decodable", "bytes written by the library do not decode as packets")
    if spec_line is None: return ("no-spec", "specification driver gave no verdict")
    if f["compound"]: msgs = msgs[:1]
    if spec_line == "spec rejected":
        if msgs: return ("accepts-out-of-range", "arguments outside the specified ranges, but %d message(s) submitted: %s" % (len(msgs), hexs(msgs[0])))
        return None
    _, sa, sty, sdata = spec_line.split()
    if len(msgs) != 1: return ("rejects-in-range" if not msgs else "extra-message", "specified: exactly one message; on the wire: %d" % len(msgs))
    m = msgs[0]
    if m[0] > 127: return ("length-byte>127", "length byte %d exceeds the protocol maximum 127" % m[0])
    if m[0] != len(m) - 1: return ("length-byte-wrong", "length byte %d for %d following bytes" % (m[0], len(m) - 1))
    a, seq, ty, data = flowgen.msg_fields(m)
    if ty >= 0x80: return ("type>=0x80", "type code %02x is not a downlink code" % ty)
    exp = (canon(unhex(sa)), int(sty, 16), unhex(sdata))
    if (tuple(a), ty, list(data)) != (exp[0], exp[1], exp[2]):
        return ("wrong-bytes", "message %s differs from the specified address/type/data %s / %02x / %s" % (hexs(m), hexs(list(exp[0])), exp[1], hexs(exp[2])))
    if seq != 0: return ("wrong-bytes", "sequence byte %d with sequence numbers off" % seq)
    return None

def classify(f, c, kind):
    names = f["scalars"][3:] if f["has_addr"] else f["scalars"]
    p = dict(zip(names, c["sc"][3:] if f["has_addr"] else c["sc"]))
    if f["short"] == "accessory_para_set_macromap" and p.get("data_size") == 0 and kind == "sanitizer": return KEY_MACROMAP
    if f["short"] == "fw_update_op_data" and p.get("data_size") == 121 and kind in ("accepts-out-of-range", "length-byte>127"): return KEY_FW121
    if f["short"] == "lc_configx_set" and 1 <= p.get("pairs_num", 0) <= 8 and kind == "wrong-bytes": return KEY_CONFIGX
    return "%s.%s" % (f["short"], kind)

def corr_agree(f, gen_lines, msgs, crashed):
    """does the implementation's output agree with the generated model's prediction?"""
    faults = [l for l in gen_lines if l.startswith("model-fault")]
    if faults: return bool(crashed)
    if crashed or msgs is None: return False
    indet = [l for l in gen_lines if l.startswith("indet ")]
    if f["compound"]: msgs = msgs[:1]
    if indet:
        if len(msgs) != 1: return False
        _, sa, sty, pat = indet[0].split()
        a, seq, ty, data = flowgen.msg_fields(msgs[0])
        if tuple(a) != canon(unhex(sa)) or ty != int(sty, 16) or seq != 0: return False
        cells = [pat[i:i+2] for i in range(0, len(pat), 2)] if pat != "-" else []
        return len(cells) == len(data) and msgs[0][0] == len(msgs[0]) - 1 and all(x == "??" or int(x, 16) == d for x, d in zip(cells, data))
    mm = wire_msgs(gen_lines)
    return mm is not None and mm == msgs

# ------------------------------------------------------------------ running
def run_impl(exe, fns, cases):
    """-> {id: (lines, crashed-or-None)}; a crash inside a batch is isolated by re-running its cases one by one"""
    res = {}
    def batch(cs, depth=0):
        rc, out, err = vlib.run_driver(exe, script_of(fns, cs), timeout=900)
        got = vlib.split_cases(out)
        if rc == 0:
            for c in cs: res[c["id"]] = (got.get(str(c["id"]), []), None if str(c["id"]) in got else "no output")
            return
        if len(cs) == 1:
            m = re.search(r'(ERROR: \w+: [^\n]*|runtime error: [^\n]*|SUMMARY: [^\n]*)', err)
            res[cs[0]["id"]] = (got.get(str(cs[0]["id"]), []), (m.group(1) if m else "exit code %d" % rc)[:300])
            return
        # the crash is in the last case that produced a marker; everything before it is good
        done = [c for c in cs if str(c["id"]) in got]
        if not done:
            for c in cs: batch([c], depth + 1)
            return
        bad = done[-1]
        for c in done[:-1]: res[c["id"]] = (got[str(c["id"])], None)
        batch([bad], depth + 1)
        rest = cs[cs.index(bad) + 1:]
        if rest: batch(rest, depth + 1)
    B = 4000
    for i in range(0, len(cases), B): batch(cases[i:i + B])
    return res

def judge(ck, fns, exe, md, cases, st):
    """run one shard of cases through the generated model, the specification and the implementation; compare; accumulate"""
    script = script_of(fns, cases)
    gen = vlib.split_cases(subprocess.run([md, "gen"], input=script, capture_output=True, text=True, timeout=3000).stdout)
    spec = vlib.split_cases(subprocess.run([md, "spec"], input=script, capture_output=True, text=True, timeout=3000).stdout)
    del script
    # calls on which the model predicts a memory fault, and the compound function, run in their own process
    risky = [c for c in cases if fns[c["f"]]["compound"] or any(l.startswith("model-fault") for l in gen.get(str(c["id"]), []))]
    risky_ids = {c["id"] for c in risky}
    safe = [c for c in cases if c["id"] not in risky_ids]
    impl = run_impl(exe, fns, safe)
    for c in risky: impl.update(run_impl(exe, fns, [c]))
    st["n"] += len(cases); st["risky"] += len(risky)
    dist = st["dist"]; per_fn = st["per_fn"]; samples = st["samples"]
    prev = None
    for c in cases:
        f = fns[c["f"]]; cid = str(c["id"])
        lines, crashed = impl.get(c["id"], ([], "not run"))
        msgs = wire_msgs(lines)
        if any(l.startswith("sendfn-") for l in lines): crashed = crashed or lines[0]
        sl = (spec.get(cid) or [None])[0]
        gl = gen.get(cid, [])
        dist[c["tag"].split(":")[0]] = dist.get(c["tag"].split(":")[0], 0) + 1
        pf = per_fn.setdefault(f["short"], {"cases": 0, "accepted": 0, "rejected": 0})
        pf["cases"] += 1; pf["accepted" if sl and sl != "spec rejected" else "rejected"] += 1
        if c["tag"].startswith("sweep") and prev is not None and prev[0] == (c["f"], c["tag"], tuple(c["sc"][:3])) and (prev[1] == "spec rejected") != (sl == "spec rejected"): st["crossings"] += 1
        prev = ((c["f"], c["tag"], tuple(c["sc"][:3])), sl)
        def rep():
            return {"property": "C18", "function": f["name"], "scalars": dict(zip(f["scalars"], c["sc"])), "buffers": [hexs(b) for b in c["bufs"]],
                    "script": script_of(fns, [c]), "impl": lines, "sanitizer": crashed, "model": gl, "spec": sl}
        if not corr_agree(f, gl, msgs, crashed):
            st["dis"] += 1
            if st["dis"] <= 3: ck.broken.append({"kind": "correspondence", "name": "corr_sendfns", "case": rep()})
        v = oracle(f, sl, msgs, crashed)
        if v:
            st["orc"] += 1; key = classify(f, c, v[0])
            if key in st.setdefault("keys", {}):       # one replay per key is enough (the first, smallest-index case)
                st["keys"][key] += 1
                if key in [k["key"] for k in ck.known]: st["orc_known"] += 1
                continue
            st["keys"][key] = 1
            d = rep(); d["reason"] = v[1]; d["key"] = key
            before = len(ck.violations); ck.violation(key, d)
            if len(ck.violations) == before: st["orc_known"] += 1
        elif len(samples) < 4 and sl != "spec rejected" and c["tag"] in ("payload", "pair") and len(c["sc"]) > 4 and f["name"] not in [x["function"] for x in samples]:
            d = rep(); samples.append({k: d[k] for k in ("function", "scalars", "buffers", "impl", "spec")})

def run(ck):
    quick = ck.tier == "quick"
    cdir, ok = vlib.proof_phase(ck, "Properties_C18.v", translators=("tables", "sendfns"))
    sys.path.insert(0, os.path.join(vlib.VERIF, "translator"))
    import gen_sendfns
    # the committed C dispatch must be the one the current headers/sources produce
    try:
        fresh = gen_sendfns.dispatch_text(vlib.REPO)
        same = fresh == open(os.path.join(vlib.VERIF, "harness", "C18_dispatch.inc")).read()
        ck.oblige("harness/C18_dispatch.inc is up to date with the public API", same, "" if same else "regenerate with translator/gen_sendfns.py --dispatch")
        if not same: ck.broken.append({"kind": "translator", "name": "C18_dispatch.inc", "detail": "the public bidib_send_* API differs from the committed C dispatch"})
    except gen_sendfns.TranslatorError as e:
        ck.oblige("harness/C18_dispatch.inc is up to date with the public API", False, str(e)[:300])
    fns = fn_table(cdir)
    exe = vlib.build_harness(); md = vlib.build_model_driver(cdir, "_C18")
    r = Rng(ck.seed).fork("C18")
    st = {"dis": 0, "orc": 0, "orc_known": 0, "dist": {}, "per_fn": {}, "samples": [], "crossings": 0, "n": 0, "risky": 0}
    shard = 73 if quick else 6          # functions per shard (bounds memory in the thorough tier)
    for s0 in range(0, len(fns), shard):
        cases = gen_cases(fns, r, quick, only={f["idx"] for f in fns[s0:s0 + shard]}, first_id=st["n"])
        judge(ck, fns, exe, md, cases, st)
    dis, orc, orc_known, dist, per_fn, samples, crossings = st["dis"], st["orc"], st["orc_known"], st["dist"], st["per_fn"], st["samples"], st["crossings"]
    ncases = st["n"]; nrisky = st["risky"]
    ck.oblige("correspondence corr_sendfns (implementation == generated functions on %d calls of %d functions)" % (ncases, len(fns)), dis == 0, "%d disagreements" % dis)
    ck.oblige("specification oracle accepts the implementation's wire output (known findings excepted)", orc == orc_known, "%d rejected, %d of them known findings" % (orc, orc_known))
    never = [n for n, s in per_fn.items() if s["accepted"] == 0]
    ck.coverage.update({"evaluations": ncases, "violation_keys": st.get("keys", {}), "distinct_nontrivial": crossings + dist.get("payload", 0), "distribution": dist,
                        "functions": len(fns), "functions_never_accepted": never, "calls_run_in_own_process_(model_predicts_fault_or_compound)": nrisky,
                        "oracle_rejections_incl_known": orc, "disagreements_checked": dis,
                        "rule": "per public function: 7 address forms; every non-address scalar over 0..255 around an accepted tuple; boundary x boundary for parameter pairs; random boundary tuples; every payload length 0..max+1 (and beyond) at address depth 0..3 with plain/whitespace/escape-byte contents. non-trivial = accept/reject transitions crossed inside sweeps + payload cases",
                        "samples": samples})
    return vlib.finish_with_broken(ck, trusted=vlib.TRUSTED_COMMON + [
        "translator/gen_sendfns.py (clang JSON AST -> Gallina), validated on every run by corr_sendfns",
        "harness/ext_C18.inc + generated harness/C18_dispatch.inc (argument marshalling, poisoned guard zones around caller buffers)",
        "coq/SendSpec.v is hand-written from include/lowlevel/*.h and bidib_messages.h; ranges marked (code) there are taken from the implementation"])

def replay(ck, path):
    d = json.load(open(path))
    print(json.dumps({k: d.get(k) for k in ("function", "scalars", "buffers", "reason", "key", "impl", "sanitizer", "model", "spec")}, indent=1))
    if "script" in d:
        exe = vlib.build_harness()
        rc, out, err = vlib.run_driver(exe, d["script"])
        print("replayed on the current library: exit code %d" % rc); print(out)
        m = re.search(r'(ERROR: \w+: [^\n]*|runtime error: [^\n]*)', err)
        if m: print(m.group(1))
    return 0
