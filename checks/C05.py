"""C05 — per-node sequence numbers consecutive in wire order."""
import vlib, flowgen
from vlib import Rng

def run(ck):
    quick = ck.tier == "quick"
    def make(info):
        r = Rng(ck.seed).fork("C05"); g = flowgen.Gen(r, info, stalls=True)
        cases = []
        for k in range(1200 if quick else 30000):
            ev = g.history()
            if k % 4 == 0:
                # cross the 255 -> 1 wrap on one node
                n = r.choice(flowgen.NODES)
                pre = [("send", n, 0x07, [i & 255]) for i in range(r.range(250, 260))]
                ev = [("time", 1000)] + pre + [("flush",)] + ev[1:]
            if k % 7 == 0:
                ev = ev[:len(ev)//2] + [("flush",), ("reset",)] + ev[len(ev)//2:]
            if k % 9 == 0:
                ev = [("seqon", 0)] + ev[:3] + [("seqon", 1)] + ev[3:]
            cases.append(ev)
        return cases
    flowgen.run_flow_check(ck, "Properties_C05.v", "C05", make, "corr_nodeflow_seq", lock_fact=("call:bidib_node_state_get_and_incr_send_seqnum", "call:bidib_node_try_send", "call:bidib_buffer_message", "node_state_table"))
    ck.coverage["rule"] = "seeded single-submitter histories incl. deferral by budget/stall, release by the receiver thread, the 255->1 wrap, table reset, numbering off/on; non-trivial = stall/deferral/release present"
    return vlib.finish_with_broken(ck, trusted=vlib.TRUSTED_COMMON)

def replay(ck, path):
    print(open(path).read()); return 0
