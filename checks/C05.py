"""C05 — per-node sequence numbers consecutive in wire order."""
import vlib, flowgen
from vlib import Rng

def run(ck):
    quick = ck.tier == "quick"
    def make(info):
        r = Rng(ck.seed).fork("C05"); g = flowgen.Gen(r, info, stalls=True)
        cases = []
        for k in range(1200 if quick else 30000):
            ev = g.history()
            if k % 4 == 0:
                # cross the 255 -> 1 wrap on one node
                n = r.choice(flowgen.NODES)
                pre = [("send", n, 0x07, [i & 255]) for i in range(r.range(250, 260))]
                ev = [("time", 1000)] + pre + [("flush",)] + ev[1:]
            if k % 7 == 0:
                ev = ev[:len(ev)//2] + [("flush",), ("reset",)] + ev[len(ev)//2:]
            if k % 9 == 0:
                ev = [("seqon", 0)] + ev[:3] + [("seqon", 1)] + ev[3:]
            cases.append(ev)
        return cases
    flowgen.run_flow_check(ck, "Properties_C05.v", "C05", make, "corr_nodeflow_seq", lock_fact=("call:bidib_node_state_get_and_incr_send_seqnum", "call:bidib_node_try_send", "call:bidib_buffer_message", "call:bidib_buffer_message:bidib_add_to_buffer", "node_state_table"))
    # lock-granularity schedule probe on the real code: thread A is parked just before its k-th mutex
    # acquisition inside a submission while thread B submits (or the receiver thread releases deferred
    # traffic); the per-node sequence numbers on the wire must still be consecutive
    from vlib import hexs, unhex
    exe = vlib.build_harness(wrap=("pthread_mutex_lock",))
    L = ["start 1 - 0"]; probes = []
    for k in range(1, 8):
        probes.append(("s%d" % k, ["reset_nodes", "cap 0", "flush", "sched2 %d 1 0 0 7 01 1 0 0 7 02" % k, "flush"]))
        probes.append(("d%d" % k, ["reset_nodes", "cap 0", "flush", "sched2 %d 1 0 0 7 01 2 0 0 7 02" % k, "sched2 %d 2 0 0 7 03 1 0 0 7 04" % k, "flush"]))
        # budget exhausted by two 32-byte requests (second deferred); A submits a third message and is parked;
        # the answer arrives meanwhile and the receiver releases the deferred one
        ans = hexs(flowgen.frame(flowgen.upmsg([1], 1, 0x93, [1, 65, 1, 66])))
        probes.append(("r%d" % k, ["reset_nodes", "cap 0", "flush", "send 1 0 0 22 01", "send 1 0 0 23 02", "flush", "schedrx %d 1 0 0 7 03 %s" % (k, ans), "flush"]))
    for cid, body in probes: L += ["case " + cid] + body
    rc, out, err = vlib.run_driver(exe, "\n".join(L) + "\n", timeout=300)
    pc = vlib.split_cases(out); sbad = 0
    for cid, body in probes:
        lines = pc.get(cid)
        chunks = [unhex(l[2:]) for l in (lines or []) if l.startswith("w ")]
        pk = flowgen.decode_wire(chunks) if lines is not None else None
        exp = {}; why = None
        if pk is None: why = "driver crashed or wire undecodable"
        else:
            for p in pk:
                for m in p:
                    a, sq, ty, data = flowgen.msg_fields(m)
                    e = exp.get(a, 1)
                    if sq != e and why is None: why = "node %s: sequence number %d on the wire where %d was due" % (a, sq, e)
                    exp[a] = 1 if sq == 255 else sq + 1
        if why:
            sbad += 1
            ck.violation("schedule.seq-not-consecutive", {"property": "C05", "schedule": body, "meaning": "schedN k A B: thread A parked before its k-th mutex acquisition while thread B submits; schedrx: while the receiver processes the given uplink bytes",
                         "wire": [hexs(c) for c in chunks], "reason": why, "stderr": err[-400:]})
    ck.oblige("schedule probe: %d forced lock-granularity schedules on the real code" % len(probes), sbad == 0, "%d bad" % sbad)
    ck.coverage["schedules_forced"] = len(probes)
    ck.coverage["rule"] = "seeded single-submitter histories incl. deferral by budget/stall, release by the receiver thread, the 255->1 wrap, table reset, numbering off/on; non-trivial = stall/deferral/release present"
    return vlib.finish_with_broken(ck, trusted=vlib.TRUSTED_COMMON)

def replay(ck, path):
    return vlib.replay_generic(ck, path)
