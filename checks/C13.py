"""C13 — start with arbitrary config files terminates with 0 or 1, never crashes or hangs; after 1 the library is
stopped, has released its memory and every lock, and can be started again with a valid configuration.

proof phase (Properties_C13.v: theorems about the layout-following model, named _partial)  ->  seeded triples of
files: structure-aware mutations of valid configurations (delete / duplicate / reorder / rename keys, wrong node
kinds, empty records, bad values), text-level mutations (truncation at any byte or line, byte noise, random bytes,
extra documents, aliases, tags, tabs, BOMs, NULs), missing files / missing directory  ->  each triple in a forked
child of the ASan+UBSan build with a watchdog: start (debug mode = config phase only), lock probe, state probe,
LeakSanitizer, then a second start on a valid configuration in the same process  ->  oracle on the observation.
Layout-following triples (value faults, duplicates) are also compared with the extracted model."""
import os, shutil, copy
import vlib, cfggen
from vlib import Rng
import C14 as base

def write_raw(root, cid, blobs):
    d = os.path.join(root, str(cid)); os.makedirs(d, exist_ok=True)
    for name, b in zip(cfggen.FILES, blobs):
        if b is None: continue
        if b == "DIR": os.makedirs(os.path.join(d, name)); continue
        with open(os.path.join(d, name), "wb") as f: f.write(b)
    return d

def judge(ck, cls, detail, blobs, o, ref_dump, stats):
    """oracle from the property text. returns True when the case is clean"""
    files = {n: (b.decode("utf-8", "replace") if isinstance(b, bytes) else repr(b)) for n, b in zip(cfggen.FILES, blobs)}
    rp = {"property": "C13", "class": cls, "detail": detail, "files": files,
          "files_hex": {n: b.hex() for n, b in zip(cfggen.FILES, blobs) if isinstance(b, bytes) and any(c > 126 or (c < 32 and c not in (10, 9)) for c in b)},
          "observation": o}
    if o is None or o["child"] is None:
        ck.violation("harness.no-observation", dict(rp, reason="no observation")); return False
    ch = o["child"]
    if ch.startswith("crash"):
        site = ch.split()[-1]; kind = ch.split()[1]
        stats["crash"][site] = stats["crash"].get(site, 0) + 1
        if kind == "detected" or "leak" in kind.lower():
            ck.violation("leak." + (o["phase"] or "?"), dict(rp, reason="LeakSanitizer: memory still allocated and unreachable after start returned 1: " + ch))
        else:
            ck.violation("crash." + site, dict(rp, reason="start did not return: %s in phase %s" % (ch, o["phase"])))
        return False
    if ch.startswith("hang"):
        ck.violation("hang." + (o["phase"] or "?"), dict(rp, reason="watchdog: no return in phase %s" % o["phase"])); return False
    if o["start"] not in ("0", "1"):
        ck.violation("start.return-value", dict(rp, reason="start returned %s" % o["start"])); return False
    ok = True
    if o["start"] == "1":
        if o["locks"] != "free":
            ck.violation("locks-held-after-reject", dict(rp, reason="after start returned 1: locks " + str(o["locks"]))); ok = False
        if not (o["state"] or "").startswith("released running 0"):
            ck.violation("state-not-released-after-reject", dict(rp, reason="after start returned 1: state " + str(o["state"]))); ok = False
        if o["leaks"] not in (None, "0"):
            ck.violation("leak.after-reject", dict(rp, reason="LeakSanitizer reported leaks after start returned 1")); ok = False
    if o["restart"] != "0" or o["dump2"] != ref_dump:
        ck.violation("restart-failed", dict(rp, reason="second start on a valid configuration in the same process: returned %s, getters %s" %
                                            (o["restart"], "as expected" if o["dump2"] == ref_dump else "differ from a first start")))
        ok = False
    return ok

def run(ck):
    quick = ck.tier == "quick"
    cdir, ok = vlib.proof_phase(ck, "Properties_C13.v")
    exe = vlib.build_harness(); md = vlib.build_model_driver(cdir, "_C14")
    r = Rng(ck.seed).fork("C13")
    root = vlib.mktmp("vc13")
    valid_doc = cfggen.example_doc()
    vdir = base.write_case(root, "valid", valid_doc)
    ref_dump = cfggen.expected_dump(valid_doc)
    n_base = 100 if quick else 2500
    per_base = 40 if quick else 60
    cases = []; meta = {}
    def add(cls, detail, blobs, ast=None):
        cid = str(len(cases)); d = write_raw(root, cid, blobs)
        meta[cid] = (cls, detail, blobs); cases.append((cid, d, ast))
    # minimised reproducers of earlier failures run first
    cdir_corpus = os.path.join(vlib.VERIF, "corpus", "C13")
    for name in sorted(os.listdir(cdir_corpus)) if os.path.isdir(cdir_corpus) else []:
        blobs = []
        for fn in cfggen.FILES:
            pth = os.path.join(cdir_corpus, name, fn)
            blobs.append(open(pth, "rb").read() if os.path.isfile(pth) else None)
        add("corpus." + name.split("_")[0], name, blobs)
    docs = [valid_doc] + [cfggen.gen_valid(r) for _ in range(n_base)]
    for doc in docs:
        trees = cfggen.to_trees(doc); texts = [cfggen.emit(t) for t in trees]
        enc = lambda ts: [t.encode("utf-8") for t in ts]
        add("valid", "", enc(texts), cfggen.encode(doc))
        for _ in range(per_base):
            k = r.below(100)
            fi = r.choice([0, 1, 1, 1, 2, 2])
            if k < 62:                                      # structural, one or two steps
                t = trees[fi] if trees[fi] is not None else cfggen.M([])
                kinds = []
                for _ in range(r.choice([1, 1, 1, 2])):
                    kind, t = cfggen.mutate_tree(t, r); kinds.append(kind)
                if all(x == "noop" for x in kinds): continue
                b = enc(texts); b[fi] = cfggen.emit(t).encode("utf-8")
                add("structural." + kinds[0], "file %d: %s" % (fi, "+".join(kinds)), b)
            elif k < 86:                                    # text level
                kind, nb = cfggen.text_mutation(texts[fi], r)
                b = enc(texts); b[fi] = nb
                add("text." + kind, "file %d" % fi, b)
            elif k < 92:                                    # missing / unreadable files
                b = enc(texts); which = r.choice([[0], [1], [2], [0, 1], [1, 2], [0, 1, 2]])
                for w in which: b[w] = None if r.chance(4, 5) else "DIR"
                add("missing", "files %s" % which, b)
            else:                                           # layout-following faults (also predicted by the model)
                ms = cfggen.mutations(doc, r, 1)
                if not ms: continue
                cls, detail, m = r.choice(ms)
                add("layout." + cls, detail, enc(cfggen.texts(m)), cfggen.encode(m))
    # every layout-following fault class (duplicates of every id kind, reversers included, bad values, ...) at least three times,
    # whatever the random draws above selected
    seen_cls = {}
    for doc in docs:
        for cls, detail, m in cfggen.mutations(doc, r, 1):
            if seen_cls.get(cls, 0) < 3:
                seen_cls[cls] = seen_cls.get(cls, 0) + 1
                add("layout." + cls, detail, [t.encode("utf-8") for t in cfggen.texts(m)], cfggen.encode(m))
    # exhaustive partial records: every mapping of two fixed configurations loses / renames its first key, etc.
    for name, doc in (("example", valid_doc), ("zero", cfggen.zero_doc())):
        trees = cfggen.to_trees(doc); texts = [cfggen.emit(t).encode("utf-8") for t in trees]
        for fi in range(3):
            for kind, path, t in cfggen.partial_record_mutants(trees[fi]):
                b = list(texts); b[fi] = cfggen.emit(t).encode("utf-8")
                add("partial." + kind, "file %d: %s doc, record at %s" % (fi, name, "/".join("%s%d" % x for x in path)), b)
    add("missing", "directory does not exist", [None, None, None])
    shutil.rmtree(os.path.join(root, cases[-1][0]))
    impl, model = base.run_cases(exe, md, cases, root, valid_dir=vdir, leak=1)
    stats = {"crash": {}}; dist = {}; clean = 0; res = {"0": 0, "1": 0, "crash": 0, "hang": 0}; dis = 0; samples = []
    # the same files outside low-level debug mode against an interface that never answers (every 6th case): the start must
    # still return 0 or 1 (here 1: rejected, or no connection), stopped, memory and locks released, restartable
    sub = [c for i, c in enumerate(cases) if i % 6 == 0]
    impl_n, _ = base.run_cases(exe, None, [(cid, d, None) for cid, d, ast in sub], root, valid_dir=vdir, leak=1, mode=1)
    nclean = 0
    for cid, d, ast in sub:
        cls, detail, blobs = meta[cid]
        o = impl_n.get(cid)
        if o is not None and o.get("start") == "0":
            ck.violation("start.return-value.silent-interface", {"property": "C13", "class": cls, "detail": detail, "observation": o, "reason": "start returned 0 although the interface never answered"}); continue
        if judge(ck, "normal-silent." + cls, detail, blobs, o, ref_dump, {"crash": {}}): nclean += 1
    ck.oblige("normal mode against a silent interface: %d configuration triples return 1, stopped, released, restartable" % len(sub), nclean == len(sub), "%d not clean" % (len(sub) - nclean))
    for cid, d, ast in cases:
        cls, detail, blobs = meta[cid]
        dist[cls] = dist.get(cls, 0) + 1
        o = impl.get(cid)
        if judge(ck, cls, detail, blobs, o, ref_dump, stats): clean += 1
        if o and o["child"]:
            key = "crash" if o["child"].startswith("crash") else "hang" if o["child"].startswith("hang") else (o["start"] or "?")
            res[key] = res.get(key, 0) + 1
        if ast is not None and o is not None:
            il = base.impl_lines(o); ml = model.get(cid)
            if ml and ml[0].startswith("start fault") and il == ["start 1"]: pass
            elif il is not None and ml is not None and il != ml:
                dis += 1
                if dis <= 3: ck.broken.append({"kind": "correspondence", "name": "corr_config", "class": cls, "detail": detail, "impl": il[:30], "model": ml[:30]})
        if len(samples) < 3 and cls.startswith("structural.") and o and o["start"] == "1":
            samples.append({"class": cls, "detail": detail, "file": [b.decode("utf-8", "replace")[:400] if isinstance(b, bytes) else None for b in blobs][int(detail[5])], "observation": {k: o[k] for k in ("start", "locks", "state", "leaks", "restart", "child")}})
    evals = len(cases)
    ck.oblige("oracle: every triple ends in 0 or 1 without crash/hang; after 1 all 15 locks free, state released, no leak; restart on a valid configuration succeeds (%d triples)" % evals,
              clean == evals, "%d of %d clean; crash sites %s" % (clean, evals, stats["crash"]))
    ck.oblige("correspondence corr_config on the layout-following triples (implementation == model)", dis == 0, "%d disagreements" % dis)
    ck.coverage.update({"evaluations": evals, "distinct_nontrivial": sum(v for k, v in dist.items() if k != "valid"), "distribution": dist, "start_results": res,
                        "crash_sites": stats["crash"],
                        "rule": "seeded triples: per valid base configuration %d mutants (62%% structural tree mutations of one file, 24%% text-level, 6%% missing/unreadable files, 8%% layout-following value faults); "
                                "each in a forked child (ASan+UBSan, LeakSanitizer recoverable check after a rejected start, 8 s watchdog), followed by a second start on the unit-test configuration in the same process; "
                                "non-trivial = every triple that is not an unmodified valid configuration" % per_base,
                        "samples": samples})
    return vlib.finish_with_broken(ck, trusted=vlib.TRUSTED_COMMON + [
        "runtime observation, not theorem: everything outside the documented key layout (structural / text mutants, missing files), released locks (trylock probe on the 15 locks), released state (container pointers NULL), leaks (LeakSanitizer), restart",
        "libyaml's own termination and memory safety",
        "checks/cfggen.py (renderer, mutators), harness/ext_C13.inc (fork, watchdog, probes, crash-site extraction from the sanitizer report)"])

def replay(ck, path):
    import json
    rp = json.load(open(path))
    if "files" not in rp: print(open(path).read()); return 0
    exe = vlib.build_harness()
    root = vlib.mktmp("vc13r")
    blobs = []
    for n in cfggen.FILES:
        if n in rp.get("files_hex", {}): blobs.append(bytes.fromhex(rp["files_hex"][n]))
        elif rp["files"][n] == "None": blobs.append(None)
        elif rp["files"][n] == "'DIR'": blobs.append("DIR")
        else: blobs.append(rp["files"][n].encode("utf-8"))
    d = write_raw(root, "0", blobs)
    vdir = base.write_case(root, "valid", cfggen.example_doc())
    mode = 1 if str(rp.get("class", "")).startswith("normal-silent.") else 0      # normal mode against a silent interface
    impl, _ = base.run_cases(exe, None, [("0", d, None)], root, valid_dir=vdir, leak=1, mode=mode)
    print("mode: %s" % ("normal mode, interface never answers" if mode else "low-level debug mode"))
    print(impl.get("0")); print(rp.get("reason", ""))
    return 0
