"""C14 — configs accepted iff well-formed and unambiguous; enumeration getters reflect them exactly.

proof phase (coq/ConfigSpec*.v, Properties_C14.v)  ->  build harness + extracted model  ->  seeded valid
documents and one single-fault mutant per fault class at every applicable position (sampled)  ->  the real
bidib_start_pointer (debug mode: config phase only) in a forked child per case, all getters dumped  ->
oracle (written from the property text, independent of the model) on the implementation's output,
correspondence implementation == model on every case."""
import os, concurrent.futures
import vlib, cfggen
from vlib import Rng

def write_case(root, cid, doc):
    d = os.path.join(root, str(cid)); os.makedirs(d, exist_ok=True)
    for name, text in zip(cfggen.FILES, cfggen.texts(doc)):
        with open(os.path.join(d, name), "w", encoding="utf-8") as f: f.write(text)
    return d

def parse_obs(lines):
    """-> dict(start, dump[], child, locks, state, restart, dump2[], phase)"""
    o = {"start": None, "dump": [], "child": None, "locks": None, "state": None, "restart": None, "dump2": [], "phase": None, "leaks": None}
    cur = None
    for l in lines:
        if l.startswith("phase "): o["phase"] = l[6:]; cur = None if l[6:] not in ("start", "restart") else cur
        elif l.startswith("start "): o["start"] = l[6:]; cur = "dump"
        elif l.startswith("restart "): o["restart"] = l[8:]; cur = "dump2"
        elif l.startswith("child "): o["child"] = l[6:]
        elif l.startswith("locks "): o["locks"] = l[6:]
        elif l.startswith("state "): o["state"] = l[6:]
        elif l.startswith("leaks "): o["leaks"] = l[6:]
        elif l == "stopped": cur = None
        elif cur: o[cur].append(l)
    return o

def run_cases(exe, md, cases, root, valid_dir="-", leak=0, jobs=16, timeout=1200, env_extra=None, mode=0):
    """cases: list of (cid, dir, ast-or-None). returns (impl {cid: obs}, model {cid: lines})"""
    def script(part):
        L = []
        for cid, d, ast in part:
            L.append("case %s" % cid)
            if ast is not None: L.append("c13ast " + ast)
            L.append("c13run %s %s %d" % (d, valid_dir, leak) + (" 8000 %d" % mode if mode else ""))
        return "\n".join(L) + "\n"
    model = {}
    if md is not None:
        import subprocess
        mo = subprocess.run([md], input=script([c for c in cases if c[2] is not None]), capture_output=True, text=True, timeout=timeout)
        model = vlib.split_cases(mo.stdout)
        # the "wf <wf_doc3>" line is the specification predicate's verdict, kept apart from the model's observation
        wfv = {}
        for k, ls in model.items():
            for l in ls:
                if l.startswith("wf "): wfv[k] = int(l.split()[1])
            model[k] = [l for l in ls if not l.startswith("wf ")]
        run_cases.wf = wfv
    chunk = max(1, (len(cases) + jobs * 4 - 1) // (jobs * 4))
    parts = [cases[i:i + chunk] for i in range(0, len(cases), chunk)]
    # G_SLICE=always-malloc: glib's slice allocator would hide invalid/double frees of GString/GArray headers from ASan
    env = {"UBSAN_OPTIONS": "print_stacktrace=1:halt_on_error=1:exitcode=78", "G_SLICE": "always-malloc"}
    if leak: env["ASAN_OPTIONS"] = "detect_leaks=1:abort_on_error=0:exitcode=77:allocator_may_return_null=1"
    if env_extra: env.update(env_extra)
    impl = {}
    def one(part):
        rc, out, err = vlib.run_driver(exe, script(part), timeout=timeout, env_extra=env)
        return vlib.split_cases(out), rc, err
    with concurrent.futures.ThreadPoolExecutor(max_workers=jobs) as ex:
        for res, rc, err in ex.map(one, parts):
            for k, v in res.items(): impl[k] = parse_obs(v)
    return impl, model

def impl_lines(o):
    """the part of an implementation observation the model predicts"""
    if o["start"] is None:
        if (o["child"] or "").startswith("crash") and o["phase"] == "start": return ["start fault " + o["child"].split()[-1]]
        return None
    return ["start " + o["start"]] + o["dump"]

def run(ck):
    quick = ck.tier == "quick"
    cdir, ok = vlib.proof_phase(ck, "Properties_C14.v")
    exe = vlib.build_harness(); md = vlib.build_model_driver(cdir, "_C14")
    r = Rng(ck.seed).fork("C14")
    root = vlib.mktmp("vc14")
    ndocs = 160 if quick else 4000
    per_class = 3 if quick else 6
    meta = {}; cases = []
    def add(kind, cls, detail, doc):
        cid = len(cases)
        d = write_case(root, cid, doc)
        meta[str(cid)] = (kind, cls, detail, doc)
        cases.append((str(cid), d, cfggen.encode(doc)))
    docs = [cfggen.example_doc()] + [cfggen.gen_valid(r) for _ in range(ndocs)]
    for doc in docs:
        add("valid", "valid", "", doc)
        for cls, detail, m in cfggen.mutations(doc, r, per_class):
            add("fault", cls, detail, m)
        # regression guard (repaired in /repo f13e215): a dcc aspect whose port assignment is contained in another aspect's
        # (distinct ids, distinct assignments) is valid in either order
        for cls, detail, m in cfggen.dcc_containment_variants(doc, r):
            add("valid", cls, detail, m)
        # a train with calibration values but no "peripherals" key: every section is optional in the property
        for ti, t in enumerate(doc["trains"]):
            if t["cal"] is not None and r.chance(1, 2):
                import copy
                m = copy.deepcopy(doc); m["trains"][ti]["per"] = None; m["trains"][ti]["extra"] = []
                add("valid", "valid.train.calibration-only", "train %d" % ti, m); break
    impl, model = run_cases(exe, md, cases, root)
    dis = 0; evals = 0; dist = {}; samples = []; orc_bad = 0; nontrivial = 0
    classes_hit = {}; lenient = {}; fault_benign = 0; uid_ff = 0; iff_n = 0; iff_bad = 0
    for cid, d, ast in cases:
        kind, cls, detail, doc = meta[cid]
        evals += 1; dist[cls] = dist.get(cls, 0) + 1
        o = impl.get(cid); ml = model.get(cid)
        replay = {"property": "C14", "class": cls, "detail": detail, "files": dict(zip(cfggen.FILES, cfggen.texts(doc))), "observation": o}
        if o is None or o["child"] is None:
            ck.violation("harness.no-observation", dict(replay, reason="the driver printed nothing for this case")); continue
        il = impl_lines(o)
        # ---------------- oracle on the implementation's output (property text)
        if o["child"].startswith("crash"):
            ck.violation("crash." + o["child"].split()[-1], dict(replay, reason="start crashed: " + o["child"])); orc_bad += 1
        elif o["child"].startswith("hang"):
            ck.violation("hang." + cls, dict(replay, reason="start or stop did not return (watchdog) in phase %s" % o["phase"])); orc_bad += 1
        elif kind == "valid":
            exp = cfggen.expected_dump(doc)
            if o["start"] != "0":
                key = {"valid.train.calibration-only": "reject.train.calibration-without-peripherals",
                       "valid.dcc-aspect-contained-later": "reject.dcc-aspect-contained-in-earlier",
                       "valid.dcc-aspect-contained-earlier": "reject.dcc-aspect-contained-in-earlier"}.get(cls, "reject.valid")
                ck.violation(key, dict(replay, reason="a configuration that follows the documented layout, with well-formed values and no ambiguity, was rejected (start returned %s)" % o["start"])); orc_bad += 1
            elif o["dump"] != exp and len(o["dump"]) == len(exp) and all(" uid unknown " in a and " uid ff" in b for a, b in zip(o["dump"], exp) if a != b):
                # bidib_get_uniqueid answers "unknown" for a board whose class byte is 0xFF (the value the parser uses for
                # "not yet read").  It is not an enumeration getter, so this is recorded as an observation, not judged.
                uid_ff += 1; nontrivial += 1
            elif o["dump"] != exp:
                diff = [(a, b) for a, b in zip(o["dump"], exp) if a != b][:5]
                ck.violation("getter.mismatch", dict(replay, expected=exp, reason="getters do not report exactly the declared entities in their initial state; first differences (got, expected): %r" % diff)); orc_bad += 1
            else:
                nontrivial += 1
        elif cls == "lenient_number_format":
            lenient[o["start"]] = lenient.get(o["start"], 0) + 1
        else:
            classes_hit[cls] = classes_hit.get(cls, 0) + 1
            if o["start"] != "1":
                ck.violation("accept." + cls, dict(replay, reason="a configuration with a fault of class %s (%s) was accepted (start returned %s)" % (cls, detail, o["start"]))); orc_bad += 1
            elif o["locks"] != "free" or not (o["state"] or "").startswith("released running 0"):
                ck.violation("reject-not-clean." + cls, dict(replay, reason="after returning 1: locks %s, state %s" % (o["locks"], o["state"]))); orc_bad += 1
            else:
                nontrivial += 1
        # ---------------- the specification predicate itself against the code: start returns 0 <-> wf_doc3
        w = getattr(run_cases, "wf", {}).get(cid)
        if w is not None and o["start"] in ("0", "1"):
            iff_n += 1
            if (o["start"] == "0") != (w == 1):
                ck.violation("accept.iff-mismatch", dict(replay, wf_doc3=w, reason="start returned %s but the specification predicate wf_doc3 (coq/ConfigWf.v) says %s" % (o["start"], bool(w))))
                iff_bad += 1
        # ---------------- correspondence
        if ml and ml[0].startswith("start fault") and il == ["start 1"]:
            fault_benign += 1     # the uninitialised pointer happened to be harmless in this run
        elif il is not None and ml is not None and il != ml:
            dis += 1
            if dis <= 3: ck.broken.append({"kind": "correspondence", "name": "corr_config", "class": cls, "detail": detail, "files": replay["files"], "impl": il[:40], "model": ml[:40]})
        elif ml is None:
            dis += 1
            if dis <= 3: ck.broken.append({"kind": "correspondence", "name": "corr_config", "detail": "model printed nothing", "class": cls})
        if len(samples) < 3 and kind == "fault" and cls in ("shared_dcc_address", "dup_aspect_value", "bad_calibration"):
            samples.append({"class": cls, "detail": detail, "track_file": replay["files"][cfggen.FILES[1]][:600], "impl": il[:3] if il else None})
    ck.oblige("correspondence corr_config (implementation == model: verdict and every getter line, %d documents)" % evals, dis == 0, "%d disagreements" % dis)
    ck.oblige("specification predicate: start returns 0 <-> extracted wf_doc3 (%d documents, valid and mutants)" % iff_n, iff_bad == 0 and iff_n > 0, "%d mismatches" % iff_bad)
    ck.oblige("oracle: valid documents accepted with exactly the declared entities; every single-fault mutant rejected cleanly", orc_bad == 0, "%d failures" % orc_bad)
    ck.coverage.update({"evaluations": evals, "distinct_nontrivial": nontrivial, "distribution": dist, "fault_classes_exercised": classes_hit, "lenient_number_spellings_start_result": lenient, "model_fault_but_clean_reject": fault_benign, "observation_uniqueid_getter_unknown_for_class_ff": uid_ff,
                        "rule": "seeded valid documents (0-4 boards, every section absent/empty/populated, ids incl. YAML-hostile strings, values over 0..255 in every accepted spelling) "
                                "and, per document, single-fault mutants of every class of the statement at every applicable position (sampled to %d per sub-kind); "
                                "non-trivial = a valid document accepted with the exact expected getter dump, or a mutant rejected with all locks free and the state released" % per_class,
                        "samples": samples, "disagreements_checked": dis})
    return vlib.finish_with_broken(ck, trusted=vlib.TRUSTED_COMMON + [
        "checks/cfggen.py: YAML renderer of the typed documents (key names and order) and encoder of the same documents for the model driver",
        "harness/ext_C13.inc: forked child per case, getter dump, lock probe (trylock on all 15 locks), state-released probe",
        "ocaml/driver_C14.ml: token parser and printer around the extracted model"])

def replay(ck, path):
    import json
    rp = json.load(open(path))
    if "files" not in rp: print(open(path).read()); return 0
    exe = vlib.build_harness()
    root = vlib.mktmp("vc14r"); d = os.path.join(root, "0"); os.makedirs(d)
    for n, t in rp["files"].items(): open(os.path.join(d, n), "w", encoding="utf-8").write(t)
    impl, _ = run_cases(exe, None, [("0", d, None)], root)
    print(impl.get("0")); print(rp.get("reason", ""))
    return 0
