"""C09 — high-level commands emit exactly the configured messages, or nothing (return 1).

Proof phase (coq/HighLevel.v, HighLevelProofs.v, Properties_C09.v), then correspondence: seeded
configurations are written as the three YAML files for the real library and as '#cfg' lines for the
extracted model; both run the same command script; per command the return code, the messages decoded
from the wire and the tracked state (getters) are compared.  An oracle written from the property text
(independent of the model) judges the implementation's output step by step."""
import os, sys, json, copy, subprocess, shutil, concurrent.futures as cf
import vlib, flowgen
from vlib import Rng, hexs, unhex

# BiDiB protocol constants (from the BiDiB specification, deliberately not read from the source tree)
MSG_VENDOR_GET, MSG_BOOST_OFF, MSG_BOOST_ON, MSG_ACCESSORY_SET, MSG_LC_OUTPUT = 0x17, 0x30, 0x31, 0x38, 0x40
MSG_CS_SET_STATE, MSG_CS_DRIVE, MSG_CS_ACCESSORY = 0x62, 0x64, 0x65
CS_STATES = [0, 1, 2, 3, 4, 8, 9, 0x0D, 0xFF]          # t_bidib_cs_state
ACK_PENDING = 4

# ------------------------------------------------------------------ configuration generator
class Ids:
    def __init__(self): self.n = 0
    def new(self, prefix):
        self.n += 1; return "%s%d" % (prefix, self.n)

BOUNDARY_BYTES = [0, 1, 126, 127, 128, 0x90, 254, 255]

def gen_aspects(r, clean):
    n = r.range(1, 4)
    ids = []; vals = []
    while len(ids) < n:
        a = "a%d" % r.range(1, 6)
        if a not in ids: ids.append(a)
    while len(vals) < n:
        v = r.range(0, 3) if clean or r.chance(3, 4) else r.choice(BOUNDARY_BYTES)
        if v not in vals: vals.append(v)
    return [[ids[i], vals[i]] for i in range(n)]

def dcc_aspects_conflict(new, old):
    """mirror of the parser's uniqueness rule (dcc_aspects_equal(new, old))"""
    if new[0] == old[0]: return True
    for p, v in new[1]:
        hit = [ov for op, ov in old[1] if op == p]
        if not hit or hit[0] != v: return False
    return True

def gen_daspects(r):
    out = []
    for _ in range(r.range(1, 3)):
        for _try in range(20):
            a = "a%d" % r.range(1, 6)
            ports = []
            for _ in range(r.range(1, 5)):
                p = r.choice([0, 1, 2, 3, 30, 31]) if r.chance(1, 2) else r.range(0, 31)
                if p not in [x[0] for x in ports]: ports.append([p, r.below(2)])
            cand = [a, ports]
            if not any(dcc_aspects_conflict(cand, o) for o in out):
                out.append(cand); break
    return out

def gen_config(r, clean=False, profile=None):
    """clean=True keeps away from the boundary input classes (values > 127, bits 5..7, addrh > 0x3F, non-enum states)"""
    ids = Ids(); used_dcc = set(); used_uid = set()
    def dcc(train=False):
        while True:
            if train and not clean and r.chance(1, 12): h = r.choice([0x40, 0x41, 0x80, 0xC1])
            else: h = r.choice([0, 1, 3, 0x11, 0x27, 0x3F]) if train else r.range(0, 7)
            l = r.choice([0, 1, 3, 0x22, 0xFF]) if r.chance(1, 2) else r.below(256)
            if (h, l) not in used_dcc and (not clean or not train or (h & 0x3F, l) not in {(a & 0x3F, b) for a, b in used_dcc}):
                used_dcc.add((h, l)); return [h, l]
    boards = []
    nb = r.range(1, 4)
    for bi in range(nb):
        cls = r.choice([0x10, 0x12, 0x90, 0xDA, 0x05, 0x00, 0x02, 0x40, 0x92]) if bi else r.choice([0xDA, 0x90, 0x12, 0x10])
        while True:
            uid = [cls] + [r.below(256) for _ in range(6)]
            if tuple(uid) not in used_uid: used_uid.add(tuple(uid)); break
        b = {"id": ids.new("b"), "uid": uid, "pts": [], "dpts": [], "sigs": [], "dsigs": [], "pers": [], "revs": [], "segs": []}
        nums = []          # one pool per board: a point and a signal sharing a number are rejected by the parser (fix 31797cd)
        for key, pre in (("pts", "pb"), ("sigs", "sb")):
            for _ in range(r.range(0, 3)):
                num = r.range(0, 20) if clean or r.chance(3, 4) else r.choice(BOUNDARY_BYTES)
                if num in nums: continue
                nums.append(num)
                b[key].append({"id": ids.new(pre), "num": num, "aspects": gen_aspects(r, clean)})
        for key, pre in (("dpts", "pd"), ("dsigs", "sd")):
            for _ in range(r.range(0, 2)):
                a = dcc()
                b[key].append({"id": ids.new(pre), "addrh": a[0], "addrl": a[1], "ext": r.below(2), "aspects": gen_daspects(r)})
        ports = []; nums = []
        for _ in range(r.range(0, 2)):
            p = (r.choice([0, 1, 0x7F, 0xFF]), r.below(256)); num = r.below(256)
            if p in ports or num in nums: continue
            ports.append(p); nums.append(num)
            b["pers"].append({"id": ids.new("pe"), "num": num, "port1": p[0], "port0": p[1], "aspects": gen_aspects(r, False)})
        cvs = []
        for _ in range(r.range(0, 2)):
            cv = str(r.choice([7, 30051, 30052, 1, 123456789012]))
            if cv in cvs: continue
            cvs.append(cv); b["revs"].append({"id": ids.new("rv"), "cv": cv})
        if r.chance(1, 3):
            b["segs"].append({"id": ids.new("sg"), "addr": r.below(16)})
        boards.append(b)
    # a point and a signal may carry the same name (separate name spaces in the library)
    if not clean and r.chance(1, 6):
        pts = [m for b in boards for m in b["pts"] + b["dpts"]]; sigs = [m for b in boards for m in b["sigs"] + b["dsigs"]]
        if pts and sigs: r.choice(sigs)["id"] = r.choice(pts)["id"]
    trains = []
    shared_tp = [ids.new("tp") for _ in range(3)]
    for _ in range(r.range(1, 4)):
        a = dcc(train=True)
        t = {"id": ids.new("tr"), "addrh": a[0], "addrl": a[1], "steps": r.choice([14, 28, 126]), "calib": None, "pers": []}
        if r.chance(1, 2):
            t["calib"] = sorted(r.choice([0, 1, 5, 60, 125, 126]) if r.chance(1, 3) else r.range(0, 126) for _ in range(9))
            if r.chance(1, 4): r_i = r.below(9); t["calib"][r_i] = r.range(0, 126)
        bits = []; names = []
        pool = list(range(0, 5)) + list(range(8, 32))
        if profile == "bits": want = r.range(5, 12)
        else: want = r.range(0, 6)
        for _ in range(want):
            bit = r.choice(pool) if clean or r.chance(11, 12) else r.choice([5, 6, 7])
            if r.chance(1, 2): bit = r.choice([0, 1, 2, 3, 4, 8, 9, 11, 12, 15, 16, 23, 24, 31]) if bit not in (5, 6, 7) else bit
            nm = r.choice(shared_tp) if r.chance(1, 3) else ids.new("tp")
            if bit in bits or nm in names: continue
            bits.append(bit); names.append(nm); t["pers"].append([nm, bit])
        trains.append(t)
    return {"boards": boards, "trains": trains}

# ------------------------------------------------------------------ YAML + '#cfg' rendering of one config value
def hx(v): return "0x%02X" % v

def write_yaml(cfg, d):
    os.makedirs(d, exist_ok=True)
    L = ["boards:"]
    for b in cfg["boards"]:
        L += ["  - id: %s" % b["id"], "    unique-id: 0x" + "".join("%02X" % x for x in b["uid"])]
    open(os.path.join(d, "bidib_board_config.yml"), "w").write("\n".join(L) + "\n")
    L = ["boards:"]
    for b in cfg["boards"]:
        if not any(b[k] for k in ("pts", "dpts", "sigs", "dsigs", "pers", "segs", "revs")): continue
        L.append("  - id: %s" % b["id"])
        for key, title in (("pts", "points-board"), ("dpts", "points-dcc"), ("sigs", "signals-board"), ("dsigs", "signals-dcc")):
            if not b[key]: continue
            L.append("    %s:" % title)
            for m in b[key]:
                L.append("      - id: %s" % m["id"])
                if "num" in m:
                    L += ["        number: %s" % hx(m["num"]), "        aspects:"]
                    for a, v in m["aspects"]: L += ["          - id: %s" % a, "            value: %s" % hx(v)]
                else:
                    L += ["        dcc-address: 0x%02X%02X" % (m["addrh"], m["addrl"]), "        extended: %s" % hx(m["ext"]), "        aspects:"]
                    for a, ports in m["aspects"]:
                        L += ["          - id: %s" % a, "            ports:"]
                        for p, v in ports: L += ["              - port: %s" % hx(p), "                value: %s" % hx(v)]
        if b["pers"]:
            L.append("    peripherals:")
            for m in b["pers"]:
                L += ["      - id: %s" % m["id"], "        number: %s" % hx(m["num"]), "        port: 0x%02X%02X" % (m["port1"], m["port0"]), "        aspects:"]
                for a, v in m["aspects"]: L += ["          - id: %s" % a, "            value: %s" % hx(v)]
        if b["segs"]:
            L.append("    segments:")
            for m in b["segs"]: L += ["      - id: %s" % m["id"], "        address: %s" % hx(m["addr"]), "        length: 10cm"]
        if b["revs"]:
            L.append("    reversers:")
            for m in b["revs"]: L += ["      - id: %s" % m["id"], "        cv: %s" % m["cv"]]
    if len(L) == 1: L = ["boards: []"]
    open(os.path.join(d, "bidib_track_config.yml"), "w").write("\n".join(L) + "\n")
    L = ["trains:"]
    for t in cfg["trains"]:
        L += ["  - id: %s" % t["id"], "    dcc-address: 0x%02X%02X" % (t["addrh"], t["addrl"]), "    dcc-speed-steps: %d" % t["steps"]]
        if t["calib"] is not None:
            L.append("    calibration:")
            L += ["      - %d" % v for v in t["calib"]]
        if t["pers"]:
            L.append("    peripherals:")
            for nm, bit in t["pers"]: L += ["      - id: %s" % nm, "        bit: %d" % bit]
        elif t["calib"] is not None:
            L.append("    peripherals: []")
    open(os.path.join(d, "bidib_train_config.yml"), "w").write("\n".join(L) + "\n")

def cfg_lines(cfg):
    L = []
    asp = lambda l: ",".join("%s:%d" % (a, v) for a, v in l) or "-"
    dasp = lambda l: ",".join("%s=%s" % (a, "/".join("%d:%d" % (p, v) for p, v in ps)) for a, ps in l) or "-"
    for b in cfg["boards"]:
        L.append("#cfg board %s %s" % (b["id"], hexs(b["uid"])))
    for b in cfg["boards"]:
        for key, k in (("pts", "P"), ("sigs", "S")):
            for m in b[key]: L.append("#cfg bacc %s %s %s %d %s" % (k, b["id"], m["id"], m["num"], asp(m["aspects"])))
        for key, k in (("dpts", "P"), ("dsigs", "S")):
            for m in b[key]: L.append("#cfg dacc %s %s %s %d %d %d %s" % (k, b["id"], m["id"], m["addrh"], m["addrl"], m["ext"], dasp(m["aspects"])))
        for m in b["pers"]: L.append("#cfg per %s %s %d %d %s" % (b["id"], m["id"], m["port1"], m["port0"], asp(m["aspects"])))
        for m in b["revs"]: L.append("#cfg rev %s %s %s" % (b["id"], m["id"], m["cv"]))
    for t in cfg["trains"]:
        L.append("#cfg train %s %d %d %d %s %s" % (t["id"], t["addrh"], t["addrl"], t["steps"],
                 ",".join(str(v) for v in t["calib"]) if t["calib"] is not None else "-",
                 ",".join("%s:%d" % (n, b) for n, b in t["pers"]) or "-"))
    return L

# ------------------------------------------------------------------ command sequence generator
ADDRS = [(0, 0, 0, 0), (0, 0, 0, 1), (0, 0, 0, 2), (0, 0, 0, 255), (1, 0, 0, 1), (1, 0, 0, 7), (2, 0, 0, 3), (1, 7, 0, 2), (1, 1, 0, 255), (255, 0, 0, 254)]

def final_addr(parent_local):
    t, s, ss, l = parent_local
    return (l, s, ss) if t == 0 else (t, l, ss) if s == 0 else (t, s, l)

def gen_steps(r, cfg, profile):
    """list of steps; a step is a tuple: ('connect', t,s,ss,local, uidhex) | ('lost', uidhex) | ('revfb', id, v) | command tuples"""
    steps = []
    boards = cfg["boards"]; trains = cfg["trains"]
    free = list(ADDRS); placed = {}
    def connect(b):
        cand = [a for a in free if final_addr(a) not in placed.values()]
        a = r.choice(cand); placed[b["id"]] = final_addr(a)
        steps.append(("connect", a[0], a[1], a[2], a[3], hexs(b["uid"])))
    def lose(b):
        placed.pop(b["id"], None); steps.append(("lost", hexs(b["uid"])))
    bnames = [b["id"] for b in boards]
    def some_board(): return r.choice(bnames) if r.chance(9, 10) else r.choice(["zz9001", trains[0]["id"]])
    def outputs(): return [b["id"] for b in boards if b["uid"][0] & 0x10]
    def some_output():
        o = outputs()
        return r.choice(o) if o and r.chance(5, 6) else some_board()
    def some_train(): return r.choice(trains)["id"] if r.chance(11, 12) else r.choice(["zz9002", bnames[0]])
    unknown_aspect = "a9"
    def all_accessory_cmds():
        out = []
        for b in boards:
            for key, op in (("pts", "switch_point"), ("dpts", "switch_point"), ("sigs", "set_signal"), ("dsigs", "set_signal"), ("pers", "set_peripheral")):
                for m in b[key]:
                    for a in m["aspects"]: out.append((op, m["id"], a[0]))
                    out.append((op, m["id"], unknown_aspect))
                    if r.chance(1, 3): out.append((r.choice(["switch_point", "set_signal", "set_peripheral"]), m["id"], m["aspects"][0][0]))
        out += [("switch_point", "zz9003", "a1"), ("set_signal", "zz9004", "a1"), ("set_peripheral", "zz9005", "a1")]
        return out
    def train_cmds(n):
        out = []
        for _ in range(n):
            t = r.choice(trains); k = r.below(100)
            if k < 30:
                sp = r.choice([0, 0, 1, -1, 126, -126, 127, -127, 130, -130, 2, -2]) if r.chance(1, 2) else r.range(-130, 130)
                out.append(("speed", some_train() if r.chance(1, 8) else t["id"], sp, some_output()))
            elif k < 42:
                out.append(("cspeed", t["id"], r.range(-10, 10), some_output()))
            elif k < 48:
                out.append(("estop", some_train() if r.chance(1, 6) else t["id"], some_output()))
            elif t["pers"]:
                p = r.choice(t["pers"])[0] if r.chance(14, 15) else "zz9006"
                stv = r.below(2) if profile == "clean" or r.chance(14, 15) else r.choice([2, 3, 255, 128])
                out.append(("tper", t["id"], p, stv, some_output()))
            else:
                out.append(("tper", t["id"], "zz9007", r.below(2), some_output()))
        return out
    def misc_cmds(n):
        out = []
        revs = [(m["id"], b["id"]) for b in boards for m in b["revs"]]
        for _ in range(n):
            k = r.below(100)
            if k < 25: out.append(("booster", some_board(), r.below(2)))
            elif k < 50: out.append(("output", some_output(), r.choice(CS_STATES) if profile == "clean" or r.chance(11, 12) else r.choice([5, 7, 10, 0x80, 254])))
            elif k < 60: out.append(("output_all", r.choice(CS_STATES)))
            elif revs:
                rv, owner = r.choice(revs)
                out.append(("revfb", rv, r.below(2)))
                out.append(("reverser", rv if r.chance(9, 10) else "zz9008", owner if profile == "clean" or r.chance(5, 6) else some_board()))
            else: out.append(("reverser", "zz9008", some_board()))
        return out
    # phase 0: nothing connected
    pre = all_accessory_cmds()
    steps += [r.choice(pre) for _ in range(3)] + train_cmds(3) + misc_cmds(2)
    # phase 1: connect most boards
    for b in boards:
        if r.chance(5, 6) or b is boards[0]: connect(b)
    if profile == "sweep":
        t = r.choice(trains); o = outputs()
        if o and o[0] in placed:
            order = list(range(-130, 131))
            for i in range(len(order) - 1, 0, -1):
                j = r.below(i + 1); order[i], order[j] = order[j], order[i]
            for sp in order:
                steps.append(("speed", t["id"], sp, o[0]))
                if r.chance(1, 3): steps.append(("speed", t["id"], 0, o[0]))
            for sp in range(-10, 11): steps.append(("cspeed", t["id"], sp, o[0]))
    body = all_accessory_cmds() + train_cmds(60 if profile == "bits" else 30) + misc_cmds(12)
    for i in range(len(body) - 1, 0, -1):
        j = r.below(i + 1); body[i], body[j] = body[j], body[i]
    steps += body
    # phase 2: lose one board, reconnect another elsewhere, repeat a mix
    if len(boards) > 1 or r.chance(1, 2):
        b = r.choice(boards)
        if b["id"] in placed: lose(b)
        b2 = r.choice(boards)
        if b2["id"] in placed and r.chance(1, 3): lose(b2); connect(b2)
        elif b2["id"] in placed and r.chance(1, 2): connect(b2)          # re-login at another address without a loss notice in between
        elif b2["id"] not in placed and r.chance(1, 2): connect(b2)
        tail = all_accessory_cmds()
        steps += [r.choice(tail) for _ in range(10)] + train_cmds(10) + misc_cmds(5)
    return steps

def step_line(s):
    return "c9 " + " ".join(str(x) for x in s)

def make_script(cfg, steps, cfgdir):
    L = cfg_lines(cfg) + ["start 0 %s 0" % cfgdir, "mark init", "c9 state"]
    for i, s in enumerate(steps):
        if s[0] in ("connect", "lost", "revfb"):
            L += [step_line(s), "mark e%d" % i, "c9 state"]
        else:
            L += ["reset_nodes", "mark %d" % i, step_line(s), "flush", "c9 state"]
    return "\n".join(L) + "\n"

# ------------------------------------------------------------------ observation parsing
def parse_state(lines):
    st = {"B": {}, "T": {}, "P": {}, "S": {}, "R": {}, "rest": []}
    for l in lines:
        f = l.split()
        if f[0] == "rest": st["rest"].append(l); continue
        if f[0] != "st": continue
        k = f[1]
        if k == "B": st["B"][f[2]] = [int(f[3]), None if f[4] == "-" else [int(x) for x in f[4].split(".")]]
        elif k == "T":
            pers = [] if f[6] == "-" else [[x.split("=")[0], int(x.split("=")[1])] for x in f[6].split(",")]
            st["T"][f[2]] = {"speed": int(f[3]), "fwd": int(f[4]), "ack": int(f[5]), "pers": pers}
        elif k in ("P", "S"): st[k][f[2]] = [f[3]] + [int(x) for x in f[4:10]]
        elif k == "R": st["R"][f[2]] = int(f[3])
    return st

def parse_output(text, impl):
    """-> (header dict, {mark: {'ret','msgs','state','raw'}}); msgs = [[addr3, type, data]] or None if undecodable"""
    blocks = {}; cur = None; head = {"start": None, "wf": None, "extra": []}
    for line in text.splitlines():
        if line.startswith("mark "):
            cur = line[5:].strip(); blocks[cur] = []; continue
        if cur is None:
            if line.startswith("start "): head["start"] = line
            elif line.startswith("wf "): head["wf"] = line
            else: head["extra"].append(line)
            continue
        blocks[cur].append(line)
    out = {}
    for k, lines in blocks.items():
        o = {"ret": None, "msgs": [], "raw": lines, "other": []}
        chunks = []
        for l in lines:
            if l.startswith("ret "): o["ret"] = int(l[4:])
            elif l.startswith("w "): chunks.append(unhex(l[2:]))
            elif l.startswith("m "):
                f = l.split(); o["msgs"].append([[int(x) for x in f[1].split(".")], int(f[2]), unhex(f[3])])
            elif l.startswith("st ") or l.startswith("rest "): pass
            else: o["other"].append(l)
        if impl:
            pk = flowgen.decode_wire(chunks)
            if pk is None: o["msgs"] = None
            else:
                for p in pk:
                    for m in p:
                        a, sq, ty, data = flowgen.msg_fields(m)
                        o["msgs"].append([(list(a) + [0, 0, 0])[:3], ty, list(data)])
        o["state"] = parse_state(lines)
        out[k] = o
    return head, out

def strip_rest(st):
    return {k: v for k, v in st.items() if k != "rest"}

# ------------------------------------------------------------------ oracle: the property text as a step judgement
def find_acc(cfg, point, name):
    for b in cfg["boards"]:
        for m in b["pts" if point else "sigs"]:
            if m["id"] == name: return b, "b", m
        for m in b["dpts" if point else "dsigs"]:
            if m["id"] == name: return b, "d", m
    return None

def speed_fmt(steps): return {14: 0, 28: 2, 126: 3}[steps]

def input_class(cfg, c):
    """the boundary input classes that used to be recorded defects (repaired in /repo, notes/C09-after-fix); counted for the
    coverage report only - the oracle judges them like any other step"""
    k = c[0]
    if k in ("switch_point", "set_signal"):
        e = find_acc(cfg, k == "switch_point", c[1])
        if e and e[1] == "b":
            if e[2]["num"] > 127: return "accessory.number>127"
            a = [v for n, v in e[2]["aspects"] if n == c[2]]
            if a and a[0] > 127: return "accessory.aspect>127"
    if k in ("speed", "cspeed", "estop", "tper"):
        t = [t for t in cfg["trains"] if t["id"] == c[1]]
        if k == "tper" and t:
            bit = [b for n, b in t[0]["pers"] if n == c[2]]
            if bit and 5 <= bit[0] <= 7: return "train-peripheral.bit5-7"
        if t and t[0]["addrh"] > 0x3F: return "train.dcc-addrh>0x3f"
    if k == "output" and c[2] not in CS_STATES: return "track-output.state-not-enum"
    if k == "reverser":
        own = [b["id"] for b in cfg["boards"] for m in b["revs"] if m["id"] == c[1]]
        if own and own[0] != c[2]: return "reverser.board-not-owner"
    return None

def spec_step(cfg, prev, c):
    """expected (ret, msgs, state) of command c in tracked state prev (the implementation's own previous snapshot)"""
    st = copy.deepcopy(strip_rest(prev)); bad = (1, [], strip_rest(prev)); k = c[0]
    def board_ok(name, classbit=None):
        b = [b for b in cfg["boards"] if b["id"] == name]
        if not b or not prev["B"].get(name, [0])[0]: return None
        if classbit is not None and not (b[0]["uid"][0] >> classbit) & 1: return None
        return prev["B"][name][1]
    def drive(addr, t, active, speed, f):
        return [addr, MSG_CS_DRIVE, [t["addrl"], t["addrh"], speed_fmt(t["steps"]), active, speed] + f]
    if k in ("switch_point", "set_signal"):
        e = find_acc(cfg, k == "switch_point", c[1])
        if not e: return bad
        b, kind, m = e
        addr = board_ok(b["id"])
        if addr is None: return bad
        if kind == "b":
            a = [v for n, v in m["aspects"] if n == c[2]]
            if not a or m["num"] > 127 or a[0] > 127: return bad        # out-of-range value: MSG_ACCESSORY_SET carries 0..127
            return 0, [[addr, MSG_ACCESSORY_SET, [m["num"], a[0]]]], st
        a = [ps for n, ps in m["aspects"] if n == c[2]]
        if not a: return bad
        msgs = [[addr, MSG_CS_ACCESSORY, [m["addrl"], m["addrh"], (p & 31) | (v << 5) | (m["ext"] << 7), 0]] for p, v in a[0]]
        cur = st["P" if k == "switch_point" else "S"][c[1]]
        if a[0]: cur[1:6] = [a[0][-1][0] & 31, a[0][-1][1], 1, 0, 0]
        cur[0] = c[2]
        return 0, msgs, st
    if k == "set_peripheral":
        for b in cfg["boards"]:
            for m in b["pers"]:
                if m["id"] == c[1]:
                    addr = board_ok(b["id"])
                    a = [v for n, v in m["aspects"] if n == c[2]]
                    if addr is None or not a: return bad
                    return 0, [[addr, MSG_LC_OUTPUT, [m["port0"], m["port1"], a[0]]]], st
        return bad
    if k in ("speed", "cspeed", "estop", "tper"):
        t = [t for t in cfg["trains"] if t["id"] == c[1]]
        addr = board_ok(c[-1], 4)
        if not t or addr is None: return bad
        t = t[0]; ts = st["T"][t["id"]]
        if k == "estop":
            ts["speed"] = 0; ts["ack"] = ACK_PENDING; ts["fwd"] = None      # direction after an emergency stop: not judged
            return 0, [drive(addr, t, 1, (0x01, 0x81), [0, 0, 0, 0])], st
        if k in ("speed", "cspeed"):
            sp = c[2]
            if k == "cspeed":
                if sp < -9 or sp > 9 or t["calib"] is None: return bad
                sp = 0 if sp == 0 else t["calib"][abs(sp) - 1] * (1 if sp > 0 else -1)
            if sp < -126 or sp > 126: return bad
            fwd = 1 if sp > 0 else 0 if sp < 0 else prev["T"][t["id"]]["fwd"]
            enc = (fwd << 7) | (abs(sp) + (1 if sp else 0))
            ts["speed"] = sp; ts["fwd"] = fwd; ts["ack"] = ACK_PENDING
            return 0, [drive(addr, t, 1, enc, [0, 0, 0, 0])], st
        per = [b for n, b in t["pers"] if n == c[2]]
        if not per or c[3] > 1: return bad
        bit = per[0]
        if 5 <= bit <= 7: return bad                     # MSG_CS_DRIVE has no function at bits 5..7: out-of-range configuration value
        lo, hi, act = (0, 4, 2) if bit < 5 else (8, 11, 4) if bit < 12 else (12, 15, 8) if bit < 16 else (16, 23, 16) if bit < 24 else (24, 31, 32)
        f = [0, 0, 0, 0]
        cur = dict((n, v) for n, v in prev["T"][t["id"]]["pers"])
        for n, b2 in t["pers"]:
            if lo <= b2 <= hi:
                v = c[3] if b2 == bit else cur[n]
                f[b2 // 8] |= (v & 1) << (b2 % 8)
        for pv in ts["pers"]:
            if pv[0] == c[2]: pv[1] = c[3]
        ts["ack"] = ACK_PENDING
        return 0, [drive(addr, t, act, 0, f)], st
    if k == "booster":
        addr = board_ok(c[1], 1)
        if addr is None: return bad
        return 0, [[addr, MSG_BOOST_ON if c[2] else MSG_BOOST_OFF, [1]]], st
    if k == "output":
        addr = board_ok(c[1], 4)
        if addr is None or c[2] not in CS_STATES: return bad
        return 0, [[addr, MSG_CS_SET_STATE, [c[2]]]], st
    if k == "output_all":
        return 0, [[prev["B"][b["id"]][1], MSG_CS_SET_STATE, [c[1]]] for b in cfg["boards"] if (b["uid"][0] & 0x10) and prev["B"][b["id"]][0]], st
    if k == "reverser":
        own = [b["id"] for b in cfg["boards"] for m in b["revs"] if m["id"] == c[1]]
        addr = board_ok(c[2])
        if not own or own[0] != c[2] or addr is None: return bad
        cv = [m["cv"] for b in cfg["boards"] for m in b["revs"] if m["id"] == c[1]][0]
        st["R"][c[1]] = 2
        return 0, [[addr, MSG_VENDOR_GET, [len(cv)] + [ord(x) for x in cv]]], st
    raise ValueError(k)

def match_expected(exp, got):
    """compare expectation with observation; None in the expectation = not judged"""
    eret, emsgs, est = exp; gret, gmsgs, gst = got
    why = []
    if eret != gret: why.append("return code %s, expected %s" % (gret, eret))
    if gmsgs is None: why.append("wire not decodable")
    else:
        em = [[a, t, d] for a, t, d in emsgs]
        ok = len(em) == len(gmsgs)
        if ok:
            for e, g in zip(em, gmsgs):
                if e[0] != g[0] or e[1] != g[1] or len(e[2]) != len(g[2]): ok = False; break
                for x, y in zip(e[2], g[2]):
                    if isinstance(x, tuple):
                        if y not in x: ok = False
                    elif x != y: ok = False
        if not ok: why.append("messages %s, expected %s" % (json.dumps(gmsgs), json.dumps(em)))
    g2 = copy.deepcopy(strip_rest(gst))
    for tn, tv in est["T"].items():
        if tv["fwd"] is None and tn in g2["T"]: g2["T"][tn]["fwd"] = None
    if g2 != est:
        diff = []
        for sec in ("B", "T", "P", "S", "R"):
            for key in set(list(est[sec]) + list(g2[sec])):
                if est[sec].get(key) != g2[sec].get(key): diff.append("%s %s: %s, expected %s" % (sec, key, json.dumps(g2[sec].get(key)), json.dumps(est[sec].get(key))))
        why.append("tracked state: " + "; ".join(diff[:4]))
    return why

# ------------------------------------------------------------------ fixed witnesses (the worlds of the _refuted theorems)
def witness_cases():
    cfg = {"boards": [{"id": "b1", "uid": [0xDA, 0, 0x0D, 0x68, 0, 1, 0xEE], "pts": [{"id": "pb2", "num": 0x90, "aspects": [["a1", 1], ["a2", 0]]},
                                                                                    {"id": "pb3", "num": 2, "aspects": [["a1", 0x80], ["a2", 0]]}],
                        "dpts": [{"id": "pd4", "addrh": 0x11, "addrl": 0x22, "ext": 0, "aspects": [["a1", [[0, 1], [1, 0]]], ["a2", [[0, 0], [1, 1]]]]}],
                        "sigs": [], "dsigs": [], "pers": [], "revs": [{"id": "rv5", "cv": "30051"}], "segs": []},
                       {"id": "b6", "uid": [0x05, 0, 0x0D, 0x6B, 0, 0x83, 0xEC], "pts": [], "dpts": [], "sigs": [], "dsigs": [], "pers": [], "revs": [], "segs": []}],
           "trains": [{"id": "tr7", "addrh": 0x01, "addrl": 0x23, "steps": 126, "calib": [5, 15, 30, 45, 60, 75, 90, 105, 120],
                       "pers": [["tp8", 0], ["tp9", 1], ["tp10", 6], ["tp11", 9]]},
                      {"id": "tr12", "addrh": 0x41, "addrl": 0x23, "steps": 28, "calib": None, "pers": []}]}
    steps = [("connect", 0, 0, 0, 0, hexs(cfg["boards"][0]["uid"])), ("connect", 0, 0, 0, 3, hexs(cfg["boards"][1]["uid"])),
             ("switch_point", "pb2", "a1"), ("switch_point", "pb3", "a1"), ("switch_point", "pb3", "a2"), ("switch_point", "pd4", "a1"),
             ("tper", "tr7", "tp8", 2, "b1"), ("tper", "tr7", "tp8", 1, "b1"), ("tper", "tr7", "tp8", 255, "b1"),
             ("tper", "tr7", "tp10", 1, "b1"), ("tper", "tr7", "tp10", 0, "b1"), ("tper", "tr7", "tp11", 1, "b1"),
             ("speed", "tr12", 7, "b1"), ("speed", "tr7", -5, "b1"), ("speed", "tr7", 0, "b1"), ("output", "b1", 5), ("output", "b1", 3),
             ("revfb", "rv5", 1), ("reverser", "rv5", "b6"), ("revfb", "rv5", 1), ("reverser", "rv5", "b1")]
    return cfg, steps

def group_cases():
    """one train with a function on the first and the last bit of every function group (and bit 30): within each group the
    last bit is switched on first, then the others on and off again - every message must carry the bits already on"""
    bits = [0, 4, 8, 11, 12, 15, 16, 23, 24, 30, 31]
    cfg = {"boards": [{"id": "b1", "uid": [0xDA, 0, 0x0D, 0x68, 0, 1, 0xEE], "pts": [], "dpts": [], "sigs": [], "dsigs": [], "pers": [], "revs": [], "segs": []}],
           "trains": [{"id": "tr20", "addrh": 0x02, "addrl": 0x45, "steps": 28, "calib": None, "pers": [["tp%d" % (21 + i), b] for i, b in enumerate(bits)]}]}
    name = {b: "tp%d" % (21 + i) for i, b in enumerate(bits)}
    steps = [("connect", 0, 0, 0, 0, hexs(cfg["boards"][0]["uid"]))]
    for grp in ([0, 4], [8, 11], [12, 15], [16, 23], [24, 30, 31]):
        order = list(reversed(grp))
        for b in order: steps.append(("tper", "tr20", name[b], 1, "b1"))
        steps.append(("speed", "tr20", 9, "b1"))
        for b in grp[:-1]: steps.append(("tper", "tr20", name[b], 0, "b1"))
        for b in grp[:-1]: steps.append(("tper", "tr20", name[b], 1, "b1"))
        steps.append(("tper", "tr20", name[grp[-1]], 0, "b1"))
        steps.append(("tper", "tr20", name[grp[0]], 0, "b1"))
    return cfg, steps

def topology_cases():
    """three address levels: hub 1, hub 1.7 beneath it, a leaf at 1.7.2 and a side board at 1.1; losing the inner hub must take the
    leaf along (commands for its equipment return 1), the side board stays; losing the outer hub takes the rest"""
    def board(i, cls, pt=None):
        b = {"id": "b%d" % i, "uid": [cls, 0, 0x0D, 0x70, 0, i, 0xEE], "pts": [], "dpts": [], "sigs": [], "dsigs": [], "pers": [], "revs": [], "segs": []}
        if pt: b["pts"].append({"id": "pb%d" % pt, "num": 3, "aspects": [["a1", 1], ["a2", 0]]})
        return b
    cfg = {"boards": [board(31, 0x80), board(32, 0x80), board(33, 0x00, 41), board(34, 0x00, 42)],
           "trains": [{"id": "tr43", "addrh": 0x03, "addrl": 0x11, "steps": 28, "calib": None, "pers": []}]}
    u = lambda k: hexs(cfg["boards"][k]["uid"])
    steps = [("connect", 0, 0, 0, 1, u(0)), ("connect", 1, 0, 0, 7, u(1)), ("connect", 1, 7, 0, 2, u(2)), ("connect", 1, 0, 0, 1, u(3)),
             ("switch_point", "pb41", "a1"), ("switch_point", "pb42", "a1"),
             ("lost", u(1)), ("switch_point", "pb41", "a2"), ("switch_point", "pb42", "a2"),
             ("connect", 1, 0, 0, 7, u(1)), ("connect", 1, 7, 0, 2, u(2)), ("switch_point", "pb41", "a1"),
             ("lost", u(0)), ("switch_point", "pb41", "a2"), ("switch_point", "pb42", "a1")]
    return cfg, steps

# ------------------------------------------------------------------ running
def run_one(exe, md, cfg, steps, tag):
    d = vlib.mktmp("c9cfg")
    write_yaml(cfg, d)
    script = make_script(cfg, steps, d)
    rc, out, err = vlib.run_driver(exe, script, timeout=600)
    mo = subprocess.run([md], input=script, capture_output=True, text=True, timeout=600)
    shutil.rmtree(d, ignore_errors=True)
    return rc, out, err, mo.stdout, script

def judge_case(ck, cfg, steps, res, tag, stats, corr):
    rc, out, err, mout, script = res
    ih, impl = parse_output(out, True); mh, model = parse_output(mout, False)
    replay_base = {"property": "C09", "case": tag, "config": cfg, "steps": [list(s) for s in steps]}
    if ih["start"] != "start 0" or rc != 0 or "init" not in impl:
        ck.violation("harness.start-or-crash", dict(replay_base, rc=rc, start=ih["start"], stderr=err[-1500:], reason="library did not start on the generated config or the driver crashed"))
        return
    if mh["wf"] != "wf 1":
        corr["wf_bad"] += 1
    prev = impl["init"]["state"]; rest0 = prev["rest"]
    if strip_rest(model["init"]["state"]) != strip_rest(prev):
        corr["dis"] += 1
        if len(ck.broken) < 3: ck.broken.append({"kind": "correspondence", "name": "corr_highlevel", "case": tag, "step": "init", "impl": impl["init"]["raw"], "model": model["init"]["raw"]})
    for i, s in enumerate(steps):
        if s[0] in ("connect", "lost", "revfb"):
            o = impl.get("e%d" % i); m = model.get("e%d" % i)
            if o is None:
                ck.violation("harness.start-or-crash", dict(replay_base, step=i, command=list(s), rc=rc, stderr=err[-1500:], reason="no observation for this step")); return
            if m is None or strip_rest(m["state"]) != strip_rest(o["state"]):
                corr["dis"] += 1
                if len(ck.broken) < 3: ck.broken.append({"kind": "correspondence", "name": "corr_highlevel", "case": tag, "step": i, "command": list(s), "impl": o["raw"], "model": m["raw"] if m else None})
            # ---- oracle on the notice itself: the board is connected at the announced address / disconnected
            if s[0] in ("connect", "lost"):
                bid = next((b["id"] for b in cfg["boards"] if hexs(b["uid"]) == s[-1]), None)
                want = [1, list(final_addr(s[1:5]))] if s[0] == "connect" else [0, None]
                got = o["state"]["B"].get(bid)
                if bid is not None and (got is None or got[0] != want[0] or (want[0] == 1 and got[1] != want[1])):
                    stats["viol"]["unexpected." + s[0]] = stats["viol"].get("unexpected." + s[0], 0) + 1
                    if stats["viol"]["unexpected." + s[0]] == 1:
                        ck.violation("unexpected." + s[0], dict(replay_base, steps=[list(x) for x in steps[:i + 1]], step=i, command=list(s), state_before=strip_rest(prev),
                                               observed={"board": bid, "connected_and_address": got}, expected={"connected_and_address": want},
                                               reason="after the notice the board is not tracked as announced; later commands go to the tracked address"))
                # a lost interface takes everything beneath it along: boards that were connected strictly beneath its address
                if s[0] == "lost" and bid is not None:
                    bcfg = next(b for b in cfg["boards"] if b["id"] == bid); was = prev["B"].get(bid, [0, None])
                    if (bcfg["uid"][0] & 0x80) and was[0] == 1 and was[1]:
                        base = [x for x in was[1] if x]
                        for ob, (oc, oa) in prev["B"].items():
                            oa_ = [x for x in (oa or []) if x]
                            if ob != bid and oc == 1 and len(oa_) > len(base) and oa_[:len(base)] == base and o["state"]["B"].get(ob, [0])[0] != 0:
                                stats["viol"]["unexpected.lost"] = stats["viol"].get("unexpected.lost", 0) + 1
                                if stats["viol"]["unexpected.lost"] == 1:
                                    ck.violation("unexpected.lost", dict(replay_base, steps=[list(x) for x in steps[:i + 1]], step=i, command=list(s), state_before=strip_rest(prev),
                                                           observed={"board": ob, "still_connected_at": oa}, expected={"disconnected": True},
                                                           reason="the lost interface's sub-node stays connected: commands for its equipment keep returning 0 and go to a dead address"))
            prev = o["state"]
            continue
        o = impl.get(str(i)); m = model.get(str(i))
        stats["evaluations"] += 1
        stats["dist"][s[0]] = stats["dist"].get(s[0], 0) + 1
        if o is None or o["ret"] is None:
            ck.violation("harness.start-or-crash", dict(replay_base, step=i, command=list(s), rc=rc, stderr=err[-1500:], reason="no observation for this step")); return
        # ---- oracle on the implementation's output
        exp = spec_step(cfg, prev, s)
        why = match_expected(exp, (o["ret"], o["msgs"], o["state"]))
        if o["state"]["rest"] != rest0: why.append("state outside the command's reach changed")
        if o["other"]: why.append("unexpected driver output " + "; ".join(o["other"][:2]))
        cls = input_class(cfg, s)
        if exp[0] == 0:
            stats["valid"] += 1
            if cls is None: stats["valid_clean"] += 1
        if cls: stats["classes"][cls] = stats["classes"].get(cls, 0) + 1
        if why:
            key = "unexpected." + s[0]
            stats["viol"][key] = stats["viol"].get(key, 0) + 1
            if stats["viol"][key] == 1:      # the first hit of a class is the smallest (witness case first); later ones are only counted
                ck.violation(key, dict(replay_base, steps=[list(x) for x in steps[:i + 1]], step=i, command=list(s), state_before=strip_rest(prev),
                                       observed={"ret": o["ret"], "msgs": o["msgs"], "lines": o["raw"]},
                                       expected={"ret": exp[0], "msgs": exp[1]}, reason="; ".join(why)))
        # ---- correspondence
        if m is None or m["ret"] != o["ret"] or m["msgs"] != o["msgs"] or strip_rest(m["state"]) != strip_rest(o["state"]):
            corr["dis"] += 1
            if len(ck.broken) < 3:
                ck.broken.append({"kind": "correspondence", "name": "corr_highlevel", "case": tag, "step": i, "command": list(s),
                                  "impl": o["raw"], "model": m["raw"] if m else None, "config": cfg, "steps": [list(x) for x in steps[:i + 1]]})
        if len(stats["samples"]) < 3 and exp[0] == 0 and len(exp[1]) > 0 and s[0] in ("tper", "switch_point", "cspeed") and stats["evaluations"] % 7 == 0:
            stats["samples"].append({"command": list(s), "impl": o["raw"][:6]})
        prev = o["state"]

def run(ck):
    quick = ck.tier == "quick"
    cdir, ok = vlib.proof_phase(ck, "Properties_C09.v")
    exe = vlib.build_harness(); md = vlib.build_model_driver(cdir, "_C09")
    r = Rng(ck.seed).fork("C09")
    cases = [("witness",) + witness_cases(), ("groups",) + group_cases(), ("topology",) + topology_cases()]
    n_rand = 48 if quick else 1500
    for i in range(n_rand):
        profile = ["mix", "mix", "clean", "bits", "sweep", "mix"][i % 6]
        rr = r.fork("cfg%d" % i)
        cfg = gen_config(rr, clean=(profile == "clean"), profile=profile)
        cases.append(("%s-%d" % (profile, i), cfg, gen_steps(rr, cfg, profile)))
    stats = {"evaluations": 0, "valid": 0, "valid_clean": 0, "dist": {}, "classes": {}, "viol": {}, "samples": []}
    corr = {"dis": 0, "wf_bad": 0}
    with cf.ThreadPoolExecutor(max_workers=vlib.NCPU) as ex:
        futs = [(tag, cfg, steps, ex.submit(run_one, exe, md, cfg, steps, tag)) for tag, cfg, steps in cases]
        for tag, cfg, steps, f in futs:
            judge_case(ck, cfg, steps, f.result(), tag, stats, corr)
    ck.oblige("correspondence corr_highlevel (impl == model: return code, decoded messages, tracked state; %d commands on %d configs)" % (stats["evaluations"], len(cases)),
              corr["dis"] == 0, "%d disagreements" % corr["dis"])
    ck.oblige("every generated config satisfies the theorems' hypothesis wfb (evaluated by the extracted model)", corr["wf_bad"] == 0, "%d configs with wfb = false" % corr["wf_bad"])
    if corr["wf_bad"]:
        ck.broken.append({"kind": "correspondence", "name": "wfb-on-generated-configs", "detail": "%d generated configs accepted by the parser violate wfb" % corr["wf_bad"]})
    ck.oblige("oracle (property text) accepts every implementation step",
              not [k for k in stats["viol"] if k.startswith("unexpected.") or k.startswith("harness.")], json.dumps(stats["viol"]))
    ck.coverage.update({"evaluations": stats["evaluations"], "distinct_nontrivial": stats["valid"], "configs": len(cases), "distribution": stats["dist"],
                        "valid_outside_boundary_classes": stats["valid_clean"], "boundary_class_hits": stats["classes"], "oracle_rejections": stats["viol"],
                        "rule": "seeded configurations (1-4 boards with board/DCC points and signals, peripherals, reversers; 1-4 trains with function bits, calibration) rendered as YAML for the library and as #cfg lines for the model; per config every accessory x every aspect (+ undefined aspect, wrong kind, unknown id), speeds incl. the full -130..130 sweep (profile sweep), calibrated speeds -10..10, function bits x {0,1} (+ rare 2,3,128,255) in random order, booster/track-output/reverser commands, before connection, after connection, after node-lost/reconnect at another address; non-trivial = the property demands return 0 and at least the configured message(s)",
                        "samples": stats["samples"]})
    return vlib.finish_with_broken(ck, trusted=vlib.TRUSTED_COMMON + [
        "checks/C09.py: YAML/#cfg rendering of one config value, wire decoder (flowgen.decode_wire), the Python step oracle written from the property text",
        "harness/ext_C09.inc: boards are connected through bidib_state_node_new / bidib_state_node_lost, reverser feedback is written directly; the node table is reset before each command so that the response budget (C03) never defers a message; DCC aspects have at most 5 port values for the same reason"])

def replay(ck, path):
    rp = json.load(open(path))
    if "config" not in rp:
        print(json.dumps(rp, indent=1)); return 0
    exe = vlib.build_harness()
    cdir = vlib.coq_dir(); md = vlib.build_model_driver(cdir, "_C09")
    cfg = rp["config"]; steps = [tuple(s) for s in rp["steps"]]
    rc, out, err, mout, script = run_one(exe, md, cfg, steps, "replay")
    print(script); print("---- implementation"); print(out); print("---- model"); print(mout)
    stats = {"evaluations": 0, "valid": 0, "valid_clean": 0, "dist": {}, "classes": {}, "viol": {}, "samples": []}
    ck.broken = []
    judge_case(ck, cfg, steps, (rc, out, err, mout, script), "replay", stats, {"dis": 0, "wf_bad": 0})
    print("---- oracle rejections:", json.dumps(stats["viol"]))
    return 1 if stats["viol"] else 0
