"""C03 — per-node response budget never exceeded; deferred messages FIFO, never stranded."""
import vlib, flowgen
from vlib import Rng

def run(ck):
    quick = ck.tier == "quick"
    def make(info):
        r = Rng(ck.seed).fork("C03"); g = flowgen.Gen(r, info, stalls=False)
        return [g.history() for _ in range(2500 if quick else 60000)]
    flowgen.run_flow_check(ck, "Properties_C03.v", "C03", make, "corr_nodeflow_budget")
    ck.coverage["rule"] = "seeded histories of sends (all request types, several nodes), uplink answers (matching/alternative/unrelated/duplicate), clock jumps and flushes, no stall notices; non-trivial = some message was deferred or released by an uplink message"
    ck.assumptions += ["time(NULL) is the virtual clock of the harness", "uplink traffic is injected through the real receiver thread in low-level debug mode"]
    return vlib.finish_with_broken(ck, trusted=vlib.TRUSTED_COMMON)

def replay(ck, path):
    return vlib.replay_generic(ck, path)
