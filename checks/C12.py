"""C12 — no received byte stream causes out-of-bounds access, a crash or a stuck receiver.

Streams (one PRNG, every failing case is written as a replay with the concrete message / script):
 A  framing-level adversarial byte streams, debug and normal mode, each followed by a liveness probe
 B  every handled type x every data length 0..min+3 (+12) x adversarial field values, from an equipped node of the
    secure-ack config, an equipped node of the rich config and an unknown node, plus long messages; one process per
    message under ASan+UBSan with the library's log captured; the extracted Coq model (AccessModel.dispatch) must
    predict which messages the length guard drops
 C  full-length messages from a node whose equipment exists, every data position swept over field values
 D  variable-length handlers with adversarial embedded lengths / counts (vendor, bm_multiple, bm_address,
    boost_diagnostic) and exhaustive sweeps of every byte that indexes a string table (sys_error code and
    parameter, boost_stat, cs_state)
 F  the library's own readers of the intern queue (node table walk, feature read-back) on minimum-length messages
 E  the variable-length handlers called directly on heap buffers: (1) of exactly `length` bytes - any report is a
    violation; (2) of exactly the extent the Coq model (Handlers.v) says is read - must be clean; (3) one byte less -
    must be reported. (2)+(3) tie the hand-written handler models to the code."""
import os, re, subprocess
from concurrent.futures import ThreadPoolExecutor
import vlib, flowgen
from vlib import Rng, hexs, unhex
from flowgen import frame, upmsg, crc8

CFG = os.path.join(vlib.VERIF, "corpus", "C19", "cfg")
UID = [0x45, 0, 0x0D, 0x75, 0, 0x11, 0x11]
CFG_RICH = os.path.join(vlib.VERIF, "corpus", "C12", "cfg")      # one board of every class with every kind of equipment, two trains
UID_RICH = [0xDA, 0, 0x0D, 0x68, 0, 0x01, 0xEE]
PROBE = upmsg([], 9, 0x82, [0x5A])          # liveness probe: a PONG that must come out of the message queue
LOG_ENV = {"DRV_LOG": "1"}                  # the syslog interposer of drv.c prints the library's log to stderr

def asan_key(err, ty):
    m = re.search(r'ERROR: AddressSanitizer: (\S+)', err)
    if m:
        f = re.search(r'#\d+ 0x[0-9a-f]+ in (\w+) \S*/src/', err)
        return "oob.%s.%s.type-%02x" % (m.group(1), f.group(1) if f else "unknown", ty)
    m = re.search(r'runtime error: (.*)', err)
    if m: return "ub.%s.type-%02x" % (re.sub(r'[^a-z]+', '-', m.group(1).lower())[:40], ty)
    return None

def san_excerpt(err):
    """the sanitizer part of stderr (the library's log may precede it)"""
    i = min([x for x in (err.find("ERROR: AddressSanitizer"), err.find("runtime error:")) if x >= 0] or [max(0, len(err) - 1200)])
    return err[max(0, i - 200):i + 1300]

def hexdump(m):
    return " ".join("0x%02x" % b for b in m)

def login(uid): return "rx " + hexs(frame(upmsg([], 1, 0x8D, [1, 1] + uid)))
def session(mode_debug, body_lines):
    """the C19 config (board bsec: secure-ack, two segments) logged in at node 1 in normal mode"""
    L = ["start %d %s 0" % (mode_debug, CFG), "logw 0"]
    if not mode_debug: L.append(login(UID))
    return "\n".join(L + body_lines) + "\n"
def rsession(body): return "\n".join(["start 0 %s 0" % CFG_RICH, "logw 0", login(UID_RICH)] + body) + "\n"
SESS = {"sec": lambda b: session(0, b), "rich": rsession}
START = {"sec": "start 0 %s 0\nlogw 0\n%s" % (CFG, login(UID)), "rich": "start 0 %s 0\nlogw 0\n%s" % (CFG_RICH, login(UID_RICH))}

def load_tabs(cdir):
    txt = open(os.path.join(cdir, "AccessTab.v")).read()
    def line(name):
        m = re.search(r'Definition %s : [^\n]*:= \[(.*?)\]\.\n' % name, txt, re.S)
        return m.group(1) if m else ""
    mins = {int(a): int(b) for a, b in re.findall(r'\((\d+)%N, (\d+)\)', line("min_tab"))}
    offs = {int(a): [int(x) for x in b.split(";") if x.strip()] for a, b in re.findall(r'\((\d+)%N, \[([0-9; ]*)\]\)', line("access_tab"))}
    labels = [int(x) for x in re.findall(r'(\d+)%N', line("case_labels"))]
    return mins, offs, labels

def run_model(model, lines):
    r = subprocess.run([model], input="\n".join(lines) + "\n", capture_output=True, text=True, timeout=600)
    return r.stdout.splitlines()

def run(ck):
    quick = ck.tier == "quick"
    cdir, ok = vlib.proof_phase(ck, "Properties_C12.v", translators=("tables", "access"))
    exe = vlib.build_harness()
    model = None
    try: model = vlib.build_model_driver(cdir, "_C12")
    except Exception as e:
        ck.oblige("model driver (extraction of AccessModel/Handlers)", False, str(e)[:300])
        ck.broken.append({"kind": "model", "name": "Extract_C12.v", "detail": str(getattr(e, "log", e))[-1500:]})
    mins, offs, labels = load_tabs(cdir)
    if not labels:
        ck.broken.append({"kind": "translator", "name": "AccessTab.v", "detail": "no case labels in the generated table"})
        labels = list(range(0x81, 0x96)) + list(range(0xA0, 0xAD)) + [0xB0, 0xB2, 0xB8, 0xB9, 0xBA, 0xC0, 0xC1, 0xC4, 0xC6, 0xC8, 0xC9, 0xCA, 0xE1, 0xE2, 0xE3, 0xE4, 0xE5, 0xE6, 0xE7, 0xEF]
    def need_of(ty):   # data bytes the type needs: the source's minimum, or (if that is missing) what its case reads
        return max([mins.get(ty, 0)] + [k + 1 for k in offs.get(ty, [])])
    r = Rng(ck.seed).fork("C12")
    # ---- stream A: framing-level adversarial streams (must be clean: theorem C12_framing_never_faults)
    streams = []
    def good(): return frame([b for m in [upmsg([r.range(1, 255) for _ in range(r.below(4))], r.below(256), r.choice([0x82, 0x84, 0x85, 0x95]), [r.below(256) for _ in range(r.range(1, 6))])] for b in m])
    for _ in range(400 if quick else 20000):
        k = r.below(14); s = []
        if k == 0: s = [0xFE] + [r.below(254) for _ in range(r.range(257, 700))] + [0xFE]                 # oversized packet
        elif k == 1: p = [0] * r.range(1, 5); s = frame(p)                                                 # length byte 0
        elif k == 2: p = [r.range(5, 255)] + [r.below(256) for _ in range(r.range(0, 3))]; s = frame(p)     # announces more than present
        elif k == 3: n = r.range(4, 12); p = [n] + [r.range(1, 255) for _ in range(n)]; s = frame(p)        # no terminator
        elif k == 4: p = [9, 1, 2, 3, 4, 0, 1, 0x82, 7, 7]; p[r.range(1, 4)] = r.range(1, 255); s = frame(p)  # 4 address bytes
        elif k == 5: p = [2, 0, 5]; s = frame(p)                                                           # header cut
        elif k == 6: p = [3, 1, 0, 5]; s = frame(p)
        elif k == 7: s = [r.below(256) for _ in range(r.range(1, 400))]                                    # noise
        elif k in (12, 13):
            # a well-formed message followed by one whose length byte reaches far beyond the packet / the 256-byte buffer
            g = upmsg([r.range(1, 255) for _ in range(r.below(3))], r.below(256), 0x82, [r.below(256) for _ in range(r.range(1, 200 if k == 13 else 6))])
            p = g + [r.choice([0xFF, 0xFE, 0xF0, 0x80, 250 - len(g) + r.range(0, 12)]) & 0xFF] + [r.below(256) for _ in range(r.range(0, 6))]; s = frame(p[:255])
        elif k == 8: s = good(); i = r.range(0, len(s) - 1); s[i] ^= 1 << r.below(8)
        elif k == 9: s = good()[:r.range(1, 8)]
        elif k == 10:
            p = [b for _ in range(r.range(2, 40)) for b in upmsg([], r.below(256), 0x82, [r.below(256)])][:255]; s = frame(p)   # many messages, cut at 255
        else: s = [0xFD] * r.range(1, 3) + [0xFE] * r.range(0, 2)
        streams.append(s)
    lines = []
    for i, s in enumerate(streams):
        lines += ["case a%d" % i, "rx " + hexs(s), "rx fe", "discard q", "discard e", "rx " + hexs(frame(PROBE)), "drain q"]
    evals = 0; bad = 0; dist = {"framing": len(streams)}
    for mode in (1, 0):
        rc, out, err = vlib.run_driver(exe, session(mode, lines), timeout=900)
        cs = vlib.split_cases(out)
        for i, s in enumerate(streams):
            evals += 1
            il = cs.get("a%d" % i)
            if il is None:
                bad += 1
                ck.violation(asan_key(err, 0) or "framing.crash", {"property": "C12", "mode_debug": mode, "stream": hexs(s), "reason": "receiver crashed / sanitizer report on a framing-level stream", "stderr": err[:1500]}); break
            if "q " + hexs(PROBE) not in il:
                bad += 1
                ck.violation("framing.stuck", {"property": "C12", "mode_debug": mode, "stream": hexs(s), "observed": il, "reason": "a well-formed packet after the stream was not delivered"})
    ck.oblige("framing-level adversarial streams: clean and live (%d streams x 2 modes)" % len(streams), bad == 0, "%d bad" % bad)

    # ---- stream B: CRC-valid messages per type with every data length 0..min+3 and adversarial field values, one
    #      forked process each; equipped node of either config and an unknown node
    nviolB = len(ck.violations)
    types = sorted(set(labels + list(mins) + [0x80, 0xFF, 0x99]))
    ADV = [0, 1, 2, 7, 8, 9, 0x30, 0x31, 0x7F, 0x80, 0x84, 0x85, 0xFF]
    singles = []
    for ty in types:
        need = need_of(ty)
        for n in sorted(set(list(range(0, need + 4)) + [12])):
            for rep in range(1 if quick else 4):
                data = [r.choice(ADV + [r.below(256)]) for _ in range(n)]
                for cfg, node in (("sec", [1]), ("sec", [9]), ("rich", [1])):
                    singles.append((cfg, ty, node, data))
    # long messages (up to the 255-byte maximum) for every handled type and for queue-only types
    for ty in types + [0x82, 0x95, 0xC6]:
        for n in ([57, 60, 61, 64, 65, 100, 127, 128, 200, 247, 248] if not quick else [60, 65, 128, 248]):
            data = [r.below(256) for _ in range(n)]
            if ty == 0xA2: data[0] = 0; data[1] = 128          # multiple: 128 bits, bitmap present
            if ty == 0x93: data[0] = 3; data[4] = 3             # vendor: two short strings
            singles.append(("sec", ty, [1], data)); singles.append(("rich", ty, [1], data))
    def one(job):
        cfg, ty, node, data = job
        m = upmsg(node, 5, ty, data)
        body = ["case s", "rx " + hexs(frame(m)), "discard q", "discard e", "discard i", "rx " + hexs(frame(PROBE)), "drain q"]
        rc, out, err = vlib.run_driver(exe, SESS[cfg](body), timeout=60, env_extra=LOG_ENV)
        il = vlib.split_cases(out).get("s")
        return job, rc, il, err
    with ThreadPoolExecutor(16) as ex:
        results = list(ex.map(one, singles))
    predicted = None
    if model:
        predicted = run_model(model, ["msg 1 1 1 1 %d %s" % (ty, hexs(upmsg(node, 5, ty, data))) for cfg, ty, node, data in singles])
        if len(predicted) != len(singles): predicted = None
    faults = {}; mism = []; ndrop = 0
    for idx, ((cfg, ty, node, data), rc, il, err) in enumerate(results):
        evals += 1
        dist["type-%02x" % ty] = dist.get("type-%02x" % ty, 0) + 1
        m = upmsg(node, 5, ty, data)
        rep = {"property": "C12", "config": cfg, "start": START[cfg], "message": hexs(m), "from_node": node, "data_len": len(data), "min_data_length": mins.get(ty, 0), "fixed_offsets_read": offs.get(ty, [])}
        if rc != 0 or il is None:
            key = asan_key(err, ty) or "crash.type-%02x" % ty
            faults[key] = faults.get(key, 0) + 1
            ck.violation(key, dict(rep, reason="sanitizer report / crash while handling this CRC-valid message in normal mode", stderr=san_excerpt(err)))
            continue
        if "q " + hexs(PROBE) not in il:
            ck.violation("stuck.type-%02x" % ty, dict(rep, observed=il, reason="receiver did not deliver the following well-formed packet"))
        # the model's verdict against the implementation's: a handled message is logged with its hex dump
        if predicted is not None:
            handled = ("Message bytes: " + hexdump(m))[:900] in err          # syslog_libbidib cuts a line at 1023 characters
            pv = predicted[idx]
            if pv.startswith("msg handled") and "fault" in pv:
                mism.append(dict(rep, model=pv, why="the handler model faults on a message behind the guard"))
            elif pv.startswith("msg drop") == handled:
                mism.append(dict(rep, model=pv, implementation="handled" if handled else "dropped", why="guard verdict differs"))
            ndrop += 0 if handled else 1
    ck.oblige("dispatcher-level messages, data lengths 0..min+3 and long, equipped and unknown node: no sanitizer report (%d messages, %d dropped by the guard)" % (len(singles), ndrop),
              len(ck.violations) == nviolB, "fault keys: %s" % sorted(faults)[:6])
    ck.oblige("model = implementation on which messages the length guard drops (%d messages)" % len(singles), predicted is not None and not mism, "%d disagreements" % len(mism) if predicted is not None else "no model output")
    if mism or predicted is None:
        ck.broken.append({"kind": "correspondence", "name": "dispatch guard (AccessModel.dispatch vs bidib_handle_received_message)", "cases": mism[:3], "count": len(mism)})

    # ---- batches: many messages in one process; a crash is re-run alone for its key and the batch continues behind it
    def batch(job):
        cfg, ty, msgs = job; found = []; todo = list(range(len(msgs))); n_run = 0
        while todo and len(found) < 4:
            body = []
            for i in todo: body += ["case v%d" % i, "rx " + hexs(frame(msgs[i])), "discard q", "discard e", "discard i"]
            body += ["case live", "rx " + hexs(frame(PROBE)), "drain q"]
            rc, out, err = vlib.run_driver(exe, SESS[cfg](body), timeout=300)
            cs = vlib.split_cases(out); n_run += sum(1 for i in todo if "v%d" % i in cs)
            if rc == 0 and cs.get("live") is not None:
                if "q " + hexs(PROBE) not in cs["live"]: found.append(("stuck", todo[-1], "", cs["live"]))
                break
            done = [i for i in todo if "v%d" % i in cs]
            badi = done[-1] if done else todo[0]
            rc1, out1, err1 = vlib.run_driver(exe, SESS[cfg](["case s", "rx " + hexs(frame(msgs[badi])), "discard q", "discard e", "discard i", "case live", "rx " + hexs(frame(PROBE)), "drain q"]), timeout=60)
            found.append(("fault", badi, err1 if rc1 != 0 else err, None))
            todo = todo[todo.index(badi) + 1:]
        return job, found, n_run
    def report_batches(res, what, extra=None):
        n = 0
        for (cfg, ty, msgs), found, n_run in res:
            n += n_run
            for kind, i, err, il in found:
                rep = {"property": "C12", "config": cfg, "start": START[cfg], "message": hexs(msgs[i])}
                if extra: rep.update(extra((cfg, ty, msgs), i))
                if kind == "stuck":
                    ck.violation("stuck.equipped.type-%02x" % ty, dict(rep, observed=il, reason="receiver did not deliver a well-formed packet after this batch"))
                else:
                    key = asan_key(err, ty) or "crash.type-%02x" % ty
                    faults[key] = faults.get(key, 0) + 1
                    ck.violation(key, dict(rep, reason="sanitizer report / crash while handling " + what, stderr=san_excerpt(err)))
        return n

    # ---- stream C: the addressed equipment exists. A board of every class (track output, booster, point, signal,
    #      peripheral, segments, reverser; trains) is logged in at node 1; every handled type at full length, each data
    #      position swept over field values with the other positions naming existing equipment.
    nviol0 = len(ck.violations)
    BOUND = [0, 1, 2, 3, 4, 5, 7, 8, 9, 0x0D, 0x0F, 0x10, 0x1F, 0x20, 0x3F, 0x40, 0x7F, 0x80, 0x81, 0x84, 0x85, 0xC0, 0xFE, 0xFF]
    vals = BOUND if quick else list(range(256))
    plaus = [0, 1, 2, 0x10, 0x23, 0x22, 0x11, 3]
    sweeps = []; sweep_info = {}
    for ty in types:
        need = max(need_of(ty), 1)
        for n in ([need + 2] if quick else [need, need + 2, 12]):
            for rep in range(1 if quick else 2):
                base = [r.choice(plaus) for _ in range(n)]
                for p in range(min(n, 6 if quick else 10)):
                    msgs = []
                    for v in vals:
                        d = list(base); d[p] = v; msgs.append(upmsg([1], 5, ty, d))
                    sweeps.append(("rich", ty, msgs)); sweep_info[id(msgs)] = p
    with ThreadPoolExecutor(16) as ex:
        sres = list(ex.map(batch, sweeps))
    nrich = report_batches(sres, "a full-length CRC-valid message from a node whose equipment exists",
                           lambda job, i: {"swept_position": sweep_info.get(id(job[2])), "value": vals[i]})
    evals += nrich
    dist["equipped-sweeps"] = len(sweeps); dist["equipped-messages"] = nrich
    ck.oblige("full-length messages from an equipped node, every data position swept over %d field values: no sanitizer report (%d sweeps, %d messages)" % (len(vals), len(sweeps), nrich),
              len(ck.violations) == nviol0, "fault keys: %s" % sorted(faults)[:6])

    # ---- stream D: adversarial embedded lengths / counts, and exhaustive sweeps of table-indexing bytes
    nviolD = len(ck.violations)
    CV = [ord(c) for c in "30051"]            # the CV of reverser1 in corpus/C12/cfg
    groups = []
    def lens_around(x): return sorted({v for v in (0, 1, x - 1, x, x + 1, 255) if 0 <= v <= 255})
    # vendor: [name_len, name.., value_len, value..] with each embedded length 0, 1, exact, one beyond, 255 and the list cut short
    vend = []
    for name in ([], [0x41], CV):
        for value in ([], [0x30], [0x33, 0x34], [0x78] * 9):
            exact = [len(name)] + name + [len(value)] + value
            for nl in lens_around(len(name)):
                for vl in lens_around(len(value)):
                    d = [nl] + name + [vl] + value
                    vend.append(d)
                    if quick and (nl, vl) != (len(name), len(value)): continue
                    for cut in range(1, len(d)): vend.append(d[:cut])
            vend.append(exact + [0x55, 0x66])        # trailing bytes: the value is taken from the end
    vend = [list(x) for x in sorted(set(tuple(v) for v in vend)) if len(x) <= 60]
    for cfg in ("rich", "sec"): groups.append((cfg, 0x93, [upmsg([1], 5, 0x93, d) for d in vend]))
    # bm_multiple: number x size x bitmap bytes present (0, 1, exact - 1, exact, exact + 1)
    mult = []
    for number in (0, 1, 8, 248, 250, 255):
        for size in (0, 1, 7, 8, 9, 16, 24, 120, 128, 129, 255):
            exact = (size + 7) // 8
            for nb in sorted({0, 1, max(0, exact - 1), exact, exact + 1}):
                for fill in ((0xFF, 0x00) if not quick or nb == exact else (0xFF,)):
                    mult.append([number, size] + [fill] * nb)
    for cfg in ("rich", "sec"): groups.append((cfg, 0xA2, [upmsg([1], 5, 0xA2, d) for d in mult]))
    # bm_address: segment known (0, 1) / unknown (9); 0..5 and many address bytes; free form, locos, accessories
    addr = []
    for mnum in (0, 1, 9):
        for nb in (0, 1, 2, 3, 4, 5, 6, 64, 65):
            for pat in ([0, 0], [0x23, 0x01], [0x23, 0x41], [0xFF, 0xFF], [0x02, 0x03]):
                addr.append([mnum] + (pat * 40)[:nb])
    addr = [list(x) for x in sorted(set(tuple(v) for v in addr))]
    groups.append(("rich", 0xA3, [upmsg([1], 5, 0xA3, d) for d in addr] * 2))      # twice: the second pass finds addresses in the segments
    groups.append(("sec", 0xA3, [upmsg([1], 5, 0xA3, d) for d in addr]))
    # boost_diagnostic: lists of 1..9 bytes over the known keys, an unknown key and boundary values
    diag = []
    for n in range(1, 10):
        for rep in range(2 if quick else 8):
            diag.append([r.choice([0, 1, 2, 3, 0xFF]) if i % 2 == 0 else r.choice([0, 15, 16, 63, 64, 127, 191, 192, 250, 251, 254, 255]) for i in range(n)])
    groups.append(("rich", 0xB2, [upmsg([1], 5, 0xB2, d) for d in diag]))
    # sys_error: every error code alone and with one more byte; every parameter of the two codes that have one
    se = [[c] for c in range(256)] + [[c, r.below(256)] for c in range(256)] + [[4, p] for p in range(256)] + [[0x10, p] for p in range(256)] + [[0x10, 6, 1], [0x10, 7, 1], [4, 1, 2, 3]]
    for node in ([1], [9]): groups.append(("rich", 0x86, [upmsg(node, 5, 0x86, d) for d in se]))
    # every value of the bytes that select a state name: MSG_BOOST_STAT (booster), MSG_CS_STATE (track output)
    groups.append(("rich", 0xB0, [upmsg([1], 5, 0xB0, [v]) for v in range(256)] + [upmsg([9], 5, 0xB0, [v]) for v in (0, 0x85, 0xFF)]))
    groups.append(("rich", 0xE1, [upmsg([1], 5, 0xE1, [v]) for v in range(256)] + [upmsg([9], 5, 0xE1, [v]) for v in (0, 9, 0xFF)]))
    # split into batches of at most 200 messages
    jobs = []
    for cfg, ty, msgs in groups:
        for i in range(0, len(msgs), 200): jobs.append((cfg, ty, msgs[i:i + 200]))
    with ThreadPoolExecutor(16) as ex:
        dres = list(ex.map(batch, jobs))
    nadv = report_batches(dres, "a message with adversarial embedded lengths / counts / table-indexing bytes")
    evals += nadv; dist["adversarial-variable-length"] = nadv
    advfault = 0
    if model:
        pv = run_model(model, ["msg 1 1 1 1 %d %s" % (ty, hexs(m)) for cfg, ty, msgs in groups for m in msgs])
        advfault = sum(1 for x in pv if "fault" in x or x.startswith("unknown"))
        if advfault: ck.broken.append({"kind": "model", "name": "Handlers.run_var faults behind the guard", "cases": [x for x in pv if "fault" in x][:3]})
    ck.oblige("variable-length handlers with adversarial embedded lengths/counts and all 256 values of every table-indexing byte: no sanitizer report (%d messages), model fault-free on the same messages" % nadv,
              len(ck.violations) == nviolD and advfault == 0, "fault keys: %s" % sorted(faults)[:6])

    # ---- stream E: the handlers called directly on tight heap buffers; extents predicted by the Coq model
    nviolE = len(ck.violations)
    vec = []     # (model query, harness command prefix, type, handler length/count arg list, buffer bytes)
    for d in [v for v in vend if len(v) >= 1][: (60 if quick else 400)]:
        vec.append(("vendor %d" % len(d), "c12vendor %d" % len(d), 0x93, d))
    for number, size in [(0, 0), (0, 1), (0, 8), (0, 9), (1, 16), (0, 24), (0, 128), (0, 255), (248, 16), (250, 16), (254, 8), (255, 8), (8, 120)]:
        d = [0xA5] * ((size + 7) // 8)
        vec.append(("mults %d %d" % (number, size), "c12mults %d %d" % (number, size), 0xA2, d))
        vec.append(("multm %d %d" % (number, size), "c12multm %d %d" % (number, size), 0xA2, d))
    for mnum, kn in ((0, 1), (9, 0)):
        for cnt in (0, 1, 2, 3, 32):
            for pat in ([0, 0], [0x23, 0x01], [0x23, 0x41], [0x00, 0x05]):
                vec.append(("addr %d 0 %d" % (kn, cnt), "c12addr %d %d" % (mnum, cnt), 0xA3, (pat * cnt)))
    for d in diag[:30]:
        vec.append(("diag 1 %d" % len(d), "c12diag %d" % len(d), 0xB2, d))
    ext_ok = 0; ext_bad = []
    if model:
        ans = run_model(model, ["%s %s" % (q, hexs(d)) for q, c, ty, d in vec])
        exts = []
        for (q, c, ty, d), a in zip(vec, ans):
            m = re.search(r'ext=(\d+)', a)
            if "fault" in a or not m:
                ext_bad.append({"query": q + " " + hexs(d), "model": a, "why": "the handler model faults although the buffer holds `length` bytes (theorem broken?)"}); exts.append(None)
            else: exts.append(int(m.group(1)))
        def direct(job):
            c, d = job
            rc, out, err = vlib.run_driver(exe, rsession(["case s", "%s %s" % (c, hexs(d))]), timeout=60)
            return rc, out, err
        runs = []
        for (q, c, ty, d), e in zip(vec, exts):
            runs.append((c, d))                                   # (1) exactly `length` bytes
            if e is not None:
                runs.append((c, d[:e]))                           # (2) exactly the model's extent
                if e >= 1: runs.append((c, d[:e - 1]))            # (3) one byte less
        with ThreadPoolExecutor(16) as ex:
            rres = list(ex.map(direct, runs))
        it = iter(rres)
        for (q, c, ty, d), e in zip(vec, exts):
            evals += 1
            rc, out, err = next(it)
            script = rsession(["case s", "%s %s" % (c, hexs(d))])
            if rc != 0 or "c12 ok" not in out:
                key = asan_key(err, ty) or "crash.type-%02x" % ty
                faults[key] = faults.get(key, 0) + 1
                ck.violation(key, {"property": "C12", "script": script.splitlines(), "reason": "sanitizer report: the handler reads behind the `length` bytes it was given", "stderr": san_excerpt(err)})
            if e is None: continue
            rc, out, err = next(it)
            good2 = rc == 0 and "c12 ok" in out
            good3 = True
            if e >= 1:
                rc3, out3, err3 = next(it)
                good3 = rc3 != 0 and "AddressSanitizer" in err3
            if good2 and good3: ext_ok += 1
            else: ext_bad.append({"query": q + " " + hexs(d), "model_extent": e, "tight_buffer_clean": good2, "one_less_reported": good3,
                                  "why": "the bytes the real handler reads differ from the model's read set"})
    ck.oblige("variable-length handlers called on heap buffers of exactly `length` bytes: no sanitizer report (%d calls)" % len(vec), len(ck.violations) == nviolE, "")
    ck.oblige("model = implementation on the extent each handler reads (buffer of the model's extent clean, one byte less reported): %d of %d" % (ext_ok, len(vec)),
              model is not None and not ext_bad, str(ext_bad[:2])[:300])
    if ext_bad or model is None:
        ck.broken.append({"kind": "correspondence", "name": "handler read extents (Handlers.v vs the real handlers under ASan)", "cases": ext_bad[:3], "count": len(ext_bad)})
    dist["direct-handler-calls"] = len(vec)

    # ---- stream F: the library's own readers of the intern queue (node table walk, feature read-back) on messages of
    #      exactly the minimum length and longer, preceded by a too-short one that the guard must keep out of the queue
    nviolF = len(ck.violations)
    row = [1, 1] + UID_RICH
    fjobs = []
    for extra in (0, 1, 3):
        pad = [0x5A] * extra
        fjobs.append(("nodetab", ["rx " + hexs(frame(upmsg([], 5, 0x88, []))),                       # MSG_NODETAB_COUNT without its count: dropped
                                  "rx " + hexs(frame(upmsg([], 6, 0x88, [2] + pad))),
                                  "rx " + hexs(frame(upmsg([], 7, 0x89, row[:8]))),                   # MSG_NODETAB one byte short: dropped
                                  "rx " + hexs(frame(upmsg([], 8, 0x89, row + pad))),
                                  "rx " + hexs(frame(upmsg([], 9, 0x89, [1, 2, 0x05, 0, 0x0D, 0x77, 0, 0x22, 0x22] + pad))), "c12nodetab"]))
        fjobs.append(("features", ["rx " + hexs(frame(upmsg([1], 5, 0x90, []))), "rx " + hexs(frame(upmsg([1], 6, 0x90, [1]))),   # MSG_FEATURE short: dropped
                                   "rx " + hexs(frame(upmsg([1], 7, 0x90, [1, 0] + pad))), "rx " + hexs(frame(upmsg([1], 8, 0x90, [4, 1] + pad))), "c12features"]))
    def qreader(job):
        what, body = job
        return vlib.run_driver(exe, rsession(["case s"] + body + ["case live", "rx " + hexs(frame(PROBE)), "drain q"]), timeout=40)
    with ThreadPoolExecutor(8) as ex:
        fres = list(ex.map(qreader, fjobs))
    for (what, body), (rc, out, err) in zip(fjobs, fres):
        evals += 1
        cs = vlib.split_cases(out)
        ty = 0x89 if what == "nodetab" else 0x90
        rep = {"property": "C12", "script": rsession(["case s"] + body).splitlines()}
        if rc == -999:
            ck.violation("stuck.intern-queue-reader.%s" % what, dict(rep, reason="the reader of the intern queue did not return (a message it waits for was not queued)"))
        elif rc != 0 or "c12 ok" not in (cs.get("s") or []):
            key = asan_key(err, ty) or "crash.type-%02x" % ty
            faults[key] = faults.get(key, 0) + 1
            ck.violation(key, dict(rep, reason="sanitizer report / crash while the library reads messages back from its intern queue", stderr=san_excerpt(err)))
        elif "q " + hexs(PROBE) not in (cs.get("live") or []):
            ck.violation("stuck.type-%02x" % ty, dict(rep, observed=cs.get("live"), reason="receiver did not deliver the following well-formed packet"))
    dist["intern-queue-readers"] = len(fjobs)
    ck.oblige("readers of the intern queue (node table walk, feature read-back) on minimum-length and longer messages behind too-short ones: no sanitizer report (%d runs)" % len(fjobs),
              len(ck.violations) == nviolF, "")

    # ---- stream G: the same well-formed messages against a node-state table with history: requests outstanding (one or two,
    #      the last one or not), the clock advanced beyond the expiry time or not, then spontaneous / answering / other-type
    #      messages from that node and from another one; the receiver must stay alive
    nviolG = len(ck.violations)
    gjobs = []
    reqs = [(0x05, []), (0x02, []), (0x19, [0, 0])]          # requests with a response entry (unique id, magic, string)
    for nreq in (1, 2):
        for dt in (0, 1, 2, 3, 60):
            for fty, fdata in ((0xA0, [5]), (0xA1, [5]), (0x84, [1, 2, 3, 4, 5, 6, 7]), (0x81, [0xFE, 0xAF]), (0x8B, [1, 2]), (0x95, [0, 0, 1, 65])):
                body = ["time 1000"] + ["send 1 0 0 %d %s" % (ty, hexs(d) if d else "-") for ty, d in reqs[:nreq]] + ["flush", "time %d" % (1000 + dt)]
                body += ["rx " + hexs(frame(upmsg([1], 7, fty, fdata))), "rx " + hexs(frame(upmsg([2], 7, fty, fdata))), "rx " + hexs(frame(upmsg([1], 8, fty, fdata)))]
                gjobs.append((nreq, dt, fty, body))
    def hist(job):
        nreq, dt, fty, body = job
        return vlib.run_driver(exe, session(0, ["case s"] + body + ["discard q", "discard e", "discard i", "case live", "rx " + hexs(frame(PROBE)), "drain q"]), timeout=40)
    with ThreadPoolExecutor(16) as ex:
        gres = list(ex.map(hist, gjobs))
    for (nreq, dt, fty, body), (rc, out, err) in zip(gjobs, gres):
        evals += 1
        cs = vlib.split_cases(out)
        rep = {"property": "C12", "script": session(0, ["case s"] + body).splitlines(), "outstanding_requests": nreq, "clock_advance_s": dt}
        if rc != 0 or cs.get("live") is None:
            key = asan_key(err, fty) or "crash.after-history.type-%02x" % fty
            faults[key] = faults.get(key, 0) + 1
            ck.violation(key, dict(rep, reason="sanitizer report / crash while handling a well-formed message from a node with outstanding (possibly expired) requests", stderr=san_excerpt(err)))
        elif "q " + hexs(PROBE) not in cs["live"]:
            ck.violation("stuck.after-history.type-%02x" % fty, dict(rep, observed=cs.get("live"), reason="receiver did not deliver the following well-formed packet"))
    dist["node-state-histories"] = len(gjobs)
    ck.oblige("well-formed messages against node-state histories (outstanding and expired requests): receiver alive, no sanitizer report (%d runs)" % len(gjobs),
              len(ck.violations) == nviolG, "")

    ck.coverage.update({"evaluations": evals, "distinct_nontrivial": len(streams) + len(set((t, len(d)) for c, t, n, d in singles)) + len(vend) + len(mult) + len(addr) + len(diag) + len(se) + len(vec),
                        "distribution": dist, "fault_keys_seen": faults,
                        "rule": "framing level: oversized packets, length byte 0, truncated messages, missing terminator, 4+ address bytes, cut headers, noise, bit flips, 255-byte packets, stray escapes, each followed by a liveness probe, in debug and normal mode; dispatcher level: every handled type x every data length 0..min+3, 12 and long x adversarial field values from two equipped nodes and an unknown node, one process each under ASan+UBSan, guard verdict compared with the extracted model; equipped-node sweeps of every data position; variable-length handlers with embedded lengths/counts 0, 1, exact-1, exact, exact+1, 255; all 256 values of every byte indexing a string table; direct handler calls on tight buffers at the model's extent and one below; non-trivial = distinct streams + distinct (type, length) pairs + distinct adversarial payloads",
                        "samples": [{"stream": hexs(streams[0])[:120]}, {"message": hexs(upmsg(singles[0][2], 5, singles[0][1], singles[0][3]))}, {"direct": "%s %s" % (vec[0][1], hexs(vec[0][3]))}]})
    ck.assumptions += ["memory safety of the compiled code is the sanitizer verdict (runtime truth); glib/libyaml internals are outside",
                       "the fixed-offset, guarded, pointer and string-table accesses are generated from the AST (static tie); the variable-length handler models are hand-written and tied dynamically (read extents under ASan)",
                       "setters that take only scalar arguments (state tables, aspect lists) are observed under ASan+UBSan, not modelled here (functional model: C07)"]
    return vlib.finish_with_broken(ck, trusted=vlib.TRUSTED_COMMON + ["translator/gen_access.py (clang JSON AST shapes of the guard, cases, helpers, queue readers)", "harness/ext_C12.inc"])

def replay(ck, path):
    import json
    if os.path.exists(path):
        d = json.load(open(path))
        if isinstance(d.get("script"), list) and d["script"] and d["script"][0].startswith("start "):
            print("replay of %s" % path)
            if "reason" in d: print("reason: %s" % d["reason"])
            exe = vlib.build_harness()
            rc, out, err = vlib.run_driver(exe, "\n".join(d["script"]) + "\n", timeout=60)
            print("--- script"); print("\n".join(d["script"]))
            print("--- implementation (exit %d)" % rc); print(out); print(san_excerpt(err) if rc != 0 else "")
            return 0
    return vlib.replay_generic(ck, path)
