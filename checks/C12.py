"""C12 — no received byte stream causes out-of-bounds access, a crash or a stuck receiver."""
import os, re, subprocess
from concurrent.futures import ThreadPoolExecutor
import vlib, flowgen
from vlib import Rng, hexs, unhex
from flowgen import frame, upmsg, crc8

CFG = os.path.join(vlib.VERIF, "corpus", "C19", "cfg")
UID = [0x45, 0, 0x0D, 0x75, 0, 0x11, 0x11]
PROBE = upmsg([], 9, 0x82, [0x5A])          # liveness probe: a PONG that must come out of the message queue

def asan_key(err, ty):
    m = re.search(r'ERROR: AddressSanitizer: (\S+)', err)
    if m:
        f = re.search(r'#\d+ 0x[0-9a-f]+ in (\w+) \S*/src/', err)
        return "oob.%s.%s.type-%02x" % (m.group(1), f.group(1) if f else "unknown", ty)
    m = re.search(r'runtime error: (.*)', err)
    if m: return "ub.%s.type-%02x" % (re.sub(r'[^a-z]+', '-', m.group(1).lower())[:40], ty)
    return None

def session(mode_debug, body_lines):
    """normal mode with the C19 config and board bsec logged in at node 1"""
    L = ["start %d %s 0" % (mode_debug, CFG), "logw 0"]
    if not mode_debug: L.append("rx " + hexs(frame(upmsg([], 1, 0x8D, [1, 1] + UID))))
    return "\n".join(L + body_lines) + "\n"

def run(ck):
    quick = ck.tier == "quick"
    cdir, ok = vlib.proof_phase(ck, "Properties_C12.v", translators=("tables", "access"))
    exe = vlib.build_harness()
    txt = open(os.path.join(cdir, "AccessTab.v")).read()
    tab = {int(a): ([int(x) for x in b.split(";") if x.strip()], [int(x) for x in c.split(";") if x.strip()])
           for a, b, c in re.findall(r'\((\d+)%N, \(\[([0-9; ]*)\], \[([0-9; ]*)\]\)\)', txt)}
    r = Rng(ck.seed).fork("C12")
    # ---- stream A: framing-level adversarial streams (must be clean: theorem C12_framing_never_faults)
    streams = []
    def good(): return frame([b for m in [upmsg([r.range(1, 255) for _ in range(r.below(4))], r.below(256), r.choice([0x82, 0x84, 0x85, 0x95]), [r.below(256) for _ in range(r.range(1, 6))])] for b in m])
    for _ in range(400 if quick else 20000):
        k = r.below(14); s = []
        if k == 0: s = [0xFE] + [r.below(254) for _ in range(r.range(257, 700))] + [0xFE]                 # oversized packet
        elif k == 1: p = [0] * r.range(1, 5); s = frame(p)                                                 # length byte 0
        elif k == 2: p = [r.range(5, 255)] + [r.below(256) for _ in range(r.range(0, 3))]; s = frame(p)     # announces more than present
        elif k == 3: n = r.range(4, 12); p = [n] + [r.range(1, 255) for _ in range(n)]; s = frame(p)        # no terminator
        elif k == 4: p = [9, 1, 2, 3, 4, 0, 1, 0x82, 7, 7]; p[r.range(1, 4)] = r.range(1, 255); s = frame(p)  # 4 address bytes
        elif k == 5: p = [2, 0, 5]; s = frame(p)                                                           # header cut
        elif k == 6: p = [3, 1, 0, 5]; s = frame(p)
        elif k == 7: s = [r.below(256) for _ in range(r.range(1, 400))]                                    # noise
        elif k in (12, 13):
            # a well-formed message followed by one whose length byte reaches far beyond the packet / the 256-byte buffer
            g = upmsg([r.range(1, 255) for _ in range(r.below(3))], r.below(256), 0x82, [r.below(256) for _ in range(r.range(1, 200 if k == 13 else 6))])
            p = g + [r.choice([0xFF, 0xFE, 0xF0, 0x80, 250 - len(g) + r.range(0, 12)]) & 0xFF] + [r.below(256) for _ in range(r.range(0, 6))]; s = frame(p[:255])
        elif k == 8: s = good(); i = r.range(0, len(s) - 1); s[i] ^= 1 << r.below(8)
        elif k == 9: s = good()[:r.range(1, 8)]
        elif k == 10:
            p = [b for _ in range(r.range(2, 40)) for b in upmsg([], r.below(256), 0x82, [r.below(256)])][:255]; s = frame(p)   # many messages, cut at 255
        else: s = [0xFD] * r.range(1, 3) + [0xFE] * r.range(0, 2)
        streams.append(s)
    lines = []
    for i, s in enumerate(streams):
        lines += ["case a%d" % i, "rx " + hexs(s), "rx fe", "discard q", "discard e", "rx " + hexs(frame(PROBE)), "drain q"]
    evals = 0; bad = 0; dist = {"framing": len(streams)}
    for mode in (1, 0):
        rc, out, err = vlib.run_driver(exe, session(mode, lines), timeout=900)
        cs = vlib.split_cases(out)
        for i, s in enumerate(streams):
            evals += 1
            il = cs.get("a%d" % i)
            if il is None:
                bad += 1
                ck.violation(asan_key(err, 0) or "framing.crash", {"property": "C12", "mode_debug": mode, "stream": hexs(s), "reason": "receiver crashed / sanitizer report on a framing-level stream", "stderr": err[:1500]}); break
            if "q " + hexs(PROBE) not in il:
                bad += 1
                ck.violation("framing.stuck", {"property": "C12", "mode_debug": mode, "stream": hexs(s), "observed": il, "reason": "a well-formed packet after the stream was not delivered"})
    ck.oblige("framing-level adversarial streams: clean and live (%d streams x 2 modes)" % len(streams), bad == 0, "%d bad" % bad)
    # ---- stream B: CRC-valid messages per type with 0..min+2 data bytes and adversarial field values,
    #      one forked process each (expected-fault cases are the known findings)
    singles = []
    types = sorted(set(list(tab) + [0x86, 0x80, 0xFF, 0x99]))
    for ty in types:
        ks, ptrs = tab.get(ty, ([], []))
        need = (max(ks) + 1) if ks else 0
        for n in sorted(set([0, 1, max(0, need - 1), need, need + 2, 12])):
            for rep in range(1 if quick else 4):
                data = [r.choice([0, 1, 2, 7, 8, 9, 0x30, 0x31, 0x7F, 0x80, 0x84, 0x85, 0xFF, r.below(256)]) for _ in range(n)]
                for node in ([1], [9]):
                    singles.append((ty, node, data))
    # long messages (up to the 255-byte maximum) for every handled type and for queue-only types
    for ty in types + [0x82, 0x95, 0xC6]:
        for n in ([57, 60, 61, 64, 65, 100, 127, 128, 200, 247, 248] if not quick else [60, 65, 128, 248]):
            data = [r.below(256) for _ in range(n)]
            if ty == 0xA2: data[0] = 0; data[1] = 128          # multiple: 128 bits, bitmap present
            if ty == 0x93: data[0] = 3; data[4] = 3             # vendor: two short strings
            singles.append((ty, [1], data))
    def one(job):
        ty, node, data = job
        m = upmsg(node, 5, ty, data)
        body = ["case s", "rx " + hexs(frame(m)), "discard q", "discard e", "discard i", "rx " + hexs(frame(PROBE)), "drain q"]
        rc, out, err = vlib.run_driver(exe, session(0, body), timeout=60)
        il = vlib.split_cases(out).get("s")
        return job, rc, il, err
    with ThreadPoolExecutor(16) as ex:
        results = list(ex.map(one, singles))
    faults = {}
    for (ty, node, data), rc, il, err in results:
        evals += 1
        dist["type-%02x" % ty] = dist.get("type-%02x" % ty, 0) + 1
        if rc != 0 or il is None:
            key = asan_key(err, ty) or "crash.type-%02x" % ty
            faults[key] = faults.get(key, 0) + 1
            ck.violation(key, {"property": "C12", "message": hexs(upmsg(node, 5, ty, data)), "from_node": node, "data_len": len(data), "fixed_offsets_read": tab.get(ty, ([], []))[0],
                         "reason": "sanitizer report / crash while handling this CRC-valid message in normal mode", "stderr": err[:1200]})
        elif "q " + hexs(PROBE) not in il:
            ck.violation("stuck.type-%02x" % ty, {"property": "C12", "message": hexs(upmsg(node, 5, ty, data)), "observed": il, "reason": "receiver did not deliver the following well-formed packet"})
    ck.oblige("dispatcher-level messages: no sanitizer report beyond the known findings (%d messages)" % len(singles), not ck.violations, "fault keys: %s" % sorted(faults)[:6])
    ck.coverage.update({"evaluations": evals, "distinct_nontrivial": len(streams) + len(set((t, len(d)) for t, n, d in singles)), "distribution": dist, "fault_keys_seen": faults,
                        "rule": "framing level: oversized packets, length byte 0, truncated messages, missing terminator, 4+ address bytes, cut headers, noise, bit flips, 255-byte packets, stray escapes, each followed by a liveness probe, in debug and normal mode; dispatcher level: every handled type x data lengths {0,1,min-1,min,min+2,12} x adversarial field values from a known and an unknown node, one process each under ASan+UBSan; non-trivial = distinct streams + distinct (type, length) pairs",
                        "samples": [{"stream": hexs(streams[0])[:120]}, {"message": hexs(upmsg(singles[0][1], 5, singles[0][0], singles[0][2]))}]})
    ck.assumptions += ["memory safety of the compiled code is the sanitizer verdict (runtime truth); glib/libyaml internals are outside",
                       "dispatcher/setter reads beyond the generated fixed-offset table (variable-length handlers, string tables) are observed, not proved"]
    return vlib.finish_with_broken(ck, trusted=vlib.TRUSTED_COMMON + ["translator/gen_access.py"])

def replay(ck, path):
    return vlib.replay_generic(ck, path)
