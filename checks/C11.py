"""C11 — no call blocks forever: locks balanced on every path, nested in one global order."""
import vlib

def run(ck):
    cdir, ok = vlib.proof_phase(ck, "Properties_C11.v", translators=("tables", "lockcfg"))
    diag, side = vlib.lock_diagnosis(cdir, kinds=("balance", "order"))
    ck.oblige("generated lock programs accepted by the verified checker for all %d public functions + %d thread mains" % (len(side.get("public", [])), len(side.get("thread_mains", []))), ok and not diag, "; ".join(d["what"] for d in diag[:3]))
    for d in diag[:5]:
        ck.violation("lock." + d["entry"] + "." + d["what"][:40], {"property": "C11", "failing_path": d, "note": "path found by the translator's mirror of the checker: the call chain leads to the function in which the lock sets disagree / the lock is leaked / the order is inverted; to observe it on the implementation, steer a call along this chain and inspect the locks held at return"}, no_input=True)
    ck.coverage.update({"evaluations": side.get("contexts", 0), "distinct_nontrivial": len(side.get("nesting_pairs", [])),
                        "rule": "every function of src/**/*.c translated from the clang AST; every public function and internal thread checked context-sensitively from the empty lock set (evaluations = distinct (function, boolean arguments, held locks) contexts explored by the translator's mirror; distinct_nontrivial = distinct nested lock pairs observed)",
                        "samples": [{"nesting": x[:2], "via": x[2][-3:]} for x in side.get("nesting_pairs", [])[:6]],
                        "functions_translated": len(side.get("functions", [])), "locks": side.get("rank", {}), "exhaustive": True})
    ck.assumptions += ["translator (clang JSON AST -> LockLang) is trusted; lock identity is syntactic (&global)", "rwlocks are treated as exclusive for the ordering check (conservative)",
                       "user callbacks do not call back into the library; indirect calls: parser section callbacks resolved to every function passed in that position"]
    return vlib.finish_with_broken(ck, trusted=vlib.TRUSTED_COMMON + ["translator/gen_lockcfg.py (clang AST -> structured lock programs)"])

def replay(ck, path):
    print(open(path).read()); return 0
