"""C11 — no call blocks forever: locks balanced on every path, nested in one global order."""
import vlib

def run(ck):
    cdir, ok = vlib.proof_phase(ck, "Properties_C11.v", translators=("tables", "lockcfg"))
    diag, side = vlib.lock_diagnosis(cdir, kinds=("balance", "order"))
    ok_all = ok
    if not ok:
        # which layer fails: balance / order (LockProofs.v) or only the wait fact (LockWaitC11.v)
        ok, _ = vlib.coq_make(cdir, ["LockProofs.vo", "LockSem.vo"])
    ck.oblige("generated lock programs accepted by the verified checker for all %d public functions + %d thread mains" % (len(side.get("public", [])), len(side.get("thread_mains", []))), ok and not diag, "; ".join(d["what"] for d in diag[:3]))
    for d in diag[:5]:
        ck.violation("lock." + d["entry"] + "." + d["what"][:40], {"property": "C11", "failing_path": d, "note": "path found by the translator's mirror of the checker: the call chain leads to the function in which the lock sets disagree / the lock is leaked / the order is inverted; to observe it on the implementation, steer a call along this chain and inspect the locks held at return"}, no_input=True)
    # waiting for the receiver thread while holding a lock it needs (semantic gap of the lock order theorem: a thread
    # that polls the intern uplink queue makes progress only if the receiver thread does). Decided in Coq by the
    # verified path-automaton checker (LockWaitC11.no_wait_all); the translator's mirror names function, lock, wait
    # point and call chain.
    nw = side.get("no_wait", {}) if isinstance(side, dict) else {}
    nwv = nw.get("violations", [])
    new_v = nwv
    ck.oblige("no wait holding a receiver lock: on every path of %d public functions / other thread mains, at every wait point (pop from the intern uplink queue: %s) no lock is held in a mode that conflicts with an acquisition of the receiver thread (%d (lock, mode) acquisitions)"
              % (nw.get("entries_checked", 0), ", ".join(sorted(set(f for fs in nw.get("wait_markers", {}).values() for f in fs))) or "none found", len(nw.get("rx_acquisitions", []))),
              ok_all and bool(nw) and not new_v, "; ".join(v["what"][:260] for v in new_v[:2]) if new_v else ("" if ok_all and nw else "Properties_C11.v / LockWaitC11.v did not build"))
    # start-up probe on the real code (bus simulator of harness/ext_C15.inc, one process per schedule): a spontaneous
    # MSG_NODE_NEW of an unconfigured node is delivered right before the answer the start is polling for - in the node
    # table phase (sim_inject) and in the feature phase (sim_injectf); the start must return
    import os, flowgen
    from vlib import hexs
    from concurrent.futures import ThreadPoolExecutor as _TPE
    SIM_WRAP = ("usleep", "pthread_create", "pthread_join")
    try: hsrc = open(os.path.join(vlib.VERIF, "harness", "ext_C15.inc")).read()
    except OSError: hsrc = ""
    phases = [(ph, cmd, fn) for ph, cmd, fn in (("node-table", "sim_inject", "bidib_state_query_nodetab"), ("features", "sim_injectf", "bidib_state_set_board_features"))
              if '"%s"' % cmd in hsrc]
    hangs = {}
    if phases:
        exeS = vlib.build_harness(wrap=SIM_WRAP)
        cfgS = os.path.join(vlib.REPO, "test", "unit", "state_tests_config")      # board1 = da000d680001ee with two features
        nn = hexs(flowgen.frame(flowgen.upmsg([], 1, 0x8D, [2, 5, 0x05, 0x00, 0x0D, 0x7B, 0x00, 0x2A, 0x01])))
        def sim_one(p):
            script = ["case p", "sim_reset", "sim_node 0 0 -1 0 da000d680001ee", "%s 1 %s" % (p[1], nn), "simstart 0 %s 0" % cfgS, "mark done"]
            rc, out, err = vlib.run_driver(exeS, "\n".join(script) + "\n", timeout=90)
            return p, script, rc, out
        with _TPE(2) as ex:
            for p, script, rc, out in ex.map(sim_one, phases):
                lines = [l for l in out.splitlines() if not l.startswith("t ")]
                if rc == -999 or "sim-hang" in lines or not any(l.startswith("start ") for l in lines):
                    hangs[p[0]] = {"phase": p[0], "in_function": p[2], "script": [l.replace(vlib.REPO, "$REPO") for l in script], "driver_rc": rc, "observed": lines[-8:], "sim": True,
                                   "meaning": "bus simulator: one interface node = board1 of test/unit/state_tests_config; %s 1 <frame>: the framed MSG_NODE_NEW is delivered right before the answer to the first %s; simstart = bidib_start_pointer against the simulator; sim-hang / no 'start' line = the start never returned"
                                              % (p[1], "MSG_NODETAB_GETNEXT" if p[1] == "sim_inject" else "MSG_FEATURE_SET")}
        ck.oblige("start-up probe: a spontaneous MSG_NODE_NEW during the %s phase(s) of a start against the bus simulator; the start returns" % " / ".join(p[0] for p in phases), not hangs,
                  "; ".join("start hangs in the %s phase" % h for h in hangs))
    else:
        ck.assumptions.append("start-up probe with a spontaneous message skipped: harness/ext_C15.inc has no sim_inject / sim_injectf command")
    used = set()
    for v in nwv:
        content = {"property": "C11", "violated_fact": "C11_no_wait_holding_receiver_lock",
                   "function": v["function"], "file": v["file"], "line": v["line"], "lock": v["lock"], "held_exclusive": v["held_exclusive"],
                   "wait_point": "%s (%s:%s), marker %s" % (v["wait_in"], v["wait_file"], v["wait_line"], v["wait"]), "entry": v["entry"], "call_chain": v["chain"],
                   "receiver_acquires": v["receiver_acquires"], "reason": v["what"]}
        h = next((h for h in hangs.values() if h["in_function"] in v["chain"]), None)
        if h is not None:
            used.add(h["phase"]); content.update(h)
            ck.violation("wait.holding-receiver-lock.%s.%s" % (v["function"], v["lock"]), content)
        else:
            content["note"] = "the start-up probe (spontaneous MSG_NODE_NEW in the node-table and feature phases) does not reach this wait"
            ck.violation("wait.holding-receiver-lock.%s.%s" % (v["function"], v["lock"]), content, no_input=True)
    for ph, h in hangs.items():
        if ph not in used:
            ck.violation("hang.start-with-spontaneous-message.%s" % ph, dict(h, property="C11", reason="a start against the bus simulator never returns when a MSG_NODE_NEW arrives during the %s phase" % ph))
    ck.coverage["no_wait"] = {k: nw.get(k) for k in ("rx_main", "rx_acquisitions", "wait_markers", "wait_mutexes", "forbidden_at_wait", "entries_checked", "example")}
    ck.coverage["no_wait"]["violations"] = [{k: v[k] for k in ("entry", "function", "file", "line", "lock", "held_exclusive", "wait_in", "chain")} for v in nwv]
    # forced lock-granularity schedules on the real code (one process each, watchdog): a sender parked
    # before its k-th mutex acquisition while another sender runs or while the receiver thread releases
    # deferred traffic / lifts a stall; a schedule after which the calls do not return is a deadlock
    import flowgen
    from concurrent.futures import ThreadPoolExecutor
    from vlib import hexs
    exe = vlib.build_harness(wrap=("pthread_mutex_lock",))
    ans = hexs(flowgen.frame(flowgen.upmsg([1], 1, 0x93, [1, 65, 1, 66])))
    stall1 = hexs(flowgen.frame(flowgen.upmsg([1], 0, 0x8E, [1]))); stall0 = hexs(flowgen.frame(flowgen.upmsg([1], 0, 0x8E, [0])))
    probes = []
    for k in range(1, 7):
        probes.append(["sched2 %d 1 0 0 7 01 1 0 0 7 02" % k])
        probes.append(["send 1 0 0 22 01", "send 1 0 0 23 02", "flush", "schedrx %d 1 0 0 7 03 %s" % (k, ans)])
        probes.append(["rx " + stall1, "send 1 0 0 7 05", "schedrx %d 1 0 0 7 06 %s" % (k, stall0)])
        probes.append(["rx " + stall1, "send 1 2 0 7 05", "schedrx %d 2 0 0 7 06 %s" % (k, stall0)])
    def one(body):
        script = "\n".join(["start 1 - 0", "case p", "reset_nodes", "cap 0", "flush"] + body + ["flush", "mark done"]) + "\n"
        rc, out, err = vlib.run_driver(exe, script, timeout=12)
        return body, rc, out
    with ThreadPoolExecutor(8) as ex:
        res = list(ex.map(one, probes))
    hung = 0
    for body, rc, out in res:
        if rc == -999 or "mark done" not in out:
            hung += 1
            ck.violation("deadlock.forced-schedule", {"property": "C11", "schedule": body, "driver_rc": rc, "observed": out[-400:],
                         "meaning": "sched2 k A B: thread A parked before its k-th mutex acquisition while thread B submits; schedrx k A bytes: while the receiver thread processes the uplink bytes; the calls did not return within 12 s",
                         "reason": "calls blocked forever under this schedule (deadlock)"})
    ck.oblige("forced-schedule deadlock probe: %d schedules return" % len(probes), hung == 0, "%d hung" % hung)
    # the same with rwlocks in the gate: a high-level command that walks the board table is parked before its k-th lock
    # acquisition (mutex or rwlock) while the receiver thread handles a node-new notice (board-table writer)
    import os
    exe_rw = vlib.build_harness(wrap=("pthread_mutex_lock", "pthread_rwlock_rdlock", "pthread_rwlock_wrlock"))
    cfg10 = os.path.join(vlib.VERIF, "corpus", "C10", "cfg")
    nn = hexs(flowgen.frame(flowgen.upmsg([], 3, 0x8D, [1, 0, 0xDA, 0, 0x0D, 0x68, 0, 0x01, 0xEE])))
    probes2 = [["schedhlrx %d %s %s" % (k, job, nn)] for k in range(1, 9) for job in ("tstall 3", "tper t1 head 1 master", "speed t1 20 master")]
    def one2(body):
        script = "\n".join(["start 0 %s 0" % cfg10, "logw 0", "nodenew 0 0 0 0 da000d680001ee", "case p"] + body + ["flush", "mark done"]) + "\n"
        rc, out, err = vlib.run_driver(exe_rw, script, timeout=15)
        return body, rc, out
    with ThreadPoolExecutor(8) as ex:
        res2 = list(ex.map(one2, probes2))
    hung2 = 0
    for body, rc, out in res2:
        if rc == -999 or "mark done" not in out:
            hung2 += 1
            if hung2 <= 2:
                ck.violation("deadlock.forced-schedule-rw", {"property": "C11", "script": ["start 0 $VERIF/corpus/C10/cfg 0", "logw 0", "nodenew 0 0 0 0 da000d680001ee"] + body + ["flush", "mark done"],
                             "driver_rc": rc, "observed": out[-400:],
                             "meaning": "schedhlrx k A bytes: high-level command A parked before its k-th lock acquisition (mutexes and rwlocks) while the receiver thread processes the uplink bytes (a node-new notice: writer of the board table); the calls did not return within 15 s",
                             "reason": "calls blocked forever under this schedule (deadlock)"})
    ck.oblige("forced-schedule deadlock probe with rwlocks in the gate: %d schedules return" % len(probes2), hung2 == 0, "%d hung" % hung2)
    # getters against the receiver's state handlers: the whole-track snapshot and the train / segment getters are parked before
    # their k-th lock acquisition while the receiver processes an occupancy / address report (segments, then trains) or
    # against each other (schedhl)
    occ = hexs(flowgen.frame(flowgen.upmsg([], 4, 0xA0, [0]))); adr = hexs(flowgen.frame(flowgen.upmsg([], 5, 0xA3, [0, 3, 0x80])))
    getters = ("getstate", "trainpos t1", "trainst t1", "segst seg1")
    probes3 = [["schedhlrx %d %s %s" % (k, job, up)] for k in range(1, 13) for job in getters for up in (occ, adr)]
    probes3 += [["schedhl %d %s %s" % (k, ja, jb)] for k in range(1, 13) for ja in getters for jb in getters if ja != jb and "getstate" in (ja, jb)]
    with ThreadPoolExecutor(8) as ex:
        res3 = list(ex.map(one2, probes3))
    hung3 = 0
    for body, rc, out in res3:
        if rc == -999 or "mark done" not in out:
            hung3 += 1
            if hung3 <= 2:
                ck.violation("deadlock.forced-schedule-getter", {"property": "C11", "script": ["start 0 $VERIF/corpus/C10/cfg 0", "logw 0", "nodenew 0 0 0 0 da000d680001ee"] + body + ["flush", "mark done"],
                             "driver_rc": rc, "observed": out[-400:],
                             "meaning": "schedhlrx k G bytes: getter G parked before its k-th lock acquisition while the receiver thread processes an occupancy / address report; schedhl k G H: while getter H runs; the calls did not return within 15 s",
                             "reason": "calls blocked forever under this schedule (deadlock)"})
    ck.oblige("forced-schedule deadlock probe, getters vs. the receiver's occupancy handlers and vs. each other: %d schedules return" % len(probes3), hung3 == 0, "%d hung" % hung3)
    # lock-leak battery on the real code: public high-level calls with argument classes {valid, unknown id,
    # unknown second id, out-of-range value, disconnected board} and uplink messages; after each, no library
    # lock may still be held (trylock probe while nothing is in flight)
    import os
    cfgdir = os.path.join(vlib.REPO, "test", "unit", "state_tests_config")
    uid = "da000d680001ee"
    calls = []
    for conn in (0, 1):
        calls.append("rx " + hexs(flowgen.frame(flowgen.upmsg([], 1, 0x8D if conn else 0x8C, [1, 1] + [0xDA, 0x00, 0x0D, 0x68, 0x00, 0x01, 0xEE]))))
        for pt in ("point1", "point2", "nosuch"):
            for asp in ("normal", "reverse", "nosuch"): calls.append("c9 switch_point %s %s" % (pt, asp))
        for sg in ("signal1", "nosuch"):
            for asp in ("green", "red", "nosuch"): calls.append("c9 set_signal %s %s" % (sg, asp))
        for pe in ("led1", "nosuch"):
            for asp in ("state1", "nosuch"): calls.append("c9 set_peripheral %s %s" % (pe, asp))
        for tr in ("train1", "nosuch"):
            for bo in ("board1", "nosuch"):
                for sp in (0, 5, -5, 126, 127, -200): calls.append("c9 speed %s %d %s" % (tr, sp, bo))
                for sp in (0, 9, -9, 10): calls.append("c9 cspeed %s %d %s" % (tr, sp, bo))
                calls.append("c9 estop %s %s" % (tr, bo))
                for pe in ("light", "nosuch"):
                    for st in (0, 1, 2, 255): calls.append("c9 tper %s %s %d %s" % (tr, pe, st, bo))
        for bo in ("board1", "nosuch"):
            for v in (0, 1): calls.append("c9 booster %s %d" % (bo, v))
            for v in (0, 2, 3, 5, 200): calls.append("c9 output %s %d" % (bo, v))
            calls.append("c9 reverser reverser1 %s" % bo); calls.append("c9 reverser nosuch %s" % bo)
        calls.append("c9 output_all 2"); calls.append("c9 state")
        for ty, data in ((0xA0, [0]), (0xA1, [0]), (0xA3, [0, 0x23, 0x01]), (0xE2, [0x23, 0x01, 1]), (0xB8, [2, 1, 2, 0, 0]), (0xC0, [0x12, 0, 1]), (0xB0, [0x80]), (0xE1, [3])):
            calls.append("rx " + hexs(flowgen.frame(flowgen.upmsg([1], 0, ty, data))))
        # the same state reports from a node address where no board is connected (look-ups fail: error paths), each followed later
        # by node notices (writers of the board table): a lock leaked on the failing look-up blocks the next writer
        for ty, data in ((0xA0, [0]), (0xA1, [0]), (0xA3, [0, 0x23, 0x01]), (0xA2, [0, 8, 1]), (0xE2, [0x23, 0x01, 1]), (0xB8, [2, 1, 2, 0, 0]), (0xC0, [0x12, 0, 1]), (0xB0, [0x80]), (0xB0, [0x01]),
                         (0xB2, [0, 1, 1, 2]), (0xE1, [3]), (0x93, [1, 65, 1, 66]), (0xAC, [1, 2, 3, 4, 5]), (0xA7, [1, 2, 3]), (0xA5, [1, 2]), (0xA6, [0x23, 0x01, 5, 0])):
            calls.append("rx " + hexs(flowgen.frame(flowgen.upmsg([9], 0, ty, data))))
        # node notices about nodes that are NOT configured: a plain node and an interface (class bit 0x80: its subtree is walked),
        # as new and as lost, from the root and from a sub-interface
        for uidx in ([0x00, 0x00, 0x0D, 0x68, 0x00, 0x02, 0x01], [0x80, 0x00, 0x0D, 0x68, 0x00, 0x02, 0x02], [0x90, 0x00, 0x0D, 0x68, 0x00, 0x02, 0x03]):
            for snd in ([], [1]):
                for ty in (0x8D, 0x8C, 0x8C):
                    calls.append("rx " + hexs(flowgen.frame(flowgen.upmsg(snd, 0, ty, [7, 5] + uidx))))
    # more error-class messages than a user queue holds (128), none of them read: the overflow path of the queue
    for i_ in range(131): calls.append("rx " + hexs(flowgen.frame(flowgen.upmsg([1], 0, 0x8B if i_ % 2 else 0x86, [i_ % 7, 1]))))
    for i_ in range(131): calls.append("rx " + hexs(flowgen.frame(flowgen.upmsg([1], 0, 0x82, [i_]))))
    calls += ["reade", "readq"]
    # every public getter that takes an id (known, unknown, NULL) and the whole-state getters
    for g, ids in (("point_state", ("point1", "point2")), ("signal_state", ("signal1",)), ("peripheral_state", ("led1",)), ("segment_state", ("seg1", "seg3")),
                   ("reverser_state", ("reverser1",)), ("train_state", ("train1",)), ("train_position", ("train1",)), ("train_on_track", ("train2",)),
                   ("booster_state", ("board1",)), ("track_output_state", ("board1",)), ("point_state_index", ("point1",)), ("signal_state_index", ("signal1",)),
                   ("segment_state_index", ("seg1", "seg2", "seg3")), ("board_connected", ("board1",)), ("board_points", ("board1",)), ("train_peripherals", ("train1",))):
        for i_ in ids + ("nosuch", "null"): calls.append("getcall %s %s" % (g, i_))
    calls += ["getcall state -", "getcall trains_on_track -"]
    L = ["start 0 %s 0" % cfgdir, "logw 0"]
    for i, c in enumerate(calls): L += ["case b%d" % i, c, "lockprobe", "ownbad"]
    vlib.CURRENT_EXTS = ("C09", "sched")
    exe2 = vlib.build_harness(wrap=("pthread_mutex_lock", "pthread_mutex_unlock"))
    rc, out, err = vlib.run_driver(exe2, "\n".join(L) + "\n", timeout=240)
    bc = vlib.split_cases(out); leaks = 0
    for i, c in enumerate(calls):
        ls = bc.get("b%d" % i)
        held = [l for l in (ls or []) if l.startswith("locks-held")]
        if ls is None or not held:
            leaks += 1
            ck.violation("battery.call-did-not-return", {"property": "C11", "call": c, "config": cfgdir, "history": calls[:i + 1][-12:], "reason": "the driver stopped at this call (blocked on a lock that an earlier call left held, or crashed)", "stderr": err[-400:]})
            break
        if any(l.startswith("unlock-not-held ") and l != "unlock-not-held 0" for l in ls):
            leaks += 1
            ck.violation("battery.unlock-of-lock-not-held", {"property": "C11", "call": c, "config": cfgdir, "history": calls[:i + 1][-12:], "observed": [l for l in ls if l.startswith("unlock-not-held")],
                                                             "reason": "during this call a mutex was unlocked by a thread that did not hold it (double unlock / unlock of another thread's lock): with default mutexes that silently releases somebody else's lock"})
            break
        if held[-1] != "locks-held none":
            leaks += 1
            ck.violation("battery.lock-held-after-return", {"property": "C11", "call": c, "config": cfgdir, "history": calls[:i + 1][-12:], "observed": held[-1], "reason": "a lock is still held after the call returned"})
            break
    ck.oblige("lock-leak battery: %d public calls (commands and getters) / uplink messages return with every lock released and unlock only what they hold" % len(calls), leaks == 0, "%d leaks" % leaks)
    ck.coverage.update({"evaluations": side.get("contexts", 0), "distinct_nontrivial": len(side.get("nesting_pairs", [])), "schedules_forced": len(probes), "battery_calls": len(calls),
                        "rule": "every function of src/**/*.c translated from the clang AST; every public function and internal thread checked context-sensitively from the empty lock set (evaluations = distinct (function, boolean arguments, held locks) contexts explored by the translator's mirror; distinct_nontrivial = distinct nested lock pairs observed)",
                        "samples": [{"nesting": x[:2], "via": x[2][-3:]} for x in side.get("nesting_pairs", [])[:6]],
                        "functions_translated": len(side.get("functions", [])), "locks": side.get("rank", {}), "exhaustive": True})
    ck.assumptions += ["wait points are the pops from the queue only the receiver thread fills (uplink_intern_queue; found in the AST); other forms of waiting for another thread (sleeping on a flag, the user's callbacks) are not modelled; the receiver's lock set is the syntactic closure of its thread main over calls",
                       "translator (clang JSON AST -> LockLang) is trusted; lock identity is syntactic (&global)", "rwlocks are treated as exclusive for the ordering check (conservative)",
                       "user callbacks do not call back into the library; indirect calls: parser section callbacks resolved to every function passed in that position"]
    return vlib.finish_with_broken(ck, trusted=vlib.TRUSTED_COMMON + ["translator/gen_lockcfg.py (clang AST -> structured lock programs)"])

def replay(ck, path):
    import os, json
    if os.path.exists(path):
        d = json.load(open(path))
        if d.get("sim") and "script" in d:
            print("replay of %s" % path)
            for k in ("reason", "function", "file", "line", "lock", "wait_point", "call_chain", "meaning"):
                if k in d: print("%s: %s" % (k, json.dumps(d[k])[:900]))
            script = [l.replace("$REPO", vlib.REPO) for l in d["script"]]
            exe = vlib.build_harness(wrap=("usleep", "pthread_create", "pthread_join"))
            rc, out, err = vlib.run_driver(exe, "\n".join(script) + "\n", timeout=90)
            print("--- script"); print("\n".join(script))
            print("--- implementation (exit %d)" % rc); print("\n".join(l for l in out.splitlines() if not l.startswith("t ")))
            return 0
    return vlib.replay_generic(ck, path)
