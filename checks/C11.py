"""C11 — no call blocks forever: locks balanced on every path, nested in one global order."""
import vlib

def run(ck):
    cdir, ok = vlib.proof_phase(ck, "Properties_C11.v", translators=("tables", "lockcfg"))
    diag, side = vlib.lock_diagnosis(cdir, kinds=("balance", "order"))
    ck.oblige("generated lock programs accepted by the verified checker for all %d public functions + %d thread mains" % (len(side.get("public", [])), len(side.get("thread_mains", []))), ok and not diag, "; ".join(d["what"] for d in diag[:3]))
    for d in diag[:5]:
        ck.violation("lock." + d["entry"] + "." + d["what"][:40], {"property": "C11", "failing_path": d, "note": "path found by the translator's mirror of the checker: the call chain leads to the function in which the lock sets disagree / the lock is leaked / the order is inverted; to observe it on the implementation, steer a call along this chain and inspect the locks held at return"}, no_input=True)
    # forced lock-granularity schedules on the real code (one process each, watchdog): a sender parked
    # before its k-th mutex acquisition while another sender runs or while the receiver thread releases
    # deferred traffic / lifts a stall; a schedule after which the calls do not return is a deadlock
    import flowgen
    from concurrent.futures import ThreadPoolExecutor
    from vlib import hexs
    exe = vlib.build_harness(wrap=("pthread_mutex_lock",))
    ans = hexs(flowgen.frame(flowgen.upmsg([1], 1, 0x93, [1, 65, 1, 66])))
    stall1 = hexs(flowgen.frame(flowgen.upmsg([1], 0, 0x8E, [1]))); stall0 = hexs(flowgen.frame(flowgen.upmsg([1], 0, 0x8E, [0])))
    probes = []
    for k in range(1, 7):
        probes.append(["sched2 %d 1 0 0 7 01 1 0 0 7 02" % k])
        probes.append(["send 1 0 0 22 01", "send 1 0 0 23 02", "flush", "schedrx %d 1 0 0 7 03 %s" % (k, ans)])
        probes.append(["rx " + stall1, "send 1 0 0 7 05", "schedrx %d 1 0 0 7 06 %s" % (k, stall0)])
        probes.append(["rx " + stall1, "send 1 2 0 7 05", "schedrx %d 2 0 0 7 06 %s" % (k, stall0)])
    def one(body):
        script = "\n".join(["start 1 - 0", "case p", "reset_nodes", "cap 0", "flush"] + body + ["flush", "mark done"]) + "\n"
        rc, out, err = vlib.run_driver(exe, script, timeout=12)
        return body, rc, out
    with ThreadPoolExecutor(8) as ex:
        res = list(ex.map(one, probes))
    hung = 0
    for body, rc, out in res:
        if rc == -999 or "mark done" not in out:
            hung += 1
            ck.violation("deadlock.forced-schedule", {"property": "C11", "schedule": body, "driver_rc": rc, "observed": out[-400:],
                         "meaning": "sched2 k A B: thread A parked before its k-th mutex acquisition while thread B submits; schedrx k A bytes: while the receiver thread processes the uplink bytes; the calls did not return within 12 s",
                         "reason": "calls blocked forever under this schedule (deadlock)"})
    ck.oblige("forced-schedule deadlock probe: %d schedules return" % len(probes), hung == 0, "%d hung" % hung)
    ck.coverage.update({"evaluations": side.get("contexts", 0), "distinct_nontrivial": len(side.get("nesting_pairs", [])), "schedules_forced": len(probes),
                        "rule": "every function of src/**/*.c translated from the clang AST; every public function and internal thread checked context-sensitively from the empty lock set (evaluations = distinct (function, boolean arguments, held locks) contexts explored by the translator's mirror; distinct_nontrivial = distinct nested lock pairs observed)",
                        "samples": [{"nesting": x[:2], "via": x[2][-3:]} for x in side.get("nesting_pairs", [])[:6]],
                        "functions_translated": len(side.get("functions", [])), "locks": side.get("rank", {}), "exhaustive": True})
    ck.assumptions += ["translator (clang JSON AST -> LockLang) is trusted; lock identity is syntactic (&global)", "rwlocks are treated as exclusive for the ordering check (conservative)",
                       "user callbacks do not call back into the library; indirect calls: parser section callbacks resolved to every function passed in that position"]
    return vlib.finish_with_broken(ck, trusted=vlib.TRUSTED_COMMON + ["translator/gen_lockcfg.py (clang AST -> structured lock programs)"])

def replay(ck, path):
    return vlib.replay_generic(ck, path)
