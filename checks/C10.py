"""C10 — documented thread-safe API is race-free and atomic under concurrent use (lock-granularity part)."""
import vlib

def run(ck):
    cdir, ok = vlib.proof_phase(ck, "Properties_C10.v", translators=("tables", "lockcfg"))
    diag, side = vlib.lock_diagnosis(cdir, kinds=("guard", "balance", "order"), threadsafe_only=True)
    ck.oblige("lockset: every guarded access holds its guard on every path of %d thread-safe functions + thread mains" % len(side.get("threadsafe", [])), ok and not diag, "; ".join(d["what"] for d in diag[:3]))
    for d in diag[:5]:
        ck.violation("lockset." + d["entry"] + "." + d["what"][:50], {"property": "C10", "failing_path": d, "note": "unguarded access on this call chain; two threads running it concurrently with any writer of the same global race"}, no_input=True)
    ck.coverage.update({"evaluations": side.get("contexts", 0), "distinct_nontrivial": len(side.get("globals", [])),
                        "rule": "all thread-safe public functions and internal threads checked context-sensitively against the guard table (guards from the 'guarded by' comments of bidib_state_intern.h plus the fixed table in the translator); distinct_nontrivial = guarded globals / guarded calls",
                        "samples": [{"global": g, "guard": l} for g, l in list(side.get("guards", {}).items())[:8]], "exhaustive": True})
    ck.assumptions += ["partial: accesses through pointers obtained under a lock and used after its release are not tracked; read/write mode of rwlock-guarded data is not distinguished",
                       "DRF => SC for C11; volatile bool flags are written only in start/stop/reset (README excludes them from concurrent use)"]
    return vlib.finish_with_broken(ck, trusted=vlib.TRUSTED_COMMON + ["translator/gen_lockcfg.py (clang AST -> structured lock programs)"])

def replay(ck, path):
    print(open(path).read()); return 0
