"""C10 — documented thread-safe API is race-free and atomic under concurrent use (lock-granularity part)."""
import os
import vlib

TSAN_ENV = {"TSAN_OPTIONS": "halt_on_error=0:exitcode=0:report_signal_unsafe=0"}

def rw_stress_script(readers, rounds):
    """readers call public getters on the board/train tables while the real receiver thread processes
    MSG_NODE_NEW / MSG_NODE_LOST of a configured board (the writers of the board table on thread-safe paths)"""
    import os, flowgen
    from vlib import hexs
    cfg = os.path.join(vlib.REPO, "test", "unit", "state_tests_config")
    uid = [0xDA, 0x00, 0x0D, 0x68, 0x00, 0x01, 0xEE]
    new = hexs(flowgen.frame(flowgen.upmsg([], 1, 0x8D, [1, 1] + uid)))
    lost = hexs(flowgen.frame(flowgen.upmsg([], 2, 0x8C, [2, 1] + uid)))
    return ["start 0 %s 0" % cfg, "logw 0", "case rw", "rwstress %d %d board1 train1 %s %s" % (readers, rounds, new, lost)]

def tsan_races(err):
    """ThreadSanitizer data-race reports whose summary location is in the library sources"""
    import re, os
    out = []; other = 0
    src = os.path.join(os.path.realpath(vlib.REPO), "src") + os.sep
    for blk in err.split("WARNING: ThreadSanitizer: data race")[1:]:
        blk = blk.split("==================")[0]
        m = re.search(r'SUMMARY: ThreadSanitizer: data race (\S+?):(\d+)(?::\d+)? in (\S+)', blk)
        frames = re.findall(r'#\d+ (\S+) (\S+?):(\d+)', blk)
        lib = [(f, os.path.relpath(os.path.realpath(pth), os.path.realpath(vlib.REPO)), int(ln)) for f, pth, ln in frames if os.path.realpath(pth).startswith(src)]
        if m and os.path.realpath(m.group(1)).startswith(src):
            out.append({"function": m.group(3), "file": os.path.relpath(os.path.realpath(m.group(1)), os.path.realpath(vlib.REPO)), "line": int(m.group(2)),
                        "library_frames": lib[:12], "report": re.sub(r' \(BuildId: \w+\)', '', blk.strip())[:2500]})
        else:
            other += 1
    return out, other

def run_rw_stress(ck):
    """returns (script, races in library frames, reports elsewhere, driver output) or None when the TSan build is unavailable"""
    try:
        exe = vlib.build_harness(san="tsan")
    except vlib.BuildBroken as e:
        return None, str(e)[:400]
    script = rw_stress_script(4, 12 if ck.tier == "quick" else 200)
    for attempt in (1, 2):
        rc, out, err = vlib.run_driver(exe, "\n".join(script) + "\n", timeout=300, env_extra=TSAN_ENV)
        if "rwstress readers" in out: break
    if "rwstress readers" not in out and "FATAL: ThreadSanitizer" in err:
        return None, "the ThreadSanitizer runtime does not start here: " + err.strip().splitlines()[0][:200]
    races, other = tsan_races(err)
    return (script, races, other, out, rc, err), None

def run(ck):
    cdir, ok = vlib.proof_phase(ck, "Properties_C10.v", translators=("tables", "lockcfg"))
    diag, side = vlib.lock_diagnosis(cdir, kinds=("guard", "balance", "order"), threadsafe_only=True)
    nts = len(side.get("threadsafe", [])); rwl = side.get("rwlocks", [])
    ok_all = ok
    if not ok:
        # which layer fails: the lockset / read-write facts (LockProofs.v) or only the atomicity facts (LockAtomicC10.v)
        ok, _ = vlib.coq_make(cdir, ["LockProofs.vo", "LockExcl.vo", "LockTrace.vo"])
    ts_entries = set(side.get("threadsafe", [])) | set(side.get("thread_mains", []))
    # every violating write site (not only the first few per entry), restricted to thread-safe entries / thread mains
    rw_all = [e for e in side.get("rw_violations", []) if e.get("chain") and e["chain"][0] in ts_entries]
    rw_diag = [d for d in diag if d.get("kind") == "rw"]
    wr_unlocked = [d for d in diag if d.get("kind") == "guard" and d.get("mode") == "write" and d.get("guard") in rwl]
    other_diag = [d for d in diag if d.get("kind") != "rw"]
    ck.oblige("lockset: every guarded access holds its guard on every path of %d thread-safe functions + thread mains" % nts, ok and not other_diag, "; ".join(d["what"] for d in other_diag[:3]))
    sites = side.get("access_sites", {})
    def tot(l, m): return sum(v.get(m, 0) for v in sites.get(l, {}).values())
    ck.oblige("read/write mode: every WRITE access to data guarded by %s holds the write lock (not only the read lock) on every path of %d thread-safe functions + thread mains [%s]"
              % (" / ".join(rwl) or "(no rwlock found)", nts, "; ".join("%s: %d write + %d read access sites" % (l, tot(l, "write"), tot(l, "read")) for l in rwl)),
              ok and not rw_diag and not rw_all and not wr_unlocked, "; ".join(d["what"] for d in (rw_diag + wr_unlocked)[:3]))
    ck.oblige("reader/writer exclusion theorem (C10_reader_writer_exclusion) and its static premise (C10_writes_hold_exclusive) checked against the regenerated lock programs", ok, "" if ok else "Properties_C10.v / LockProofs.v did not build")
    # dynamic side: reader/writer stress on the real code under ThreadSanitizer (oracle: the property text -
    # "without data races" - evaluated on the implementation; independent of the model)
    stress, why = run_rw_stress(ck)
    races = []
    if stress is None:
        ck.assumptions.append("ThreadSanitizer build of the harness unavailable (%s): the reader/writer stress probe did not run" % why)
    else:
        script, races, other, sout, src_rc, serr = stress
        ran = "rwstress readers" in sout
        ck.oblige("rw stress on the real code under ThreadSanitizer (getters on the board/train tables vs. the receiver thread processing MSG_NODE_NEW/MSG_NODE_LOST): no data race reported in library frames", ran and not races,
                  ("%d race report(s), first in %s %s:%d" % (len(races), races[0]["function"], races[0]["file"], races[0]["line"])) if races else ("" if ran else "the probe did not run: rc %s %s" % (src_rc, serr[-300:])))
        ck.coverage["tsan_reports_outside_library"] = other
        if not ran: ck.broken.append({"kind": "probe", "name": "rwstress", "detail": (sout[-300:] + serr[-600:])})
        # senders vs. the receiver on the node state table: the first message to ever new nodes is submitted while the receiver
        # processes the node's first uplink message (both look the node up and create its entry)
        try:
            texe = vlib.build_harness(san="tsan")
            txs = ["start 1 - 0", "logw 0", "txstress %d" % (300 if ck.tier == "quick" else 6000)]
            trc, tout, terr = vlib.run_driver(texe, "\n".join(txs) + "\n", timeout=600, env_extra=TSAN_ENV)
            traces, _o = tsan_races(terr)
            tran = "txstress rounds" in tout
            for r_ in traces[:2]:
                ck.violation("race.tsan.tx.%s" % r_["function"], {"property": "C10", "tsan": True, "script": txs, "tsan_report": r_["report"], "function": r_["function"], "file": r_["file"], "line": r_["line"],
                             "reason": "ThreadSanitizer reports a data race in library code between a sender and the receiver thread on a node's first use",
                             "meaning": "ThreadSanitizer build of the harness; txstress <rounds>: per round a new node address, its first uplink message is pushed to the receiver thread while the script thread submits the first message to it"})
            if not tran and not traces:
                ck.violation("race.tx-stress-died", {"property": "C10", "script": txs, "driver_rc": trc, "observed": tout[-300:], "stderr": terr[-800:], "reason": "the driver died while senders raced the receiver on new nodes"})
            ck.oblige("tx stress on the real code under ThreadSanitizer (first message to a new node vs. the receiver processing that node's first uplink message): no data race reported in library frames", tran and not traces, "%d race report(s)" % len(traces))
        except vlib.BuildBroken as e:
            ck.oblige("tx stress under ThreadSanitizer (harness build)", False, str(e)[:300])
    def demonstrated(d):
        for r in races:
            if r["function"] == d.get("function") or any(f[0] == d.get("function") for f in r["library_frames"]): return r
        return None
    seen = set()
    for d in (rw_diag + [dict(e, entry=e["chain"][0], call_chain=e["chain"]) for e in rw_all] + wr_unlocked):
        k = (d.get("function"), d.get("global"))
        if k in seen: continue
        seen.add(k)
        key = ("rw.write-under-rdlock.%s.%s" if d.get("kind") == "rw" else "rw.write-unlocked.%s.%s") % (d.get("function"), d.get("global"))
        content = {"property": "C10", "violated_fact": "C10_writes_hold_exclusive", "function": d.get("function"), "file": d.get("file"), "line": d.get("line"),
                   "global": d.get("global"), "guard": d.get("guard"), "mode": d.get("mode"), "locks_held": d.get("held"), "entry": d.get("entry"), "call_chain": d.get("call_chain"),
                   "reason": "%s (%s:%s) writes data reached from %s while holding %s; a concurrent reader holding the read lock of %s races with this write"
                             % (d.get("function"), d.get("file"), d.get("line"), d.get("global"), ", ".join(d.get("held") or []) or "no lock", d.get("guard"))}
        r = demonstrated(d)
        if r is not None:
            content.update({"tsan": True, "script": [l.replace(vlib.REPO, "$REPO") for l in stress[0]], "tsan_report": r["report"], "meaning": "ThreadSanitizer build of the harness; rwstress <readers> <rounds> <board> <train> <frame A> <frame B>: reader threads call getters while the receiver thread processes the two uplink frames alternately"})
            ck.violation(key, content)
        else:
            content["note"] = "no racing run found: the ThreadSanitizer stress (getters vs. node-new/node-lost on the receiver thread) and the forced-schedule probes do not drive this function concurrently with a reader"
            ck.violation(key, content, no_input=True)
    for r in races:
        if not any(demonstrated(d) is r for d in rw_diag + wr_unlocked + [dict(e) for e in rw_all]):
            ck.violation("race.tsan.%s" % r["function"], {"property": "C10", "tsan": True, "script": [l.replace(vlib.REPO, "$REPO") for l in stress[0]], "tsan_report": r["report"], "function": r["function"], "file": r["file"], "line": r["line"],
                         "reason": "ThreadSanitizer reports a data race in library code while getters run concurrently with the receiver thread",
                         "meaning": "ThreadSanitizer build of the harness; rwstress <readers> <rounds> <board> <train> <frame A> <frame B>"})
    for d in other_diag[:5]:
        if d in wr_unlocked: continue
        ck.violation("lockset." + d["entry"] + "." + d["what"][:50], {"property": "C10", "failing_path": d, "note": "unguarded access on this call chain; two threads running it concurrently with any writer of the same global race"}, no_input=True)
    # atomicity of the read-modify-write commands on a train (semantic: C10_rmw_serialised): single-hold facts decided by
    # the verified checker on the regenerated lock programs; the translator's mirror explains a failure. Violations
    # are reported after the forced-schedule linearizability probe below (a lost update found there makes them concrete)
    sh10 = [d for d in side.get("single_hold", []) if d.get("table", "").startswith("c10")]
    sh10_bad = [d for d in sh10 if not d.get("ok")]
    ck.oblige("read-modify-write commands: on every path of %s all accesses to the train-state table (read of the tracked bits/speed ... store of the new ones) lie inside ONE EXCLUSIVE hold of bidib_trains_rwlock; one receiver message / bidib_send_cs_drive inside one hold of it (%d single-hold facts, verified checker; premise of C10_rmw_serialised)"
              % (", ".join(d["function"] for d in sh10 if d["table"] == "c10_rmw"), len(sh10)), ok_all and bool(sh10) and not sh10_bad,
              "; ".join(d.get("what", "")[:220] for d in sh10_bad[:2]) if sh10_bad else ("" if ok_all and sh10 else "Properties_C10.v / LockAtomicC10.v did not build"))
    # concurrency probe on the real code (supporting evidence and search for a concrete failing input)
    import flowgen, C01
    from vlib import Rng, hexs, unhex
    exe = vlib.build_harness()
    rr = Rng(ck.seed).fork("C10race"); probe = ["start 1 - 0"]; pm = []
    for i in range(6 if ck.tier == "quick" else 60):
        a = C01.gen_msg(rr, 20); b = C01.gen_msg(rr, 20); pm.append((a, b))
        probe += ["case r%d" % i, "cap 0", "flush", "race_flush %s %s" % (hexs(a), hexs(b)), "flush"]
    rc, out, err = vlib.run_driver(exe, "\n".join(probe) + "\n", timeout=120)
    pc = vlib.split_cases(out); race_bad = 0
    for i, (a, b) in enumerate(pm):
        chunks = [unhex(l[2:]) for l in pc.get("r%d" % i, []) if l.startswith("w ")]
        pk = flowgen.decode_wire(chunks)
        if pk is None or sorted(hexs(m) for p in pk for m in p) != sorted([hexs(a), hexs(b)]):
            race_bad += 1
            ck.violation("race.flush-vs-write-callback", {"property": "C10", "scenario": "thread 1: add A, flush (slow write callback); thread 2 meanwhile: add B, flush",
                         "A": hexs(a), "B": hexs(b), "wire_chunks": [hexs(c) for c in chunks], "reason": "concurrent flush corrupted the packet being written"})
    ck.oblige("concurrency probe: flush racing a slow write callback (%d runs)" % len(pm), race_bad == 0, "%d bad" % race_bad)
    # two senders under forced schedules: each message intact and once on the wire (shared with C01)
    C01.two_sender_probe(ck, Rng(ck.seed).fork("C10send"), "C10")
    # two readers competing for the last queued message: reader A is parked before its k-th mutex acquisition
    # inside the read function while reader B pops; each message must go to exactly one reader
    exe3 = vlib.build_harness(wrap=("pthread_mutex_lock",))
    L = ["start 1 - 0"]; rp = []
    for k in (1, 2):
        for q, ty in (("q", 0x82), ("e", 0x8B)):
            m = flowgen.upmsg([1], 0, ty, [k, 7])
            rp.append((k, q, m))
            L += ["case q%d%s" % (k, q), "debugmode %d" % (1 if q == "q" else 0), "discard q", "discard e", "rx " + hexs(flowgen.frame(m)), "schedread %d %s" % (k, q), "drain " + q]
    rc, out, err = vlib.run_driver(exe3, "\n".join(L) + "\n", timeout=120)
    qc = vlib.split_cases(out); rbad = 0
    for k, q, m in rp:
        ls = qc.get("q%d%s" % (k, q))
        got = [l for l in (ls or []) if l.startswith("reader") and not l.endswith("none")]
        left = [l for l in (ls or []) if l.startswith(q + " ") and not l.endswith("none")]
        if ls is None or len(got) + len(left) != 1 or (got and got[0].split()[1] != hexs(m)):
            rbad += 1
            ck.violation("race.two-readers-one-message", {"property": "C10", "scenario": "one queued message; reader A parked before its %d-th mutex acquisition inside the read function while reader B pops" % k,
                         "queue": q, "message": hexs(m), "observed": ls, "driver_rc": rc, "stderr": err[-500:], "reason": "the message was not returned to exactly one reader (or a reader crashed)"})
    ck.oblige("concurrency probe: two readers racing for one queued message (%d forced schedules)" % len(rp), rbad == 0, "%d bad" % rbad)
    # linearizability of the read-modify-write commands on one train: command A is parked before its k-th mutex acquisition while
    # command B runs (or blocks on a lock A holds); the final tracked state must be that of a serial order (both effects present)
    cfg10 = os.path.join(vlib.VERIF, "corpus", "C10", "cfg")
    pairs = [("tper t1 head 1 master", "tper t1 cabin 1 master", {"head": 1, "cabin": 1}, None),
             ("tper t1 head 1 master", "tper t1 smoke 1 master", {"head": 1, "smoke": 1}, None),
             ("speed t1 50 master", "tper t1 horn 1 master", {"horn": 1}, 50),
             ("tper t1 horn 1 master", "speed t1 -30 master", {"horn": 1}, -30),
             ("tper t1 cabin 1 master", "tper t1 horn 1 master", {"cabin": 1, "horn": 1}, None)]
    L = ["start 0 %s 0" % cfg10, "logw 0", "nodenew 0 0 0 0 da000d680001ee"]; hp = []
    for pi, (ja, jb, want, spd) in enumerate(pairs):
        for k in range(1, (9 if ck.tier == "quick" else 17)):
            cid = "h%d_%d" % (pi, k); hp.append((cid, k, ja, jb, want, spd))
            L += ["case " + cid, "reset_nodes"] + ["hlseq tper t1 %s 0 master" % x for x in ("head", "cabin", "horn", "smoke")] + ["hlseq speed t1 0 master", "flush", "reset_nodes",
                  "schedhl %d %s %s" % (k, ja, jb), "flush", "trainstate t1"]
    rc, out, err = vlib.run_driver(exe3, "\n".join(L) + "\n", timeout=300)
    hc = vlib.split_cases(out); hbad = 0; inside = 0; lost = []
    for cid, k, ja, jb, want, spd in hp:
        ls = hc.get(cid) or []
        st = next((l for l in ls if l.startswith("trainstate t1 ")), None); sh = next((l for l in ls if l.startswith("schedhl ")), "")
        if " b-inside 1" in sh: inside += 1
        ok = st is not None and " retA 0 retB 0" in sh
        if ok:
            f = st.split(); per = dict(x.split("=") for x in f[f.index("per") + 1:]); speed = int(f[f.index("speed") + 1])
            ok = all(int(per.get(n, -1)) == v for n, v in want.items()) and (spd is None or speed == spd)
        if not ok:
            hbad += 1
            lost.append({"A": ja, "B": jb, "k": k, "observed": ls, "script": [l.replace(vlib.VERIF, "$VERIF") for l in L[:3]] + ["schedhl %d %s %s" % (k, ja, jb), "flush", "trainstate t1"]})
            if hbad <= 2:
                ck.violation("race.lost-update.train-commands", {"property": "C10", "scenario": "command A parked before its %d-th mutex acquisition while command B runs; then A continues" % k,
                             "A": ja, "B": jb, "expected_final_state": {"peripherals": want, "speed": spd}, "observed": ls, "driver_rc": rc, "stderr": err[-400:],
                             "script": [l.replace(vlib.VERIF, "$VERIF") for l in L[:3]] + ["schedhl %d %s %s" % (k, ja, jb), "flush", "trainstate t1"],
                             "reason": "the final tracked state is not the outcome of any serial order of the two commands (an effect was lost), or a command failed"})
    ck.oblige("concurrency probe: two commands on one train under forced schedules are serialisable (%d schedules; in %d of them B completed while A was parked)" % (len(hp), inside), hbad == 0, "%d bad" % hbad)
    # getters against the receiver: a getter is parked before its k-th mutex acquisition while the receiver processes a report
    # that takes the train off the track (or puts it on); the getter must return and free its result (a two-pass getter that
    # releases the lock between counting and copying frees an uninitialised pointer here; ASan build, one process per schedule)
    from concurrent.futures import ThreadPoolExecutor
    on = hexs(flowgen.frame(flowgen.upmsg([], 4, 0xA3, [0, 0x23, 0x01]))); off = hexs(flowgen.frame(flowgen.upmsg([], 5, 0xA1, [0])))
    gp = [(k, job, first, second) for k in range(1, 7) for job in ("ontrack", "getstate", "trainpos t1", "trainst t1") for first, second in ((on, off), (off, on))]
    def gone(x):
        k, job, first, second = x
        sc = ["start 0 %s 0" % cfg10, "logw 0", "nodenew 0 0 0 0 da000d680001ee", "rx " + first, "schedhlrx %d %s %s" % (k, job, second), "mark done"]
        rc_, out_, err_ = vlib.run_driver(exe3, "\n".join(sc) + "\n", timeout=60)
        return x, sc, rc_, out_, err_
    with ThreadPoolExecutor(8) as ex_: gres = list(ex_.map(gone, gp))
    gbad = 0; torn = {}
    for (k, job, first, second), sc, rc_, out_, err_ in gres:
        if rc_ != 0 or "mark done" not in out_:
            gbad += 1; fnm = {"ontrack": "bidib_get_trains_on_track", "getstate": "bidib_get_state", "trainpos": "bidib_get_train_position", "trainst": "bidib_get_train_state"}[job.split()[0]]
            if fnm not in torn:
                torn[fnm] = {"script": [l.replace(vlib.VERIF, "$VERIF") for l in sc], "driver_rc": rc_, "observed": out_[-300:], "stderr": err_[-1500:]}
    ck.oblige("concurrency probe: getters parked inside while the receiver moves a train on / off the track return and free their result (%d forced schedules)" % len(gp), gbad == 0, "%d bad" % gbad)
    for fnm, rp_ in torn.items():
        if not any(d["function"] == fnm for d in sh10_bad):
            ck.violation("atomic.getter-torn.%s" % fnm, dict(rp_, property="C10", function=fnm, reason="the getter crashed or did not return when the receiver changed the state between two of its lock acquisitions"))
    # a false single-hold fact: name function and lock; concrete when the probe lost an update in a command of that function
    CMD = {"tper": "bidib_set_train_peripheral", "speed": "bidib_set_train_speed", "cspeed": "bidib_set_calibrated_train_speed", "estop": "bidib_emergency_stop_train"}
    seen_sh = set()
    for d in sh10_bad:
        k = (d["function"], d["lock"])
        if k in seen_sh: continue
        seen_sh.add(k)
        content = {"property": "C10", "violated_fact": "C10_rmw_serialised (LockAtomicC10.c10_single_hold)", "function": d["function"], "lock": d["lock"], "exclusive": d["exclusive"],
                   "globals": d["globals"], "diagnosis": d.get("why"), "reason": d.get("what")}
        hit = next((x for x in lost if d["function"] in (CMD.get(x["A"].split()[0]), CMD.get(x["B"].split()[0]))), None)
        if d["table"] == "c10_getter":
            content["violated_fact"] = "C10_getters_single_hold (LockAtomicC10.c10_getter_single_hold)"
            if d["function"] in torn:
                content.update(torn[d["function"]]); content["scenario"] = "the getter is parked before its k-th mutex acquisition while the receiver processes an occupancy report; then it continues"
                ck.violation("atomic.getter-not-in-one-hold.%s.%s" % k, content)
            else:
                content["note"] = "the forced-schedule getter probe found no crash for this getter"
                ck.violation("atomic.getter-not-in-one-hold.%s.%s" % k, content, no_input=True)
            continue
        if hit is not None:
            content.update({"script": hit["script"], "A": hit["A"], "B": hit["B"], "observed": hit["observed"], "expected_final_state": "both effects present (serial order)",
                            "scenario": "command A parked before its %d-th mutex acquisition while command B runs; then A continues: an update is lost" % hit["k"]})
            ck.violation("atomic.rmw-not-in-one-hold.%s.%s" % k, content)
        else:
            content["note"] = "the forced-schedule probe (schedhl) lost no update in a command of this function"
            ck.violation("atomic.rmw-not-in-one-hold.%s.%s" % k, content, no_input=True)
    ck.coverage["single_hold_facts"] = [{"table": d["table"], "function": d["function"], "lock": d["lock"], "exclusive": d["exclusive"], "globals": d["globals"], "ok": d["ok"]} for d in sh10]
    ck.coverage["atomic_example"] = side.get("atomic_example", {})
    ck.coverage.update({"evaluations": side.get("contexts", 0), "distinct_nontrivial": len(side.get("globals", [])),
                        "rule": "all thread-safe public functions and internal threads checked context-sensitively against the guard table (guards from the 'guarded by' comments of bidib_state_intern.h plus the fixed table in the translator), every access with its read/write mode; distinct_nontrivial = guarded globals / guarded calls; evaluations = distinct (function, boolean arguments, held locks with mode) contexts",
                        "samples": [{"global": g, "guard": l} for g, l in list(side.get("guards", {}).items())[:8]], "exhaustive": True,
                        "rwlocks": rwl,
                        "access_sites_per_guard": {l: {"read": tot(l, "read"), "write": tot(l, "write"), "per_global": sites.get(l, {})} for l in sorted(sites, key=str)},
                        "access_checks_distribution": side.get("access_checks", {}),
                        "param_writers": len(side.get("param_writers", {})),
                        "unclassified_externals_receiving_guarded_data": side.get("unclassified_externals", {}),
                        "nonvacuity_witness": side.get("example", {}), "line_numbers_checked": side.get("line_numbers_checked")})
    ck.assumptions += ["partial: accesses through pointers obtained under a lock and used after its release are not tracked; getter atomicity across guards is covered only where a single-hold fact is listed (coverage.single_hold_facts)",
                       "read/write classification is syntactic with one-level pointer taint (see notes/C10-rw/README.txt): writes through pointer members of by-value struct copies, through out-parameters filled by external functions, and through function-pointer callbacks are not seen; external functions receiving guarded data that are in neither the mutator nor the reader table count as reads and are listed in coverage.unclassified_externals_receiving_guarded_data",
                       "DRF => SC for C11; volatile bool flags are written only in start/stop/reset (README excludes them from concurrent use)"]
    return vlib.finish_with_broken(ck, trusted=vlib.TRUSTED_COMMON + ["translator/gen_lockcfg.py (clang AST -> structured lock programs)"])

def replay(ck, path):
    import os, json
    if os.path.exists(path):
        d = json.load(open(path))
        if d.get("tsan") and "script" in d:
            print("replay of %s" % path)
            for k in ("reason", "function", "file", "line", "global", "locks_held", "meaning"):
                if k in d: print("%s: %s" % (k, json.dumps(d[k])[:800]))
            exe = vlib.build_harness(san="tsan")
            d["script"] = [l.replace("$REPO", vlib.REPO) for l in d["script"]]
            rc, out, err = vlib.run_driver(exe, "\n".join(d["script"]) + "\n", timeout=300, env_extra=TSAN_ENV)
            races, other = tsan_races(err)
            print("--- script"); print("\n".join(d["script"]))
            print("--- implementation under ThreadSanitizer (exit %d): %d data race report(s) in library frames" % (rc, len(races))); print(out)
            for r in races[:3]: print(r["report"])
            return 0
        if "expected_final_state" in d and "script" in d:
            print("replay of %s" % path)
            for k in ("reason", "scenario", "A", "B", "expected_final_state"):
                if k in d: print("%s: %s" % (k, json.dumps(d[k])[:800]))
            script = [l.replace("$VERIF", vlib.VERIF) for l in d["script"]]
            exe = vlib.build_harness(wrap=("pthread_mutex_lock",))
            rc, out, err = vlib.run_driver(exe, "\n".join(script) + "\n", timeout=120)
            print("--- script"); print("\n".join(script))
            print("--- implementation (exit %d)" % rc); print(out)
            return 0
    return vlib.replay_generic(ck, path)
