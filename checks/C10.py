"""C10 — documented thread-safe API is race-free and atomic under concurrent use (lock-granularity part)."""
import vlib

def run(ck):
    cdir, ok = vlib.proof_phase(ck, "Properties_C10.v", translators=("tables", "lockcfg"))
    diag, side = vlib.lock_diagnosis(cdir, kinds=("guard", "balance", "order"), threadsafe_only=True)
    ck.oblige("lockset: every guarded access holds its guard on every path of %d thread-safe functions + thread mains" % len(side.get("threadsafe", [])), ok and not diag, "; ".join(d["what"] for d in diag[:3]))
    for d in diag[:5]:
        ck.violation("lockset." + d["entry"] + "." + d["what"][:50], {"property": "C10", "failing_path": d, "note": "unguarded access on this call chain; two threads running it concurrently with any writer of the same global race"}, no_input=True)
    # concurrency probe on the real code (supporting evidence and search for a concrete failing input)
    import flowgen, C01
    from vlib import Rng, hexs, unhex
    exe = vlib.build_harness()
    rr = Rng(ck.seed).fork("C10race"); probe = ["start 1 - 0"]; pm = []
    for i in range(6 if ck.tier == "quick" else 60):
        a = C01.gen_msg(rr, 20); b = C01.gen_msg(rr, 20); pm.append((a, b))
        probe += ["case r%d" % i, "cap 0", "flush", "race_flush %s %s" % (hexs(a), hexs(b)), "flush"]
    rc, out, err = vlib.run_driver(exe, "\n".join(probe) + "\n", timeout=120)
    pc = vlib.split_cases(out); race_bad = 0
    for i, (a, b) in enumerate(pm):
        chunks = [unhex(l[2:]) for l in pc.get("r%d" % i, []) if l.startswith("w ")]
        pk = flowgen.decode_wire(chunks)
        if pk is None or sorted(hexs(m) for p in pk for m in p) != sorted([hexs(a), hexs(b)]):
            race_bad += 1
            ck.violation("race.flush-vs-write-callback", {"property": "C10", "scenario": "thread 1: add A, flush (slow write callback); thread 2 meanwhile: add B, flush",
                         "A": hexs(a), "B": hexs(b), "wire_chunks": [hexs(c) for c in chunks], "reason": "concurrent flush corrupted the packet being written"})
    ck.oblige("concurrency probe: flush racing a slow write callback (%d runs)" % len(pm), race_bad == 0, "%d bad" % race_bad)
    # two readers competing for the last queued message: reader A is parked before its k-th mutex acquisition
    # inside the read function while reader B pops; each message must go to exactly one reader
    exe3 = vlib.build_harness(wrap=("pthread_mutex_lock",))
    L = ["start 1 - 0"]; rp = []
    for k in (1, 2):
        for q, ty in (("q", 0x82), ("e", 0x8B)):
            m = flowgen.upmsg([1], 0, ty, [k, 7])
            rp.append((k, q, m))
            L += ["case q%d%s" % (k, q), "debugmode %d" % (1 if q == "q" else 0), "discard q", "discard e", "rx " + hexs(flowgen.frame(m)), "schedread %d %s" % (k, q), "drain " + q]
    rc, out, err = vlib.run_driver(exe3, "\n".join(L) + "\n", timeout=120)
    qc = vlib.split_cases(out); rbad = 0
    for k, q, m in rp:
        ls = qc.get("q%d%s" % (k, q))
        got = [l for l in (ls or []) if l.startswith("reader") and not l.endswith("none")]
        left = [l for l in (ls or []) if l.startswith(q + " ") and not l.endswith("none")]
        if ls is None or len(got) + len(left) != 1 or (got and got[0].split()[1] != hexs(m)):
            rbad += 1
            ck.violation("race.two-readers-one-message", {"property": "C10", "scenario": "one queued message; reader A parked before its %d-th mutex acquisition inside the read function while reader B pops" % k,
                         "queue": q, "message": hexs(m), "observed": ls, "driver_rc": rc, "stderr": err[-500:], "reason": "the message was not returned to exactly one reader (or a reader crashed)"})
    ck.oblige("concurrency probe: two readers racing for one queued message (%d forced schedules)" % len(rp), rbad == 0, "%d bad" % rbad)
    ck.coverage.update({"evaluations": side.get("contexts", 0), "distinct_nontrivial": len(side.get("globals", [])),
                        "rule": "all thread-safe public functions and internal threads checked context-sensitively against the guard table (guards from the 'guarded by' comments of bidib_state_intern.h plus the fixed table in the translator); distinct_nontrivial = guarded globals / guarded calls",
                        "samples": [{"global": g, "guard": l} for g, l in list(side.get("guards", {}).items())[:8]], "exhaustive": True})
    ck.assumptions += ["partial: accesses through pointers obtained under a lock and used after its release are not tracked; read/write mode of rwlock-guarded data is not distinguished",
                       "DRF => SC for C11; volatile bool flags are written only in start/stop/reset (README excludes them from concurrent use)"]
    return vlib.finish_with_broken(ck, trusted=vlib.TRUSTED_COMMON + ["translator/gen_lockcfg.py (clang AST -> structured lock programs)"])

def replay(ck, path):
    return vlib.replay_generic(ck, path)
