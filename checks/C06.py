"""C06 — each uplink message has exactly one destination; queues FIFO, bounded, once-only."""
import subprocess, os, re
import vlib, flowgen
from vlib import Rng, hexs, unhex
from flowgen import frame, upmsg

def run(ck):
    quick = ck.tier == "quick"
    cdir, ok = vlib.proof_phase(ck, "Properties_C06.v", translators=("tables", "dispatch", "access", "lockcfg"))
    # lock fact: each uplink queue is only touched under its own mutex (readers racing the receiver)
    okl, logl = vlib.coq_make(cdir, ["LockProofs.vo", "LockQueues.vo"])
    diag, side = vlib.lock_diagnosis(cdir, kinds=("guard", "balance"), threadsafe_only=True)
    rel = [d for d in diag if "uplink_" in d["what"]]
    # ... and on every other public function that runs while the receiver thread is alive (reset, stop): C06_queue_access_guarded
    rel += [{"entry": e["entry"], "what": e["what"], "call_chain": e.get("chain", []), **{k: e[k] for k in ("function", "file", "line", "global", "guard", "mode", "held") if k in e}}
            for e in side.get("queue_errors", []) if not any(d["entry"] == e["entry"] and d["what"] == e["what"] for d in rel)]
    ck.oblige("lock fact: uplink queues only used under their own mutex (every public function but the start functions, and the library threads)", okl and not rel, "; ".join(d["what"] for d in rel[:3]))
    if not okl or rel:
        ck.broken.append({"kind": "lock-fact", "name": "guarded_by uplink queue mutexes", "detail": rel[:5] or logl[-800:]})
    # readers racing the receiver on the real code, under ThreadSanitizer: application threads pop both user queues while the
    # receiver appends a message-queue type and an error-queue type; every message is returned once and no access races
    try:
        import C10
        vlib.CURRENT_EXTS = ("C10",)
        texe = vlib.build_harness(san="tsan")
        rounds = 60 if quick else 1000
        fa = hexs(frame(upmsg([1], 1, 0x82, [7]))); fb = hexs(frame(upmsg([1], 2, 0x8B, [1, 2])))
        tscript = ["start 0 - 0", "logw 0", "qstress 4 %d %s %s" % (rounds, fa, fb)]
        trc, tout, terr = vlib.run_driver(texe, "\n".join(tscript) + "\n", timeout=300, env_extra=C10.TSAN_ENV)
        races, other = C10.tsan_races(terr)
        got = re.search(r'qstress readers \d+ rounds (\d+) rx-timeouts (\d+) popped\+left (\d+)', tout)
        lost = got is None or int(got.group(3)) != 2 * rounds
        for rr_ in races[:2]:
            ck.violation("race.tsan.%s" % rr_["function"], {"property": "C06", "tsan": True, "script": tscript, "tsan_report": rr_["report"], "function": rr_["function"], "file": rr_["file"], "line": rr_["line"],
                         "reason": "ThreadSanitizer reports a data race in library code while readers pop the user queues and the receiver appends"})
        if lost and not races:
            ck.violation("race.queue-stress-count", {"property": "C06", "script": tscript, "observed": tout[-400:], "driver_rc": trc, "stderr": terr[-600:], "reason": "messages were lost or returned twice (or the driver died) while readers raced the receiver"})
        ck.oblige("readers racing the receiver under ThreadSanitizer: %d messages, each returned once, no race in library frames" % (2 * rounds), not races and not lost, "%d race report(s), count ok: %s" % (len(races), not lost))
        # the queue resets of bidib_send_sys_reset racing the receiver (the application may not call anything else during a
        # reset, but the library's own receiver thread keeps appending)
        fi = hexs(frame(upmsg([1], 3, 0x90, [1, 2])))
        rscript = ["start 0 - 0", "logw 0", "qreset %d %s %s" % (rounds, hexs(frame(upmsg([1], 1, 0x82, [7]) + upmsg([1], 2, 0x8B, [1, 2]))), fi)]
        rrc, rout, rerr = vlib.run_driver(texe, "\n".join(rscript) + "\n", timeout=300, env_extra=C10.TSAN_ENV)
        rraces, _ = C10.tsan_races(rerr)
        for rr_ in rraces[:2]:
            ck.violation("race.tsan.reset.%s" % rr_["function"], {"property": "C06", "tsan": True, "script": rscript, "tsan_report": rr_["report"], "function": rr_["function"], "file": rr_["file"], "line": rr_["line"],
                         "reason": "ThreadSanitizer reports a data race in library code between the queue resets of a system reset and the receiver thread appending"})
        rdead = "qreset rounds" not in rout
        if rdead and not rraces:
            ck.violation("race.queue-reset-died", {"property": "C06", "script": rscript, "driver_rc": rrc, "observed": rout[-300:], "stderr": rerr[-800:], "reason": "the driver died while queue resets raced the receiver"})
        ck.oblige("queue resets (as in bidib_send_sys_reset) racing the receiver under ThreadSanitizer: %d rounds, no race in library frames" % rounds, not rraces and not rdead, "%d race report(s)" % len(rraces))
    except vlib.BuildBroken as e:
        ck.oblige("readers racing the receiver under ThreadSanitizer (harness build)", False, str(e)[:300])
    finally:
        vlib.CURRENT_EXTS = ()
    # exactly one consumer: the library itself never takes a message out of a user queue (generated count, C06_user_queues_not_consumed_internally)
    try:
        import gen_dispatch
        cons = gen_dispatch.internal_user_queue_consumers(vlib.REPO)
    except Exception as e_:
        cons = [("?", 0, "translator failed: %s" % e_)]
    ck.oblige("no library function calls the public readers or pops a user queue", not cons, "; ".join("%s:%d %s" % c for c in cons[:3]))
    if cons: ck.broken.append({"kind": "generated-fact", "name": "C06_user_queues_not_consumed_internally", "detail": ["%s:%d %s" % c for c in cons],
                               "meaning": "a queued user message can now be taken (and freed) by the library itself: which consumer gets it depends on timing, not on type and content"})
    try:
        uah = gen_dispatch.use_after_handover(vlib.REPO)
    except Exception as e_:
        uah = [(0, "translator failed", str(e_))]
    ck.oblige("the dispatcher does not use a message after handing it to a queue", not uah, "; ".join("line %s after %s: %s" % u for u in uah[:2]))
    if uah: ck.broken.append({"kind": "generated-fact", "name": "C06_no_use_after_handover", "detail": ["src/transmission/bidib_transmission_receive.c:%s after %s: %s" % u for u in uah],
                              "meaning": "a reader thread that pops the message in between owns (and may free or overwrite) the bytes the receiver still reads"})
    exe = vlib.build_harness(); md = vlib.build_model_driver(cdir, "_C06")
    txt = open(os.path.join(cdir, "DispatchTab.v")).read()
    def lst(name): return [int(x) for x in re.search(r'Definition %s : list N := \[(.*?)\]\.' % name, txt).group(1).split(";") if x.strip()]
    r_err, r_errc, r_msg = lst("readme_errq"), lst("readme_errq_cond"), lst("readme_msgq")
    r = Rng(ck.seed).fork("C06")
    cases = []
    # every type code x {error variants, non-error variants} x both modes x address depths 0, 1 and 3 (2 sampled)
    for debug in (1, 0):
        for ty in range(256):
            if ty == 0x8E: continue
            for variant in range(5 if ty in r_errc else 1):
                data = [r.below(256) for _ in range(12)]
                # conditional types: error variant with a random, an all-zero and an all-ones remainder; two non-error variants
                if ty in (0xB8, 0xBA):
                    data[3] = [0x80, 0x00, 0x01, 0x80, 0x80][variant]
                    if variant >= 3: data[4] = [0x00, 0xFF][variant - 3]
                if ty == 0xB0: data[0] = [0x01, 0x80, 0x83, 0x00, 0xFF][variant]
                if ty == 0xE6: data[0] = [1, 0, 2, 0xFF, 0x80][variant]
                if ty in (0x8C, 0x8D): data = data[:9]
                if ty == 0xA2: data[1] = 8      # bm_multiple: size 8 bits
                if ty == 0x93: data = [1, 65, 1, 66]   # vendor: length-prefixed strings
                if ty == 0xB2: data = data[:4]
                for addr in ([[1], [], [1, 2, 3]] if variant == 0 else [[[1], [], [1, 2], [1, 2, 3]][r.below(4)]]):
                    cases.append((debug, [("rx", upmsg(addr, r.below(256), ty, data))], "type"))
    # the dispatcher's guard: for every type with a minimum number of data bytes (generated table) a message one byte short and
    # one with exactly the minimum, in both modes (short: dropped in normal mode, queued in debug mode; exact: routed as always)
    atxt = open(os.path.join(cdir, "AccessTab.v")).read() if os.path.exists(os.path.join(cdir, "AccessTab.v")) else ""
    mm = re.search(r'Definition min_tab : list \(N \* nat\) := \[(.*?)\]\.', atxt)
    minima = [(int(a), int(b)) for a, b in re.findall(r'\((\d+)%N, (\d+)\)', mm.group(1))] if mm else []
    # smallest valid payload of the types that reach a queue, from the protocol comments of bidib_messages.h (independent of the
    # code's own table): the guard must never drop a payload of at least this length
    SPEC_MIN = {0x86: 1, 0x88: 1, 0x89: 9, 0x90: 2, 0xAC: 5, 0xB8: 5, 0xBA: 5, 0xB0: 1}
    too_strict = [(ty, mn) for ty, mn in minima if ty in SPEC_MIN and mn > SPEC_MIN[ty]]
    ck.oblige("the dispatcher's minimum data lengths do not exceed the protocol's smallest valid payload for any queue-routed type", not too_strict,
              ", ".join("type %02x: %d > %d" % (ty, mn, SPEC_MIN[ty]) for ty, mn in too_strict))
    for debug in (1, 0):
        for ty, mn in sorted(set(minima) | set((t, dict(minima).get(t, 0)) for t in SPEC_MIN)):
            if ty == 0x8E: continue
            for n in sorted(set([0, mn - 1, mn, SPEC_MIN.get(ty, mn) - 1, SPEC_MIN.get(ty, mn)])):
                if n < 0: continue
                data = [r.choice([0, 1, 2, 8, 0x80]) for _ in range(n)]
                if ty == 0xA2 and n >= 2: data[1] = 0
                if ty == 0x93 and n >= 1: data = [0] * n
                cases.append((debug, [("rx", upmsg([1], r.below(256), ty, data))], "guard"))
    # queue bound: 126..130 messages then drain; interleaved pops
    for k in (126, 127, 128, 129, 130, 200):
        for ty in (0x82, 0x8B):
            ev = [("rx", upmsg([], i & 255, ty, [i & 255, i >> 8])) for i in range(k)]
            cases.append((0, ev, "bound"))
    for _ in range(40 if quick else 2000):
        ev = []
        for _ in range(r.range(5, 300)):
            if r.chance(3, 4): ev.append(("rx", upmsg([], r.below(256), r.choice([0x82, 0x8B, 0x91]), [r.below(256)])))
            else: ev.append((r.choice(["readq", "reade"]),))
        cases.append((0, ev, "fifo"))
    def script(idx):
        L = []
        cur = None
        for i in idx:
            debug, ev, kind = cases[i]
            L += ["case %d" % i, "debugmode %d" % debug, "discard q", "discard e", "discard i"]
            for e in ev:
                if e[0] == "rx": L.append("rx " + hexs(frame(e[1])))
                else: L.append(e[0])
            L += ["drain q", "drain e", "drain i", "flush"]
        return "start 1 - 0\nlogw 0\n" + "\n".join(L) + "\n"
    idx = list(range(len(cases)))
    rc, out, err = vlib.run_driver(exe, script(idx), timeout=900)
    mo = subprocess.run([md], input=script(idx), capture_output=True, text=True, timeout=900)
    impl = vlib.split_cases(out); model = vlib.split_cases(mo.stdout)
    dis = 0; bad = 0; dist = {}
    for i in idx:
        debug, ev, kind = cases[i]
        dist[kind] = dist.get(kind, 0) + 1
        il = impl.get(str(i)); ml = model.get(str(i))
        if il is None:
            ck.violation("receiver-crash", {"property": "C06", "case": [hexs(e[1]) if e[0] == "rx" else e[0] for e in ev], "rc": rc, "stderr": err[-1200:]}); continue
        # oracle from the README (independent of the model)
        if kind in ("type", "guard"):
            m = ev[0][1]; ty = flowgen.msg_fields(m)[2]; hx = hexs(m)
            inq = ("q " + hx) in il; ine = ("e " + hx) in il; ini = ("i " + hx) in il
            n_dest = inq + ine + ini
            why = None
            nd = len(flowgen.msg_fields(m)[3])
            short = kind == "guard" and nd < SPEC_MIN.get(ty, dict(minima).get(ty, 0))          # not a valid payload: outside the property
            if kind == "guard" and short and nd >= dict(minima).get(ty, 0): continue             # invalid but not dropped: unjudged
            if n_dest > 1: why = "message placed in more than one queue"
            elif debug and not inq: why = "debug mode: message not in the message queue"
            elif not debug and short:
                if n_dest: why = "message with fewer data bytes than its type requires was queued instead of dropped"
            elif not debug:
                data = flowgen.msg_fields(m)[3]
                if ty in r_err and not ine: why = "README error-queue type not in the error queue"
                if ty in r_msg and not inq: why = "README message-queue type not in the message queue"
                if ty in r_errc:
                    iserr = (ty in (0xB8, 0xBA) and data[3] == 0x80) or (ty == 0xB0 and data[0] not in (0x80, 0x81, 0x82, 0x84, 0, 4, 5, 6, 3)) or (ty == 0xE6 and data[0] == 1)
                    if iserr != ine: why = "conditional error type: error variant %s but in error queue %s" % (iserr, ine)
                if ty in (0x81, 0x88, 0x89, 0x90, 0x92) and not ini: why = "startup type not kept for the library's own dialogue"
            if why:
                bad += 1
                key = "dispatch.type-%02x" % ty
                ck.violation(key, {"property": "C06", "debug_mode": debug, "message": hx, "queues": il, "reason": why})
        else:
            # FIFO / bound / once: replay the spec "newest 128 of everything added, pops oldest first"
            spec = {"q": [], "e": []}; exp = []
            for e in ev:
                if e[0] == "rx":
                    ty = flowgen.msg_fields(e[1])[2]; t = "e" if ty in r_err else "q"
                    spec[t].append(hexs(e[1]))
                    if len(spec[t]) > 128: spec[t].pop(0)
                else:
                    t = e[0][4]; exp.append("%s %s" % (t, spec[t].pop(0)) if spec[t] else "%s none" % t)
            for t in ("q", "e"): exp += ["%s %s" % (t, x) for x in spec[t]] + ["%s none" % t]
            exp.append("i none")
            if il != exp:
                bad += 1
                ck.violation("queue-order-or-bound", {"property": "C06", "events": [hexs(e[1]) if e[0] == "rx" else e[0] for e in ev][:400], "expected": exp[:300], "observed": il[:300],
                             "reason": "queue contents differ from 'FIFO of everything added, newest 128 kept, each returned once'"})
        if il != ml:
            dis += 1
            if dis <= 3: ck.broken.append({"kind": "correspondence", "name": "corr_dispatch", "case": [hexs(e[1]) if e[0] == "rx" else e[0] for e in ev][:50], "impl": il[:50], "model": (ml or [])[:50]})
    ck.oblige("correspondence corr_dispatch (impl == model on %d cases)" % len(cases), dis == 0, "%d disagreements" % dis)
    ck.oblige("README/queue oracle accepts implementation behaviour (known findings excepted)", not ck.violations, "%d rejected" % bad)
    ck.coverage.update({"evaluations": len(cases), "distinct_nontrivial": len(cases) - dist.get("fifo", 0) // 2, "distribution": dist,
                        "rule": "all 255 non-stall type codes x error/non-error variants x debug/normal mode through the real receiver; queue fill 126..130 and 200; random add/pop histories; non-trivial = every type/bound case and the longer half of the FIFO histories",
                        "samples": [{"debug": cases[5][0], "msg": hexs(cases[5][1][0][1]), "impl": impl.get("5")}], "disagreements_checked": dis})
    ck.assumptions += ["'caller-owned buffer' (no double free / leak) is the ASan verdict of the harness run, not a theorem"]
    return vlib.finish_with_broken(ck, trusted=vlib.TRUSTED_COMMON + ["translator/gen_dispatch.py (switch cases and README lists)"])

def replay(ck, path):
    import json
    if os.path.exists(path) and json.load(open(path)).get("tsan"):
        import C10
        return C10.replay(ck, path)          # ThreadSanitizer build of the harness, same script
    return vlib.replay_generic(ck, path)
