"""C16 — lifecycle: safe shutdown sequence, threads joined once, no leaks, restartable."""
import os, sys, json, subprocess, threading
import vlib, simgen, C15
from vlib import Rng
from simgen import hx, tree_nodes

WRAP = C15.WRAP
KNOWN_KEYS = ()
ENV = {"ASAN_OPTIONS": "detect_leaks=1:abort_on_error=0:exitcode=77:allocator_may_return_null=1:leak_check_at_exit=0",
       "G_SLICE": "always-malloc"}      # glib's slab allocator would hide leaked queue nodes from LeakSanitizer

def probe_writes(cap, k=17):
    buf = 0; w = 0
    for _ in range(k):
        if 4 + buf > cap:
            if buf > 0: w += 1
            buf = 0
        buf += 4
        if buf > cap - 4: w += 1; buf = 0
    return w

def gen_case(r, idx, tmpdir):
    ctr = [idx * 64]
    cfg = simgen.gen_config(r, rich=True)
    if idx % 5 == 2 and sum(1 for b in cfg["boards"] if b["uid"][0] & 0x10) == 1:
        # (one track output only: with several, deferral reorders messages across nodes, which the model does not describe)
        # a shutdown burst above the response budget of one node: 7-9 trains (no functions, no initial values, so start-up is
        # unchanged); soft-stop + one zero-speed command per train exceed 48 bytes, the last ones wait for the first answers
        used = {(t["addrl"], t["addrh"]) for t in cfg["trains"]}
        while len(cfg["trains"]) < 7 + idx % 3:
            a = (r.range(1, 250), r.range(0x10, 0x27))      # above the small addresses simgen hands out to accessories and trains
            if a in used: continue
            used.add(a); cfg["trains"].append({"addrl": a[0], "addrh": a[1], "steps": r.choice([14, 28, 126]), "periphs": []})
    nb = len(cfg["boards"])
    tree = simgen.gen_tree(r, cfg, ctr, present=[i for i in range(nb) if r.chance(4, 5)], maxfan=3)
    truth = simgen.truth_of(tree, cfg)
    d = os.path.join(tmpdir, "c%d" % idx)
    case = {"idx": idx, "cfg": cfg, "tree": tree, "truth": truth, "dir": d, "baddir": d + "bad", "sessions": []}
    shape = r.choice(["mixed", "mixed", "flush-then-noflush", "silent-then-debug", "cap-then-debug", "serial-first"])
    ns = r.range(2, 4)
    for k in range(ns):
        s = {"debug": r.chance(1, 4), "cfg_ok": not r.chance(1, 6), "flush": r.choice([0, 0, 3, 7]), "answering": not r.chance(1, 5), "cap": r.choice([64, 64, 128, 200]),
             "act": [], "nocorr": False, "again": r.chance(1, 3), "capprobe": False, "stoptwice": r.chance(1, 3)}
        if shape == "flush-then-noflush": s["flush"] = 5 if k == 0 else 0
        if shape == "silent-then-debug":
            if k == 0: s.update(debug=False, answering=False)
            else: s.update(debug=True, cfg_ok=True)
        if shape == "cap-then-debug":
            if k == 0: s.update(debug=False, answering=True, cfg_ok=True, cap=r.choice([128, 200]))
            else: s.update(debug=True, cfg_ok=True, flush=0)
        # bidib_start_serial on a device that cannot be opened (valid or invalid configuration, auto-flush on/off; first session of
        # the process or after others): returns 1, creates no thread, sends nothing, leaves the library stopped
        s["serial"] = (shape == "serial-first" and k == 0) or r.chance(1, 6)
        runs = s["cfg_ok"] and (s["debug"] or s["answering"]) and not s["serial"]
        s["runs"] = runs
        if runs and r.chance(1, 4): s["partial"] = r.choice(["fe0500", "fe", "fe05000183", "fefd", "fe06010005a0"])
        if runs and s["flush"] == 0 and r.chance(2, 3): s["capprobe"] = True
        if runs and not s["debug"]:
            # activity: answered commands (state populated), unread uplink messages, optionally deferred messages
            for bi, b in enumerate(cfg["boards"]):
                for kindk, name, pre in (("points", "point", "pt"), ("signals", "signal", "sg"), ("periphs", "periph", "pe")):
                    for p in b[kindk]:
                        if r.chance(1, 2): s["act"].append("hl %s %s%d a%d" % (name, pre, p["id"], r.choice(p["aspects"])[0]))
            if r.chance(1, 2): s["act"] += ["sim_up - 87 %02x" % r.below(256), "sim_up - 8b ff"]
            cand = [(bi, p) for bi, b in enumerate(cfg["boards"]) if bi in truth and not (b["uid"][0] & 0x10) for p in b["points"] if p["num"] <= 127 and p["aspects"][0][1] <= 127]
            if cand and r.chance(1, 3):
                bi, p = r.choice(cand)
                s["act"] += ["sim_opt mute 56"] + ["hl point pt%d a%d" % (p["id"], p["aspects"][0][0])] * 7 + ["sim_opt mute -1"]
                s["nocorr"] = True; s["capprobe"] = False      # the probe messages would queue up behind the deferred ones
            elif cand and s["flush"] == 0 and r.chance(1, 3):
                # a command whose message is still in the send buffer when the session is stopped (no flush, no auto-flush): it goes
                # out with the first flush of the shutdown sequence and must not leak into the next session
                bi, p = r.choice(cand)
                s["pending"] = (bi, p["num"], p["aspects"][0][1], "hlnf point pt%d a%d" % (p["id"], p["aspects"][0][0]))
                s["capprobe"] = False
        case["sessions"].append(s)
    return case

def script_of(case):
    L = ["newprocess", "case %d" % case["idx"], "sim_reset"] + simgen.cfg_lines(case["cfg"]) + simgen.node_lines(case["tree"], 0) + ["sim_opt thlog 1"]
    for k, s in enumerate(case["sessions"]):
        # what the interface's MSG_SYS_MAGIC carries does not matter to the library (0xAFFE normally, 0xB00D from a boot loader)
        L += ["mark s%d" % k, "sim_opt silent %d" % (0 if s["answering"] else 1), "sim_opt cap %d" % s["cap"], "sim_opt magic %d" % (0xB00D if (case["idx"] + k) % 5 == 0 else 0xAFFE),
              "#cfg %s" % ("valid" if s["cfg_ok"] else "invalid"),
              ("serialstart /nonexistent/ttyBiDiB %s %d" % (case["dir"] if s["cfg_ok"] else case["baddir"] + "2", s["flush"])) if s["serial"] else
              ("simstart %d %s %d" % (1 if s["debug"] else 0, case["dir"] if s["cfg_ok"] else case["baddir"] + ("2" if s["debug"] else ""), s["flush"])), "globals"]
        if s["again"] and s["runs"]: L += ["mark again%d" % k, "simstart %d %s %d" % (1 if s["debug"] else 0, case["dir"], s["flush"])]
        if s["act"]: L += ["mark act%d" % k] + s["act"]
        if s["capprobe"]: L += ["mark cap%d" % k, "capprobe"]
        if s.get("pending"): L += ["mark pend%d" % k, s["pending"][3]]
        if s.get("partial"): L += ["rxnowait " + s["partial"]]      # the bus falls silent in the middle of a packet; the stop must still return
        L += ["mark stop%d" % k, "stop", "mark after%d" % k, "globals", "thstate"]
        if s["stoptwice"]: L += ["mark stopagain%d" % k, "stop"]
    L += ["mark leak", "leakcheck"]
    return L

def canon(lines, case):
    """thread-handle values can be reused by the C library, so only the multiset of join verdicts within one stop is
    compared; the activity section is excluded where messages are deliberately left deferred (C03's subject)"""
    out = []; sec = None; skip = False; joins = []
    nocorr = {"act%d" % k for k, s in enumerate(case["sessions"]) if s["nocorr"]}
    nocorr |= {x % k for k, s in enumerate(case["sessions"]) if s.get("pending") for x in ("pend%d", "stop%d")}      # the model has no send buffer
    def flushj():
        out.extend(sorted(joins)); joins.clear()
    for l in lines:
        if l.startswith("mark "):
            flushj(); sec = l[5:]; skip = sec in nocorr; out.append(l); continue
        if skip: continue
        if l.startswith("th join"): joins.append(l)
        else: flushj(); out.append(l)
    flushj()
    return out

def judge(case, lines):
    bad = []
    sec = C15.sections(lines)
    cfg = case["cfg"]; truth = case["truth"]
    dccb = [bi for bi, b in enumerate(cfg["boards"]) if b["uid"][0] & 0x10]
    ah = lambda bi: hx([x for x in truth[bi] if x])
    flushed_before = False; seq_off = False; kept_cap = 64
    for k, s in enumerate(case["sessions"]):
        st = sec.get("s%d" % k, [])
        rc = [l for l in st if l.startswith("start ")]
        want_rc = "start %d" % (0 if s["runs"] else 1)
        if rc != [want_rc]: bad.append(("return-code", "session %d: %r expected %r" % (k, rc, want_rc)))
        created = [l for l in st if l.startswith("th create")]
        want_c = [] if s["serial"] else ["th create recv", "th create heart"] + (["th create flush"] if s["flush"] else [])
        if s["serial"] and [l for l in st if l.startswith("t ")]: bad.append(("serial-start", "session %d: a serial start on a device that cannot be opened sent %r" % (k, [l for l in st if l.startswith("t ")][:3])))
        if created != want_c: bad.append(("threads", "session %d: created %r expected %r" % (k, created, want_c)))
        connected = s["runs"] and not s["debug"]
        # a failed start stops by itself: its joins are inside the start section
        stop_lines = sec.get("stop%d" % k, []) if s["runs"] else st
        tl = [l.split()[1:] for l in stop_lines if l.startswith("t ")] if s["runs"] else []
        if s["runs"]:
            on = [bi for bi in dccb if bi in truth] if connected else []
            exp = [[ah(bi), "62", "02"] for bi in on]
            for t in cfg["trains"]:
                fmt = {28: 2, 126: 3}.get(t["steps"], 0)
                exp += [[ah(bi), "64", "%02x%02x%02x000000000000" % (t["addrl"], t["addrh"], fmt)] for bi in on]
            exp += [[ah(bi), "62", "00"] for bi in on]
            if s.get("pending"):
                pbi, pnum, pval, _ = s["pending"]
                pm = [ah(pbi), "38", "%02x%02x" % (pnum, pval)]
                exp = [pm] + exp                       # what was buffered goes out with the first flush of the shutdown sequence
                if k + 1 < len(case["sessions"]) and any(l.split()[1:] == pm for l in sec.get("s%d" % (k + 1), []) if l.startswith("t ")) and tl[:1] != [pm]:
                    bad.append(("stale-send-buffer", "session %d: a message buffered in session %d (%r) was transmitted at the start of the next session" % (k + 1, k, pm)))
            if tl != exp: bad.append(("shutdown-traffic", "session %d: stop traffic %r expected %r" % (k, tl[:8], exp[:8])))
            idx_t = [i for i, l in enumerate(stop_lines) if l.startswith("t ")]; idx_j = [i for i, l in enumerate(stop_lines) if l.startswith("th join")]
            if idx_t and idx_j and max(idx_t) > min(idx_j): bad.append(("shutdown-traffic", "session %d: a thread is joined before the last shutdown message" % k))
        joins = [l for l in stop_lines if l.startswith("th join")]
        nlive = joins.count("th join live"); nstale = joins.count("th join STALE")
        if nlive != len(want_c): bad.append(("join", "session %d: %d live joins for %d created threads" % (k, nlive, len(want_c))))
        if nstale: bad.append(("join.stale-autoflush" if flushed_before and not s["flush"] else "join", "session %d: %d join(s) on a handle whose thread was already joined" % (k, nstale)))
        if s["flush"] and not s["serial"]: flushed_before = True
        after = sec.get("after%d" % k, [])
        if "th live 0" not in after: bad.append(("join", "session %d: threads left running after stop: %r" % (k, after)))
        if s["again"] and s["runs"]:
            ag = sec.get("again%d" % k, [])
            if ag != ["start 0"]: bad.append(("noop", "session %d: start while running did something: %r" % (k, ag)))
        if s["stoptwice"]:
            sa = sec.get("stopagain%d" % k, [])
            if sa != ["stopped"]: bad.append(("noop", "session %d: stop while stopped did something: %r" % (k, sa)))
        # restartable: what a session shows must not depend on earlier sessions
        g = [l for l in st if l.startswith("globals")]
        if s["runs"] and s["debug"] and g and "seq=1" not in g[0]:
            bad.append(("globals.seq-stays-off" if seq_off else "globals", "session %d (debug mode): sequence numbers are off (%s); a first session has them on" % (k, g[0])))
        if not s["serial"] and not s["debug"] and not s["answering"]: seq_off = True
        if not s["serial"] and not s["debug"] and s["answering"] and s["cfg_ok"]: seq_off = False
        if s["capprobe"]:
            cp = [l for l in sec.get("cap%d" % k, []) if l.startswith("capprobe")]
            mycap = max(64, s["cap"]) if not s["debug"] else 64
            want = "capprobe %d" % probe_writes(mycap)
            if cp != [want]:
                bad.append(("globals.pktcap-kept" if cp == ["capprobe %d" % probe_writes(kept_cap)] and kept_cap != mycap else "globals", "session %d: %r expected %r (packet capacity of this session %d)" % (k, cp, want, mycap)))
        if not s["serial"] and not s["debug"] and s["answering"]: kept_cap = max(64, s["cap"])
    lk = sec.get("leak", [])
    if lk != ["leak 0"]: bad.append(("leak", "LeakSanitizer after the last stop: %r" % lk))
    for l in lines:
        if l.startswith(("t-badcrc", "t-malformed", "sim-quiesce-timeout", "rx-timeout", "unknown-command", "bad-")): bad.append(("harness", l))
    return bad

def run_cases(exe, md, cases, workers=12):
    for c in cases:
        simgen.write_yaml(c["cfg"], c["dir"]); simgen.write_yaml(c["cfg"], c["baddir"])
        # what makes the configuration invalid varies: an incomplete board record, unterminated YAML in the track file (the board
        # file was parsed before), or a train record the train parser rejects after it has opened its file (board and track parsed)
        # (the variants with a valid board file are used for sessions without a bus dialogue only - debug mode, unopenable serial
        # device: with a bus the library runs the dialogue on the partly loaded configuration, which the model does not describe)
        with open(os.path.join(c["baddir"], "bidib_board_config.yml"), "w") as f: f.write("boards:\n  - id: b0\n")
        simgen.write_yaml(c["cfg"], c["baddir"] + "2")
        bk = c["idx"] % 3
        if bk == 0:
            with open(os.path.join(c["baddir"] + "2", "bidib_track_config.yml"), "w") as f: f.write("boards: [\n")
        elif bk == 1:
            with open(os.path.join(c["baddir"] + "2", "bidib_train_config.yml"), "w") as f: f.write("trains:\n  - id: tbad\n    dcc-address: 0x0001\n    dcc-speed-steps: 27\n")
        else:
            with open(os.path.join(c["baddir"] + "2", "bidib_train_config.yml"), "w") as f: f.write("trains:\n  - id: [\n")
    res = {}
    env = dict(os.environ); env.update(vlib.SAN_ENV); env.update(ENV)
    def work(part):
        # the model driver takes all cases of the part in one go ("newprocess" resets it); the library gets one process per case
        script = "\n".join(l for c in part for l in script_of(c)) + "\n"
        pm = subprocess.run([md], input=script, capture_output=True, text=True, timeout=900)
        cm = vlib.split_cases(pm.stdout)
        for c in part:
            try:
                pi = subprocess.run([exe], input="\n".join(script_of(c)) + "\n", capture_output=True, text=True, timeout=20, env=env, errors="replace")
                ci = vlib.split_cases(pi.stdout).get(str(c["idx"])); rc = pi.returncode; err = pi.stderr
            except subprocess.TimeoutExpired as e:
                ci = None; rc = -999; err = "TIMEOUT"
            res[c["idx"]] = (ci, cm.get(str(c["idx"])), rc, err[-3000:])
    th = [threading.Thread(target=work, args=(cases[i::workers],)) for i in range(workers)]
    for t in th: t.start()
    for t in th: t.join()
    return res

def describe(case):
    return {"script": script_of(case), "yaml": simgen.yaml_files(case["cfg"]), "sessions": case["sessions"]}

def evaluate(cases, res, ck=None):
    dis = 0; evals = 0; nontrivial = 0; dist = {}; samples = []; found = {}; broken = []
    for c in cases:
        il, ml, rc, err = res.get(c["idx"], (None, None, None, ""))
        evals += 1
        ss = c["sessions"]
        tag = "%d sessions" % len(ss); dist[tag] = dist.get(tag, 0) + 1
        for s in ss:
            t = ("serial-unopenable" if s["serial"] else "debug" if s["debug"] else "silent" if not s["answering"] else "bus") + ("" if s["cfg_ok"] else "+badcfg") + ("+flush" if s["flush"] else "")
            dist[t] = dist.get(t, 0) + 1
        if len({(s["debug"], s["flush"] > 0, s["answering"]) for s in ss}) > 1: nontrivial += 1
        if il is None or rc not in (0,):
            found["crash"] = found.get("crash", 0) + 1
            if ck: ck.violation("crash", {"property": "C16", "case": describe(c), "rc": rc, "stderr": err})
            elif found["crash"] <= 2: print("CRASH", c["idx"], rc, err[-1500:])
            if il is None: continue
        for key, why in judge(c, il):
            found[key] = found.get(key, 0) + 1
            if ck: ck.violation(key, {"property": "C16", "key": key, "reason": why, "case": describe(c), "implementation": il, "stderr": err[-1500:] if key == "leak" else ""})
            elif found[key] <= 2: print("ORACLE", key, c["idx"], why[:300])
        a, b = canon(il, c), canon(ml or [], c)
        if a != b:
            dis += 1
            if dis <= 3:
                d = next((i for i, (x, y) in enumerate(zip(a, b)) if x != y), min(len(a), len(b)))
                broken.append({"kind": "correspondence", "name": "corr_lifecycle", "case": describe(c), "first_difference_at": d, "impl": a[max(0, d - 4):d + 4], "model": b[max(0, d - 4):d + 4]})
        if len(samples) < 2 and len(ss) >= 3: samples.append({"script": [l for l in script_of(c) if not l.startswith(("#cfg", "sim_node"))][:60], "impl": [l for l in il if not l.startswith("t ")][:60]})
    return dis, evals, nontrivial, dist, samples, found, broken

def run(ck):
    quick = ck.tier == "quick"
    vlib.CURRENT_EXTS = ("C15",)      # the bus simulator lives in harness/ext_C15.inc
    cdir, ok = vlib.proof_phase(ck, "Properties_C16.v")
    exe = vlib.build_harness(wrap=WRAP); md = vlib.build_model_driver(cdir, "_C15")
    tmp = vlib.mktmp("vc16")
    r = Rng(ck.seed).fork("C16")
    n = 600 if quick else 15000
    cases = [gen_case(r, i, tmp) for i in range(n)]
    res = run_cases(exe, md, cases)
    dis, evals, nontrivial, dist, samples, found, broken = evaluate(cases, res, ck)
    ck.broken += broken
    ck.oblige("correspondence corr_lifecycle (impl == model: return codes, thread creations/joins, shutdown traffic, globals over %d multi-session histories)" % evals, dis == 0, "%d disagreements" % dis)
    ck.oblige("oracle: shutdown traffic before joins, every thread joined once, no-ops, LeakSanitizer, session independence", not [k for k in found if k not in KNOWN_KEYS], json.dumps(found))
    ck.coverage.update({"evaluations": evals, "distinct_nontrivial": nontrivial, "distribution": dist, "oracle_rejections_by_key": found,
                        "rule": "one fresh process per history of 2-4 sessions; each session: pointer start in debug / bus mode, valid or invalid configuration (first board record broken), auto-flush on/off, interface answering or silent, announced packet capacity 64/128/200; in between answered commands, unread uplink/error messages, optionally 7 commands to a muted board (2 left deferred), start while running, capacity probe; stop, stop again; LeakSanitizer after the last stop; non-trivial = sessions of one history differ in mode, auto-flush or answering",
                        "samples": samples, "disagreements_checked": dis})
    return vlib.finish_with_broken(ck, trusted=vlib.TRUSTED_COMMON + ["harness/ext_C15.inc: bus simulator, pthread_create/pthread_join bookkeeping by handle value (a stale handle is not passed to the real pthread_join), usleep wrapper", "LeakSanitizer (__lsan_do_recoverable_leak_check) as the observer of 'releases all memory'"])

def replay(ck, path):
    d = json.load(open(path))
    print(json.dumps({k: d[k] for k in d if k not in ("implementation", "case")}, indent=1)[:3000])
    case = d.get("case")
    if not case: return 0
    exe = vlib.build_harness(wrap=WRAP)
    tmp = vlib.mktmp("vc16r"); good = os.path.join(tmp, "good"); bad = os.path.join(tmp, "bad")
    os.makedirs(good); os.makedirs(bad)
    for fn, text in case["yaml"].items():
        for dd in (good, bad):
            with open(os.path.join(dd, fn), "w") as f: f.write(text)
    with open(os.path.join(bad, "bidib_board_config.yml"), "w") as f: f.write("boards:\n  - id: b0\n")
    L = []
    for l in case["script"]:
        w = l.split()
        if w and w[0] == "simstart": w[2] = bad if w[2].endswith("bad") else good; l = " ".join(w)
        L.append(l)
    env = dict(ENV); env.update({"UBSAN_OPTIONS": vlib.SAN_ENV["UBSAN_OPTIONS"]})
    rc, out, err = vlib.run_driver(exe, "\n".join(L) + "\n", env_extra=env)
    print("\n".join(l for l in out.splitlines() if not l.startswith("t ") or " 6" in l)); print(err[-1500:])
    return 0

if __name__ == "__main__":
    exe, md, n = sys.argv[1], sys.argv[2], int(sys.argv[3])
    tmp = vlib.mktmp("vc16d"); r = Rng(int(sys.argv[4]) if len(sys.argv) > 4 else 1).fork("C16")
    cases = [gen_case(r, i, tmp) for i in range(n)]
    res = run_cases(exe, md, cases)
    dis, evals, nontrivial, dist, samples, found, broken = evaluate(cases, res)
    for b in broken[:2]:
        print("DISAGREE at", b["first_difference_at"]); print(" impl ", b["impl"]); print(" model", b["model"])
        open("/tmp/c15dev/dis16.txt", "w").write("\n".join(b["case"]["script"]) + "\n")
    print("cases", evals, "disagreements", dis, "nontrivial", nontrivial, found)
