"""C20 — start-up applies the configuration: features to the right boards, then initial values."""
import os, sys, json, copy
import vlib, simgen, C15
from vlib import Rng
from simgen import hx, tree_nodes, find_path

WRAP = C15.WRAP
KNOWN_KEYS = ()
T_FEATURE, T_ENABLE, T_CAP, T_GO, T_DRIVE = "13", "03", "0a", "62", "64"
INIT_TYPES = ("38", "65", "40")

def gen_case(r, idx, tmpdir):
    ctr = [idx * 64]
    cfg = simgen.gen_config(r, rich=True)
    nb = len(cfg["boards"])
    present = [i for i in range(nb) if r.chance(3, 4)]
    tree = simgen.gen_tree(r, cfg, ctr, present=present, maxfan=3)
    kind = r.choice(["plain", "again", "again", "shrunk", "restart"])
    case = {"idx": idx, "kind": kind, "cfg": cfg, "trees": [tree], "changes": [], "final": 0, "dir": os.path.join(tmpdir, "c%d" % idx),
            "featmode": r.below(3), "truth": simgen.truth_of(tree, cfg),
            # on every fourth bus the track outputs answer MSG_CS_SET_STATE with "off" (the tracked output state stays off);
            # whether a connected track output gets the initial train functions does not depend on what it reported
            "mutecs": r.chance(1, 4)}
    if kind in ("shrunk", "restart"):
        t2 = copy.deepcopy(tree)
        for _ in range(r.range(1, 2)):
            nodes = [(p, n) for p, n in tree_nodes(t2) if p]
            if not nodes: break
            p, n = r.choice(nodes); par = find_path(t2, p[:-1]); par.ch = [c for c in par.ch if c is not n]
        case["trees"].append(t2); case["truth2"] = simgen.truth_of(t2, cfg)
    hl = []
    for i, a in cfg["ipoints"]: hl.append(("point", i, "hl point pt%d a%d" % (i, a)))
    for i, a in cfg["isignals"]: hl.append(("signal", i, "hl signal sg%d a%d" % (i, a)))
    for i, a in cfg["iperiphs"]: hl.append(("periph", i, "hl periph pe%d a%d" % (i, a)))
    case["hl"] = hl
    if kind == "restart":
        # a second session in the same process: the first ends with a command whose message is still in the send buffer (no flush,
        # no auto-flush); the second starts on the shrunk bus and must apply the configuration exactly like a first start
        cand = [(bi, p) for bi, b in enumerate(cfg["boards"]) if bi in case["truth"] and not (b["uid"][0] & 0x10) for p in b["points"] if p["num"] <= 127 and p["aspects"][0][1] <= 127]
        case["pending"] = None
        if cand:
            bi, p = r.choice(cand); case["pending"] = "hlnf point pt%d a%d" % (p["id"], p["aspects"][0][0])
    return case

def script_of(case):
    L = ["case %d" % case["idx"], "sim_reset"] + simgen.cfg_lines(case["cfg"])
    for ti, t in enumerate(case["trees"]): L += simgen.node_lines(t, ti)
    L += ["sim_opt featmode %d" % case["featmode"]] + (["sim_opt csoff 1"] if case.get("mutecs") else []) + ["simstart 0 %s 0" % case["dir"], "mark dump0", "sim_dump"]
    for k, (_, _, cmd) in enumerate(case["hl"]): L += ["mark hl%d" % k, cmd]
    if case["kind"] == "restart":
        L += ["mark pend"] + ([case["pending"]] if case["pending"] else []) + ["stop", "sim_tree 1", "mark start2", "simstart 0 %s 0" % case["dir"], "mark dump2", "sim_dump"]
    elif case["kind"] != "plain":
        L += ["mark reset"] + (["sim_tree 1"] if case["kind"] == "shrunk" else []) + ["sysreset", "mark dumpR", "sim_dump"]
    L += ["mark stop", "stop"]
    return L

def board_of(cfg, kind, aid):
    for key in {"point": ("points", "dpoints"), "signal": ("signals", "dsignals"), "periph": ("periphs",)}[kind]:
        bi, p = simgen.acc_owner(cfg, key, aid)
        if bi is not None: return bi
    return None

def judge_phase(case, tl, truth, hl_lines, where, stale=()):
    """tl: the 't' lines (split) from SYS_RESET on. Judged against the property text; returns [(key, reason)]"""
    bad = []
    cfg = case["cfg"]
    def K(bi): return "reset.stale-connected" if bi in stale else "startup"
    ah = lambda bi: hx([x for x in truth[bi] if x])
    if not tl or tl[0][1:] != ["-", "09", "-"]: return [("startup", "%s: transcript does not begin with SYS_RESET: %r" % (where, tl[:2]))]
    en = [i for i, t in enumerate(tl) if t[2] == T_ENABLE]
    if len(en) != 1: return [("startup", "%s: %d SYS_ENABLE messages" % (where, len(en)))]
    en = en[0]
    pre, post = tl[1:en], tl[en + 1:]
    # features: to each configured connected board, to no other node, before SYS_ENABLE
    exp = [[ah(bi), T_FEATURE, "%02x%02x" % kv] for bi, b in enumerate(cfg["boards"]) if bi in truth for kv in b["features"]]
    got = [t[1:] for t in pre if t[2] == T_FEATURE]
    if got != exp:
        extra = [g for g in got if g not in exp]; miss = [e for e in exp if e not in got]
        key = "startup"
        if extra and stale and all(any(g[0] == hx([x for x in case["truth"][bi] if x]) for bi in stale) for g in extra) and not miss: key = "reset.stale-connected"
        bad.append((key, "%s: FEATURE_SET messages differ: unexpected %r missing %r" % (where, extra[:3], miss[:3])))
    if [t for t in post if t[2] == T_FEATURE]: bad.append(("startup", "%s: FEATURE_SET after SYS_ENABLE" % where))
    others = [t for t in pre if t[2] not in (T_FEATURE, "0b", "0c", T_CAP)]
    if others: bad.append(("startup", "%s: unexpected messages before SYS_ENABLE: %r" % (where, others[:3])))
    # GO to every connected track output, before any initial value
    dccb = [bi for bi, b in enumerate(cfg["boards"]) if b["uid"][0] & 0x10]
    exp_go = [[ah(bi), T_GO, "03"] for bi in dccb if bi in truth]
    go_idx = [i for i, t in enumerate(post) if t[2] == T_GO]
    got_go = [post[i][1:] for i in go_idx]
    if got_go != exp_go:
        key = "reset.stale-connected" if stale and [g for g in got_go if g not in exp_go] and not [e for e in exp_go if e not in got_go] else "startup"
        bad.append((key, "%s: track-output GO messages %r, expected %r" % (where, got_go, exp_go)))
    first_init = next((i for i, t in enumerate(post) if t[2] in INIT_TYPES), len(post))
    if go_idx and max(go_idx) > first_init: bad.append(("startup", "%s: GO after an initial value" % where))
    # initial point / signal / peripheral aspects: exactly the messages of the high-level command, once, in order
    exp_init = []
    for k, (kind, aid, cmd) in enumerate(case["hl"]):
        bi = board_of(cfg, kind, aid)
        if bi in truth: exp_init += hl_lines[k]
    got_init = [t[1:] for t in post if t[2] in INIT_TYPES]
    if got_init != exp_init:
        extra = [g for g in got_init if g not in exp_init]; miss = [e for e in exp_init if e not in got_init]
        key = "reset.stale-connected" if stale and extra and not miss else "startup"
        bad.append((key, "%s: initial accessory/peripheral messages differ from the high-level commands: unexpected %r missing %r" % (where, extra[:3], miss[:3])))
    # initial train functions: once per connected track output, then speed 0
    if True:
        drives = [t[1:] for t in post[first_init:] if t[2] == T_DRIVE] if first_init < len(post) else []
        last_acc = max([i for i, t in enumerate(post) if t[2] in INIT_TYPES + ("20", "24", T_GO)] + [-1])
        drives = [t[1:] for t in post[last_acc + 1:] if t[2] == T_DRIVE]
        state = {}
        exp_d = []
        for (ti, pid, v) in cfg["itrains"]:
            tr = cfg["trains"][ti]; bit = dict(tr["periphs"])[pid]
            fmt = {28: 2, 126: 3}.get(tr["steps"], 0)
            grp = (0, 4, 2) if bit < 5 else (8, 11, 4) if bit < 12 else (12, 15, 8) if bit < 16 else (16, 23, 16) if bit < 24 else (24, 31, 32)
            nofn = 5 <= bit <= 7        # MSG_CS_DRIVE has no function at bits 5..7: the command refuses, only the speed follows
            if not nofn: state[(ti, bit)] = v
            fb = [0, 0, 0, 0]
            for (tj, b2), s in state.items():
                if tj == ti and grp[0] <= b2 <= grp[1] and s: fb[b2 // 8] |= 1 << (b2 % 8)
            for bi in dccb:
                if bi in truth:
                    if not nofn: exp_d.append([ah(bi), T_DRIVE, "%02x%02x%02x%02x00%02x%02x%02x%02x" % (tr["addrl"], tr["addrh"], fmt, grp[2], fb[0], fb[1], fb[2], fb[3])])
                    exp_d.append([ah(bi), T_DRIVE, "%02x%02x%02x018000000000" % (tr["addrl"], tr["addrh"], fmt)])
        if drives != exp_d:
            extra = [g for g in drives if g not in exp_d]; miss = [e for e in exp_d if e not in drives]
            key = "reset.stale-connected" if stale and extra and not miss else "startup"
            bad.append((key, "%s: initial train function messages %r expected %r" % (where, drives[:4], exp_d[:4])))
    # nothing for boards that are not connected
    ok_addr = {"-"} | {ah(bi) for bi in truth}
    ifaces = {hx(list(p)) for p, n in tree_nodes(case["trees"][1 if where == "reset" and case["kind"] == "shrunk" else 0]) if n.iface()} | {"-"}
    for t in tl:
        if t[2] in ("0b", "0c"):
            if t[1] not in ifaces: bad.append(("startup", "%s: node table request to %s which is no interface on the bus" % (where, t[1])))
        elif t[1] not in ok_addr:
            bad.append(("reset.stale-connected" if stale else "startup", "%s: message %r addressed to a node that is no connected board" % (where, t)))
            break
    return bad

def judge(case, lines):
    sec = C15.sections(lines)
    if "start 0" not in sec["start"]:
        return [("start-failed", "start did not return 0: %r" % [l for l in sec["start"] if l.startswith("start")])]
    bad = []
    tl = [l.split() for l in sec["start"] if l.startswith("t ")]
    if [t[1:] for t in tl[:3]] != [["-", "04", "-"], ["-", "01", "-"], ["-", "01", "-"]]: bad.append(("startup", "probe: %r" % tl[:3]))
    hl_lines = [[l.split()[1:] for l in sec.get("hl%d" % k, []) if l.startswith("t ")] for k in range(len(case["hl"]))]
    bad += judge_phase(case, tl[3:], case["truth"], hl_lines, "start-up")
    tab = C15.board_table(sec.get("dump0", []))
    for bi in range(len(case["cfg"]["boards"])):
        if tab.get(bi) != case["truth"].get(bi): bad.append(("startup", "board b%d table %r expected %r" % (bi, tab.get(bi), case["truth"].get(bi))))
    if case["kind"] == "again":
        rl = [l.split() for l in sec.get("reset", []) if l.startswith("t ")]
        if rl != tl[3:]: bad.append(("every-reset", "transcript of a second system reset differs from start-up: %r vs %r" % (rl[:30], tl[3:33])))
    if case["kind"] == "shrunk":
        rl = [l.split() for l in sec.get("reset", []) if l.startswith("t ")]
        stale = [bi for bi in case["truth"] if bi not in case["truth2"]]
        bad += judge_phase(case, rl, case["truth2"], hl_lines, "reset", stale=stale)
        tab = C15.board_table(sec.get("dumpR", []))
        for bi in range(len(case["cfg"]["boards"])):
            if tab.get(bi) != case["truth2"].get(bi):
                bad.append(("reset.stale-connected" if bi in stale else "startup", "after reset: board b%d table %r expected %r" % (bi, tab.get(bi), case["truth2"].get(bi))))
    if case["kind"] == "restart":
        s2 = sec.get("start2", [])
        if "start 0" not in s2: bad.append(("restart", "second start did not return 0: %r" % [l for l in s2 if l.startswith("start")]))
        t2 = [l.split() for l in s2 if l.startswith("t ")]
        if [t[1:] for t in t2[:3]] != [["-", "04", "-"], ["-", "01", "-"], ["-", "01", "-"]]:
            bad.append(("restart.stale-send-buffer" if t2 and t2[0][2] in INIT_TYPES else "restart", "second session does not begin with the probe: %r" % t2[:3]))
        else:
            bad += [("restart" if k == "startup" else k, w) for k, w in judge_phase(case, t2[3:], case["truth2"], hl_lines, "second start")]
        tab = C15.board_table(sec.get("dump2", []))
        for bi in range(len(case["cfg"]["boards"])):
            if tab.get(bi) != case["truth2"].get(bi): bad.append(("restart", "after the second start: board b%d table %r expected %r" % (bi, tab.get(bi), case["truth2"].get(bi))))
    for l in lines:
        if l.startswith(("t-badcrc", "t-malformed", "sim-quiesce-timeout", "rx-timeout", "unknown-command")): bad.append(("harness", l))
    return bad

def canon(case, lines):
    """the model has no send buffer: the section between the unflushed command and the second start is not compared"""
    if case["kind"] != "restart" or lines is None: return lines
    out = []; skip = False
    for l in lines:
        if l.startswith("mark "): skip = l == "mark pend"
        if not skip: out.append(l)
    return out

def describe(case):
    return {"kind": case["kind"], "script": script_of(case), "yaml": simgen.yaml_files(case["cfg"])}

def evaluate(cases, res, ck=None):
    dis = 0; evals = 0; nontrivial = 0; dist = {}; samples = []; found = {}; broken = []
    for c in cases:
        il, ml, rc, err = res.get(c["idx"], (None, None, None, ""))
        evals += 1
        dist[c["kind"]] = dist.get(c["kind"], 0) + 1
        cfg = c["cfg"]
        nf = sum(len(b["features"]) for b in cfg["boards"]); ni = len(cfg["ipoints"]) + len(cfg["isignals"]) + len(cfg["iperiphs"]) + len(cfg["itrains"])
        if nf and ni and 0 < len(c["truth"]) < len(cfg["boards"]): nontrivial += 1
        if il is None:
            found["crash"] = found.get("crash", 0) + 1
            if ck: ck.violation("crash", {"property": "C20", "case": describe(c), "rc": rc, "stderr": err})
            continue
        for key, why in judge(c, il):
            found[key] = found.get(key, 0) + 1
            if ck: ck.violation(key, {"property": "C20", "key": key, "reason": why, "case": describe(c), "implementation": il})
            elif found[key] <= 2: print("ORACLE", key, c["idx"], why[:400])
        if canon(c, il) != canon(c, ml):
            dis += 1
            if dis <= 3:
                ci, cm = canon(c, il), canon(c, ml) or []
                d = next((i for i, (a, b) in enumerate(zip(ci, cm)) if a != b), min(len(ci), len(cm)))
                broken.append({"kind": "correspondence", "name": "corr_startup", "case": describe(c), "first_difference_at": d,
                               "impl": ci[max(0, d - 3):d + 3], "model": cm[max(0, d - 3):d + 3]})
        if len(samples) < 2 and nf and ni: samples.append({"script": script_of(c)[:70], "impl": il[:50]})
    return dis, evals, nontrivial, dist, samples, found, broken

def run(ck):
    quick = ck.tier == "quick"
    vlib.CURRENT_EXTS = ("C15",)      # the bus simulator lives in harness/ext_C15.inc
    cdir, ok = vlib.proof_phase(ck, "Properties_C20.v")
    exe = vlib.build_harness(wrap=WRAP); md = vlib.build_model_driver(cdir, "_C15")
    tmp = vlib.mktmp("vc20")
    r = Rng(ck.seed).fork("C20")
    n = 1500 if quick else 40000
    cases = [gen_case(r, i, tmp) for i in range(n)]
    res = run_cases(exe, md, cases)
    dis, evals, nontrivial, dist, samples, found, broken = evaluate(cases, res, ck)
    ck.broken += broken
    ck.oblige("correspondence corr_startup (impl == model: complete start-up / reset transcripts on %d configurations x buses)" % evals, dis == 0, "%d disagreements" % dis)
    ck.oblige("oracle: features, order, GO, initial values (against the implementation's own high-level commands), silence for absent boards", not [k for k in found if k not in KNOWN_KEYS], json.dumps(found))
    ck.coverage.update({"evaluations": evals, "distinct_nontrivial": nontrivial, "distribution": dist, "oracle_rejections_by_key": found,
                        "rule": "seeded configurations (2-5 boards; features incl. >8 per board, board and DCC points/signals, peripherals, segments, 0-3 trains with function bits 0-31, initial values on any subset) x buses in which any subset of the boards is present (depth <= 3) x FEATURE answers equal/different/mixed x optional second reset (same bus / shrunk bus); non-trivial = features and initial values configured and a proper non-empty subset of the boards present",
                        "samples": samples, "disagreements_checked": dis})
    return vlib.finish_with_broken(ck, trusted=vlib.TRUSTED_COMMON + ["harness/ext_C15.inc: bus simulator (BiDiB node behaviour), usleep/pthread wrappers", "checks/simgen.py: configuration/YAML generator and Python reference of the bus"])

def run_cases(exe, md, cases):
    # same runner as C15 with this module's script builder
    old = C15.script_of
    C15.script_of = script_of
    try: return C15.run_cases(exe, md, cases, workers=12)
    finally: C15.script_of = old

def replay(ck, path):
    return C15.replay(ck, path)

if __name__ == "__main__":
    exe, md, n = sys.argv[1], sys.argv[2], int(sys.argv[3])
    tmp = vlib.mktmp("vc20d"); r = Rng(int(sys.argv[4]) if len(sys.argv) > 4 else 1).fork("C20")
    cases = [gen_case(r, i, tmp) for i in range(n)]
    res = run_cases(exe, md, cases)
    dis, evals, nontrivial, dist, samples, found, broken = evaluate(cases, res)
    for b in broken[:2]:
        print("DISAGREE at", b["first_difference_at"], b["case"]["kind"]); print(" impl ", b["impl"]); print(" model", b["model"])
        open("/tmp/c15dev/dis20.txt", "w").write("\n".join(b["case"]["script"]) + "\n")
    print("cases", evals, "disagreements", dis, "nontrivial", nontrivial, dist, found)
