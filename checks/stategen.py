"""stategen — shared generators for C07/C08: configurations (as YAML for the library and as `cfg...`
lines for the model driver), histories of state-bearing uplink messages / node events / user commands,
scripts, and parsing of the canonical dump lines."""
import os
import vlib, flowgen
from vlib import hexs

# ---------------------------------------------------------------- message type codes (checked against Tables.v by the check)
def tname(i):
    """train ids are chosen so that every earlier id is a proper prefix of every later one (t0, t00, t000, ...): a look-up that
    compares only a prefix of the id confuses them"""
    return "t" + "0" * (i + 1)

T = {"NODE_LOST": 0x8C, "NODE_NEW": 0x8D, "VENDOR": 0x93, "BM_OCC": 0xA0, "BM_FREE": 0xA1, "BM_MULTIPLE": 0xA2, "BM_ADDRESS": 0xA3,
     "BM_SPEED": 0xA6, "BM_CURRENT": 0xA7, "BM_CONFIDENCE": 0xA9, "BM_DYN_STATE": 0xAA, "BOOST_STAT": 0xB0, "BOOST_DIAGNOSTIC": 0xB2,
     "ACCESSORY_STATE": 0xB8, "ACCESSORY_NOTIFY": 0xBA, "LC_STAT": 0xC0, "LC_WAIT": 0xC4, "CS_STATE": 0xE1, "CS_DRIVE_ACK": 0xE2,
     "CS_ACCESSORY_ACK": 0xE3, "CS_DRIVE_MANUAL": 0xE5, "CS_ACCESSORY_MANUAL": 0xE7,
     # not state-bearing (queues only): must leave the state alone
     "SYS_PONG": 0x82, "BM_CV": 0xA5, "BM_POSITION": 0xAC, "LC_NA": 0xC1, "CS_DRIVE_EVENT": 0xE6, "STRING": 0x95}

def tables_codes(cdir):
    import re
    txt = open(os.path.join(cdir, "Tables.v")).read()
    out = {}
    for k in T:
        m = re.search(r'Definition MSG_%s : N := (\d+)\.' % k, txt)
        out[k] = int(m.group(1)) if m else None
    return out

# ---------------------------------------------------------------- configurations
class Cfg:
    """boards: list of dict(uid, secack, segs[(addr, g)], points[(num, idx, [(val, aid)])], signals[...], dpoints[(l, h, idx)],
    dsignals, periph[(p0, p1, idx, aspects)], revs[(cv bytes, idx)]); track_order: board indices in the order of the track
    config; trains: [(l, h, [bits])]"""
    def __init__(self):
        self.boards = []; self.trains = []; self.track_order = []
        self.n = {"seg": 0, "p": 0, "s": 0, "dp": 0, "ds": 0, "pe": 0, "r": 0}

def gen_cfg(r, rich=True, nboards=None, max_segs=6):
    c = Cfg()
    nb = nboards or r.choice([1, 1, 2, 2, 3, 4])
    uids = set()
    for i in range(nb):
        while True:
            cls = (0x80 if r.chance(1, 3) else 0) | (0x02 if r.chance(1, 2) else 0) | (0x10 if r.chance(1, 2) else 0) | (0x40 if r.chance(1, 4) else 0)
            uid = tuple([cls, r.below(256), r.choice([0x0D, 0x3E, r.below(256)])] + [r.below(256) for _ in range(4)])
            if uid not in uids: uids.add(uid); break
        c.boards.append({"uid": list(uid), "secack": r.chance(1, 4), "segs": [], "points": [], "signals": [], "dpoints": [], "dsignals": [],
                         "periph": [], "revs": []})
    order = list(range(nb))
    for i in range(nb - 1, 0, -1):
        j = r.below(i + 1); order[i], order[j] = order[j], order[i]
    if nb > 1 and r.chance(1, 5): order = order[:-1]          # a board without any track entry
    c.track_order = order
    used_dcc = set()
    def fresh_dcc(small_h=True):
        while True:
            l = r.choice([0, 1, 2, 3, 0x23, 0xFF, r.below(256)]); h = r.choice([0, 1, 3, 0x3F, r.below(0x40)]) if small_h else r.choice([0x40, 0x81, 0xC1, r.range(0x40, 0xFF)])
            if (l, h) not in used_dcc and (l, h) != (0, 0): used_dcc.add((l, h)); return l, h
    # trains first (so DCC accessories avoid their addresses)
    for _ in range(r.choice([0, 1, 2, 2, 3, 4])):
        l, h = fresh_dcc(small_h=not r.chance(1, 8))
        nper = r.choice([0, 0, 1, 2, 4])
        bits = []
        while len(bits) < nper:
            b = r.choice([0, 1, 2, 3, 4, 5, 7, 8, 11, 12, 15, 16, 23, 24, 31, r.below(32)])
            if b not in bits: bits.append(b)
        c.trains.append((l, h, bits))
    def aspects():
        n = r.range(1, 3); vals = []
        while len(vals) < n:
            v = r.choice([0, 1, 2, 3, 0x7F, 0x80, 0xFF, r.below(256)])
            if v not in vals: vals.append(v)
        return [(v, k) for k, v in enumerate(vals)]
    for b in order:
        B = c.boards[b]
        if rich:
            nums = []
            for _ in range(r.choice([0, 0, 1, 2])):
                n = r.choice([0, 1, 2, 0x10, 0x7F, 0x90, r.below(256)])
                if n not in nums: nums.append(n); B["points"].append((n, c.n["p"], aspects())); c.n["p"] += 1
            for _ in range(r.choice([0, 1])):
                l, h = fresh_dcc(small_h=not r.chance(1, 4)); B["dpoints"].append((l, h, c.n["dp"])); c.n["dp"] += 1
            snums = []
            for _ in range(r.choice([0, 0, 1, 2])):
                n = r.choice([0, 1, 3, 0x10, r.below(256)])   # never a point's number: the parser rejects that since fix 31797cd (C13)
                if n not in snums and n not in nums: snums.append(n); B["signals"].append((n, c.n["s"], aspects())); c.n["s"] += 1
            for _ in range(r.choice([0, 1])):
                l, h = fresh_dcc(small_h=not r.chance(1, 4)); B["dsignals"].append((l, h, c.n["ds"])); c.n["ds"] += 1
            ports = []
            for _ in range(r.choice([0, 0, 1, 2])):
                p = (r.choice([0, 1, 0x23, r.below(256)]), r.choice([0, 1, r.below(256)]))
                if p not in ports: ports.append(p); B["periph"].append((p[0], p[1], c.n["pe"], aspects())); c.n["pe"] += 1
        segaddrs = []
        for _ in range(r.range(0, max_segs) if len(order) > 1 else r.range(1, max_segs)):
            a = r.choice([0, 1, 2, 3, 4, 5, 6, 7, 8, 9, 15, 16, 127, 254, 255, r.below(256)])
            if a not in segaddrs: segaddrs.append(a); B["segs"].append((a, c.n["seg"])); c.n["seg"] += 1
        if rich:
            cvs = []
            for _ in range(r.choice([0, 0, 1, 2])):
                cv = r.choice(["30051", "1", "x", "cv%d" % r.below(100)])
                if cv not in cvs: cvs.append(cv); B["revs"].append(([ord(ch) for ch in cv], c.n["r"])); c.n["r"] += 1
    return c

def yaml_of(c):
    bl = ["boards:"]
    for i, B in enumerate(c.boards):
        bl += ["  - id: b%d" % i, "    unique-id: 0x" + "".join("%02X" % x for x in B["uid"])]
        if B["secack"]:
            bl += ["    features:", "      - number: 0x03", "        value: 0x01"]
    tl = ["boards:"]
    def asp(a, ind):
        out = [ind + "aspects:"]
        for v, k in a: out += [ind + "  - id: a%d" % k, ind + "    value: 0x%02x" % v]
        return out
    def dccacc(items, pre):
        out = []
        for l, h, idx in items:
            out += ["      - id: %s%d" % (pre, idx), "        dcc-address: 0x%02x%02x" % (h, l), "        extended: 0x00", "        aspects:",
                    "          - id: a0", "            ports:", "              - port: 0x00", "                value: 0x01"]
        return out
    for b in c.track_order:
        B = c.boards[b]
        tl.append("  - id: b%d" % b)
        if B["points"]:
            tl.append("    points-board:")
            for n, idx, a in B["points"]: tl += ["      - id: p%d" % idx, "        number: 0x%02x" % n] + asp(a, "        ")
        if B["dpoints"]: tl += ["    points-dcc:"] + dccacc(B["dpoints"], "dp")
        if B["signals"]:
            tl.append("    signals-board:")
            for n, idx, a in B["signals"]: tl += ["      - id: s%d" % idx, "        number: 0x%02x" % n] + asp(a, "        ")
        if B["dsignals"]: tl += ["    signals-dcc:"] + dccacc(B["dsignals"], "ds")
        if B["periph"]:
            tl.append("    peripherals:")
            for k, (p0, p1, idx, a) in enumerate(B["periph"]): tl += ["      - id: pe%d" % idx, "        number: 0x%02x" % k, "        port: 0x%02x%02x" % (p1, p0)] + asp(a, "        ")
        if B["segs"]:
            tl.append("    segments:")
            for a, g in B["segs"]: tl += ["      - id: g%d" % g, "        address: 0x%02x" % a, "        length: 10cm"]
        if B["revs"]:
            tl.append("    reversers:")
            for cv, idx in B["revs"]: tl += ["      - id: r%d" % idx, "        cv: %s" % "".join(chr(x) for x in cv)]
    rl = ["trains:"] if c.trains else ["trains: []"]
    for i, (l, h, bits) in enumerate(c.trains):
        rl += ["  - id: %s" % tname(i), "    dcc-address: 0x%02x%02x" % (h, l), "    dcc-speed-steps: 126"]
        if bits:
            rl.append("    peripherals:")
            for k, b in enumerate(bits): rl += ["      - id: f%d" % k, "        bit: %d" % b]
    return "\n".join(bl) + "\n", "\n".join(tl) + "\n", "\n".join(rl) + "\n"

def write_cfg(c, d):
    os.makedirs(d, exist_ok=True)
    b, t, r = yaml_of(c)
    open(os.path.join(d, "bidib_board_config.yml"), "w").write(b)
    open(os.path.join(d, "bidib_track_config.yml"), "w").write(t)
    open(os.path.join(d, "bidib_train_config.yml"), "w").write(r)

def cfg_lines(c):
    L = ["cfgreset"]
    def asp(a): return ",".join("%d:%d" % (v, k) for v, k in a) if a else "-"
    for i, B in enumerate(c.boards):
        L.append("cfgboard %s %d" % (hexs(B["uid"]), 1 if B["secack"] else 0))
    for i, B in enumerate(c.boards):
        for a, g in B["segs"]: L.append("cfgseg %d %d %d" % (i, a, g))
        for n, idx, a in B["points"]: L.append("cfgpoint %d %d %d %s" % (i, n, idx, asp(a)))
        for n, idx, a in B["signals"]: L.append("cfgsignal %d %d %d %s" % (i, n, idx, asp(a)))
        for l, h, idx in B["dpoints"]: L.append("cfgdpoint %d %d %d %d" % (i, l, h, idx))
        for l, h, idx in B["dsignals"]: L.append("cfgdsignal %d %d %d %d" % (i, l, h, idx))
        for p0, p1, idx, a in B["periph"]: L.append("cfgper %d %d %d %d %s" % (i, p0, p1, idx, asp(a)))
        for cv, idx in B["revs"]: L.append("cfgrev %d %s %d" % (i, hexs(cv), idx))
    for l, h, bits in c.trains: L.append("cfgtrain %d %d %s" % (l, h, ",".join(str(b) for b in bits) if bits else "-"))
    n = c.n
    L.append("cfgcount %d %d %d %d %d %d %d" % (n["seg"], n["p"], n["s"], n["dp"], n["ds"], n["pe"], n["r"]))
    return L

# ---------------------------------------------------------------- histories
# an event is ("nodenew", sender(3), local, uid) | ("msg", addr list, type, data) | ("udrive", node(3), [9 bytes]) | ("uacc", node(3), l, h, data, time)
NODE_ADDRS = [[1], [2], [3], [1, 1], [1, 2], [2, 1], [1, 1, 1], [1, 2, 3]]

class Hist:
    def __init__(self, r, c, occupancy_only=False, diag_clean=False):
        self.r = r; self.c = c; self.occ_only = occupancy_only; self.diag_clean = diag_clean
        self.where = {}          # board index -> address list (our belief; only steers the generator)

    def connect_all(self):
        ev = []; r = self.r
        free = [a for a in NODE_ADDRS]
        for i, B in enumerate(self.c.boards):
            if r.chance(1, 7): continue                   # stays unconnected
            a = free.pop(r.below(len(free)))
            sender = a[:-1] + [0] * (3 - len(a[:-1])); self.where[i] = a
            if r.chance(1, 2): ev.append(("nodenew", sender, a[-1], B["uid"]))
            else: ev.append(("msg", a[:-1], T["NODE_NEW"], [r.below(256), a[-1]] + B["uid"]))
        return ev

    def some_addr(self, want=None):
        """address of a (believed) connected board, else an unknown / unconnected address"""
        r = self.r
        if want is not None and want in self.where and not r.chance(1, 12): return self.where[want]
        if self.where and not r.chance(1, 6): return self.where[r.choice(sorted(self.where))]
        return r.choice([[9], [1, 9], [0], [4, 4, 4], []])

    def dcc_known(self, loco=True):
        r = self.r; c = self.c
        if c.trains and not r.chance(1, 5):
            l, h, _ = r.choice(c.trains); return l, h
        return r.choice([(5, 0), (0xFF, 0x3F), (1, 1), (r.below(256), r.below(0x40))])

    def addr_list(self):
        r = self.r; k = r.below(100)
        if k < 12: return [0, 0]                                            # free form
        if k < 16: return []                                                # no pair at all
        if k < 19: return [0, 0, r.below(256)]                              # free form + stray byte
        n = r.choice([1, 1, 1, 2, 2, 3, 4, 8, 16])
        out = []
        for _ in range(n):
            l, h = self.dcc_known()
            kind = r.choice([0, 0, 2, 2, 1, 3])
            if r.chance(1, 12): l, h = 0, 0
            out += [l, (h & 0x3F) | (kind << 6)]
        if r.chance(1, 10) and out: out += out[:2]                          # the same decoder twice
        if r.chance(1, 10): out.append(r.below(256))                        # stray trailing byte
        return out

    def seg_number(self, b):
        r = self.r
        segs = self.c.boards[b]["segs"] if b is not None and b < len(self.c.boards) else []
        if segs and not r.chance(1, 6): return r.choice(segs)[0]
        return r.choice([0, 1, 7, 200, 255, r.below(256)])

    def occupancy_event(self):
        r = self.r; c = self.c
        b = r.choice(sorted(self.where)) if self.where and not r.chance(1, 10) else (r.below(len(c.boards)))
        a = self.some_addr(b); k = r.below(100)
        if k < 45: return ("msg", a, T["BM_ADDRESS"], [self.seg_number(b)] + self.addr_list())
        if k < 58: return ("msg", a, T["BM_FREE"], [self.seg_number(b)])
        if k < 70: return ("msg", a, T["BM_OCC"], [self.seg_number(b)] + ([r.below(256), r.below(256)] if r.chance(1, 4) else []))
        base = r.choice([0, 0, 8, 248, self.seg_number(b), r.below(256)]); size = r.choice([8, 8, 16, 24, 1, 3, 0, 255, r.below(64)])
        need = (size + 7) // 8                           # fewer bytes than announced: the report is ignored as a whole
        if r.chance(1, 10) and need: need -= 1
        return ("msg", a, T["BM_MULTIPLE"], [base, size] + [r.choice([0, 0xFF, r.below(256)]) for _ in range(need + r.choice([0, 0, 1]))])

    def diag_list(self):
        r = self.r; out = []
        for _ in range(r.choice([1, 1, 1, 2, 3, 3, 5, 0 if r.chance(1, 10) else 2])):
            k = r.choice([0, 1, 2, 0, 1, 2, 3, 7, r.below(256)])
            v = r.choice([0, 1, 2, 15, 16, 63, 64, 127, 128, 191, 192, 250, 251, 253, 254, 255, r.below(256)])
            if self.diag_clean:
                while v in (0, 1, 2): v = r.range(3, 255)
            out += [k, v]
        if r.chance(1, 6): out.append(r.choice([0, 1, 2, r.below(256)]))          # incomplete trailing pair
        return out

    def other_event(self):
        r = self.r; c = self.c; k = r.below(100)
        b = r.choice(sorted(self.where)) if self.where and not r.chance(1, 10) else r.below(len(c.boards))
        B = c.boards[b]; a = self.some_addr(b)
        byte = lambda: r.choice([0, 1, 2, 0x7F, 0x80, 0xFF, r.below(256)])
        if k < 8:
            return ("msg", a, T["BM_CURRENT"], [self.seg_number(b), r.choice([0, 1, 15, 16, 63, 64, 127, 128, 191, 192, 250, 251, 253, 254, 255, r.below(256)])])
        if k < 13: return ("msg", a, T["BM_CONFIDENCE"], [r.choice([0, 1, 0xFF]), r.choice([0, 1, 7]), r.choice([0, 1, 0x80])])
        if k < 19:
            l, h = self.dcc_known(); return ("msg", a, T["BM_SPEED"], [l, h | r.choice([0, 0, 0x80, 0x40]), byte(), byte()])
        if k < 26:
            l, h = self.dcc_known(); return ("msg", a, T["BM_DYN_STATE"], [byte(), l, h | r.choice([0, 0, 0x80]), r.choice([0, 1, 2, 3, 4, 5, 6, 255]), byte()])
        if k < 33: return ("msg", a, T["BOOST_STAT"], [r.choice([0, 1, 2, 3, 4, 5, 6, 7, 0x80, 0x81, 0x82, 0x83, 0x84, 0x85, 0xFF, r.below(256)])])
        if k < 42: return ("msg", a, T["BOOST_DIAGNOSTIC"], self.diag_list())
        if k < 47: return ("msg", a, T["CS_STATE"], [r.choice([0, 1, 2, 3, 4, 8, 9, 0x0D, 0xFF, 5, r.below(256)])])
        if k < 52:
            l, h = self.dcc_known(); return ("msg", a, T["CS_DRIVE_ACK"], [l, h | r.choice([0, 0, 0x80]), r.choice([0, 1, 2, 3, 4, 5, 255])])
        if k < 60:
            l, h = self.dcc_known()
            d = [l, h, r.choice([0, 2, 3, 1, 7]), r.choice([0, 1, 2, 3, 0x3F, 0x1F, 0x40, r.below(256)]), byte(), byte(), byte(), byte(), byte()]
            if r.chance(1, 2): return ("msg", a, T["CS_DRIVE_MANUAL"], d)
            if not r.chance(1, 5): d[2] = r.choice([0, 2, 3]); d[3] &= 0x3F; d[5] &= 0x1F       # mostly inside the ranges the send function accepts
            return ("udrive", [1, 0, 0], d)
        if k < 68:
            accs = [(l, h) for bb in c.boards for (l, h, _) in bb["dpoints"] + bb["dsignals"]]
            l, h = r.choice(accs) if accs and not r.chance(1, 5) else (r.below(256), r.below(256))
            j = r.below(3)
            if j == 0: return ("msg", a, T["CS_ACCESSORY_ACK"], [l, h, r.choice([0, 1, 2, 3, 4, 9])])
            if j == 1: return ("msg", a, T["CS_ACCESSORY_MANUAL"], [l, h, byte()])
            return ("uacc", (a + [0, 0, 0])[:3], l, h, byte(), byte())
        if k < 78:
            accs = B["points"] + B["signals"]
            if accs and not r.chance(1, 5):
                n, _, asp = r.choice(accs); av = r.choice([v for v, _ in asp]) if not r.chance(1, 4) else byte()
            else: n, av = byte(), byte()
            return ("msg", a, r.choice([T["ACCESSORY_STATE"], T["ACCESSORY_NOTIFY"]]), [n, av, r.choice([0, 1, 2, 3, 8]), r.choice([0, 1, 2, 3, 0x80, 0x81]), byte()] + ([byte()] if r.chance(1, 5) else []))
        if k < 88:
            if B["periph"] and not r.chance(1, 5):
                p0, p1, _, asp = r.choice(B["periph"]); v = r.choice([x for x, _ in asp]) if not r.chance(1, 4) else byte()
            else: p0, p1, v = byte(), byte(), byte()
            return ("msg", a, r.choice([T["LC_STAT"], T["LC_WAIT"]]), [p0, p1, v])
        if k < 94:
            if B["revs"] and not r.chance(1, 5): cv = r.choice(B["revs"])[0]
            else: cv = [ord(ch) for ch in r.choice(["30051", "9", ""])]
            val = [ord(ch) for ch in r.choice(["0", "3", "1", "", "03", "30", "x"])]
            d = [len(cv)] + cv + [len(val)] + val
            if r.chance(1, 5):
                j = r.choice([0, len(cv) + 1]); d[j] = r.choice([0, 1, d[j] + 1, max(d[j] - 1, 0), len(d), 255])      # a length byte that does not fit
            if r.chance(1, 8): d += [r.below(256) for _ in range(r.range(1, 3))]                                        # bytes after the value
            return ("msg", a, T["VENDOR"], d)
        # types that go to a queue only
        return ("msg", a, r.choice([T["SYS_PONG"], T["BM_CV"], T["BM_POSITION"], T["LC_NA"], T["CS_DRIVE_EVENT"], T["STRING"]]), [byte() for _ in range(r.range(5, 9))])

    def train_event(self):
        """messages about a train or a segment that change no segment address list (speed, dynamic state, drive acknowledgements,
        current, confidence): the derived train values must not move on them"""
        r = self.r; c = self.c; k = r.below(6)
        b = r.choice(sorted(self.where)) if self.where and not r.chance(1, 10) else r.below(len(c.boards))
        a = self.some_addr(b); byte = lambda: r.choice([0, 1, 2, 0x7F, 0x80, 0xFF, r.below(256)])
        l, h = self.dcc_known()
        if k == 0: return ("msg", a, T["BM_SPEED"], [l, h | r.choice([0, 0, 0x80, 0x40]), byte(), byte()])
        if k == 1: return ("msg", a, T["BM_DYN_STATE"], [byte(), l, h | r.choice([0, 0, 0x80]), r.choice([0, 1, 2, 3, 4, 5, 6, 255]), byte()])
        if k == 2: return ("msg", a, T["CS_DRIVE_ACK"], [l, h | r.choice([0, 0, 0x80]), r.choice([0, 1, 2, 3, 4, 5, 255])])
        if k == 3: return ("msg", a, T["CS_DRIVE_MANUAL"], [l, h, r.choice([0, 2, 3, 1, 7]), r.choice([0, 1, 2, 3, 0x3F, 0x1F, 0x40, r.below(256)]), byte(), byte(), byte(), byte(), byte()])
        if k == 4: return ("msg", a, T["BM_CURRENT"], [self.seg_number(b), r.choice([0, 1, 15, 16, 63, 64, 127, 128, 191, 192, 250, 251, 253, 254, 255, r.below(256)])])
        return ("msg", a, T["BM_CONFIDENCE"], [r.choice([0, 1, 0xFF]), r.choice([0, 1, 7]), r.choice([0, 1, 0x80])])

    def node_event(self):
        r = self.r; c = self.c
        i = r.below(len(c.boards)); B = c.boards[i]
        if i in self.where and r.chance(1, 2):
            a = self.where.pop(i); self.lost_addrs = getattr(self, "lost_addrs", []) + [list(a)]
            if B["uid"][0] & 0x80:
                for j in list(self.where):
                    if self.where[j][:len(a)] == a: self.where.pop(j)
            return ("msg", r.choice([[], a[:-1]]), T["NODE_LOST"], [r.below(256), a[-1]] + B["uid"])
        if r.chance(1, 6):
            uid = [r.below(256) for _ in range(7)]                                            # unknown unique id
            deep = [a for a in self.where.values() if len(a) >= 2]
            if deep and r.chance(2, 3):
                # loss of an UNCONFIGURED interface above a connected board: its subtree is lost (rule after the C15 repair)
                a = r.choice(sorted(deep)); k = r.range(1, len(a) - 1); uid[0] |= 0x80 if not r.chance(1, 4) else 0
                if uid[0] & 0x80:
                    for j in list(self.where):
                        if self.where[j][:k] == a[:k] and len(self.where[j]) > k: self.where.pop(j)
                return ("msg", a[:k - 1], T["NODE_LOST"], [r.below(256), a[k - 1]] + uid)
            return ("msg", [], r.choice([T["NODE_NEW"], T["NODE_LOST"]]), [1, r.choice([1, 2, 5])] + uid)
        a = r.choice(NODE_ADDRS + [[5], [6, 1]])
        # address reuse: another board logs in where a lost board (which keeps its stored address) used to be
        la = [x for x in getattr(self, "lost_addrs", []) if x not in self.where.values()]
        if la and r.chance(1, 2): a = list(r.choice(la))
        self.where[i] = a
        for j in list(self.where):
            if j != i and self.where[j] == a and j > i: pass          # two boards at one address: the first in board order wins
        return ("msg", a[:-1], T["NODE_NEW"], [r.below(256), a[-1]] + B["uid"])

    def history(self, n):
        ev = self.connect_all(); r = self.r
        for _ in range(n):
            k = r.below(100)
            if k < 8: ev.append(self.node_event())
            elif self.occ_only: ev.append(self.occupancy_event() if k < 86 else self.train_event())
            elif k < 50: ev.append(self.occupancy_event())
            else: ev.append(self.other_event())
            # bursts: the same message kind to the same target again with other field values (what one message leaves behind - flags,
            # lists - must not survive the next one)
            e = ev[-1]
            if e[0] == "msg" and len(e[3]) >= 2 and e[2] not in (T["NODE_NEW"], T["NODE_LOST"], T["BM_MULTIPLE"], T["BM_ADDRESS"]) and r.chance(1, 4):
                for _ in range(r.range(1, 2)):
                    d = list(e[3]); p = r.range(1, len(d) - 1)
                    d[p] = r.choice([0, 1, 2, 15, 16, 63, 64, 127, 128, 191, 192, 250, 251, 253, 254, 255, r.below(256)])
                    ev.append(("msg", e[1], e[2], d))
            # a truncated copy of the message (fewer data bytes than the fixed part of its type, down to none at all): since the
            # C12 repairs the dispatcher ignores it; a vendor report cut anywhere must be ignored or read inside the message
            if e[0] == "msg" and e[3] and e[2] not in (T["NODE_NEW"],) and r.chance(1, 12):
                ev.append(("msg", e[1], e[2], list(e[3][:r.below(len(e[3]))])))
        return ev

# ---------------------------------------------------------------- scripts
def ev_line(e):
    if e[0] == "nodenew": return "nodenew %d %d %d %d %s" % (e[1][0], e[1][1], e[1][2], e[2], hexs(e[3]))
    if e[0] == "msg": return "rx " + hexs(flowgen.frame(flowgen.upmsg(e[1], 0, e[2], e[3])))
    if e[0] == "udrive": return "udrive %d %d %d %s" % (e[1][0], e[1][1], e[1][2], " ".join(str(x) for x in e[2]))
    if e[0] == "uacc": return "uacc %d %d %d %d %d %d %d" % (e[1][0], e[1][1], e[1][2], e[2], e[3], e[4], e[5])
    raise ValueError(e)

def script_of(cid, cfgdir, c, events, dump_every=True, snap=True):
    L = ["case %s" % cid] + cfg_lines(c) + ["logw 0", "start 0 %s 0" % cfgdir, "rx fe", "dump"]
    for e in events:
        L.append(ev_line(e))
        if dump_every: L.append("dump")
    if not dump_every: L.append("dump")
    if snap: L.append("dumpsnap")
    L.append("stop")
    return L

def dumps_of(lines):
    """list of dumps (each a sorted list of lines) from one case's observation lines; other lines kept as one-element lists"""
    out = []; cur = None
    for l in lines:
        if l == "enddump": out.append(sorted(cur or [])); cur = None
        elif l.startswith(("b ", "seg ", "tr ", "pos ", "ontrack ", "bo ", "to ", "pt ", "sg ", "pe ", "rv ")):
            if cur is None: cur = []
            cur.append(l)
        else:
            out.append([l])
    if cur: out.append(sorted(cur))
    return out

DUMP_TAGS = ("b", "seg", "tr", "pos", "ontrack", "bo", "to", "pt", "sg", "pe", "rv")
def real_dumps(lines):
    """only the dumps (initial state, one per event, optionally the final snapshot), without start/stop/mark lines"""
    return [d for d in dumps_of(lines) if d and d[0].split()[0] in DUMP_TAGS]

def parse_dump(d):
    """-> dict with segs {id: {occ, addrs[(l,h,t)], pw, conf}}, trains {id: {...}}, pos {id: (n, [segs], ori, ontrack)}"""
    segs = {}; trains = {}; pos = {}; other = []
    for l in d:
        f = l.split()
        if f[0] == "seg" and len(f) >= 6:
            kv = dict(x.split("=", 1) for x in f[2:])
            ad = [] if kv["addrs"] == "-" else [tuple(int(y) for y in x.split(":")) for x in kv["addrs"].split(",")]
            segs[f[1]] = {"occ": kv["occ"] == "1", "addrs": ad, "pw": kv["pw"], "conf": kv["conf"]}
        elif f[0] == "tr" and len(f) >= 6:
            kv = dict(x.split("=", 1) for x in f[2:])
            trains[f[1]] = kv
        elif f[0] == "pos":
            pos[f[1]] = (int(f[2]), [] if f[3] == "-" else f[3].split(","), f[4], f[5].split("=")[1] == "1")
        else: other.append(l)
    return {"segs": segs, "trains": trains, "pos": pos, "other": other}

def mask_meaningless(d):
    """hide fields that carry no meaning for a user: the orientation of a train that is not on track"""
    out = []
    for l in d:
        if l.startswith("tr ") and " on=0 " in l:
            l = l.replace(" ori=L ", " ori=- ").replace(" ori=R ", " ori=- ")
        out.append(l)
    return out

# ---------------------------------------------------------------- running
import subprocess, shutil

def run_model(md, mode, script_text, timeout=1800):
    r = subprocess.run([md, mode], input=script_text, capture_output=True, text=True, timeout=timeout)
    if r.returncode != 0:
        raise RuntimeError("model driver (%s) failed: %s" % (mode, r.stderr[-500:]))
    return vlib.split_cases(r.stdout)

def run_impl(exe, scripts, ids, shard=400, timeout=600):
    """scripts: {id: [lines]}; returns ({id: lines}, {id: (rc, stderr tail)} for cases that crashed the driver)"""
    out = {}; crashed = {}
    todo = list(ids)
    while todo:
        part = todo[:shard]; todo = todo[shard:]
        text = "\n".join(l for i in part for l in scripts[i]) + "\n"
        rc, so, se = vlib.run_driver(exe, text, timeout=timeout)
        got = vlib.split_cases(so)
        if rc == 0:
            for i in part: out[i] = got.get(str(i))
            continue
        # the driver died inside one case: everything before it is complete
        done = [i for i in part if str(i) in got]
        if not done:
            crashed[part[0]] = (rc, se[-1200:]); todo = part[1:] + todo; continue
        last = done[-1]
        for i in done[:-1]: out[i] = got[str(i)]
        crashed[last] = (rc, se[-1200:]); out[last] = got[str(last)]
        todo = part[part.index(last) + 1:] + todo
    return out, crashed

def make_cases(r, n, tmpbase, occupancy_only=False, rich=True, min_ev=3, max_ev=14, cfg_reuse=4):
    """-> list of dict(cfg, dir, events)"""
    cases = []; c = None; d = None
    for i in range(n):
        if c is None or i % cfg_reuse == 0:
            c = gen_cfg(r, rich=rich, max_segs=8 if occupancy_only else 6)
            d = os.path.join(tmpbase, "cfg%d" % i); write_cfg(c, d)
        h = Hist(r, c, occupancy_only=occupancy_only).history(r.range(min_ev, max_ev))
        cases.append({"cfg": c, "dir": d, "events": h})
    return cases

def ev_json(e):
    return [e[0]] + [x if not isinstance(x, tuple) else list(x) for x in e[1:]]

def cfg_json(c):
    return {"boards": c.boards, "trains": c.trains, "track_order": c.track_order}

def mask_open_choice(c, d):
    """when a train is currently listed with BOTH orientations the property leaves open which one is reported:
    hide the orientation of that train for the model/implementation comparison (the oracle still demands one of them)"""
    p = parse_dump(d); mixed = set()
    for i, (l, h, _) in enumerate(c.trains):
        kinds = {("L" if at == 0 else "R") for g in p["segs"] for (al, ah, at) in p["segs"][g]["addrs"] if (al, ah) == (l, h)}
        if len(kinds) > 1: mixed.add(tname(i))
    out = []
    for l in d:
        f = l.split()
        if f[0] == "tr" and f[1] in mixed: l = l.replace(" ori=L ", " ori=* ").replace(" ori=R ", " ori=* ")
        if f[0] == "pos" and f[1] in mixed: f[4] = "*"; l = " ".join(f)
        out.append(l)
    return out


def mask(c, d):
    """the view of a dump that the properties speak about: without the orientation of trains that are not on track and
    without the orientation of trains currently reported with both orientations"""
    return mask_open_choice(c, mask_meaningless(d))

# ---------------------------------------------------------------- replay of a recorded case
def cfg_from_json(j):
    c = Cfg()
    for B in j["boards"]:
        c.boards.append({"uid": B["uid"], "secack": B["secack"], "segs": [tuple(x) for x in B["segs"]],
                         "points": [(n, i, [tuple(a) for a in asp]) for n, i, asp in B["points"]],
                         "signals": [(n, i, [tuple(a) for a in asp]) for n, i, asp in B["signals"]],
                         "dpoints": [tuple(x) for x in B["dpoints"]], "dsignals": [tuple(x) for x in B["dsignals"]],
                         "periph": [(p0, p1, i, [tuple(a) for a in asp]) for p0, p1, i, asp in B["periph"]],
                         "revs": [(cv, i) for cv, i in B["revs"]]})
    c.trains = [(l, h, bits) for l, h, bits in j["trains"]]; c.track_order = j["track_order"]
    for B in c.boards:
        c.n["seg"] += len(B["segs"]); c.n["p"] += len(B["points"]); c.n["s"] += len(B["signals"]); c.n["dp"] += len(B["dpoints"])
        c.n["ds"] += len(B["dsignals"]); c.n["pe"] += len(B["periph"]); c.n["r"] += len(B["revs"])
    return c

def ev_from_json(e):
    return tuple(e)

def replay_case(ck, path, judge):
    """re-run a recorded case on the current tree: implementation, model and specification side by side.
    judge(cfg, events, impl_dumps, model_dumps, spec_dumps) -> list of reasons (empty = the case passes now)"""
    import json
    vlib.CURRENT_EXTS = ("C07",)
    j = json.load(open(path))
    if "cfg" not in j or "events" not in j:
        print(json.dumps(j, indent=1)[:4000]); return 0
    c = cfg_from_json(j["cfg"]); events = [ev_from_json(e) for e in j["events"]]
    tmp = vlib.mktmp("vrep"); d = os.path.join(tmp, "cfg"); write_cfg(c, d)
    cdir = vlib.coq_dir()
    for n, e in vlib.regenerate(cdir, ("tables", "statetabs", "access")): print("translator %s: %s" % (n, e))
    exe = vlib.build_harness(); md = vlib.build_model_driver(cdir, "_C07")
    sc = script_of("r", d, c, events); text = "\n".join(sc) + "\n"
    ml = run_model(md, "model", text).get("r", []); sl = run_model(md, "spec", text).get("r", [])
    rc, so, se = vlib.run_driver(exe, text, timeout=120)
    il = vlib.split_cases(so).get("r", [])
    di, dm, ds = real_dumps(il), real_dumps(ml), real_dumps(sl)
    print("implementation exit code %s; %d dumps (model %d, specification %d)" % (rc, len(di), len(dm), len(ds)))
    if rc != 0: print(se[-1500:])
    for k in range(min(len(di), len(dm), len(ds))):
        a, b, s2 = mask(c, di[k]), mask(c, dm[k]), mask(c, ds[k])
        if a != b or a != s2:
            print("first difference after event %d: %s" % (k, events[k - 1] if 1 <= k <= len(events) else None))
            for l in a:
                if l not in b or l not in s2: print("  implementation: " + l)
            for l in b:
                if l not in a: print("  model:          " + l)
            for l in s2:
                if l not in a: print("  specification:  " + l)
            break
    reasons = judge(c, events, di, dm, ds) if rc == 0 else ["implementation crashed (rc %s)" % rc]
    for x in reasons[:5]: print("STILL FAILING: " + str(x))
    if not reasons: print("the recorded case passes on the current tree")
    return 1 if reasons else 0
