"""cfggen — generators, YAML rendering and model encoding for the configuration properties C13/C14.

A *typed document* (dicts/lists below, mirror of coq/ConfigSpec.v `doc3`) keeps every scalar as the raw
string that is written to the file.  `to_tree` turns it into a generic YAML tree
(("map", [(key, node)...]) | ("seq", [node...]) | ("str", text)), `emit` writes a tree as YAML text,
`encode` writes the typed document as the token line read by the Coq model driver.
"""
import re, copy

# ------------------------------------------------------------------ YAML emitter (block style)
_PLAIN = re.compile(r'^[A-Za-z0-9_][A-Za-z0-9_.\-]*$')
def scalar_text(s, force_quote=False):
    if not force_quote and _PLAIN.match(s):
        return s
    out = ['"']
    for ch in s:
        o = ord(ch)
        if ch == '\\': out.append('\\\\')
        elif ch == '"': out.append('\\"')
        elif ch == '\n': out.append('\\n')
        elif ch == '\t': out.append('\\t')
        elif o < 32 or o == 127: out.append('\\x%02x' % o)
        else: out.append(ch)
    out.append('"')
    return "".join(out)

def S(s): return ("str", s)
def M(pairs): return ("map", list(pairs))
def Q(items): return ("seq", list(items))

def _emit(node, ind, lines, prefix):
    """prefix: text already on the current line (e.g. '- ' or 'key: '); ind: indentation of children"""
    kind, val = node
    pad = "  " * ind
    if kind == "str":
        lines.append(prefix + scalar_text(val)); return
    if kind == "seq":
        if not val: lines.append(prefix + "[]"); return
        if prefix.strip(): lines.append(prefix.rstrip())
        for it in val:
            if it[0] == "str" or not it[1]:
                _emit(it, ind + 1, lines, pad + "- ")
            elif it[0] == "map":
                first = True
                for k, v in it[1]:
                    _emit_pair(k, v, ind + 1, lines, (pad + "- ") if first else (pad + "  "))
                    first = False
            else:
                lines.append(pad + "-")
                _emit(it, ind + 1, lines, "")
        return
    if kind == "map":
        if not val: lines.append(prefix + "{}"); return
        if prefix.strip(): lines.append(prefix.rstrip())
        for k, v in val:
            _emit_pair(k, v, ind, lines, pad)
        return
    raise ValueError(kind)

def flow(node):
    kind, val = node
    if kind == "str": return scalar_text(val, True)
    if kind == "seq": return "[" + ", ".join(flow(x) for x in val) + "]"
    return "{" + ", ".join(("? " if k[0] != "str" else "") + flow(k) + " : " + flow(v) for k, v in val) + "}"

def _emit_pair(k, v, ind, lines, lead):
    """one 'key: value' of a block mapping whose entries are indented by `ind`"""
    if k[0] != "str":
        # complex key: "? key" / ": value", both in flow style
        lines.append(lead + "? " + flow(k)); lines.append("  " * ind + ": " + flow(v)); return
    key = scalar_text(k[1])
    if v[0] == "str" or not v[1]:
        _emit(v, ind + 1, lines, lead + key + ": ")
    else:
        lines.append(lead + key + ":")
        _emit(v, ind + 1, lines, "")

def emit(node):
    if node is None: return ""
    lines = []
    _emit(node, 0, lines, "")
    return "\n".join(lines) + "\n"

# ------------------------------------------------------------------ typed document -> generic trees
def _opt(pairs, key, val):
    if val is not None: pairs.append((S(key), S(val)))

def aspects_tree(asps): return Q(M([(S("id"), S(a["id"])), (S("value"), S(a["val"]))]) for a in asps)

def bacc_tree(e):
    p = [(S("id"), S(e["id"])), (S("number"), S(e["num"])), (S("aspects"), aspects_tree(e["aspects"]))]
    _opt(p, "initial", e["init"])
    if e["init"] is not None:
        for k, v in e.get("extra", []): p.append((S(k), S(v)))
    return M(p)

def dacc_tree(e):
    asp = Q(M([(S("id"), S(a["id"])), (S("ports"), Q(M([(S("port"), S(q["port"])), (S("value"), S(q["val"]))]) for q in a["ports"]))]) for a in e["aspects"])
    p = [(S("id"), S(e["id"])), (S("dcc-address"), S(e["addr"])), (S("extended"), S(e["ext"])), (S("aspects"), asp)]
    _opt(p, "initial", e["init"])
    return M(p)

def periph_tree(e):
    p = [(S("id"), S(e["id"])), (S("number"), S(e["num"])), (S("port"), S(e["port"])), (S("aspects"), aspects_tree(e["aspects"]))]
    _opt(p, "initial", e["init"])
    if e["init"] is not None:
        for k, v in e.get("extra", []): p.append((S(k), S(v)))
    return M(p)

def seg_tree(e):
    return M([(S("id"), S(e["id"])), (S("address"), S(e["addr"])), (S("length"), S(e["len"]))] + [(S(k), S(v)) for k, v in e.get("extra", [])])
def rev_tree(e):
    return M([(S("id"), S(e["id"])), (S("cv"), S(e["cv"]))] + [(S(k), S(v)) for k, v in e.get("extra", [])])

SECTIONS = [("pb", "points-board", bacc_tree), ("pd", "points-dcc", dacc_tree), ("sb", "signals-board", bacc_tree),
            ("sd", "signals-dcc", dacc_tree), ("pe", "peripherals", periph_tree), ("sg", "segments", seg_tree), ("rv", "reversers", rev_tree)]

def setup_tree(u):
    p = [(S("id"), S(u["id"]))]
    for f, key, fn in SECTIONS:
        if u[f] or f in u.get("explicit_empty", ()):
            p.append((S(key), Q(fn(e) for e in u[f])))
    return M(p)

def board_tree(b):
    p = [(S("id"), S(b["id"])), (S("unique-id"), S(b["uid"]))]
    if b["feats"] or b.get("explicit_empty"):
        p.append((S("features"), Q(M([(S("number"), S(f["num"])), (S("value"), S(f["val"]))]) for f in b["feats"])))
    return M(p)

def train_tree(t):
    p = [(S("id"), S(t["id"])), (S("dcc-address"), S(t["addr"])), (S("dcc-speed-steps"), S(t["steps"]))]
    if t["cal"] is not None: p.append((S("calibration"), Q(S(v) for v in t["cal"])))
    if t["per"] is not None:
        per = []
        for q in t["per"]:
            pp = [(S("id"), S(q["id"])), (S("bit"), S(q["bit"]))]
            _opt(pp, "initial", q["init"])
            per.append(M(pp))
        p.append((S("peripherals"), Q(per)))
        for k, v in t.get("extra", []): p.append((S(k), S(v)))
    return M(p)

def to_trees(doc):
    """three trees (None = empty file)"""
    def sect(key, items, fn, empty_file):
        if not items and empty_file: return None
        return M([(S(key), Q(fn(x) for x in items))])
    return [sect("boards", doc["boards"], board_tree, doc.get("empty_files", (0, 0, 0))[0]),
            sect("boards", doc["track"], setup_tree, doc.get("empty_files", (0, 0, 0))[1]),
            sect("trains", doc["trains"], train_tree, doc.get("empty_files", (0, 0, 0))[2])]

FILES = ["bidib_board_config.yml", "bidib_track_config.yml", "bidib_train_config.yml"]

def texts(doc): return [emit(t) for t in to_trees(doc)]

# ------------------------------------------------------------------ model encoding (token line)
def _h(s): return "".join("%02x" % b for b in s.encode("utf-8")) if s else "-"
def _o(v): return ["N"] if v is None else ["S", _h(v)]
def _l(items, fn):
    out = ["["]
    for x in items: out += fn(x)
    return out + ["]"]
def _asp(a): return [_h(a["id"]), _h(a["val"])]
def _bacc(e): return [_h(e["id"]), _h(e["num"])] + _l(e["aspects"], _asp) + _o(e["init"])
def _dacc(e): return [_h(e["id"]), _h(e["addr"]), _h(e["ext"])] + _l(e["aspects"], lambda a: [_h(a["id"])] + _l(a["ports"], lambda q: [_h(q["port"]), _h(q["val"])])) + _o(e["init"])
def _per(e): return [_h(e["id"]), _h(e["num"]), _h(e["port"])] + _l(e["aspects"], _asp) + _o(e["init"])
def encode(doc):
    t = _l(doc["boards"], lambda b: [_h(b["id"]), _h(b["uid"])] + _l(b["feats"], lambda f: [_h(f["num"]), _h(f["val"])]))
    t += _l(doc["track"], lambda u: [_h(u["id"])] + _l(u["pb"], _bacc) + _l(u["pd"], _dacc) + _l(u["sb"], _bacc) + _l(u["sd"], _dacc)
            + _l(u["pe"], _per) + _l(u["sg"], lambda e: [_h(e["id"]), _h(e["addr"]), _h(e["len"])]) + _l(u["rv"], lambda e: [_h(e["id"]), _h(e["cv"])]))
    def tr(x):
        o = [_h(x["id"]), _h(x["addr"]), _h(x["steps"])]
        o += ["N"] if x["cal"] is None else ["S"] + _l(x["cal"], lambda v: [_h(v)])
        o += ["N"] if x["per"] is None else ["S"] + _l(x["per"], lambda q: [_h(q["id"]), _h(q["bit"])] + _o(q["init"]))
        return o
    t += _l(doc["trains"], tr)
    return " ".join(t)

# ------------------------------------------------------------------ valid documents
ID_ALPHA = "abcdefghijklmnopqrstuvwxyzABCDEFGHIJKLMNOPQRSTUVWXYZ0123456789_-."
ODD_IDS = ["id", "value", "number", "yes", "null", "~", "0x10", "12", "a b", "x: y", "#c", "-", "[x]", "ä", "it's", 'q"q', "", " lead", "trail ", "initial", "boards", "a\\b", "%s%s%s%s", "%n", "100%d", "%08x%08x%p", "%"]

class Names:
    def __init__(self, r): self.r = r; self.used = set()
    def fresh(self, prefix=""):
        r = self.r
        for _ in range(1000):
            if r.chance(1, 12): s = r.choice(ODD_IDS)
            else: s = prefix + "".join(r.choice(ID_ALPHA) for _ in range(r.range(1, 8)))
            if s not in self.used:
                self.used.add(s); return s
        raise RuntimeError("names exhausted")

def byte_text(r, v):
    """one of the spellings bidib_string_to_byte accepts for v"""
    k = r.below(10)
    if k < 5: return "0x%02x" % v
    if k < 7: return "0x%02X" % v
    if k < 9: return "%d" % v
    return r.choice(["0x%x" % v, "0x0%02x" % v, "%03d" % v])

def hex4(r, a, b):
    s = "%02x%02x" % (a, b)
    return "0x" + (s.upper() if r.chance(1, 2) else s)

BOUND = [0, 1, 2, 31, 32, 126, 127, 128, 254, 255]
def any_byte(r): return r.choice(BOUND) if r.chance(1, 3) else r.below(256)

def distinct_bytes(r, n, hi=255):
    out = []
    while len(out) < n:
        v = any_byte(r) if hi == 255 else r.range(0, hi)
        if v not in out: out.append(v)
    return out

def gen_aspects(r):
    n = r.range(1, 4)
    vals = distinct_bytes(r, n); nm = Names(r)
    return [{"id": nm.fresh(), "val": byte_text(r, v)} for v in vals]

def gen_daspects(r):
    """dcc aspects over one common port set with pairwise different value vectors (unambiguous in any reading)"""
    nports = r.range(1, 3)
    ports = distinct_bytes(r, nports, 31)
    n = r.range(1, min(3, 2 ** nports)); vecs = []
    while len(vecs) < n:
        v = tuple(r.below(2) for _ in ports)
        if v not in vecs: vecs.append(v)
    nm = Names(r)
    return [{"id": nm.fresh(), "ports": [{"port": byte_text(r, p), "val": byte_text(r, b)} for p, b in zip(ports, v)]} for v in vecs]

def pick_init(r, asps): return r.choice(asps)["id"] if r.chance(2, 3) else None
def gen_extra(r): return [(r.choice(["type", "note", "x"]), r.choice(["onebit", "7", "z z"]))] if r.chance(1, 3) else []

class Ctx:
    """global pools that must stay unambiguous across the whole document"""
    def __init__(self, r):
        self.r = r
        self.points = Names(r); self.signals = Names(r); self.periphs = Names(r); self.segs = Names(r); self.revs = Names(r)
        self.boards = Names(r); self.trains = Names(r)
        self.dcc = set(); self.uids = set()
    def fresh_dcc(self):
        r = self.r
        for _ in range(1000):
            a = (any_byte(r), any_byte(r))
            if a not in self.dcc:
                self.dcc.add(a); return a
        raise RuntimeError

def gen_valid(r, size=None):
    c = Ctx(r)
    nb = r.choice([0, 1, 1, 2, 2, 3, 4]) if size is None else size
    doc = {"boards": [], "track": [], "trains": [], "empty_files": (r.chance(1, 2), r.chance(1, 2), r.chance(1, 2))}
    for _ in range(nb):
        while True:
            uid = [any_byte(r) for _ in range(7)]
            if r.chance(1, 3): uid[0] = r.choice([0x00, 0x02, 0x10, 0x12, 0xff, 0xfd, 0xed])
            if c.uids and r.chance(1, 3):
                # a near-duplicate: the unique id of an earlier board with exactly one of its seven bytes changed (still distinct)
                uid = list(r.choice(sorted(c.uids))); k = r.below(7); uid[k] = (uid[k] + r.choice([1, 0x80, 0xFF, r.range(1, 255)])) & 0xFF
            if tuple(uid) not in c.uids: c.uids.add(tuple(uid)); break
        us = "".join("%02x" % x for x in uid)
        b = {"id": c.boards.fresh("b"), "uid": "0x" + (us.upper() if r.chance(1, 2) else us), "feats": [], "explicit_empty": r.chance(1, 4)}
        for n in distinct_bytes(r, r.choice([0, 0, 1, 2, 3])):
            b["feats"].append({"num": byte_text(r, n), "val": byte_text(r, any_byte(r))})
        doc["boards"].append(b)
    # track: a subset of boards, possibly one board twice, in any order
    order = [b["id"] for b in doc["boards"] if r.chance(3, 4)]
    if order and r.chance(1, 5): order.append(r.choice(order))
    for i in range(len(order) - 1, 0, -1):
        j = r.below(i + 1); order[i], order[j] = order[j], order[i]
    per_board = {}
    for bid in order:
        pb = per_board.setdefault(bid, {"pnum": set(), "snum": set(), "enum": set(), "eport": set(), "saddr": set(), "cv": set()})
        u = {"id": bid, "pb": [], "pd": [], "sb": [], "sd": [], "pe": [], "sg": [], "rv": [], "explicit_empty": set()}
        def fresh_in(pool, gen):
            for _ in range(1000):
                v = gen()
                if v not in pool: pool.add(v); return v
            raise RuntimeError
        for f in ("pb", "sb"):
            for _ in range(r.choice([0, 0, 1, 1, 2, 3])):
                asps = gen_aspects(r)
                n = fresh_in(pb["pnum"], lambda: any_byte(r))      # one number space per board for points and signals
                u[f].append({"id": (c.points if f == "pb" else c.signals).fresh(), "num": byte_text(r, n), "aspects": asps, "init": pick_init(r, asps), "extra": gen_extra(r)})
        for f in ("pd", "sd"):
            for _ in range(r.choice([0, 0, 1, 1, 2])):
                asps = gen_daspects(r); a = c.fresh_dcc()
                u[f].append({"id": (c.points if f == "pd" else c.signals).fresh(), "addr": hex4(r, a[0], a[1]), "ext": r.choice(["0", "1", "0x00", "0x01"]), "aspects": asps, "init": pick_init(r, asps)})
        for _ in range(r.choice([0, 0, 1, 2, 3])):
            asps = gen_aspects(r)
            n = fresh_in(pb["enum"], lambda: any_byte(r)); p = fresh_in(pb["eport"], lambda: (any_byte(r), any_byte(r)))
            u["pe"].append({"id": c.periphs.fresh(), "num": byte_text(r, n), "port": hex4(r, p[0], p[1]), "aspects": asps, "init": pick_init(r, asps), "extra": gen_extra(r)})
        for _ in range(r.choice([0, 0, 1, 2, 4])):
            a = fresh_in(pb["saddr"], lambda: any_byte(r))
            u["sg"].append({"id": c.segs.fresh(), "addr": byte_text(r, a), "len": r.choice(["10.2cm", "0", "x", "187.1cm"]), "extra": gen_extra(r)})
        for _ in range(r.choice([0, 0, 0, 1, 2])):
            cv = fresh_in(pb["cv"], lambda: r.choice(["30051", "1", "0x10", "cv", "255", "256", "-1"]) + r.choice(["", "", "0", "1"]))
            u["rv"].append({"id": c.revs.fresh(), "cv": cv, "extra": gen_extra(r)})
        for f, _, _ in SECTIONS:
            if not u[f] and r.chance(1, 6): u["explicit_empty"].add(f)
        doc["track"].append(u)
    for _ in range(r.choice([0, 1, 1, 2, 3])):
        a = c.fresh_dcc()
        t = {"id": c.trains.fresh("t"), "addr": hex4(r, a[0], a[1]), "steps": byte_text(r, r.choice([14, 28, 126])), "cal": None, "per": None, "extra": []}
        if r.chance(1, 2):
            t["cal"] = [byte_text(r, r.choice([0, 1, 126]) if r.chance(1, 4) else r.range(0, 126)) for _ in range(9)]
        if r.chance(2, 3):
            nm = Names(r); bits = distinct_bytes(r, r.choice([0, 1, 2, 3, 5]), 31)
            t["per"] = [{"id": nm.fresh(), "bit": byte_text(r, b), "init": (None if r.chance(1, 3) else r.choice(["0", "1", "0x01", "0x00"]))} for b in bits]
            t["extra"] = gen_extra(r)
        doc["trains"].append(t)
    return doc

def example_doc():
    """the configuration shipped with the unit tests (test/unit/config_tests_config), as a typed document"""
    A = lambda *p: [{"id": i, "val": v} for i, v in p]
    DA = lambda *p: [{"id": i, "ports": [{"port": a, "val": b} for a, b in q]} for i, q in p]
    two = DA(("normal", [("0x00", "0x01"), ("0x01", "0x00")]), ("reverse", [("0x00", "0x00"), ("0x01", "0x01")]))
    gr = DA(("green", [("0x00", "0x01"), ("0x01", "0x00")]), ("red", [("0x00", "0x00"), ("0x01", "0x01")]))
    st = A(("state1", "0x00"), ("state2", "0x01"))
    return {"boards": [{"id": "board1", "uid": "0x0223456789ABCD", "feats": [{"num": "0x01", "val": "0x00"}, {"num": "0x04", "val": "0x01"}]},
                       {"id": "board2", "uid": "0x0123456789ABCE", "feats": []},
                       {"id": "board3", "uid": "0xF41274A8E56B93", "feats": [{"num": "0x01", "val": "0x00"}]}],
            "track": [{"id": "board1",
                       "pb": [{"id": "point1", "num": "0x02", "aspects": A(("normal", "0x01"), ("reverse", "0x00")), "init": "normal"},
                              {"id": "point2", "num": "0x14", "aspects": A(("normal", "0x01"), ("reverse", "0x00")), "init": None}],
                       "pd": [{"id": "point3", "addr": "0x0113", "ext": "0", "aspects": two, "init": None}],
                       "sb": [{"id": "signal1", "num": "0x10", "aspects": A(("green", "0x02"), ("orange", "0x01"), ("red", "0x00")), "init": "red"}],
                       "sd": [{"id": "signal2", "addr": "0x1122", "ext": "0", "aspects": gr, "init": "red"}],
                       "pe": [{"id": "led1", "num": "0x00", "port": "0x0123", "aspects": st, "init": "state1", "extra": [("type", "onebit")]}],
                       "sg": [{"id": "seg1", "addr": "0x00", "len": "10.2cm"}, {"id": "seg2", "addr": "0x01", "len": "20.5cm"}], "rv": []},
                      {"id": "board2", "pb": [], "pd": [], "sb": [], "sd": [],
                       "pe": [{"id": "led2", "num": "0x00", "port": "0x0123", "aspects": st, "init": "state1", "extra": [("type", "onebit")]},
                              {"id": "led3", "num": "0x01", "port": "0x1011", "aspects": st, "init": "state1"}],
                       "sg": [], "rv": [{"id": "reverser", "cv": "30051"}]}],
            "trains": [{"id": "train1", "addr": "0x0123", "steps": "14", "cal": ["5", "15", "30", "45", "60", "75", "90", "105", "120"],
                        "per": [{"id": "light1", "bit": "4", "init": "1"}, {"id": "light2", "bit": "3", "init": "0"}, {"id": "horn", "bit": "0", "init": None}]},
                       {"id": "train2", "addr": "0x4567", "steps": "126", "cal": None, "per": [{"id": "light", "bit": "4", "init": "1"}]}]}

# ------------------------------------------------------------------ what the getters must report for a valid document (oracle)
def hexid(s): return "".join("%02x" % b for b in s.encode("utf-8")) if s else "-"
def byte_value(t):
    t = t.strip()
    if t.startswith("+"): t = t[1:]
    if t[:2] in ("0x", "0X"):
        t = t[2:]
        if t[:2] in ("0x", "0X"): t = t[2:]
        return int(t, 16)
    return int(t, 10)

def expected_dump(doc):
    """observation lines a correct library prints for a valid document (written from the property text:
    exactly the declared entities, boosters/track outputs from unique-id class bits 1/4, initial states)"""
    L = []
    ids = lambda xs: "".join(" " + hexid(x) for x in xs)
    bsec = {}
    for u in doc["track"]:
        d = bsec.setdefault(u["id"], {f: [] for f, _, _ in SECTIONS})
        for f, _, _ in SECTIONS: d[f] += u[f]
    L.append("boards :" + ids(b["id"] for b in doc["boards"]))
    for b in doc["boards"]:
        d = bsec.get(b["id"], {f: [] for f, _, _ in SECTIONS})
        uid = b["uid"][2:].lower()
        L.append("board %s uid %s conn 0 feats%s" % (hexid(b["id"]), uid, "".join(" %d:%d" % (byte_value(f["num"]), byte_value(f["val"])) for f in b["feats"])))
        L.append("bpoints %s :%s" % (hexid(b["id"]), ids(e["id"] for e in d["pb"] + d["pd"])))
        L.append("bsignals %s :%s" % (hexid(b["id"]), ids(e["id"] for e in d["sb"] + d["sd"])))
        L.append("bperiph %s :%s" % (hexid(b["id"]), ids(e["id"] for e in d["pe"])))
        L.append("bsegs %s :%s" % (hexid(b["id"]), ids(e["id"] for e in d["sg"])))
        L.append("brevs %s :%s" % (hexid(b["id"]), ids(e["id"] for e in d["rv"])))
    for b in doc["boards"]:
        d = bsec.get(b["id"], {f: [] for f, _, _ in SECTIONS})
        for e in d["pb"] + d["pd"]: L.append("paspects %s :%s" % (hexid(e["id"]), ids(a["id"] for a in e["aspects"])))
        for e in d["sb"] + d["sd"]: L.append("saspects %s :%s" % (hexid(e["id"]), ids(a["id"] for a in e["aspects"])))
        for e in d["pe"]: L.append("easpects %s :%s" % (hexid(e["id"]), ids(a["id"] for a in e["aspects"])))
    cls = lambda b: int(b["uid"][2:4], 16)
    L.append("boosters :" + ids(b["id"] for b in doc["boards"] if cls(b) & 2))
    L.append("touts :" + ids(b["id"] for b in doc["boards"] if cls(b) & 16))
    L.append("trains :" + ids(t["id"] for t in doc["trains"]))
    for t in doc["trains"]:
        L.append("train %s addr %s" % (hexid(t["id"]), t["addr"][2:].lower()))
        L.append("tperiph %s :%s" % (hexid(t["id"]), ids(q["id"] for q in (t["per"] or []))))
    unk = hexid("unknown")
    for u in doc["track"]:
        pass
    allsec = {f: [e for u in doc["track"] for e in u[f]] for f, _, _ in SECTIONS}
    for e in allsec["pb"]: L.append("PB %s %s 0 2 0" % (hexid(e["id"]), unk))
    for e in allsec["pd"]: L.append("PD %s %s 0 1 1 4 0 0" % (hexid(e["id"]), unk))
    for e in allsec["sb"]: L.append("SB %s %s 0 2 0" % (hexid(e["id"]), unk))
    for e in allsec["sd"]: L.append("SD %s %s 0 1 1 4 0 0" % (hexid(e["id"]), unk))
    for e in allsec["pe"]: L.append("PE %s %s 0 0 0" % (hexid(e["id"]), unk))
    for e in allsec["sg"]: L.append("SG %s 0 000 0 0 0" % hexid(e["id"]))
    for e in allsec["rv"]: L.append("RV %s %s 2" % (hexid(e["id"]), unk))
    for t in doc["trains"]:
        L.append("TR %s 0 0 0 1 4 0 00000 :%s" % (hexid(t["id"]), "".join(" %s:0" % hexid(q["id"]) for q in (t["per"] or []))))
    for b in doc["boards"]:
        if cls(b) & 2: L.append("BO %s 0 1 0 0" % hexid(b["id"]))
    for b in doc["boards"]:
        if cls(b) & 16: L.append("TO %s 0" % hexid(b["id"]))
    return L

# ------------------------------------------------------------------ single-fault mutations (C14)
BAD_BYTES = ["", "0x", "0xG1", "256", "-1", "0x100", "1 ", "abc", "0x1g", "1.0", "0x-1", "99999999999999999999999", "x10"]
def respell(t):
    """another spelling of the same value when there is one"""
    if t[:2] == "0x" and t[2:] != t[2:].swapcase(): return "0x" + t[2:].swapcase()
    try:
        v = byte_value(t)
        alt = "%d" % v if t.strip().lower().startswith("0x") else "0x%02x" % v
        return alt
    except Exception:
        return t

def _accs(doc, kinds):
    """(setup index, field, entry index, entry) for the given section fields, document order"""
    for ui, u in enumerate(doc["track"]):
        for f in kinds:
            for ei, e in enumerate(u[f]): yield ui, f, ei, e

def mutations(doc, r, per_class=4):
    """list of (class, detail, mutated doc).  Every mutant carries exactly one fault of the named class of the
    property statement; positions are enumerated exhaustively and sampled down to per_class per sub-kind."""
    out = []
    def emit(cls, detail, fn):
        d = copy.deepcopy(doc); fn(d); out.append((cls, detail, d))
    def sample(xs):
        xs = list(xs)
        if len(xs) <= per_class: return xs
        idx = set()
        while len(idx) < per_class: idx.add(r.below(len(xs)))
        return [xs[i] for i in sorted(idx)]
    B = doc["boards"]
    pairs = lambda n: [(i, j) for j in range(n) for i in range(j)]
    for i, j in sample(pairs(len(B))):
        emit("dup_board_id", "boards %d,%d" % (i, j), lambda d: d["boards"][j].__setitem__("id", d["boards"][i]["id"]))
        emit("dup_unique_id", "boards %d,%d" % (i, j), lambda d: d["boards"][j].__setitem__("uid", respell(d["boards"][i]["uid"]) if r.chance(1, 2) else d["boards"][i]["uid"]))
    for bi, b in enumerate(B):
        for i, j in sample(pairs(len(b["feats"]))):
            emit("dup_number", "feature numbers board %d" % bi, lambda d: d["boards"][bi]["feats"][j].__setitem__("num", respell(d["boards"][bi]["feats"][i]["num"])))
    # ids per kind (global)
    for cls, kinds in (("dup_point_id", ("pb", "pd")), ("dup_signal_id", ("sb", "sd")), ("dup_peripheral_id", ("pe",)), ("dup_segment_id", ("sg",)), ("dup_reverser_id", ("rv",))):
        es = list(_accs(doc, kinds))
        for i, j in sample(pairs(len(es))):
            (ui, f, ei, e), (uj, g, ej, _) = es[i], es[j]
            emit(cls, "%s[%d] of setup %d = %s[%d] of setup %d" % (g, ej, uj, f, ei, ui), lambda d: d["track"][uj][g][ej].__setitem__("id", e["id"]))
    T = doc["trains"]
    for i, j in sample(pairs(len(T))):
        emit("dup_train_id", "trains %d,%d" % (i, j), lambda d: d["trains"][j].__setitem__("id", d["trains"][i]["id"]))
    # per-board duplicates: numbers, ports, segment addresses, CVs (a board may be split over several setups)
    for cls, f, key in (("dup_number", "pb", "num"), ("dup_number", "sb", "num"), ("dup_number", "pe", "num"), ("dup_port", "pe", "port"),
                        ("dup_segment_address", "sg", "addr"), ("dup_cv", "rv", "cv")):
        es = list(_accs(doc, (f,)))
        same = [(i, j) for i, j in pairs(len(es)) if doc["track"][es[i][0]]["id"] == doc["track"][es[j][0]]["id"]]
        for i, j in sample(same):
            (ui, _, ei, e), (uj, _, ej, _) = es[i], es[j]
            emit(cls, "%s.%s [%d/%d] = [%d/%d]" % (f, key, uj, ej, ui, ei),
                 lambda d: d["track"][uj][f][ej].__setitem__(key, e[key] if key == "cv" else respell(e[key])))
    # a point and a signal of one board with the same accessory number
    ps = list(_accs(doc, ("pb",))); ss = list(_accs(doc, ("sb",)))
    cross = [(p, s) for p in ps for s in ss if doc["track"][p[0]]["id"] == doc["track"][s[0]]["id"]]
    for p, s in sample(cross):
        emit("dup_number_point_signal", "signal %d/%d takes the number of point %d/%d" % (s[0], s[2], p[0], p[2]),
             lambda d: d["track"][s[0]]["sb"][s[2]].__setitem__("num", p[3]["num"]))
    # dcc addresses: accessories and trains
    holders = [("acc", x) for x in _accs(doc, ("pd", "sd"))] + [("train", (ti, t)) for ti, t in enumerate(T)]
    for i, j in sample(pairs(len(holders))):
        (ka, a), (kb, b) = holders[i], holders[j]
        src = a[3]["addr"] if ka == "acc" else a[1]["addr"]
        if kb == "acc": emit("shared_dcc_address", "%s/%s" % (ka, kb), lambda d: d["track"][b[0]][b[1]][b[2]].__setitem__("addr", respell(src)))
        else: emit("shared_dcc_address", "%s/%s" % (ka, kb), lambda d: d["trains"][b[0]].__setitem__("addr", respell(src)))
    # aspects
    for ui, f, ei, e in sample(list(_accs(doc, ("pb", "sb", "pe")))):
        A = e["aspects"]
        for i, j in sample(pairs(len(A)))[:2]:
            emit("dup_aspect_id", "%s[%d/%d] aspects %d,%d" % (f, ui, ei, i, j), lambda d: d["track"][ui][f][ei]["aspects"][j].__setitem__("id", A[i]["id"]))
            emit("dup_aspect_value", "%s[%d/%d] aspects %d,%d" % (f, ui, ei, i, j), lambda d: d["track"][ui][f][ei]["aspects"][j].__setitem__("val", respell(A[i]["val"])))
        emit("initial_not_an_aspect", "%s[%d/%d]" % (f, ui, ei), lambda d: d["track"][ui][f][ei].__setitem__("init", "no-such-aspect"))
        emit("no_aspects", "%s[%d/%d]" % (f, ui, ei), lambda d: (d["track"][ui][f][ei].__setitem__("aspects", []), d["track"][ui][f][ei].__setitem__("init", None)))
    for ui, f, ei, e in sample(list(_accs(doc, ("pd", "sd")))):
        A = e["aspects"]
        for i, j in sample(pairs(len(A)))[:2]:
            emit("dup_aspect_id", "%s[%d/%d] aspects %d,%d" % (f, ui, ei, i, j), lambda d: d["track"][ui][f][ei]["aspects"][j].__setitem__("id", A[i]["id"]))
            emit("dup_aspect_value", "%s[%d/%d] aspects %d,%d" % (f, ui, ei, i, j), lambda d: d["track"][ui][f][ei]["aspects"][j].__setitem__("ports", copy.deepcopy(A[i]["ports"])))
        emit("initial_not_an_aspect", "%s[%d/%d]" % (f, ui, ei), lambda d: d["track"][ui][f][ei].__setitem__("init", "no-such-aspect"))
        emit("no_aspects", "%s[%d/%d]" % (f, ui, ei), lambda d: (d["track"][ui][f][ei].__setitem__("aspects", []), d["track"][ui][f][ei].__setitem__("init", None)))
        emit("no_aspects", "%s[%d/%d] aspect without ports" % (f, ui, ei), lambda d: d["track"][ui][f][ei]["aspects"][0].__setitem__("ports", []))
        if len(A[0]["ports"]) > 1:
            emit("dup_port", "%s[%d/%d] dcc aspect port twice" % (f, ui, ei), lambda d: d["track"][ui][f][ei]["aspects"][0]["ports"][1].__setitem__("port", respell(A[0]["ports"][0]["port"])))
    # trains
    for ti, t in enumerate(T):
        nine = [byte_text(r, r.range(0, 126)) for _ in range(9)]
        per = t["per"] if t["per"] is not None else []
        def setcal(v): return lambda d: (d["trains"][ti].__setitem__("cal", v), d["trains"][ti].__setitem__("per", d["trains"][ti]["per"] if d["trains"][ti]["per"] is not None else []))
        for v, what in ((nine[:8], "8 values"), (nine + ["5"], "10 values"), ([], "0 values"), (nine[:4] + ["127"] + nine[5:], "value 127"),
                        (["255"] + nine[1:], "value 255"), (nine[:8] + ["x"], "value x"), (nine[:2] + [""] + nine[3:], "empty value")):
            emit("bad_calibration", "train %d: %s" % (ti, what), setcal(v))
        for v in sample(["0", "15", "27", "29", "127", "128", "255", "13", "125"]):
            emit("bad_speed_steps", "train %d: %s" % (ti, v), lambda d: d["trains"][ti].__setitem__("steps", v))
        for qi, q in enumerate(per):
            for v in ("32", "0x20", "255"):
                emit("bit_gt_31", "train %d peripheral %d: %s" % (ti, qi, v), lambda d: d["trains"][ti]["per"][qi].__setitem__("bit", v))
        for i, j in sample(pairs(len(per))):
            emit("dup_bit", "train %d peripherals %d,%d" % (ti, i, j), lambda d: d["trains"][ti]["per"][j].__setitem__("bit", respell(per[i]["bit"])))
            emit("dup_train_peripheral_id", "train %d peripherals %d,%d" % (ti, i, j), lambda d: d["trains"][ti]["per"][j].__setitem__("id", per[i]["id"]))
    for ui, u in enumerate(doc["track"]):
        emit("unknown_board", "setup %d" % ui, lambda d: d["track"][ui].__setitem__("id", "no-such-board"))
    # malformed values at every value position (sampled)
    pos = []
    for bi, b in enumerate(B):
        pos.append(("uid", lambda d, v, bi=bi: d["boards"][bi].__setitem__("uid", v)))
        for fi, _ in enumerate(b["feats"]):
            pos.append(("byte", lambda d, v, bi=bi, fi=fi: d["boards"][bi]["feats"][fi].__setitem__("num", v)))
            pos.append(("byte", lambda d, v, bi=bi, fi=fi: d["boards"][bi]["feats"][fi].__setitem__("val", v)))
    for ui, f, ei, e in _accs(doc, ("pb", "sb", "pe")):
        pos.append(("byte", lambda d, v, ui=ui, f=f, ei=ei: d["track"][ui][f][ei].__setitem__("num", v)))
        if f == "pe": pos.append(("pair", lambda d, v, ui=ui, f=f, ei=ei: d["track"][ui][f][ei].__setitem__("port", v)))
        for ai, _ in enumerate(e["aspects"]):
            pos.append(("byte", lambda d, v, ui=ui, f=f, ei=ei, ai=ai: d["track"][ui][f][ei]["aspects"][ai].__setitem__("val", v)))
    for ui, f, ei, e in _accs(doc, ("pd", "sd")):
        pos.append(("pair", lambda d, v, ui=ui, f=f, ei=ei: d["track"][ui][f][ei].__setitem__("addr", v)))
        pos.append(("bit", lambda d, v, ui=ui, f=f, ei=ei: d["track"][ui][f][ei].__setitem__("ext", v)))
        for ai, a in enumerate(e["aspects"]):
            for pi, _ in enumerate(a["ports"]):
                pos.append(("port5", lambda d, v, ui=ui, f=f, ei=ei, ai=ai, pi=pi: d["track"][ui][f][ei]["aspects"][ai]["ports"][pi].__setitem__("port", v)))
                pos.append(("bit", lambda d, v, ui=ui, f=f, ei=ei, ai=ai, pi=pi: d["track"][ui][f][ei]["aspects"][ai]["ports"][pi].__setitem__("val", v)))
    for ui, f, ei, e in _accs(doc, ("sg",)):
        pos.append(("byte", lambda d, v, ui=ui, ei=ei: d["track"][ui]["sg"][ei].__setitem__("addr", v)))
    for ti, t in enumerate(T):
        pos.append(("pair", lambda d, v, ti=ti: d["trains"][ti].__setitem__("addr", v)))
        pos.append(("byte", lambda d, v, ti=ti: d["trains"][ti].__setitem__("steps", v)))
        for qi, q in enumerate(t["per"] or []):
            pos.append(("byte", lambda d, v, ti=ti, qi=qi: d["trains"][ti]["per"][qi].__setitem__("bit", v)))
            if q["init"] is not None: pos.append(("bit", lambda d, v, ti=ti, qi=qi: d["trains"][ti]["per"][qi].__setitem__("init", v)))
    BAD = {"byte": BAD_BYTES, "bit": BAD_BYTES + ["2", "0x02", "255"], "port5": BAD_BYTES + ["32", "0x20", "255"],
           "pair": ["", "0x", "0x123", "0x12345", "1234", "0X1234", "0x12G4", "0x12 4 ", "4660", "0x12-4"],
           "uid": ["", "0x", "0x0123456789ABC", "0x0123456789ABCDE", "00123456789ABCDE", "0X0123456789ABCD", "0x0123456789ABCG", "0x012345679 ABCD", "1234"]}
    # spellings outside "decimal digits or 0x + hex digits" that strtol nevertheless converts: no verdict from the
    # property (is "+5" malformed?), compared with the model only
    for kind, setter in sample(pos):
        v = {"byte": r.choice(["+7", " 7", "0x0x07", "-0", "0x+7", "\t7", "0x-0"]), "bit": r.choice(["+1", " 0", "-0", "0x0x1"]),
             "port5": r.choice(["+7", " 7", "0x0x07"]), "pair": r.choice(["0x 1 2", "0x+1+2", "0x-0 7"]),
             "uid": r.choice(["0x 1 2 3 4 5 6 7", "0x+1+2+3+4+5+6+7"])}[kind]
        out.append(("lenient_number_format", "%s <- %r" % (kind, v), (lambda d: (setter(d, v), d)[1])(copy.deepcopy(doc))))
    for kind, setter in sample(pos) + sample(pos):
        v = r.choice(BAD[kind])
        out.append(("malformed_value", "%s <- %r" % (kind, v), (lambda d: (setter(d, v), d)[1])(copy.deepcopy(doc))))
    return out

# ------------------------------------------------------------------ structure-aware mutations of generic trees (C13)
KEYS = ["id", "unique-id", "features", "number", "value", "aspects", "initial", "dcc-address", "extended", "ports", "port",
        "points-board", "points-dcc", "signals-board", "signals-dcc", "peripherals", "segments", "reversers", "address", "length", "cv",
        "dcc-speed-steps", "calibration", "bit", "boards", "trains"]

def _paths(node, path=()):
    """every node with its path; path elements: ('v', i) value of pair i / ('k', i) key of pair i / ('i', i) item i"""
    yield path, node
    if node[0] == "map":
        for i, (k, v) in enumerate(node[1]):
            yield from _paths(k, path + (("k", i),))
            yield from _paths(v, path + (("v", i),))
    elif node[0] == "seq":
        for i, it in enumerate(node[1]):
            yield from _paths(it, path + (("i", i),))

def _get(node, path):
    for kind, i in path:
        node = node[1][i][0] if kind == "k" else node[1][i][1] if kind == "v" else node[1][i]
    return node

def _replace(node, path, new):
    if not path: return new
    (kind, i), rest = path[0], path[1:]
    items = list(node[1])
    if kind == "i": items[i] = _replace(items[i], rest, new)
    elif kind == "k": items[i] = (_replace(items[i][0], rest, new), items[i][1])
    else: items[i] = (items[i][0], _replace(items[i][1], rest, new))
    return (node[0], items)

def mutate_tree(tree, r):
    """one structural mutation; returns (kind, new tree)"""
    nodes = list(_paths(tree))
    maps = [(p, n) for p, n in nodes if n[0] == "map" and n[1]]
    seqs = [(p, n) for p, n in nodes if n[0] == "seq"]
    strs = [(p, n) for p, n in nodes if n[0] == "str" and p and p[-1][0] != "k"]
    op = r.choice(["del", "del", "del_first", "dup", "swap", "rename", "rename_known", "kind", "kind", "empty_map_item", "badval", "move_first_last", "extra_pair", "nest"])
    if op in ("del", "del_first", "dup", "swap", "rename", "rename_known", "move_first_last", "extra_pair") and maps:
        p, m = r.choice(maps); items = list(m[1]); i = r.below(len(items))
        if op == "del": del items[i]
        elif op == "del_first": del items[0]
        elif op == "dup": items.insert(i, items[i])
        elif op == "swap":
            if len(items) < 2: return "noop", tree
            i = r.below(len(items) - 1); items[i], items[i + 1] = items[i + 1], items[i]
        elif op == "rename": items[i] = (S(items[i][0][1] + "x" if items[i][0][0] == "str" else "x"), items[i][1])
        elif op == "rename_known": items[i] = (S(r.choice(KEYS)), items[i][1])
        elif op == "move_first_last": items.append(items.pop(0))
        elif op == "extra_pair": items.insert(r.below(len(items) + 1), (S(r.choice(KEYS + ["zz"])), r.choice([S("1"), Q([]), M([]), Q([S("a")])])))
        return op, _replace(tree, p, ("map", items))
    if op == "empty_map_item" and seqs:
        p, q = r.choice(seqs); items = list(q[1]); items.insert(r.below(len(items) + 1), r.choice([M([]), S("x"), Q([]), M([(S("id"), M([]))])]))
        return op, _replace(tree, p, ("seq", items))
    if op == "badval" and strs:
        p, n = r.choice(strs)
        return op, _replace(tree, p, S(r.choice(BAD_BYTES + ["0x12345", "0x0123456789ABCDE", "~", "null", "-5"])))
    if op == "nest" and strs:
        p, n = r.choice(strs)
        return op, _replace(tree, p, r.choice([Q([n]), M([(n, n)]), Q([Q([n])]), M([(S("id"), n)])]))
    if op == "kind":
        p, n = r.choice(nodes)
        if not p: return "kind", r.choice([S("boards"), Q([tree]), Q([]), M([])])
        new = {"str": [Q([]), M([]), Q([n]), M([(n, S("1"))])], "seq": [S("x"), M([]), S(""), M([(S("id"), S("a"))])], "map": [S("x"), Q([]), S(""), Q([S("a")])]}[n[0]]
        if p[-1][0] == "k" and r.chance(3, 4): return "noop", tree
        return op, _replace(tree, p, r.choice(new))
    return "noop", tree

def text_mutation(text, r):
    """mutations below the tree level: truncation, byte noise, extra documents, anchors/aliases/tags"""
    b = bytearray(text.encode("utf-8"))
    op = r.choice(["truncate", "truncate_line", "noise_replace", "noise_insert", "random", "second_doc", "doc_markers", "alias", "alias_top", "alias_anywhere", "tag", "tabs", "bom", "nul", "unterminated"])
    if op == "alias_top":
        # an alias where the parser expects the section key / the whole document / the section value
        k = r.below(4)
        if k == 0: return op, ("*" + text.lstrip().replace(":", " :", 1)).encode("utf-8") if text.strip() else b"*x\n"
        if k == 1: return op, b"*x\n"
        if k == 2: return op, (text.split(":", 1)[0] + ": *b\n").encode("utf-8")
        return op, ("&k " + text).encode("utf-8")
    if op == "alias_anywhere" and b:
        # some scalar (key or value) anywhere replaced by an alias / preceded by an anchor
        idx = [i for i in range(len(text)) if text[i] not in " \n-:#" and (i == 0 or text[i - 1] in " \n")]
        if idx:
            i = r.choice(idx); return op, (text[:i] + r.choice(["*a ", "&a ", "*", "&"]) + text[i:]).encode("utf-8")
    if op == "truncate" and b: return op, bytes(b[:r.below(len(b))])
    if op == "truncate_line" and b:
        lines = text.split("\n"); k = r.below(len(lines)); return op, ("\n".join(lines[:k]) + "\n").encode("utf-8")
    if op == "noise_replace" and b:
        for _ in range(r.range(1, 4)): b[r.below(len(b))] = r.below(256)
        return op, bytes(b)
    if op == "noise_insert":
        for _ in range(r.range(1, 4)): b.insert(r.below(len(b) + 1), r.choice([0x3a, 0x2d, 0x7b, 0x5b, 0x26, 0x2a, 0x21, 0x25, 0x22, 0x27, 0x0a, 0x20, 0x23, 0x7c, 0x3e, r.below(256)]))
        return op, bytes(b)
    if op == "random": return op, bytes(r.below(256) for _ in range(r.choice([1, 2, 10, 100, 1000])))
    if op == "second_doc": return op, bytes(b) + b"---\nboards: []\n"
    if op == "doc_markers": return op, b"%YAML 1.1\n---\n" + bytes(b) + b"...\n"
    if op == "alias":
        t = text.replace("id: ", "id: &a ", 1)
        k = t.find("\n", t.find("&a") + 1)
        return op, (t[:k + 1] + t[k + 1:].replace("id: ", "id: *a #", 1)).encode("utf-8")
    if op == "tag": return op, text.replace(": ", ": !!str ", r.range(1, 3)).encode("utf-8")
    if op == "tabs": return op, text.replace("  ", "\t", r.range(1, 3)).encode("utf-8")
    if op == "bom": return op, r.choice([b"\xef\xbb\xbf", b"\xff\xfe", b"\xfe\xff"]) + bytes(b)
    if op == "nul": 
        if b: b.insert(r.below(len(b)), 0)
        return op, bytes(b)
    if op == "unterminated": return op, text.replace(": ", ": \"", 1).encode("utf-8")
    return "noop", bytes(b)


def partial_record_mutants(tree):
    """exhaustive over every mapping of the tree: the record loses its first pair, gets its first key renamed,
    becomes empty, loses its last pair, or gets its first two pairs swapped (partial records at every position)"""
    out = []
    for p, n in _paths(tree):
        if n[0] != "map" or not n[1] or (p and p[-1][0] == "k"): continue
        items = list(n[1])
        out.append(("del_first", p, _replace(tree, p, ("map", items[1:]))))
        out.append(("rename_first", p, _replace(tree, p, ("map", [(S("idx"), items[0][1])] + items[1:]))))
        out.append(("empty", p, _replace(tree, p, ("map", []))))
        out.append(("del_last", p, _replace(tree, p, ("map", items[:-1]))))
        if len(items) > 1: out.append(("swap_first", p, _replace(tree, p, ("map", [items[1], items[0]] + items[2:]))))
        if len(items) > 2: out.append(("only_first", p, _replace(tree, p, ("map", items[:1]))))
    return out

def zero_doc():
    """the unit-test configuration with the values an all-zero partial record collides with (number 0, port 0x0000,
    address 0, aspect value 0 first / later) so that the duplicate scans after a failed record reach their syslog calls"""
    d = example_doc()
    b1 = d["track"][0]
    b1["pb"][0]["num"] = "0x00"      # (points and signals share one number space: the signal keeps 0x10)
    b1["pe"][0]["port"] = "0x0000"
    b1["pe"].append({"id": "led9", "num": "0x09", "port": "0x0909", "aspects": [{"id": "on", "val": "1"}, {"id": "off", "val": "0"}], "init": None})
    b1["sg"].append({"id": "seg9", "addr": "0x09", "len": "1cm"})
    b1["rv"] = [{"id": "rev1", "cv": "1"}, {"id": "rev2", "cv": "2"}]
    return d


def dcc_containment_variants(doc, r):
    """well-formed variants (distinct aspect ids, distinct port assignments) in which one dcc aspect's assignment is
    contained in another's: the one-port aspect {p0: v0} next to {p0: v0, p1: v1, ...}; once after it, once before it"""
    out = []
    accs = [x for x in _accs(doc, ("pd", "sd")) if all(len(a["ports"]) >= 2 for a in x[3]["aspects"])]
    if not accs: return out
    ui, f, ei, e = accs[r.below(len(accs))]
    first = e["aspects"][0]
    sub = {"id": "sub-aspect", "ports": [copy.deepcopy(first["ports"][0])]}
    if any(a["id"] == sub["id"] for a in e["aspects"]): return out
    for cls, pos in (("valid.dcc-aspect-contained-later", len(e["aspects"])), ("valid.dcc-aspect-contained-earlier", 0)):
        d = copy.deepcopy(doc); d["track"][ui][f][ei]["aspects"].insert(pos, copy.deepcopy(sub))
        out.append((cls, "%s[%d/%d]" % (f, ui, ei), d))
    return out
