"""C15 — node table: correct address/connectivity at start-up and on node new/lost."""
import os, sys, subprocess, json, copy
import vlib, simgen
from vlib import Rng
from simgen import hx, addr3, path_hex, tree_nodes, find_path, Node

WRAP = ("usleep", "pthread_create", "pthread_join")
KNOWN_KEYS = ()

# ------------------------------------------------------------------ case generation
def gen_case(r, idx, tmpdir):
    ctr = [idx * 64]
    cfg = simgen.gen_config(r, rich=False)
    kind = r.choice(["static", "static", "change", "change", "deep", "reset", "absentfirst"])
    if kind == "absentfirst":
        # the interface itself is a configured board that is listed AFTER a configured-but-absent board (which stores 0.0.0)
        nb = len(cfg["boards"]); ri = r.range(1, nb - 1)
        cfg["boards"][ri]["uid"][0] |= 0x80
        present = [ri] + [i for i in range(nb) if i != ri and i != 0 and r.chance(2, 3)] + ([0] if r.chance(1, 5) and ri > 1 else [])
        if 0 in present and 1 != ri: present = [i for i in present if i != 1]
        trees = [simgen.gen_tree(r, cfg, ctr, present=present, root_board=ri)]
    else:
        trees = [simgen.gen_tree(r, cfg, ctr, deep_iface=(kind == "deep"))]
    changes = []
    if kind == "change":
        for _ in range(r.range(1, 2)):
            cur = trees[-1]
            ifs = [(p, n) for p, n in tree_nodes(cur) if n.iface() and len(p) < 3 and p not in [c[0] for c in changes]]
            if not ifs: break
            p, n = r.choice(ifs)
            row = r.below(len(n.ch) + 1)
            trees.append(simgen.mutate_tree(r, cur, cfg, ctr, p))
            changes.append((p, row, len(trees) - 1))
    final, passes = simgen.ref_enumerate(trees, changes)
    case = {"idx": idx, "kind": kind, "cfg": cfg, "trees": trees, "changes": changes, "final": final, "dir": os.path.join(tmpdir, "c%d" % idx)}
    addrs = {()} | {p for t in trees for p, _ in tree_nodes(t)}       # every address that ever holds a node (for the look-up by address)
    # ---- events on the final bus
    truth = copy.deepcopy(trees[final])
    steps = []          # (script lines, expectation dict)
    uids_cfg = [b["uid"] for b in cfg["boards"]]
    nev = r.range(0, 5) if kind != "reset" else r.range(0, 1)
    for _ in range(nev):
        nodes = [(p, n) for p, n in tree_nodes(truth) if p]
        k = r.below(4)
        leafs = [(p, n) for p, n in nodes if not n.ch]
        if k <= 1 and leafs and r.chance(1, 5):
            # moved: the node is announced at another address first (no loss reported yet), THEN its old interface reports the old
            # local address lost, naming the node's unique id: the board named by the unique id is lost (wherever it is stored now)
            p, n = r.choice(leafs); par = find_path(truth, p[:-1])
            par.ch = [c for c in par.ch if c is not n]
            ifs = [(q, m) for q, m in tree_nodes(truth) if m.iface() and len(q) < (2 if n.iface() else 3)]
            q, m = r.choice(ifs); ls = [c.local for c in m.ch]; l = r.range(1, 250)
            while l in ls or (q == p[:-1] and l == n.local): l = l % 250 + 1
            n2 = Node(n.uid, l); m.ch.append(n2); addrs.add(q + (l,))
            steps.append({"cmd": "sim_up %s 8d %s" % (path_hex(q), hx([r.below(256), l] + n.uid)), "what": "relogin", "ack": (q,), "truth": simgen.truth_of(truth, cfg)})
            m.ch = [c for c in m.ch if c is not n2]
            steps.append({"cmd": "sim_up %s 8c %s" % (path_hex(p[:-1]), hx([r.below(256), n.local] + n.uid)), "what": "lost", "ack": (p[:-1],), "unknown_iface_lost": False})
        elif k <= 1 and nodes:
            # lost: prefer interfaces with children now and then
            withch = [(p, n) for p, n in nodes if n.ch]
            p, n = r.choice(withch) if withch and r.chance(1, 2) else r.choice(nodes)
            par = find_path(truth, p[:-1]); par.ch = [c for c in par.ch if c is not n]
            unknown_if = n.iface() and n.uid not in uids_cfg and any(x.uid in uids_cfg for _, x in tree_nodes(n) if x is not n)
            steps.append({"cmd": "sim_up %s 8c %s" % (path_hex(p[:-1]), hx([r.below(256), n.local] + n.uid)), "what": "lost", "ack": (p[:-1],),
                          "unknown_iface_lost": unknown_if})
            present = [x.uid for _, x in tree_nodes(truth)]
            absentb = [u for u in uids_cfg if u not in present and u != n.uid and not (u[0] & 0x80 and len(p) >= 3)]
            if absentb and not n.ch and r.chance(1, 2):
                # address reuse: another configured board logs in at the address the lost node had (the lost board keeps storing it)
                u2 = r.choice(absentb); par.ch.append(Node(u2, n.local))
                steps.append({"cmd": "sim_up %s 8d %s" % (path_hex(p[:-1]), hx([r.below(256), n.local] + u2)), "what": "reuse", "ack": (p[:-1],)})
            elif r.chance(1, 2) and not n.ch:
                # re-login at a different address
                ifs = [(q, m) for q, m in tree_nodes(truth) if m.iface() and len(q) < (2 if n.iface() else 3)]
                q, m = r.choice(ifs); ls = [c.local for c in m.ch]; l = r.range(1, 250)
                while l in ls or (q == p[:-1] and l == n.local): l = l % 250 + 1
                n2 = Node(n.uid, l); m.ch.append(n2); addrs.add(q + (l,))
                steps.append({"cmd": "sim_up %s 8d %s" % (path_hex(q), hx([r.below(256), l] + n.uid)), "what": "relogin", "ack": (q,)})
        else:
            ifs = [(q, m) for q, m in tree_nodes(truth) if m.iface() and len(q) < 3]
            q, m = r.choice(ifs)
            present = [x.uid for _, x in tree_nodes(truth)]
            absent = [u for u in uids_cfg if u not in present and not (u[0] & 0x80 and len(q) >= 2)]
            u = r.choice(absent) if absent and r.chance(3, 4) else simgen.unknown_uid(r, 0x04, ctr)
            ls = [c.local for c in m.ch]; l = r.range(1, 255)
            while l in ls: l = l % 255 + 1
            m.ch.append(Node(u, l)); addrs.add(q + (l,))
            steps.append({"cmd": "sim_up %s 8d %s" % (path_hex(q), hx([r.below(256), l] + u)), "what": "new", "ack": (q,)})
        steps[-1]["truth"] = simgen.truth_of(truth, cfg)
        if len(steps) >= 2 and "truth" not in steps[-2]: steps[-2]["truth"] = None
    case["steps"] = steps
    # ---- high-level commands against the last truth (addressing)
    hl = []
    for bi, b in enumerate(cfg["boards"]):
        for kindk, name, pre in (("points", "point", "pt"), ("signals", "signal", "sg"), ("periphs", "periph", "pe")):
            for p in b[kindk]:
                if r.chance(2, 3): hl.append({"cmd": "hl %s %s%d a%d" % (name, pre, p["id"], r.choice(p["aspects"])[0]), "board": bi})
        if b["uid"][0] & 0x10:
            if r.chance(1, 2): hl.append({"cmd": "hl tstate b%d %d" % (bi, r.choice([0, 1, 2, 3, 4, 5, 8, 12])), "board": bi})
            for ti, t in enumerate(cfg["trains"]):
                if r.chance(1, 2): hl.append({"cmd": "hl speed tr%d 0 b%d" % (ti, bi), "board": bi})
                for pid, bt in t["periphs"]:
                    if r.chance(1, 3): hl.append({"cmd": "hl tperiph tr%d tp%d %d b%d" % (ti, pid, r.below(2), bi), "board": bi})
    case["hl"] = hl
    # ---- a later system reset against a bus in which boards disappeared
    if kind == "reset":
        t2 = simgen.mutate_tree(r, truth, cfg, ctr, ())
        case["trees"] = case["trees"] + [t2]; case["reset_tree"] = len(case["trees"]) - 1
        case["reset_truth"] = simgen.truth_of(t2, cfg)
        addrs |= {p for p, _ in tree_nodes(t2)}
    case["addrs"] = sorted("%02x%02x%02x" % addr3(p) for p in addrs)
    return case

def dump_lines(case):
    A = case["addrs"]
    return ["sim_dump", "sim_dumpu"] + ["sim_dumpa " + " ".join(A[i:i + 14]) for i in range(0, len(A), 14)]

def script_of(case):
    L = ["case %d" % case["idx"], "sim_reset"] + simgen.cfg_lines(case["cfg"])
    for ti, t in enumerate(case["trees"]): L += simgen.node_lines(t, ti)
    for p, row, tr in case["changes"]: L.append("sim_change %s %d %d" % (path_hex(p), row, tr))
    L += ["simstart 0 %s 0" % case["dir"], "mark dump0"] + dump_lines(case)
    for k, st in enumerate(case["steps"]):
        L += ["mark ev%d" % k, st["cmd"], "mark dump%d" % (k + 1)] + dump_lines(case)
    for k, h in enumerate(case["hl"]): L += ["mark hl%d" % k, h["cmd"]]
    if "reset_tree" in case:
        L += ["mark reset", "sim_tree %d" % case["reset_tree"], "sysreset", "mark dumpR"] + dump_lines(case)
    L += ["mark stop", "stop"]
    return L

# ------------------------------------------------------------------ oracle on the implementation's output
def sections(lines):
    sec = {"start": []}; cur = "start"
    for l in lines:
        if l.startswith("mark "): cur = l[5:]; sec[cur] = []
        else: sec[cur].append(l)
    return sec

def board_table(lines):
    out = {}
    for l in lines:
        w = l.split()
        if w and w[0] == "b":
            out[int(w[1][1:])] = None if w[3] == "-" else tuple(int(w[3][i:i+2], 16) for i in (0, 2, 4))
            if (w[2] == "1") != (w[3] != "-"): out[int(w[1][1:])] = "inconsistent"
    return out

def judge(case, lines):
    """returns list of (key, reason). Judges the implementation against the property text, independent of the model."""
    bad = []
    sec = sections(lines)
    cfg = case["cfg"]; nb = len(cfg["boards"])
    if "start 0" not in sec["start"]:
        return [("start-failed", "start did not return 0: %r" % [l for l in sec["start"] if l.startswith("start")])]
    final = case["trees"][case["final"]]
    truth = simgen.truth_of(final, cfg)
    deep = {i for i, b in enumerate(cfg["boards"]) if b["uid"][0] & 0x80 and i in truth and truth[i][2] != 0}
    flags = {}
    stale = {}      # board -> key of the finding class that left it connected although it is gone (follow-on effects keep the key)
    def compare(tab, truth, where, key_stale):
        for i in range(nb):
            got = tab.get(i, "missing")
            exp = truth.get(i)
            if got == exp:
                stale.pop(i, None); continue
            if exp is None and got is not None and got != "missing" and got != "inconsistent":
                key = stale.setdefault(i, key_stale)
                bad.append((key, "%s: board b%d is not on the bus but reported connected at %r" % (where, i, got)))
            elif i in deep and got == (exp[0], exp[1], 0):
                stale[i] = "enum.level3-interface"; flags["level3"] = True
                bad.append(("enum.level3-interface", "%s: interface board b%d on the third level has address %r but is reported at %r" % (where, i, exp, got)))
            else:
                # a level-3 interface sits at its parent's address, so its loss also disconnects its siblings: same class
                key = "enum.level3-interface" if flags.get("level3") else "table-mismatch"
                bad.append((key, "%s: board b%d expected %r got %r" % (where, i, exp, got)))
    tab = board_table(sec.get("dump0", []))
    compare(tab, truth, "after start-up", "enum.restart-stale" if case["changes"] else "enum.stale")
    # notices: state and acknowledgement
    cur_truth = truth
    for k, st in enumerate(case["steps"]):
        evl = sec.get("ev%d" % k, [])
        w = st["cmd"].split()
        exp_ack = "t %s 0d %s" % (w[1], w[3][:2])
        if [l for l in evl if l.startswith("t ")] != [exp_ack]:
            bad.append(("ack", "notice %s: expected exactly one acknowledgement %r, got %r" % (st["cmd"], exp_ack, evl)))
        if st.get("truth") is not None:
            tab = board_table(sec.get("dump%d" % (k + 1), []))
            compare(tab, st["truth"], "after notice %d (%s)" % (k, st["what"]), "lost.unknown-interface" if st.get("unknown_iface_lost") else "notice.stale")
            cur_truth = st["truth"]
    # addressing of high-level commands: only to the current address of a connected board
    for k, h in enumerate(case["hl"]):
        hl = sec.get("hl%d" % k, [])
        ts = [l.split() for l in hl if l.startswith("t ")]
        bi = h["board"]
        if bi in cur_truth:
            want = hx([x for x in cur_truth[bi] if x])
            for t in ts:
                if t[1] != want: bad.append(("enum.level3-interface" if bi in deep else "addressing", "%s: message addressed to %s, board b%d is at %s" % (h["cmd"], t[1], bi, want)))
        else:
            if ts: bad.append((stale.get(bi, "addressing"), "%s: board b%d is not connected but %d message(s) were sent: %r" % (h["cmd"], bi, len(ts), ts[:2])))
    if "reset_tree" in case:
        tab = board_table(sec.get("dumpR", []))
        compare(tab, case["reset_truth"], "after system reset", "reset.stale-connected")
    # connectivity as reported through the unique id must be the one reported through the board id, in every dump
    for name, ls in sec.items():
        if not name.startswith("dump"): continue
        tab = board_table(ls)
        for l in ls:
            w = l.split()
            if w and w[0] == "u":
                i = int(w[1][1:]); got = None if len(w) < 4 or w[3] == "-" else tuple(int(w[3][j:j+2], 16) for j in (0, 2, 4))
                if got != tab.get(i, "missing"):
                    bad.append(("getter.nodeaddr-by-uniqueid", "%s: bidib_get_nodeaddr_by_uniqueid reports board b%d as %r, bidib_get_nodeaddr / bidib_get_board_connected as %r" % (name, i, got, tab.get(i))))
    # the look-up by address: known iff a configured board's node sits at the address (bus truth), then its unique id
    truths = {"dump0": truth}
    for k, st in enumerate(case["steps"]):
        if st.get("truth") is not None: truths["dump%d" % (k + 1)] = st["truth"]
    if "reset_tree" in case: truths["dumpR"] = case["reset_truth"]
    for name, tr in truths.items():
        at = {"%02x%02x%02x" % a: hx(cfg["boards"][bi]["uid"]) for bi, a in tr.items()}
        seen = 0
        for l in sec.get(name, []):
            w = l.split()
            if w and w[0] == "a":
                seen += 1
                exp = at.get(w[1], "-")
                if w[2] != exp:
                    key = "getter.uniqueid-by-nodeaddr"
                    if flags.get("level3") or any(k2 != "getter.uniqueid-by-nodeaddr" for k2, _ in bad): key = bad[0][0] if bad else key   # follow-on of a wrong table
                    bad.append((key, "%s: bidib_get_uniqueid_by_nodeaddr(%s) reports %s, the bus has %s there" % (name, w[1], w[2], exp)))
        if seen != len(case["addrs"]): bad.append(("harness", "%s: %d of %d address look-ups printed" % (name, seen, len(case["addrs"]))))
    for l in lines:
        if l.startswith(("t-badcrc", "t-malformed", "sim-quiesce-timeout", "rx-timeout", "unknown-command")):
            bad.append(("harness", l))
    return bad

# ------------------------------------------------------------------ running
def run_cases(exe, md, cases, workers=8):
    """returns {idx: (impl lines, model lines, rc, stderr)}"""
    for c in cases: simgen.write_yaml(c["cfg"], c["dir"])
    chunks = [cases[i::workers] for i in range(workers)]
    procs = []
    env = dict(os.environ); env.update(vlib.SAN_ENV)
    for ch in chunks:
        if not ch: continue
        script = "\n".join(l for c in ch for l in script_of(c)) + "\n"
        pi = subprocess.Popen([exe], stdin=subprocess.PIPE, stdout=subprocess.PIPE, stderr=subprocess.PIPE, text=True, env=env, errors="replace")
        pm = subprocess.Popen([md], stdin=subprocess.PIPE, stdout=subprocess.PIPE, stderr=subprocess.PIPE, text=True)
        procs.append((ch, script, pi, pm))
    import threading
    res = {}
    def feed(ch, script, pi, pm):
        try: o1, e1 = pi.communicate(script, timeout=900)
        except subprocess.TimeoutExpired: pi.kill(); o1, e1 = pi.communicate(); e1 += "\nTIMEOUT"
        try: o2, e2 = pm.communicate(script, timeout=900)
        except subprocess.TimeoutExpired: pm.kill(); o2, e2 = pm.communicate(); e2 += "\nTIMEOUT"
        ci = vlib.split_cases(o1); cm = vlib.split_cases(o2)
        for c in ch:
            res[c["idx"]] = (ci.get(str(c["idx"])), cm.get(str(c["idx"])), pi.returncode, e1[-1500:] + e2[-500:])
    th = [threading.Thread(target=feed, args=p) for p in procs]
    for t in th: t.start()
    for t in th: t.join()
    return res

def describe(case):
    return {"kind": case["kind"], "script": script_of(case), "yaml": simgen.yaml_files(case["cfg"])}

def run(ck):
    quick = ck.tier == "quick"
    cdir, ok = vlib.proof_phase(ck, "Properties_C15.v")
    exe = vlib.build_harness(wrap=WRAP); md = vlib.build_model_driver(cdir, "_C15")
    tmp = vlib.mktmp("vc15")
    r = Rng(ck.seed).fork("C15")
    n = 1500 if quick else 40000
    cases = [gen_case(r, i, tmp) for i in range(n)]
    res = run_cases(exe, md, cases, workers=12)
    dis = 0; evals = 0; nontrivial = 0; dist = {}; samples = []; found = {}
    for c in cases:
        il, ml, rc, err = res.get(c["idx"], (None, None, None, ""))
        evals += 1
        dist[c["kind"]] = dist.get(c["kind"], 0) + 1
        if len(tree_nodes(c["trees"][0])) >= 4 and (c["changes"] or c["steps"]): nontrivial += 1
        if il is None:
            ck.violation("crash", {"property": "C15", "case": describe(c), "rc": rc, "stderr": err}); continue
        bad = judge(c, il)
        for key, why in bad:
            found.setdefault(key, 0); found[key] += 1
            ck.violation(key, {"property": "C15", "key": key, "reason": why, "case": describe(c), "implementation": il})
        if il != ml:
            dis += 1
            if dis <= 3:
                d = next((i for i, (a, b) in enumerate(zip(il, ml or [])) if a != b), min(len(il), len(ml or [])))
                ck.broken.append({"kind": "correspondence", "name": "corr_nodetab", "case": describe(c), "first_difference_at": d,
                                  "impl": il[max(0, d - 3):d + 3], "model": (ml or [])[max(0, d - 3):d + 3]})
        if len(samples) < 2 and c["changes"] and c["steps"]: samples.append({"script": script_of(c)[:60], "impl": il[:60]})
    ck.oblige("correspondence corr_nodetab (impl == model on %d start-up/notice/command histories)" % evals, dis == 0, "%d disagreements" % dis)
    ck.oblige("oracle: board table, acknowledgements and addressing judged against the bus truth", not [k for k in found if k not in KNOWN_KEYS], json.dumps(found))
    ck.coverage.update({"evaluations": evals, "distinct_nontrivial": nontrivial, "distribution": dist, "oracle_rejections_by_key": found,
                        "rule": "seeded configurations (2-5 boards) x node trees of depth <= 3 (fan-out, nested interfaces, unknown unique-ids, absent boards) x 0-2 table changes during enumeration x 0-5 node-lost/new/re-login notices x high-level commands x optional later system reset; non-trivial = tree with >= 4 nodes and at least one change or notice",
                        "samples": samples, "disagreements_checked": dis})
    return vlib.finish_with_broken(ck, trusted=vlib.TRUSTED_COMMON + ["harness/ext_C15.inc: bus simulator (BiDiB node behaviour), usleep/pthread_create/pthread_join wrappers", "checks/simgen.py: Python reference of the bus used by the oracle"])

def replay(ck, path):
    d = json.load(open(path))
    print(json.dumps({k: d[k] for k in d if k != "implementation"}, indent=1)[:6000])
    case = d.get("case")
    if not case: return 0
    exe = vlib.build_harness(wrap=WRAP)
    tmp = vlib.mktmp("vc15r")
    # the script names the original scratch directory: rewrite it
    for fn, text in case["yaml"].items():
        with open(os.path.join(tmp, fn), "w") as f: f.write(text)
    script = "\n".join(tmp.join(["simstart 0 ", " 0"]) if l.startswith("simstart") else l for l in case["script"]) + "\n"
    rc, out, err = vlib.run_driver(exe, script)
    print(out)
    return 0

if __name__ == "__main__":
    # development entry: correspondence + oracle only
    sys.path.insert(0, os.path.join(vlib.VERIF, "lib"))
    exe, md, n = sys.argv[1], sys.argv[2], int(sys.argv[3])
    tmp = vlib.mktmp("vc15d"); r = Rng(int(sys.argv[4]) if len(sys.argv) > 4 else 1).fork("C15")
    cases = [gen_case(r, i, tmp) for i in range(n)]
    res = run_cases(exe, md, cases, workers=12)
    nd = 0; keys = {}
    for c in cases:
        il, ml, rc, err = res[c["idx"]]
        if il is None: print("CRASH", c["idx"], rc, err[-800:]); continue
        for key, why in judge(c, il):
            keys.setdefault(key, []).append((c["idx"], why))
        if il != ml:
            nd += 1
            if nd <= 3:
                d = next((i for i, (a, b) in enumerate(zip(il, ml or [])) if a != b), min(len(il), len(ml or [])))
                print("DISAGREE case", c["idx"], c["kind"], "at", d); print(" impl ", il[max(0, d-4):d+3]); print(" model", (ml or [])[max(0, d-4):d+3])
                open("/tmp/c15dev/dis%d.txt" % nd, "w").write("\n".join(script_of(c)) + "\n")
    print("cases", n, "disagreements", nd)
    for k, v in keys.items(): print(k, len(v), v[0])
