"""C17 — query results are initialised deep copies, safe to free for known / unknown / NULL ids;
the whole-track snapshot carries the same values as the single-entity getters.

proof phase  : coq/Getters.v (ownership-shape model of every public getter and free function),
               GettersProofs.v, Properties_C17.v
tie          : harness/ext_C17.inc drives the real getters (clang -O0, ASan+UBSan) at several points of
               seeded state histories; definedness by painting (two runs, 0xA5 / 0x5A on the stack, in the
               result slot and as ASan malloc fill byte); free / re-read in forked children; the abstraction
               of the library state is read from the internal globals and handed to the extracted model,
               whose shapes are diffed with the observation
oracle       : judges the implementation's observation alone (undefined members, faulting free, crash,
               changed or unreadable after later state changes / stop, snapshot != single getter)."""
import os, re, subprocess, shutil, json
import vlib
from vlib import Rng, hexs

NOARG = ["state", "boards", "boards_connected", "connected_points", "connected_signals", "connected_peripherals",
         "connected_segments", "connected_reversers", "connected_boosters", "boosters", "track_outputs",
         "connected_track_outputs", "trains", "trains_on_track"]
# string getters -> category of ids that are "known" to them
STRG = {"point_state_index": "pointb", "signal_state_index": "signalb", "segment_state_index": "segment",
        "point_state": "point", "signal_state": "signal", "peripheral_state": "peripheral", "segment_state": "segment",
        "reverser_state": "reverser", "uniqueid": "board", "nodeaddr": "board", "board_connected": "board",
        "board_features": "board", "board_points": "board", "board_signals": "board", "board_peripherals": "board",
        "board_segments": "board", "board_reversers": "board", "booster_state": "booster", "track_output_state": "tout",
        "train_peripherals": "train", "train_dcc_addr": "train", "train_state": "train", "train_position": "train",
        "train_speed_step": "train", "train_speed_kmh": "train", "train_on_track": "train", "point_aspects": "point",
        "signal_aspects": "signal", "peripheral_aspects": "peripheral"}
RAWG = {"uniqueid_by_nodeaddr": "addr", "nodeaddr_by_uniqueid": "uid", "board_id": "uid", "train_id": "dcc"}
SINGLE = {"points_board": ("point_state", "board."), "points_dcc": ("point_state", "dcc."),
          "signals_board": ("signal_state", "board."), "signals_dcc": ("signal_state", "dcc."),
          "peripherals": ("peripheral_state", "data."), "segments": ("segment_state", "data."),
          "reversers": ("reverser_state", "data."), "trains": ("train_state", "data."),
          "booster": ("booster_state", "data."), "track_outputs": ("track_output_state", "")}
FLAGS = ("known", "available", "known_and_connected")
# single-value getters of a train: (member of their result, member of the snapshot's train record)
SCALAR_OF = {"train_speed_kmh": (("speed_kmh", "data.detected_kmh_speed"),), "train_speed_step": (("speed_step", "data.set_speed_step"), ("is_forwards", "data.set_is_forwards")),
             "train_on_track": (("result", "data.on_track"),)}

def hx(s): return "".join("%02x" % c for c in s.encode()) or "-"

# ------------------------------------------------------------------ generated configurations
def write_config(d, boards, trains):
    """boards: list of dicts; minimal YAML in the three files the library reads"""
    os.makedirs(d, exist_ok=True)
    b = ["boards:"] if boards else ["boards: []"]
    t = ["boards:"] if boards else ["boards: []"]
    for bd in boards:
        b += ["  - id: %s" % bd["id"], "    unique-id: 0x%s" % bd["uid"]]
        if bd.get("features"):
            b.append("    features:")
            for n, v in bd["features"]:
                b += ["      - number: 0x%02x" % n, "        value: 0x%02x" % v]
        t.append("  - id: %s" % bd["id"])
        def accs(key, items, dcc):
            if not items: return
            t.append("    %s:" % key)
            for it in items:
                t.append("      - id: %s" % it["id"])
                t.append("        dcc-address: 0x%04x" % it["dcc"] if dcc else "        number: 0x%02x" % it["number"])
                if dcc: t.append("        extended: 0x00")
                t.append("        aspects:")
                for k, a in enumerate(it["aspects"]):
                    t.append("          - id: %s" % a)
                    if dcc: t.extend(["            ports:", "              - port: 0x00", "                value: 0x%02x" % (k & 1), "              - port: 0x01", "                value: 0x%02x" % ((k >> 1) & 1)])
                    else: t.append("            value: 0x%02x" % k)
        accs("points-board", bd.get("points_board"), False); accs("points-dcc", bd.get("points_dcc"), True)
        accs("signals-board", bd.get("signals_board"), False); accs("signals-dcc", bd.get("signals_dcc"), True)
        if bd.get("peripherals"):
            t.append("    peripherals:")
            for it in bd["peripherals"]:
                t += ["      - id: %s" % it["id"], "        number: 0x%02x" % it["number"], "        port: 0x%04x" % it["port"], "        aspects:"]
                for k, a in enumerate(it["aspects"]):
                    t += ["          - id: %s" % a, "            value: 0x%02x" % k]
        if bd.get("segments"):
            t.append("    segments:")
            for k, sid in enumerate(bd["segments"]):
                t += ["      - id: %s" % sid, "        address: 0x%02x" % k, "        length: 10.0cm"]
        if bd.get("reversers"):
            t.append("    reversers:")
            for k, rid in enumerate(bd["reversers"]):
                t += ["      - id: %s" % rid, "        cv: %d" % (30051 + k)]
    tr = ["trains:"] if trains else ["trains: []"]
    for x in trains:
        tr += ["  - id: %s" % x["id"], "    dcc-address: 0x%04x" % x["dcc"], "    dcc-speed-steps: 126"]
        if x.get("peripherals"):
            tr.append("    peripherals:")
            for k, p in enumerate(x["peripherals"]):
                tr += ["      - id: %s" % p, "        bit: %d" % k]
    open(os.path.join(d, "bidib_board_config.yml"), "w").write("\n".join(b) + "\n")
    open(os.path.join(d, "bidib_track_config.yml"), "w").write("\n".join(t) + "\n")
    open(os.path.join(d, "bidib_train_config.yml"), "w").write("\n".join(tr) + "\n")

def gen_config(r, d, k):
    """seeded configuration: several boards of different classes, some categories empty, DCC and board accessories"""
    names = iter("e%d_%d" % (k, i) for i in range(1000))
    boards = []
    classes = [0xDA, 0x02, 0x10, 0x00, 0x92, 0xF4]
    dccs = iter(r.range(1, 0x27) * 256 + r.range(1, 255) for _ in range(100))
    for bi in range(r.range(1, 4)):
        def acc(dcc):
            a = {"id": next(names), "aspects": [next(names) for _ in range(r.range(1, 3))]}
            if dcc: a["dcc"] = next(dccs)
            else: a["number"] = r.range(0, 30) + 32 * len(boards)
            return a
        used = set()
        def uniq(items):
            out = []
            for it in items:
                if it.get("number") in used: continue
                if "number" in it: used.add(it["number"])
                out.append(it)
            return out
        bd = {"id": next(names), "uid": "%02X%012X" % (r.choice(classes), r.below(1 << 48)),
              "features": [(r.below(200), r.below(256)) for _ in range(r.choice([0, 0, 1, 3]))],
              "points_board": uniq([acc(False) for _ in range(r.choice([0, 1, 2]))]),
              "points_dcc": [acc(True) for _ in range(r.choice([0, 1, 2]))],
              "signals_board": uniq([acc(False) for _ in range(r.choice([0, 1, 2]))]),
              "signals_dcc": [acc(True) for _ in range(r.choice([0, 1, 2]))],
              "peripherals": [{"id": next(names), "number": i, "port": 0x0100 + i, "aspects": [next(names) for _ in range(r.range(1, 2))]} for i in range(r.choice([0, 1, 2]))],
              "segments": [next(names) for _ in range(r.choice([0, 1, 3]))],
              "reversers": [next(names) for _ in range(r.choice([0, 1, 1, 2]))]}
        boards.append(bd)
    trains = [{"id": next(names), "dcc": r.range(1, 0x27) * 256 + r.range(1, 255), "peripherals": [next(names) for _ in range(r.choice([0, 1, 2]))]}
              for _ in range(r.choice([0, 1, 2, 3]))]
    for t in trains:           # ids of which one is the beginning of the other (an exact comparison tells them apart)
        if len(t["peripherals"]) == 2 and r.chance(1, 2): t["peripherals"][1] = t["peripherals"][0] + "_r"
    write_config(d, boards, trains)

# ------------------------------------------------------------------ state abstraction lines
def parse_state(lines):
    """the 'st' block -> ids per category + what the mutation generator needs"""
    s = {"board": [], "point": [], "pointb": [], "signal": [], "signalb": [], "peripheral": [], "segment": [], "reverser": [],
         "booster": [], "tout": [], "train": [], "aspect": [], "tper": [], "boards": [], "trains": [], "all": []}
    cur = None
    for l in lines:
        t = l.split()
        if len(t) < 2 or t[0] != "st": continue
        k = t[1]
        if k == "board":
            cur = {"id": t[2], "connected": t[3] != "0", "uid": t[4], "addr": t[5], "accnum": [], "dccacc": [], "ports": [], "segnum": []}
            s["boards"].append(cur); s["board"].append(t[2])
        elif k in ("bpb", "bsb"): cur["accnum"].append(int(t[3]))
        elif k in ("bpd", "bsd"): cur["dccacc"].append((int(t[3]), int(t[4])))
        elif k == "bper": cur["ports"].append((int(t[3]), int(t[4])))
        elif k == "bseg": cur["segnum"].append(int(t[3]))
        elif k == "asp": s["aspect"].append(t[2])
        elif k == "train": s["trains"].append({"id": t[2], "dcc": (int(t[3]), int(t[4]), int(t[5]))}); s.setdefault("tper_of", {})[t[2]] = []
        elif k == "tper":
            s["tper"].append(t[2])
            if s["trains"]: s.setdefault("tper_of", {}).setdefault(s["trains"][-1]["id"], []).append(t[2])
        elif k == "pb": s["point"].append(t[2]); s["pointb"].append(t[2])
        elif k == "pd": s["point"].append(t[2])
        elif k == "sb": s["signal"].append(t[2]); s["signalb"].append(t[2])
        elif k == "sd": s["signal"].append(t[2])
        elif k == "per": s["peripheral"].append(t[2])
        elif k == "seg": s["segment"].append(t[2])
        elif k == "rev": s["reverser"].append(t[2])
        elif k == "ts": s["train"].append(t[2])
        elif k == "boo": s["booster"].append(t[2])
        elif k == "to": s["tout"].append(t[2])
    for c in ("board", "point", "signal", "peripheral", "segment", "reverser", "booster", "tout", "train", "aspect", "tper"):
        s["all"] += s[c]
    return s

# ------------------------------------------------------------------ script generation
def gen_mutations(r, info, conn, n):
    """n state changes through the library's setters; conn: board index -> node address (top byte) when connected"""
    out = []
    B = info["boards"]
    if not conn and B and r.chance(3, 4):
        for bi, b in enumerate(B):
            if r.chance(3, 4): conn[bi] = bi + 1; out.append("c17mut new 000000%02x%s" % (bi + 1, b["uid"]))
    if r.chance(2, 3):
        for t in info["trains"]:
            out.append("c17mut speed %02x%02x00%02x%02x" % (t["dcc"][0], t["dcc"][1], r.below(256), r.choice([0, 0x7F, 0x80, 0x9C, 0xFF])))
    if conn and r.chance(2, 3):
        # every connected board reports a KNOWN state for each of its entities (mapped aspects: values 0.. in the generated
        # configurations; reverser cv 30051): the results then hold known state ids, which is where copies can alias
        for bi in sorted(conn):
            b = B[bi]; a = "%02x0000" % conn[bi]
            out.append("c17mut vendor %s%02x%s%02x%s" % (a, 5, hexs([ord(ch) for ch in "30051"]), 1, hexs([ord(r.choice("0123"))])))
            for p in b["ports"]: out.append("c17mut lcstat %s%02x%02x%02x" % (a, p[0], p[1], r.below(2)))
            for num in b["accnum"]: out.append("c17mut acc %s%02x%02x%02x%02x%02x" % (a, num, r.below(2), 3, r.choice([0, 1]), 0))
            for d in b["dccacc"]: out.append("c17mut csacc %s%02x%02x00%02x%02x" % (a, d[0], d[1], r.below(2), 0))
            for g in b["segnum"][:2]: out.append("c17mut occ %s%02x%02x" % (a, g, 1))
            if b["segnum"] and info["trains"]:            # every train is somewhere (the speed getters answer for trains on track)
                ts = info["trains"][:3]
                out.append("c17mut addr %s%02x%02x%s" % (a, b["segnum"][0], len(ts), "".join("%02x%02x" % (t["dcc"][0], (t["dcc"][1] & 0x3f) | (r.choice([0, 2]) << 6)) for t in ts)))
    for _ in range(n):
        k = r.below(100)
        if not B: break
        bi = r.below(len(B)); b = B[bi]
        a = "%02x0000" % conn[bi] if bi in conn else "%02x0000" % r.range(1, 9)
        if k < 14 or not conn:
            if bi in conn and r.chance(1, 3):
                out.append("c17mut lost %s" % b["uid"]); del conn[bi]
            else:
                conn[bi] = bi + 1; out.append("c17mut new 000000%02x%s" % (bi + 1, b["uid"]))
        elif k < 19:
            # reverser feedback (MSG_VENDOR): cv 30051 is the first reverser of a board; known and other cvs, values "0".."3" and odd ones
            cv = r.choice(["30051", "30051", "30051", "30052", "9"]); val = r.choice(["0", "1", "2", "3", "", "x"])
            out.append("c17mut vendor %s%02x%s%02x%s" % (a, len(cv), hexs([ord(ch) for ch in cv]), len(val), hexs([ord(ch) for ch in val])))
        elif k < 24 and b["accnum"]:
            out.append("c17mut acc %s%02x%02x%02x%02x%02x" % (a, r.choice(b["accnum"]), r.below(3), 3, r.choice([0, 1, 2, 3, 0x80]), r.below(4)))
        elif k < 30: out.append("c17mut boost %s%02x" % (a, r.choice([0, 1, 2, 3, 4, 5, 6, 0x80, 0x81, 0x82, 0x83, 0x84])))
        elif k < 36: out.append("c17mut cs %s%02x" % (a, r.choice([0, 1, 2, 3, 4, 8])))     # 9 / 0x0d index past bidib_cs_state_string_mapping[9]: C12's domain
        elif k < 46 and info["trains"]:
            t = r.choice(info["trains"])["dcc"]
            if r.chance(1, 2): out.append("c17mut driveack %02x%02x%02x%02x" % (t[0], t[1], 0, r.below(5)))
            else: out.append("c17mut drive %02x%02x%02x%02x%02x%02x%02x%02x%02x%02x" % (t[0], t[1], 0, r.choice([0, 2, 3]), 3, r.below(256), r.below(256), r.below(256), 0, 0))
        elif k < 56 and b["dccacc"]:
            d = r.choice(b["dccacc"])
            if r.chance(1, 2): out.append("c17mut accack %s%02x%02x00%02x" % (a, d[0], d[1], r.below(5)))
            else: out.append("c17mut csacc %s%02x%02x00%02x%02x" % (a, d[0], d[1], r.below(256), r.below(256)))
        elif k < 64 and b["ports"]:
            p = r.choice(b["ports"])
            if r.chance(2, 3): out.append("c17mut lcstat %s%02x%02x%02x" % (a, p[0], p[1], r.below(3)))
            else: out.append("c17mut lcwait %s%02x%02x%02x" % (a, p[0], p[1], r.below(256)))
        elif k < 72 and b["segnum"]: out.append("c17mut occ %s%02x%02x" % (a, r.choice(b["segnum"]), r.below(2)))
        elif k < 76: out.append("c17mut conf %s%02x%02x%02x" % (a, r.below(2), r.below(2), r.below(2)))
        elif k < 90 and b["segnum"] and info["trains"]:
            cnt = r.range(1, 3); data = ""
            same = r.choice(info["trains"])["dcc"] if r.chance(1, 3) else None     # one decoder listed twice or three times (both directions)
            for j in range(cnt):
                t = same or r.choice(info["trains"])["dcc"]
                data += "%02x%02x" % (t[0], (t[1] & 0x3f) | ((r.choice([0, 2]) if same is None else [0, 2, 0][j]) << 6))
            out.append("c17mut addr %s%02x%02x%s" % (a, r.choice(b["segnum"]), cnt, data))
        elif k < 94 and b["segnum"]: out.append("c17mut cur %s%02x%02x" % (a, r.choice(b["segnum"]), r.choice([0, 1, 15, 16, 100, 254, 255])))
        elif k < 97 and info["trains"]:
            t = r.choice(info["trains"])["dcc"]; out.append("c17mut speed %02x%02x00%02x%02x" % (t[0], t[1], r.below(256), r.choice([0, 1, 0x7F, 0x80, 0x9C, 0xFF, r.below(256)])))   # the whole 16-bit range
        elif info["trains"]:
            t = r.choice(info["trains"])["dcc"]; out.append("c17mut dyn %02x%02x00%02x%02x" % (t[0], t[1], r.range(1, 6), r.below(256)))
    return out

def gen_gets(r, info, full):
    """every getter x {known, unknown, NULL} (+ an id of another category, the empty string)"""
    L = []
    unknown = ["s:" + hx("nosuch"), "s:" + hx("Point1"), "s:-"]
    for g in NOARG: L.append("c17get %s -" % g)
    for g, cat in STRG.items():
        known = info[cat]
        pick = known if (full or len(known) <= 2) else [r.choice(known) for _ in range(2)]
        if g in ("point_state", "signal_state", "peripheral_state", "segment_state", "reverser_state", "train_state", "booster_state", "track_output_state",
                 "train_speed_kmh", "train_speed_step", "train_on_track"):
            pick = known            # needed by the snapshot oracle
        for i in dict.fromkeys(pick): L.append("c17get %s s:%s" % (g, i))
        others = [i for i in info["all"] if i not in known]
        if others: L.append("c17get %s s:%s" % (g, r.choice(others)))
        L.append("c17get %s %s" % (g, r.choice(unknown)))
        for i in dict.fromkeys(pick[:2]):
            for near in (i + hx("X"), i + hx("_r"), i[:-2]):           # a known id extended / cut by one character
                if near and near not in info["all"]: L.append("c17get %s s:%s" % (g, near))
        L.append("c17get %s null" % g)
    for t in info["train"] + ["nosuch"]:
        tid = t if t != "nosuch" else hx("nosuch")
        for p in (info["tper"][:3] + [hx("nosuch")] + [q + hx("X") for q in info["tper"][:2]] + [q[:-2] for q in info["tper"][:2] if len(q) > 2]):
            L.append("c17get train_peripheral_state s:%s s:%s" % (tid, p))
    L += ["c17get train_peripheral_state null s:%s" % hx("x"), "c17get train_peripheral_state s:%s null" % (info["train"][0] if info["train"] else hx("x")),
          "c17get train_peripheral_state null null"]
    for g, kind in RAWG.items():
        vals = []
        if kind == "uid": vals = [b["uid"] for b in info["boards"]] + ["ffffffffffffff", "00000000000000"]
        elif kind == "addr": vals = ["%02x0000" % (i + 1) for i in range(len(info["boards"]) + 1)] + ["000000", "010200"]
        else: vals = ["%02x%02x00" % (t["dcc"][0], t["dcc"][1]) for t in info["trains"]] + ["%02x%02xc0" % (t["dcc"][0], t["dcc"][1]) for t in info["trains"][:1]] + ["000000", "ffff00"]
        for v in vals: L.append("c17get %s b:%s" % (g, v))
    return L

def gen_case(r, cid, cfg, info, quick):
    conn = {}
    S = ["logw 0", "case %s" % cid, "start 0 %s 0" % cfg]
    npoints = r.range(2, 3) if quick else r.range(3, 5)
    for p in range(npoints):
        if p > 0:
            S += gen_mutations(r, info, conn, r.range(2, 10))
            S.append("c17recheck")
        S.append("mark point%d" % p)
        S.append("c17state")
        S += gen_gets(r, info, full=(p == 0 and not quick))
    S += gen_mutations(r, info, conn, r.range(1, 4))
    S += ["c17recheck", "stop", "c17recheck", "c17release"]
    return S

# ------------------------------------------------------------------ running and normalising
# run A: every source of never-written bytes shows 0xAA (clang -ftrivial-auto-var-init=pattern for locals,
#        stack / result-slot painting for return slots, ASan malloc_fill_byte for heap blocks)
# run B: the same sources show 0x00.  A scalar is undefined iff it is all-0xAA in A and 0 in B.
PAINTS = (0xAA, 0x00)
PATTERNS = {int.from_bytes(bytes([0xAA]) * n, "little") for n in (1, 2, 4, 8)}
BUILD_A = ("-O0", "-ftrivial-auto-var-init=pattern")
BUILD_B = ("-O0", "-ftrivial-auto-var-init=zero", "-enable-trivial-auto-var-init-zero-knowing-it-will-be-removed-from-clang")

def asan_env(paint):
    return {"ASAN_OPTIONS": vlib.SAN_ENV["ASAN_OPTIONS"] + ":detect_stack_use_after_return=0:malloc_fill_byte=%d:max_malloc_fill_size=268435456" % paint}

def run_impl(exes, script):
    outs = []
    for exe, p in zip(exes, PAINTS):
        rc, out, err = vlib.run_driver(exe, "c17paint %02x\n" % p + "\n".join(script) + "\n", timeout=600, env_extra=asan_env(p))
        outs.append((rc, out.splitlines(), err))
    return outs

def events(lines):
    """raw driver output -> events: g (header, member lines, end line), st (block), o (other line)"""
    ev = []; cur = None; stb = None
    for l in lines:
        if l.startswith("st "):
            if l == "st begin": stb = {"k": "st", "lines": []}; ev.append(stb)
            if stb is not None: stb["lines"].append(l)
            cur = None; continue
        if l.startswith("g "): cur = {"k": "g", "hdr": l[2:], "m": [], "end": None}; ev.append(cur)
        elif l.startswith(("s ", "p ", "t ")) and cur is not None: cur["m"].append(l.split())
        elif l.startswith(("free ", "call fault", "dump fault")) and cur is not None: cur["end"] = l; cur = None
        else: cur = None; ev.append({"k": "o", "l": l})
    return ev

def merge_runs(outs):
    """-> (canonical lines of run A with definedness decided by both runs, merged st blocks, unstable members, problems)"""
    (rca, A, erra), (rcb, B, errb) = outs
    problems = []; unstable = []; lines = []; stblocks = []
    if rca != 0 or rcb != 0: problems.append("driver exit %s/%s: %s" % (rca, rcb, ((erra if rca else errb) or "")[-600:]))
    EA = events(A); EB = events(B)
    gb = [e for e in EB if e["k"] == "g"]; sb = [e for e in EB if e["k"] == "st"]
    ga = [e for e in EA if e["k"] == "g"]
    if [e["hdr"] for e in ga] != [e["hdr"] for e in gb]: problems.append("the two runs made different getter calls (%d / %d)" % (len(ga), len(gb)))
    gi = 0; si = 0
    for e in EA:
        if e["k"] == "g":
            f = gb[gi] if gi < len(gb) and gb[gi]["hdr"] == e["hdr"] else None; gi += 1
            bv = {t[1]: t for t in f["m"]} if f else {}
            lines.append("g " + e["hdr"])
            for t in e["m"]:
                if t[0] == "s":
                    va = int(t[3]); tb = bv.get(t[1]); vb = int(tb[3]) if tb and tb[0] == "s" else None
                    if va in PATTERNS and vb == 0: lines.append("s %s undef" % t[1])
                    else:
                        if vb is not None and vb != va: unstable.append(t[1])
                        sz = int(t[2])            # negative: member of a signed integer type (values stay raw here; see signed_value)
                        if sz < 0: SIGNED_SIZE[(e["hdr"].split()[0], depath(t[1]))] = -sz
                        lines.append("s %s %d" % (t[1], va))
                else: lines.append(" ".join(t))
            if e["end"] is not None:
                t = e["end"].split(); lines.append(" ".join(t[:2]) + (" #" + t[2] if len(t) > 2 else ""))
        elif e["k"] == "st":
            f = sb[si] if si < len(sb) else None; si += 1
            blk = []
            for i, l in enumerate(e["lines"]):
                ta = l.split(); tb = f["lines"][i].split() if f and i < len(f["lines"]) else ta
                if len(ta) == len(tb) and ta[:3] == tb[:3]:
                    ta = [("u" if (x != y and x.isdigit() and y == "0" and int(x) in PATTERNS) else x) for x, y in zip(ta, tb)]
                blk.append(" ".join(ta))
            stblocks.append(blk); lines += blk
        else:
            t = e["l"].split()
            if t and t[0] == "recheck" and t[1] != "done": lines.append(" ".join(t[:3]))
            else: lines.append(e["l"])
    return lines, stblocks, unstable, problems

SIGNED_SIZE = {}      # (getter, member path without indices) -> byte size, for members of a signed integer type
def signed_value(getter, member, raw):
    """the value of a scalar member as its C type holds it (raw = unsigned little-endian value of its bytes)"""
    n = SIGNED_SIZE.get((getter, depath(member))); v = int(raw)
    return v - (1 << (8 * n)) if n and v >= 1 << (8 * n - 1) else v

def strip_kind(l): return l.split(" #")[0]

def blocks(lines):
    """canonical lines -> list of events: ('g', header, [member lines], free line) / ('recheck', ...) / other"""
    ev = []; cur = None; point = None; gi = 0
    for l in lines:
        if l.startswith("g "): cur = {"k": "g", "hdr": l[2:], "m": [], "end": None, "point": point, "gi": gi}; ev.append(cur); gi += 1
        elif l.startswith(("s ", "p ", "t ")) and cur is not None: cur["m"].append(l)
        elif l.startswith(("free ", "call fault", "dump fault")) and cur is not None: cur["end"] = l; cur = None
        elif l.startswith("mark "): point = l[5:]; cur = None; ev.append({"k": "mark", "l": l})
        elif l.startswith("st "):
            if l == "st begin": ev.append({"k": "st", "lines": []})
            if ev and ev[-1]["k"] == "st": ev[-1]["lines"].append(l)
            cur = None
        else: cur = None; ev.append({"k": "o", "l": l})
    return ev

def model_script(script, stblocks):
    out = []; k = 0
    for l in script:
        out.append(l)
        if l == "c17state":
            if k < len(stblocks): out += stblocks[k]
            k += 1
    return out

def argclass(hdr, info):
    t = hdr.split()
    g = t[0]; a = t[1] if len(t) > 1 else "-"
    if a == "null" or (len(t) > 2 and t[2] == "null"): return "null"
    if a == "-": return "noarg"
    if a.startswith("s:"):
        return "known" if a[2:] in info.get(STRG.get(g, "all"), info["all"]) else "unknown"
    return "value"

def depath(p): return re.sub(r"\[\d+\]", "", p)

# member names in the order of the "st" lines of harness/ext_C17.inc (c17_state_dump)
DEC = ["decoder_state." + x for x in ("signal_quality_known", "signal_quality", "temp_known", "temp_celsius", "energy_storage_known",
       "energy_storage", "container2_storage_known", "container2_storage", "container3_storage_known", "container3_storage")]
ST_FIELDS = {"pb": ["state_id", "state_value", "execution_state", "wait_details"], "sb": ["state_id", "state_value", "execution_state", "wait_details"],
             "pd": ["state_id", "state_value", "coil_on", "output_controls_timing", "ack", "time_unit", "switch_time"],
             "sd": ["state_id", "state_value", "coil_on", "output_controls_timing", "ack", "time_unit", "switch_time"],
             "per": ["state_id", "state_value", "time_unit", "wait"],
             "seg": ["occupied", "confidence.conf_void", "confidence.freeze", "confidence.nosignal", "power_consumption.known",
                     "power_consumption.overcurrent", "power_consumption.current"],
             "rev": ["state_id", "state_value"],
             "ts": ["on_track", "orientation", "set_speed_step", "set_is_forwards", "ack", "detected_kmh_speed"] + DEC,
             "boo": ["power_state", "power_state_simple", "power_consumption.known", "power_consumption.overcurrent", "power_consumption.current",
                     "voltage_known", "voltage", "temp_known", "temp_celsius"],
             "to": ["cs_state"], "train": ["dcc_address.addrl", "dcc_address.addrh", "dcc_address.type"]}
G_KINDS = {"point_state": ("pb", "pd"), "signal_state": ("sb", "sd"), "peripheral_state": ("per",), "segment_state": ("seg",),
           "reverser_state": ("rev",), "train_state": ("ts",), "booster_state": ("boo",), "track_output_state": ("to",), "train_dcc_addr": ("train",)}
ARR_KIND = {"points_board": "pb", "points_dcc": "pd", "signals_board": "sb", "signals_dcc": "sd", "peripherals": "per", "segments": "seg",
            "reversers": "rev", "trains": "ts", "booster": "boo", "track_outputs": "to"}

def st_undefined(stblock):
    """merged st block -> {(kind, id): set of member names whose state bytes were never initialised}"""
    u = {}
    for l in stblock or []:
        t = l.split()
        if len(t) < 3 or t[1] not in ST_FIELDS: continue
        names = ST_FIELDS[t[1]]
        u[(t[1], t[2])] = {names[i] for i, x in enumerate(t[3:3 + len(names)]) if x == "u"}
    return u

def leaf(n):
    for pre in ("data.", "board.", "dcc."):
        if n.startswith(pre): return n[len(pre):]
    return n

def oracle(ev, info):
    """violations of the property text visible in the implementation's observation: list of (key, detail).
    ev: blocks() of the canonical lines (st blocks included so that an undefined member that is a faithful copy of a
    never-initialised state member is attributed to the state, not to the getter)"""
    V = []
    snaps = {}; singles = {}; held = []; stu = {}
    for e in ev:
        if e["k"] == "st": stu = st_undefined(e["lines"]); continue
        if e["k"] == "o":
            l = e["l"]
            if l == "released": held = []
            elif l.startswith("recheck ") and not l.startswith("recheck done"):
                t = l.split(); i = int(t[1])
                if i < len(held) and strip_kind(held[i]["end"]) == "free fault": continue     # same fault as at the get, reported there
                V.append(("getter.%s.deep-copy" % t[2], {"observed": l, "call": held[i]["hdr"] if i < len(held) else "?", "gi": [held[i]["gi"]] if i < len(held) else [], "whole_script": True,
                          "meaning": "a held result changed, could not be re-read or could not be freed after later state changes / stop"}))
            continue
        if e["k"] != "g": continue
        g = e["hdr"].split()[0]; ac = argclass(e["hdr"], info)
        if e["end"] is None or e["end"].startswith(("call fault", "dump fault")):
            V.append(("getter.%s.%s.crash" % (g, ac), {"call": e["hdr"], "observed": e["end"] or "no result", "gi": [e["gi"]]})); continue
        held.append(e)
        flag = None
        for m in e["m"]:
            t = m.split()
            if t[0] == "s" and t[1] in FLAGS: flag = t[2]
        cls = "notknown" if flag == "0" else "result"
        # an id that names nothing of the queried category must come back with its flag false (for the two-argument train
        # peripheral getter: whenever the train or the peripheral is not one of that train's)
        if g in STRG and ac == "unknown" and flag == "1":
            V.append(("getter.%s.unknown.reported-known" % g, {"call": e["hdr"], "gi": [e["gi"]], "meaning": "the queried id is not configured (for this category) but the result says known / available"}))
        if g == "train_peripheral_state" and flag == "1":
            a = e["hdr"].split()
            if len(a) > 2 and a[1].startswith("s:") and a[2].startswith("s:") and a[2][2:] not in info.get("tper_of", {}).get(a[1][2:], ()):
                V.append(("getter.train_peripheral_state.unknown.reported-known", {"call": e["hdr"], "gi": [e["gi"]], "meaning": "the train has no peripheral with this id but the result says available"}))
        und = [m.split()[1] for m in e["m"] if m.endswith(" undef")]
        own = []
        for x in und:
            # is this a faithful copy of a state member that was never initialised?
            kinds = (); eid = None; mm = re.match(r"(\w+)\[(\d+)\]\.?(.*)", x)
            if g == "state" and mm:
                kinds = (ARR_KIND.get(mm.group(1)),)
                eid = next((y.split()[2] for y in e["m"] if y.startswith("t %s[%s].id " % (mm.group(1), mm.group(2)))), None)
                name = leaf(mm.group(3))
            else:
                kinds = G_KINDS.get(g, ()); a = e["hdr"].split(); eid = a[1][2:] if len(a) > 1 and a[1].startswith("s:") else None
                name = leaf(x)
            src = next((k for k in kinds if name in stu.get((k, eid), ())), None) if cls == "result" else None
            if src: V.append(("state.uninit.%s.%s" % (src, name), {"call": e["hdr"], "member": x, "point": e["point"], "gi": [e["gi"]],
                              "meaning": "the library state member was never initialised (stored from an unassigned parser local); the getter copies it into the result"}))
            else: own.append(x)
        if own:
            if g == "state":
                for u in sorted(set(depath(x) for x in own)):
                    V.append(("getter.state.%s.undef" % u, {"call": e["hdr"], "members": [x for x in own if depath(x) == u][:6], "point": e["point"], "gi": [e["gi"]]}))
            else:
                V.append(("getter.%s.%s.undef" % (g, cls), {"call": e["hdr"], "argument_class": ac, "undefined_members": own, "point": e["point"], "gi": [e["gi"]]}))
        if strip_kind(e["end"]) == "free fault":
            V.append(("getter.%s.%s.free-fault" % (g, cls), {"call": e["hdr"], "argument_class": ac, "observed": e["end"], "members": e["m"][:8], "point": e["point"], "gi": [e["gi"]]}))
        if g == "state": snaps[e["point"]] = e
        elif g in G_KINDS or g in SCALAR_OF: singles[(e["point"], e["hdr"])] = e
    # snapshot vs single-entity getters at the same point
    for point, sn in snaps.items():
        ent = {}
        for m in sn["m"]:
            t = m.split(); mm = re.match(r"(\w+)\[(\d+)\]\.?(.*)", t[1])
            if not mm: continue
            ent.setdefault((mm.group(1), int(mm.group(2))), []).append((t[0], mm.group(3), " ".join(t[2:])))
        for (arr, i), ms in ent.items():
            if arr not in SINGLE: continue
            idv = [v for (k, n, v) in ms if k == "t" and n == "id"]
            if not idv: continue
            getter, pre = SINGLE[arr]
            sg = singles.get((point, "%s s:%s" % (getter, idv[0])))
            if sg is None: continue
            sv = {}
            for m in sg["m"]:
                t = m.split(); sv[(t[0], t[1])] = " ".join(t[2:])
            for (k, n, v) in ms:
                if n == "id" or v == "undef": continue
                name = n[5:] if n.startswith("data.") else n
                got = sv.get((k, pre + name))
                if got != v and got != "undef":
                    V.append(("snapshot.%s.%s.mismatch" % (arr, depath(name)), {"point": point, "entity": idv[0], "member": n, "snapshot": v, "single_getter": got, "call": sg["hdr"], "gi": [sn["gi"], sg["gi"]]}))
            # the single-value getters of the same entity (speed in km/h, speed step, on track): same values as the snapshot member
            if arr == "trains":
                snv = {n: v for (k, n, v) in ms}
                for getter2, pairs in SCALAR_OF.items():
                    s2 = singles.get((point, "%s s:%s" % (getter2, idv[0])))
                    if s2 is None: continue
                    gv = {m.split()[1]: " ".join(m.split()[2:]) for m in s2["m"]}
                    avail = gv.get("known_and_avail", "1 1").split()[-1] == "1"      # member lines carry "<size> <value>"
                    for gm, sm in pairs:
                        if not avail or gm not in gv or sm not in snv or "undef" in (gv[gm], snv[sm]): continue
                        if signed_value(getter2, gm, gv[gm].split()[-1]) != signed_value("state", "trains[0]." + sm, snv[sm].split()[-1]):
                            V.append(("snapshot.trains.%s.mismatch-with-%s" % (depath(sm), getter2), {"point": point, "entity": idv[0], "member": sm, "snapshot": snv[sm], "single_getter": gv[gm], "call": s2["hdr"], "gi": [sn["gi"], s2["gi"]]}))
    return V

# ------------------------------------------------------------------ the check
def reproducer(script, gis, whole):
    """smallest script that shows the observation again: the state changes that precede the call(s), then the call(s)"""
    if whole or not gis: return list(script)
    pos = [i for i, l in enumerate(script) if l.startswith("c17get ")]
    idx = sorted(pos[g] for g in gis if g < len(pos))
    if not idx: return list(script)
    out = [l for l in script[:idx[0]] if l.startswith(("logw", "case", "start", "c17mut"))]
    out += ["c17state"] + [script[i] for i in idx] + ["stop", "c17recheck", "c17release"]
    return out

def config_files(cfg):
    return {f: open(os.path.join(cfg, f)).read() for f in sorted(os.listdir(cfg)) if f.endswith(".yml")}

def learn(exe, cfg):
    rc, out, err = vlib.run_driver(exe, "logw 0\nstart 0 %s 0\nc17state\nstop\n" % cfg, timeout=120, env_extra=asan_env(PAINTS[0]))
    L = out.splitlines()
    if "start 0" not in L or "st end" not in L: return None
    return parse_state(L)

def run(ck):
    quick = ck.tier == "quick"
    cdir, ok = vlib.proof_phase(ck, "Properties_C17.v", translators=("getfacts",))
    exes = (vlib.build_harness(extra_defs=BUILD_A), vlib.build_harness(extra_defs=BUILD_B))   # -O0: members the source never writes stay unwritten
    exe = exes[0]
    md = vlib.build_model_driver(cdir, "_C17")
    r = Rng(ck.seed).fork("C17")
    tmp = vlib.mktmp("vc17")
    cfgs = [os.path.join(vlib.REPO, "test/unit/state_tests_config"), os.path.join(vlib.REPO, "test/unit/config_tests_config")]
    for k in range(4 if quick else 20):
        d = os.path.join(tmp, "cfg%d" % k); gen_config(r.fork("cfg%d" % k), d, k); cfgs.append(d)
    infos = []
    for c in cfgs:
        info = learn(exe, c)
        if info is not None: infos.append((c, info))
    ck.oblige("configurations accepted by the library (%d of %d)" % (len(infos), len(cfgs)), len(infos) >= 2, "")
    ncases = len(infos) * (1 if quick else 2)
    evals = 0; dis = 0; nontrivial = 0; samples = []; dist = {}; unstable_all = set(); keys_seen = {}
    for ci in range(ncases):
        cfg, info = infos[ci % len(infos)]
        script = gen_case(r.fork("case%d" % ci), ci, cfg, info, quick)
        outs = run_impl(exes, script)
        lines, stblocks, unstable, problems = merge_runs(outs)
        unstable_all.update(depath(u) for u in unstable)
        mscript = model_script(script, stblocks)
        mo = subprocess.run([md], input="\n".join(mscript) + "\n", capture_output=True, text=True, timeout=600)
        mlines = mo.stdout.splitlines()
        ilines = [strip_kind(l) for l in lines if not l.startswith("st ")]
        ev = blocks(lines)
        gets = [e for e in ev if e["k"] == "g"]
        evals += len(gets)
        for e in gets:
            ac = argclass(e["hdr"], info); dist[ac] = dist.get(ac, 0) + 1
            if ac in ("unknown", "null") or e["hdr"].startswith("state"): nontrivial += 1
        for p in problems:
            ck.broken.append({"kind": "harness", "name": "c17-run", "detail": p, "config": cfg})
        # getter calls and frees run in forked children; if the driver itself died under the sanitizer, a state change (or the
        # library's own use of a query result inside one, e.g. the train-position query of the occupancy handlers) crashed
        if outs[0][0] != 0 or outs[1][0] != 0:
            err_ = (outs[0][2] if outs[0][0] else outs[1][2]) or ""
            import re as _re
            fn = _re.search(r'#\d+ 0x[0-9a-f]+ in (bidib_\w+) \S*/src/', err_)
            key = "state-change.crash.%s" % (fn.group(1) if fn else "unknown")
            keys_seen[key] = keys_seen.get(key, 0) + 1
            if keys_seen[key] == 1:
                done = sum(1 for l in outs[0][1] if l.startswith(("g ", "mut ", "st begin")))
                ck.violation(key, {"property": "C17", "key": key, "config": cfg, "config_files": config_files(cfg), "script": list(script),
                                   "driver_exit": [outs[0][0], outs[1][0]], "stderr": err_[-1800:], "output_events_before_the_crash": done,
                                   "meaning": "the driver process died (sanitizer report / signal) outside the forked getter children: a state change, or the library's own use and release of a query result inside it, faulted",
                                   "how_to_replay": "bin/check C17 --replay <this file>"})
        # oracle on the implementation's observation
        for key, detail in oracle(ev, info):
            keys_seen[key] = keys_seen.get(key, 0) + 1
            if keys_seen[key] > 1: continue                  # one replay per key: the first (stock configurations come first)
            detail = dict(detail); gis = detail.pop("gi", []); whole = detail.pop("whole_script", False)
            detail.update({"property": "C17", "key": key, "config": cfg, "config_files": config_files(cfg),
                           "script": reproducer(script, gis, whole),
                           "how_to_replay": "bin/check C17 --replay <this file>  (builds the two harnesses, recreates the configuration if needed, runs the script, prints the oracle's keys)"})
            ck.violation(key, detail)
        # the hypothesis of C17_initialised, observed: no member of the library state is never-initialised, whether or not a getter copies it
        for blk in stblocks:
            for (kind, eid), names in st_undefined(blk).items():
                for nm in sorted(names):
                    key = "state.uninit.%s.%s" % (kind, nm)
                    keys_seen[key] = keys_seen.get(key, 0) + 1
                    if keys_seen[key] == 1:
                        ck.violation(key, {"property": "C17", "key": key, "config": cfg, "config_files": config_files(cfg), "entity": eid,
                                           "script": ["logw 0", "start 0 %s 0" % cfg, "c17state", "stop"],
                                           "meaning": "this member of the library state shows 0xAA in the pattern build and 0 in the zero build right after start: it is stored without ever being assigned"})
        # correspondence with the model
        if ilines != mlines:
            dis += 1
            if dis <= 3:
                first = next((i for i in range(min(len(ilines), len(mlines))) if ilines[i] != mlines[i]), min(len(ilines), len(mlines)))
                ck.broken.append({"kind": "correspondence", "name": "corr_getters", "config": cfg, "first_difference_at": first,
                                  "impl": ilines[max(0, first - 6):first + 4], "model": mlines[max(0, first - 6):first + 4], "model_stderr": mo.stderr[-500:]})
        if len(samples) < 2:
            samples.append({"config": cfg, "script_head": script[:12], "observation_head": ilines[:20]})
    ck.oblige("correspondence corr_getters (observed shapes == model shapes in %d cases, %d getter calls)" % (ncases, evals), dis == 0, "%d cases disagree" % dis)
    ck.oblige("no never-initialised member in any observed library state (hypothesis state_defined of C17_initialised)", not any(k.startswith("state.uninit.") for k in keys_seen), "")
    ck.oblige("both painted runs of every case completed and agree on everything but painted bytes", not any(b.get("kind") == "harness" for b in ck.broken), "")
    ck.coverage.update({"evaluations": evals, "distinct_nontrivial": nontrivial, "distribution": dist, "cases": ncases, "configurations": len(infos),
                        "rule": "one evaluation = one getter call at one point of a seeded state history (all 48 getters x known / unknown / other-category / empty / NULL ids, value arguments known and unknown), observed member by member, freed in a child, re-read and freed again after later state changes and after bidib_stop; non-trivial = unknown or NULL argument, or the whole-track snapshot",
                        "oracle_keys_seen": keys_seen,
                        "state_members_differing_between_identical_runs": sorted(unstable_all),
                        "samples": samples, "disagreements_checked": dis})
    return vlib.finish_with_broken(ck, trusted=vlib.TRUSTED_COMMON + [
        "harness/ext_C17.inc: stack/result-slot painting + ASan malloc_fill_byte as the definedness observer (a member is called undefined iff it shows the paint byte in both runs; values the getter copies from uninitialised library state are not detected); fork + ASan as the observer of faulting free / re-read",
        "the abstraction of the library state handed to the model is read from bidib_boards / bidib_trains / bidib_track_state by the harness (c17_state_dump)",
        "library objects built with -O0 for this check (at -O1 clang turns never-written members into arbitrary register contents)",
        "translator/gen_getfacts.py (clang JSON AST -> assigned-member facts and struct layouts); its output is compared with the model inside Coq (C17_model_matches_source)"])

def replay(ck, path):
    """re-run the script of a replay file against the current tree and print the oracle's verdict"""
    rp = json.load(open(path))
    print(json.dumps({k: rp[k] for k in rp if k not in ("script", "config_files")}, indent=1))
    script = rp.get("script")
    if not script:
        print("(no script stored; re-run bin/check C17 with VERIF_SEED=%d)" % ck.seed); return 0
    cfg = rp.get("config")
    if not os.path.isdir(cfg) and rp.get("config_files"):
        d = os.path.join(vlib.mktmp("vc17r"), "cfg"); os.makedirs(d)
        for f, text in rp["config_files"].items(): open(os.path.join(d, f), "w").write(text)
        script = [l.replace(cfg, d) for l in script]; cfg = d
    exes = (vlib.build_harness(extra_defs=BUILD_A), vlib.build_harness(extra_defs=BUILD_B))
    outs = run_impl(exes, script)
    lines, stblocks, unstable, problems = merge_runs(outs)
    info = learn(exes[0], cfg) or parse_state([])
    hits = [k for k, d in oracle(blocks(lines), info)]
    for l in lines:
        if not l.startswith("st "): print("  " + l)
    print("oracle keys on replay:", sorted(set(hits)))
    return 1 if rp.get("key") in hits else 0
