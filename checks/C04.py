"""C04 — stall: nothing is sent into a stalled subtree; held traffic resumes in order."""
import vlib, flowgen
from vlib import Rng

def run(ck):
    quick = ck.tier == "quick"
    def make(info):
        r = Rng(ck.seed).fork("C04"); g = flowgen.Gen(r, info, stalls=True)
        cases = []
        for _ in range(2500 if quick else 60000):
            ev = g.history()
            # the harness flushes before delivering a stall notice (admission order == wire order)
            out = []
            for e in ev:
                if e[0] == "up" and e[3] == 0x8E: out.append(("flush",))
                out.append(e)
            cases.append(out)
        return cases
    flowgen.run_flow_check(ck, "Properties_C04.v", "C04", make, "corr_nodeflow_stall")
    ck.coverage["rule"] = "seeded histories over node trees to depth 3 with nested/repeated stall and unstall notices (incl. unstall without stall, root stall), sends inside and outside the subtree, answers; non-trivial = contains a stall notice or a deferral"
    return vlib.finish_with_broken(ck, trusted=vlib.TRUSTED_COMMON)

def replay(ck, path):
    return vlib.replay_generic(ck, path)
