"""flowgen — generators, wire decoding and the shared correspondence loop for the node-flow
properties C03 (budget), C04 (stall), C05 (sequence numbers)."""
import os, re, subprocess, json
import vlib
from vlib import Rng, hexs, unhex

def crc8(bs):
    c = 0
    for b in bs:
        x = b ^ c
        for _ in range(8):
            x = (x >> 1) ^ 0x8C if x & 1 else x >> 1
        c = x
    return c

def frame(p):
    out = [0xFE]
    for b in list(p) + [crc8(p)]:
        out += [0xFD, b ^ 0x20] if b in (0xFE, 0xFD) else [b]
    return out + [0xFE]

def upmsg(addr, seq, ty, data):
    m = list(addr) + [0, seq, ty] + list(data)
    return [len(m)] + m

def load_response_info(cdir):
    txt = open(os.path.join(cdir, "Tables.v")).read()
    m = re.search(r'Definition response_info : list \(list N\) := \[(.*?)\]\.', txt, re.S)
    rows = re.findall(r'\[([0-9; ]*)\]', m.group(1))
    return [[int(x) for x in r.split(';') if x.strip()] for r in rows]

def decode_wire(chunks):
    """chunks: list of byte lists -> list of packets (each list of messages) ; None on failure"""
    w = [b for c in chunks for b in c]
    pkts = []; cur = None; esc = False
    segs = []; cur = []
    for b in w:
        if b == 0xFE:
            if cur: segs.append(cur)
            cur = []
        else: cur.append(b)
    if cur: return None
    for seg in segs:
        u = []; i = 0
        while i < len(seg):
            if seg[i] == 0xFD:
                if i + 1 >= len(seg): return None
                u.append(seg[i+1] ^ 0x20); i += 2
            else: u.append(seg[i]); i += 1
        if crc8(u) != 0: return None
        u = u[:-1]; msgs = []; i = 0
        while i < len(u):
            n = u[i] + 1
            if i + n > len(u): return None
            msgs.append(u[i:i+n]); i += n
        pkts.append(msgs)
    return pkts

def msg_fields(m):
    z = 1
    while z < len(m) and m[z] != 0: z += 1
    return tuple(m[1:z]), m[z+1], m[z+2], m[z+3:]

NODES = [(1,), (2,), (1, 1), (1, 2), (1, 1, 1), (1, 2, 3), (3,), ()]

class Gen:
    def __init__(self, r, info, stalls=False, seqwrap=False):
        self.r = r; self.info = info; self.stalls = stalls
        self.types_sized = [t for t in range(1, 128) if len(info[t]) > 1 and info[t][0] >= 2 and info[t][1] > 0]
        self.types_zero = [t for t in range(1, 128) if info[t][0] == 1]
    def history(self):
        r = self.r
        nn = r.range(1, 4)
        nodes = [r.choice(NODES) for _ in range(nn)]
        if not self.stalls and r.chance(1, 2): nodes = [n for n in nodes if n != ()] or [(1,)]
        ev = []
        now = 1000 + r.below(1000)
        ev.append(("time", now))
        outstanding = {n: [] for n in nodes}   # rough tracking for steering only
        useq = {n: 1 for n in nodes}
        always_flush = r.chance(7, 10)
        L = r.range(3, 28)
        for _ in range(L):
            k = r.below(100)
            n = r.choice(nodes)
            if k < 50:
                big = r.chance(1, 2)
                ty = r.choice([0x16, 0x17, 0x19, 0x1a, 0x20, 0x0c, 0x05, 0x0e, 0x38]) if big else (r.choice(self.types_sized) if r.chance(3, 4) else r.choice(self.types_zero))
                data = [r.below(256) for _ in range(r.below(4))]
                if r.chance(1, 14):          # long messages: around the default packet capacity and up to the 127-byte limit at this depth
                    data = [r.below(256) for _ in range(r.choice([55, 56, 57, 58, 59, 60, 61, 100, 118, 119, 120, 121]))]
                ev.append(("send", n, ty, data))
                if self.info[ty][1] > 0: outstanding[n].append(ty)
            elif k < 80:
                q = outstanding[n]
                mode = r.below(10)
                if q and mode < 6:
                    ty = q[0]; alts = self.info[ty][2:self.info[ty][0] + 1]
                    rty = r.choice(alts); q.pop(0)
                elif q and mode < 7:
                    ty = q[-1]; alts = self.info[ty][2:self.info[ty][0] + 1]; rty = r.choice(alts)
                elif mode < 9:
                    rty = r.choice([0xA1, 0xA0, 0xB0, 0x86, 0xE1])
                else:
                    rty = r.choice([0x81, 0x84, 0x85, 0x90, 0x93, 0x95, 0x88, 0x89, 0x8b])
                if rty == 0x8E: rty = 0xA1
                ev.append(("up", n, useq[n], rty, [r.below(256) for _ in range(r.range(1, 3))]))
                useq[n] = 1 if useq[n] == 255 else useq[n] + 1
            elif k < 88:
                now += r.choice([1, 1, 2, 2, 3, 5])
                ev.append(("time", now))
                if r.chance(1, 3):
                    for q in outstanding.values(): q.clear()
            elif k < 92:
                ev.append(("flush",))
            elif self.stalls and r.chance(1, 6) and not any(e[0] == "burst" for e in ev):
                # a long hold: more than 32 (up to 70) messages submitted to one node while it, or an ancestor, is stalled
                tgt = n[:r.range(1, len(n))] if len(n) > 1 and r.chance(1, 2) else n
                ev.append(("up", tgt, 0, 0x8E, [1])); ev.append(("burst",))
                for i in range(r.range(33, 70)):
                    ev.append(("send", n, r.choice(self.types_zero) if r.chance(3, 4) else r.choice(self.types_sized), [i & 255]))
            elif self.stalls:
                tgt = r.choice(nodes)
                if r.chance(1, 2) and len(tgt) > 0: tgt = tgt[:r.range(1, len(tgt))]
                if r.chance(1, 8): tgt = ()
                ev.append(("up", tgt, 0, 0x8E, [r.choice([1, 1, 0, 0, 0, 2])]))
            else:
                ev.append(("up", n, 0, 0xA1, [r.below(256)]))
            if always_flush and ev[-1][0] in ("send", "up"): ev.append(("flush",))
        if self.stalls:
            # clear every stall at the end in random order so that held traffic must resume
            st = list({e[1] for e in ev if e[0] == "up" and e[3] == 0x8E})
            while st:
                t = st.pop(r.below(len(st))); ev.append(("up", t, 0, 0x8E, [0])); ev.append(("flush",))
        return ev

def script_of(cid, ev):
    L = ["case %s" % cid, "cap 0", "flush", "reset_nodes", "seqon 1", "discard q"]
    for i, e in enumerate(ev):
        if e[0] == "send":
            a = list(e[1]) + [0, 0, 0]
            L.append("send %d %d %d %d %s" % (a[0], a[1], a[2], e[2], hexs(e[3])))
        elif e[0] == "up":
            L.append("rx " + hexs(frame(upmsg(e[1], e[2], e[3], e[4]))))
        elif e[0] == "time": L.append("time %d" % e[1])
        elif e[0] == "flush": L.append("flush")
        elif e[0] == "seqon": L.append("seqon %d" % e[1])
        elif e[0] == "reset": L.append("reset_nodes")
        elif e[0] == "burst": pass
        L.append("mark %d" % i)
    L.append("flush"); L.append("mark end")
    return L

def ev_json(ev):
    return [[e[0]] + [list(x) if isinstance(x, (tuple, list)) else x for x in e[1:]] for e in ev]

def run_shards(exe, md, cases, shard=1500, mode="flow", start="start 1 - 0"):
    """yields (index, ev, impl_lines, model_lines, rc, stderr)"""
    for s0 in range(0, len(cases), shard):
        part = cases[s0:s0 + shard]
        lines = [start]
        for i, ev in enumerate(part):
            lines += script_of(str(s0 + i), ev)
        script = "\n".join(lines) + "\n"
        rc, out, err = vlib.run_driver(exe, script, timeout=900)
        mo = subprocess.run([md, mode], input=script, capture_output=True, text=True, timeout=900)
        impl = vlib.split_cases(out); model = vlib.split_cases(mo.stdout)
        for i, ev in enumerate(part):
            cid = str(s0 + i)
            yield s0 + i, ev, impl.get(cid), model.get(cid), rc, err

def trace_of(ev, lines):
    """align implementation output with events: list of (event, [wire chunks emitted after it])"""
    out = []; cur = []; idx = 0
    per = {}
    pending = []
    for l in lines or []:
        if l.startswith("w "): pending.append(unhex(l[2:]))
        elif l.startswith("mark "):
            per[l[5:]] = pending; pending = []
    res = []
    for i, e in enumerate(ev):
        res.append((e, per.get(str(i), [])))
    res.append((("flush",), per.get("end", [])))
    return res

# ------------------------------------------------------------------ oracles on implementation traces
def answers(info, ty):
    return info[ty][2:info[ty][0] + 1] if ty < len(info) and info[ty] and info[ty][0] >= 2 else []
def rsize(info, ty):
    return info[ty][1] if ty < len(info) and len(info[ty]) > 1 else 0

def prefixes(a):
    return [tuple(a[:k]) for k in range(len(a), -1, -1)]   # a, parents..., root ()

def oracle_flow(info, ev, impl_lines, domain):
    """returns list of (key, reason, event_index). domain in {'C03','C04','C05'}"""
    viol = []
    tr = trace_of(ev, impl_lines)
    all_flushed = all((ev[i + 1][0] == "flush") for i in range(len(ev) - 1) if ev[i][0] in ("send", "up")) and (not ev or ev[-1][0] not in ("send", "up") or True)
    submitted = {}   # node -> list of expected message bytes
    sseq = {}
    wire = {}        # node -> list of messages observed
    spec_out = {}    # node -> list of [ty, t]
    noexp = {}       # node -> same accounting without the 2 s expiry (answers only)
    stalled = set()
    seqon = True
    now = 0
    has_time_jump = sum(1 for e in ev if e[0] == "time") > 1
    def live(n):
        return [x for x in spec_out.get(n, []) if now - x[1] < 2]
    for i, (e, chunks) in enumerate(tr):
        if e[0] == "time": now = e[1]
        elif e[0] == "seqon": seqon = bool(e[1])
        elif e[0] == "reset": sseq = {}; spec_out = {}; noexp = {}; stalled = set(); submitted = {}; wire = {}
        elif e[0] == "send":
            n = tuple(e[1]); s = 0
            if seqon:
                s = sseq.get(n, 1); sseq[n] = 1 if s == 255 else s + 1
            m = upmsg(n, s, e[2], e[3])
            submitted.setdefault(n, []).append(m)
        elif e[0] == "up":
            n = tuple(e[1])
            spec_out[n] = live(n)
            if spec_out[n] and e[3] in answers(info, spec_out[n][0][0]): spec_out[n].pop(0)
            if noexp.get(n) and e[3] in answers(info, noexp[n][0][0]): noexp[n].pop(0)
            if e[3] == 0x8E:
                if e[4][-1] == 0: stalled.discard(n)
                else: stalled.add(n)
        pk = decode_wire(chunks) if chunks else []
        if pk is None:
            viol.append(("wire-undecodable", "wire after event %d is not a sequence of valid packets" % i, i)); break
        for p in pk:
            for m in p:
                a, sq, ty, data = msg_fields(m)
                wire.setdefault(a, []).append(m)
                if rsize(info, ty) > 0: noexp.setdefault(a, []).append([ty, now])
                k = len(wire[a]) - 1
                exp = submitted.get(a, [])
                if k >= len(exp) or exp[k] != m:
                    viol.append(("fifo-once", "message %s to node %s is not submission #%d of that node (duplicate, reordered, dropped or altered)" % (hexs(m), a, k), i))
                if domain == "C05":
                    pass
                if domain in ("C03",) and all_flushed:
                    spec_out[a] = live(a) + ([[ty, now]] if rsize(info, ty) > 0 else [])
                    tot = sum(rsize(info, x[0]) for x in spec_out[a])
                    if tot > 48:
                        viol.append(("budget", "outstanding worst-case responses of node %s sum to %d > 48 after event %d" % (a, tot, i), i))
                elif domain != "C03" or not all_flushed:
                    spec_out.setdefault(a, [])
                    spec_out[a] = live(a) + ([[ty, now]] if rsize(info, ty) > 0 else [])
                if domain == "C04":
                    blockers = [p for p in prefixes(a) if p in stalled]
                    if blockers:
                        key = "stall.root" if blockers == [()] else "stall.subtree"
                        viol.append((key, "message %s to node %s transmitted while %s is stalled" % (hexs(m), a, blockers), i))
        if viol and viol[-1][0] in ("fifo-once", "wire-undecodable"): break
        # stranded check at event boundaries (fully flushed histories only)
        if all_flushed and domain in ("C03", "C04") and e[0] in ("flush", "time"):
            expiry_domain = domain == "C04" and has_time_jump          # C03's known finding lives here; judged against the model below
            for n, subs in submitted.items():
                sent = len(wire.get(n, []))
                if sent < len(subs):
                    if any(p in stalled for p in prefixes(n)): continue
                    head = subs[sent]; hty = msg_fields(head)[2]
                    used = sum(rsize(info, x[0]) for x in live(n))
                    if used + rsize(info, hty) <= 48:
                        raw = spec_out.get(n, [])
                        if domain == "C03":
                            used_noexp = sum(rsize(info, x[0]) for x in noexp.get(n, []))
                            key = "strand.lazy-expiry" if used_noexp + rsize(info, hty) > 48 else "strand.other"
                        else:
                            key = "resume.stranded-with-expiry" if expiry_domain else "resume.stranded"
                        viol.append((key, "held message %s to node %s fits the budget (%d+%d<=48) and no ancestor is stalled, but was not transmitted by event %d" % (hexs(head), n, used, rsize(info, hty), i), i))
                        return viol
    if domain == "C05":
        for a, ms in wire.items():
            seqs = [msg_fields(m)[1] for m in ms]
            for j, s in enumerate(seqs):
                pass
    return viol

def oracle_seq(ev, impl_lines):
    """C05: per node consecutive sequence numbers in wire order; restart after reset; 0 while off"""
    viol = []
    tr = trace_of(ev, impl_lines)
    expect = {}; seqon = True
    for i, (e, chunks) in enumerate(tr):
        if e[0] == "seqon": seqon = bool(e[1])
        elif e[0] == "reset": expect = {}
        pk = decode_wire(chunks) if chunks else []
        if pk is None:
            viol.append(("wire-undecodable", "undecodable wire", i)); break
        for p in pk:
            for m in p:
                a, sq, ty, data = msg_fields(m)
                if sq == 0:
                    continue
                ex = expect.get(a, 1)
                if sq != ex:
                    viol.append(("seq-not-consecutive", "node %s: sequence number %d on the wire where %d was due" % (a, sq, ex), i))
                    return viol
                expect[a] = 1 if sq == 255 else sq + 1
    return viol

def run_flow_check(ck, prop_file, domain, make_cases, corr_name, known_classifier=None, lock_fact=None):
    cdir, proofs_ok = vlib.proof_phase(ck, prop_file, translators=("tables", "lockcfg") if lock_fact else ("tables",))
    if lock_fact:
        okl, logl = vlib.coq_make(cdir, ["LockProofs.vo"])
        diag, side = vlib.lock_diagnosis(cdir, kinds=("guard", "balance"), threadsafe_only=True)
        rel = [d for d in diag if any(g in d["what"] for g in lock_fact)]
        ck.oblige("lock fact: %s" % ", ".join(lock_fact), okl and not rel, "; ".join(d["what"] for d in rel[:3]))
        if not okl or rel:
            ck.broken.append({"kind": "lock-fact", "name": ",".join(lock_fact), "detail": rel[:5] or logl[-800:]})
    info = load_response_info(cdir)
    exe = vlib.build_harness()
    md = vlib.build_model_driver(cdir)
    cases = make_cases(info)
    dis = 0; evals = 0; nontrivial = 0; dist = {}; samples = []; orc_fail = 0
    for idx, ev, il, ml, rc, err in run_shards(exe, md, cases):
        evals += 1
        tags = set()
        if il:
            nw = sum(1 for l in il if l.startswith("w "))
            if any(e[0] == "up" and e[3] == 0x8E for e in ev): tags.add("stall")
            if any(e[0] == "time" for e in ev[1:]): tags.add("clock-jump")
            # deferral: a send event not followed by wire output before the next mark in a flushed history
            tr = trace_of(ev, il)
            for (e, ch), nxt in zip(tr, tr[1:]):
                if e[0] == "send" and nxt[0][0] == "flush" and not ch and not nxt[1]: tags.add("deferred")
                if e[0] == "up" and (ch or (nxt[0][0] == "flush" and nxt[1])): tags.add("released-by-uplink")
        for t in tags: dist[t] = dist.get(t, 0) + 1
        if "deferred" in tags or "released-by-uplink" in tags or "stall" in tags: nontrivial += 1
        if len(samples) < 2 and "released-by-uplink" in tags: samples.append({"events": ev_json(ev), "impl": il})
        if il is None:
            ck.violation("driver-crash", {"property": ck.pid, "events": ev_json(ev), "rc": rc, "stderr": err[-1500:]})
            continue
        vs = oracle_seq(ev, il) if domain == "C05" else oracle_flow(info, ev, il, domain)
        if domain != "C05":
            vs = [v for v in vs if True]
        for key, reason, at in vs[:1]:
            same_as_model = (il == ml)
            # the known finding strand.lazy-expiry is the stranding that the faithful model of the unchanged code exhibits as well; a
            # stranding in the expiry domain on a history where implementation and model disagree is something else
            if key == "strand.lazy-expiry" and not same_as_model: key = "strand.with-expiry-not-in-model"
            if key == "resume.stranded-with-expiry":
                if same_as_model: continue                      # C03's finding, not a stall matter
                key = "resume.stranded-not-in-model"
            orc_fail += 1
            ck.violation(key, {"property": ck.pid, "events": ev_json(ev), "script": script_of("replay", ev), "impl": il, "model": ml,
                               "reason": reason, "at_event": at, "implementation_equals_faithful_model": same_as_model})
        if il != ml:
            dis += 1
            if dis <= 3:
                ck.broken.append({"kind": "correspondence", "name": corr_name, "events": ev_json(ev), "impl": il, "model": ml})
    ck.oblige("correspondence %s (impl == model on %d histories)" % (corr_name, evals), dis == 0, "%d disagreements" % dis)
    ck.oblige("oracle accepts implementation traces (known findings excepted)", not ck.violations, "%d rejected" % orc_fail)
    ck.coverage.update({"evaluations": evals, "distinct_nontrivial": nontrivial, "distribution": dist, "samples": samples or [{"events": ev_json(cases[0])}],
                        "disagreements_checked": dis, "oracle_rejections_incl_known": orc_fail})
    return cdir
