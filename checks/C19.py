"""C19 — secure-ACK: each occupancy report of a SecAck board is mirrored exactly once."""
import subprocess, os
import vlib, flowgen
from vlib import Rng, hexs, unhex
from flowgen import frame, upmsg

CFG = os.path.join(vlib.VERIF, "corpus", "C19", "cfg")
BOARDS = [("bsec", [0x45, 0, 0x0D, 0x75, 0, 0x11, 0x11], 1), ("bzero", [0x45, 0, 0x0D, 0x75, 0, 0x22, 0x22], 0),
          ("bnone", [0x45, 0, 0x0D, 0x75, 0, 0x33, 0x33], 0), ("bsec2", [0x45, 0, 0x0D, 0x75, 0, 0x44, 0x44], 1)]
UNKNOWN_UID = [0x45, 0, 0x0D, 0x75, 0, 0x99, 0x99]

def gen_case(r, info=None):
    """a session: boards log in at random addresses, then reports from several nodes, some under pressure"""
    ev = []; where = {}
    if info is not None and r.chance(1, 6):
        return gen_refill(r, info) if r.chance(1, 2) else gen_congested(r, info)
    order = list(range(4)); 
    for i in order:
        if r.chance(4, 5):
            parent = r.choice([(), (1,), (2,), (1, 2), (2, 7)]) if i else ()      # boards on every node level (1..3)
            local = r.range(1, 9)
            addr = tuple(parent) + (local,)
            if addr in where.values() or len(addr) > 3: continue
            where[i] = addr
            ev.append(("up", parent, r.below(256), 0x8D, [r.below(256), local] + BOARDS[i][1]))
    if r.chance(1, 3): ev.append(("up", (), 0, 0x8D, [1, 7] + UNKNOWN_UID))
    nodes = list(where.values()) + [(7,), (5, 5)]
    for _ in range(r.range(3, 25)):
        n = r.choice(nodes); k = r.below(100)
        if k < 25: ev.append(("up", n, r.below(256), 0xA0, [r.below(256)]))
        elif k < 45: ev.append(("up", n, r.below(256), 0xA1, [r.below(256)]))
        elif k < 65:
            size = r.choice([8, 16, 24, 64, 128, 128, 8, 0, 4, 136, 12]) ; base = r.choice([0, 8, 16, 64, 3, 0x80, 0xC0, 0xF0, 0xF8])
            ev.append(("up", n, r.below(256), 0xA2, [base, size] + [r.below(256) for _ in range(size // 8 + 2)]))
        elif k < 80: ev.append(("up", n, r.below(256), 0xAC, [r.below(256) for _ in range(5)]))
        elif k < 86: ev.append(("up", n, 0, 0x8E, [r.choice([1, 0])]))            # stall / unstall
        elif k < 90: ev.append(("send", n, r.choice([0x16, 0x19, 0x20, 0x05]), [r.below(256)]))   # budget pressure
        elif k < 93:
            # the host asks for a range (with an action id, as the high-level functions do); the node's next multiple report answers it
            ev.append(("send", n, 0x20, [0, 16], r.choice([0, 1, 77, 4711])))
            ev.append(("up", n, r.below(256), 0xA2, [8 * r.below(4), 16, r.below(256), r.below(256)]))
        elif k < 96: ev.append(("up", n, r.below(256), r.choice([0x93, 0x95, 0x84]), [1, 65, 1, 66]))
        else: ev.append(("up", n, r.below(256), r.choice([0xA3, 0xA7, 0xA9]), [r.below(256) for _ in range(4)]))
    # address reuse: a board is reported lost and another configured board (other SecAck setting or not) logs in at the same
    # address; reports from that address follow (the SecAck decision belongs to the board connected there now)
    if where and r.chance(1, 3):
        i = r.choice(sorted(where)); a = where[i]; parent = a[:-1]; local = a[-1]
        others = [j for j in range(4) if j not in where]
        if others and not any(w[:len(a)] == a and w != a for w in where.values()):
            j = r.choice(others)
            ev.append(("up", parent, r.below(256), 0x8C, [r.below(256), local] + BOARDS[i][1]))
            for _ in range(r.range(0, 2)): ev.append(("up", a, r.below(256), r.choice([0xA0, 0xA1]), [r.below(256)]))
            ev.append(("up", parent, r.below(256), 0x8D, [r.below(256), local] + BOARDS[j][1]))
            where.pop(i); where[j] = a          # keep the generator's picture current (the re-login block below relies on it)
            for _ in range(r.range(1, 4)):
                k = r.below(3)
                if k == 0: ev.append(("up", a, r.below(256), 0xA0, [r.below(256)]))
                elif k == 1: ev.append(("up", a, r.below(256), 0xA1, [r.below(256)]))
                else: ev.append(("up", a, r.below(256), 0xA2, [8 * r.below(8), 16] + [r.below(256), r.below(256)]))
    # re-login without a loss: a connected board is announced again at another address (no MSG_NODE_LOST in between); its reports
    # now come from the new address; optionally another configured board then logs in at the old address and reports too
    if where and r.chance(1, 3):
        i = r.choice(sorted(where)); a = where[i]
        if len(a) == 1 and not any(w[:1] == a and w != a for w in where.values()):
            free = [x for x in range(1, 10) if (x,) not in where.values()]
            if free:
                nl = r.choice(free); b = (nl,)
                ev.append(("up", (), r.below(256), 0x8D, [r.below(256), nl] + BOARDS[i][1])); where[i] = b
                for _ in range(r.range(1, 3)):
                    k = r.below(4)
                    if k == 0: ev.append(("up", b, r.below(256), 0xA0, [r.below(256)]))
                    elif k == 1: ev.append(("up", b, r.below(256), 0xA1, [r.below(256)]))
                    elif k == 2: ev.append(("up", b, r.below(256), 0xA2, [8 * r.below(8), 16] + [r.below(256), r.below(256)]))
                    else: ev.append(("up", b, r.below(256), 0xAC, [r.below(256) for _ in range(5)]))
                others = [j for j in range(4) if j not in where]
                if others and r.chance(1, 2) and a not in where.values():
                    j = r.choice(others); ev.append(("up", (), r.below(256), 0x8D, [r.below(256), a[0]] + BOARDS[j][1])); where[j] = a
                for _ in range(r.range(1, 3)): ev.append(("up", a, r.below(256), r.choice([0xA0, 0xA1]), [r.below(256)]))
    # lift every stall at the end
    for n in {e[1] for e in ev if e[0] == "up" and e[3] == 0x8E}: ev.append(("up", n, 0, 0x8E, [0]))
    return ev, where

def gen_congested(r, info):
    """a SecAck board whose budget is exhausted (one request held), which then stalls, does not answer (the request expires),
    reports while stalled and lifts the stall: the mirror must be on the wire in the end, exactly once"""
    ev = [("time", 1000)]; where = {}
    parent = r.choice([(), (1,)]); local = r.range(2, 9); n = tuple(parent) + (local,)
    i = r.choice([k for k in range(4) if BOARDS[k][2]]); where[i] = n
    if parent: ev.append(("up", (), r.below(256), 0x8D, [r.below(256), parent[0]] + UNKNOWN_UID))
    ev.append(("up", parent, r.below(256), 0x8D, [r.below(256), local] + BOARDS[i][1]))
    big = [t for t in range(1, 0x80) if 24 <= flowgen.rsize(info, t) <= 48 and flowgen.answers(info, t)]
    ev += [("send", n, r.choice(big), [0, 0]), ("send", n, r.choice(big), [0, 0])]
    staller = r.choice([n, n[:1]]) if parent else n
    ev.append(("up", staller, 0, 0x8E, [1]))
    ev.append(("time", 1000 + r.choice([3, 5, 60])))
    for _ in range(r.range(1, 3)):
        ev.append(("up", n, r.below(256), r.choice([0xA0, 0xA1]), [r.below(256)]))
    ev.append(("up", staller, 0, 0x8E, [0]))
    ev.append(("must_drain",))
    return ev, where

def gen_refill(r, info):
    """a SecAck board whose budget is used up EXACTLY (k requests of response size s, k*s = 48), one more request held, a report
    whose mirror (response size 0) waits behind it; one answer arrives: the held request goes out and fills the budget to
    exactly 48 again - the mirror needs no budget and must be on the wire then, exactly once"""
    ev = [("time", 1000)]; where = {}
    parent = r.choice([(), (1,)]); local = r.range(2, 9); n = tuple(parent) + (local,)
    i = r.choice([k for k in range(4) if BOARDS[k][2]]); where[i] = n
    if parent: ev.append(("up", (), r.below(256), 0x8D, [r.below(256), parent[0]] + UNKNOWN_UID))
    ev.append(("up", parent, r.below(256), 0x8D, [r.below(256), local] + BOARDS[i][1]))
    fit = [t for t in range(1, 0x80) if flowgen.rsize(info, t) in (6, 8, 12, 16, 24, 48) and flowgen.answers(info, t)
           and t in (0x02, 0x43, 0x48)]
    t = r.choice(fit); s = flowgen.rsize(info, t); k = 48 // s
    for _ in range(k + 1): ev.append(("send", n, t, [0, 0]))
    for _ in range(r.range(1, 2)):
        ev.append(("up", n, r.below(256), r.choice([0xA0, 0xA1]), [r.below(256)]))
    ev.append(("up", n, r.below(256), flowgen.answers(info, t)[0], [r.below(256) for _ in range(6)]))
    ev.append(("must_drain",))
    return ev, where

def script_of(cid, ev):
    L = ["case %s" % cid]
    for i, e in enumerate(ev):
        if e[0] == "up": L.append("rx " + hexs(frame(upmsg(e[1], e[2], e[3], e[4]))))
        elif e[0] == "time": L.append("time %d" % e[1])
        elif e[0] == "must_drain": L.append("flush")
        else:
            a = list(e[1]) + [0, 0, 0]; L.append("send %d %d %d %d %s" % (a[0], a[1], a[2], e[2], hexs(e[3])) + (" %d" % e[4] if len(e) > 4 else ""))
        L.append("mark %d" % i)
    L += ["flush", "mark end"]
    return L

def run(ck):
    quick = ck.tier == "quick"
    cdir, ok = vlib.proof_phase(ck, "Properties_C19.v")
    exe = vlib.build_harness(); md = vlib.build_model_driver(cdir, "_C19")
    r = Rng(ck.seed).fork("C19")
    n = 300 if quick else 6000
    info = flowgen.load_response_info(cdir)
    cases = [gen_case(r, info) for _ in range(n)]
    dis = 0; bad = 0; evals = 0; mirrors = 0; dist = {}; samples = []
    boards_decl = "".join("board %s %d\n" % (hexs(u), s) for _, u, s in BOARDS)
    for s0 in range(0, n, 25):
        part = cases[s0:s0 + 25]
        # one library session per case (board connectivity is per session): stop/start between cases
        for j, (ev, where) in enumerate(part):
            cid = str(s0 + j)
            body = "\n".join(script_of(cid, ev)) + "\n"
            cs = "start 0 %s 0\nlogw 1\n" % CFG + body + "discard q\ndiscard e\n"
            ms = boards_decl + "start\n" + body
            rc, out, err = vlib.run_driver(exe, cs, timeout=120)
            mo = subprocess.run([md], input=ms, capture_output=True, text=True, timeout=120)
            il = vlib.split_cases(out).get(cid); ml = vlib.split_cases(mo.stdout).get(cid)
            evals += 1
            if il is None or rc != 0:
                ck.violation("receiver-crash", {"property": "C19", "events": flowgen.ev_json(ev), "rc": rc, "stderr": err[-1200:]}); continue
            # oracle: per secack board, reports vs mirrors on the wire (spec payload), nothing for others
            tr = flowgen.trace_of(ev, il)
            # which board is connected where, followed through the session's node-new / node-lost notices
            cur = {}; all_sec = set()
            def upd(e):
                if e[0] == "up" and e[3] in (0x8D, 0x8C) and len(e[4]) >= 9:
                    uid = e[4][2:9]; bi = next((k for k in range(4) if BOARDS[k][1] == uid), None)
                    if bi is None: return
                    if e[3] == 0x8D: cur[bi] = tuple(e[1]) + (e[4][1],)
                    else: cur.pop(bi, None)
            pend = {}   # node -> expected mirrors not yet seen
            stalled_any = any(e[0] == "up" and e[3] == 0x8E for e in ev)
            for (e, chunks) in tr:
                upd(e)
                sec_nodes = {a for bi, a in cur.items() if BOARDS[bi][2]}; all_sec |= sec_nodes
                if e[0] == "up" and tuple(e[1]) in sec_nodes and e[3] in (0xA0, 0xA1, 0xA2, 0xAC):
                    d = e[4]; exp = None
                    if e[3] == 0xA0: exp = (0x22, d[:1])
                    elif e[3] == 0xA1: exp = (0x23, d[:1])
                    elif e[3] == 0xA2:
                        if d[0] % 8 == 0 and d[1] % 8 == 0 and 8 <= d[1] <= 128: exp = (0x21, d[:2 + d[1] // 8])
                    else: exp = (0x26, d[:5])
                    if exp: pend.setdefault(tuple(e[1]), []).append(exp)
                pk = flowgen.decode_wire(chunks) if chunks else []
                for p in (pk or []):
                    for m in p:
                        a, sq, ty, data = flowgen.msg_fields(m)
                        if ty in (0x21, 0x22, 0x23, 0x26):
                            mirrors += 1
                            q = pend.get(a, [])
                            if a not in sec_nodes and not (a in all_sec and q):
                                bad += 1; ck.violation("mirror.to-non-secack-board", {"property": "C19", "events": flowgen.ev_json(ev), "impl": il, "reason": "mirror %s sent to node %s which has no SecAck feature" % (hexs(m), a)})
                            elif not q:
                                bad += 1; ck.violation("mirror.duplicate", {"property": "C19", "events": flowgen.ev_json(ev), "impl": il, "reason": "unexpected/duplicate mirror %s" % hexs(m)})
                            else:
                                exp = q.pop(0)
                                if (ty, data) != (exp[0], exp[1]):
                                    bad += 1
                                    key = "mirror.payload"
                                    ck.violation(key, {"property": "C19", "events": flowgen.ev_json(ev), "impl": il, "reason": "mirror carries type %02x data %s, the report asks for type %02x data %s" % (ty, hexs(data), exp[0], hexs(exp[1]))})
                # without pressure the mirror must be on the wire right after its report
                if e[0] == "up" and not stalled_any and not any(x[0] == "send" for x in ev):
                    for a, q in pend.items():
                        if q:
                            bad += 1; ck.violation("mirror.missing", {"property": "C19", "events": flowgen.ev_json(ev), "impl": il, "reason": "report from SecAck board %s not mirrored immediately: %s" % (a, q)}); q.clear()
            if any(pend.values()) and (not any(x[0] == "send" for x in ev) or any(x[0] == "must_drain" for x in ev)):
                bad += 1; ck.violation("mirror.missing", {"property": "C19", "events": flowgen.ev_json(ev), "impl": il, "reason": "mirrors never sent: %s" % {str(k): v for k, v in pend.items() if v}})
            for e in ev:
                if e[0] == "up": dist["%02x" % e[3]] = dist.get("%02x" % e[3], 0) + 1
            if len(samples) < 2 and mirrors: samples.append({"events": flowgen.ev_json(ev)[:12], "impl": il[:30]})
            if il != ml:
                dis += 1
                if dis <= 3: ck.broken.append({"kind": "correspondence", "name": "corr_secack", "events": flowgen.ev_json(ev), "impl": il, "model": ml})
    ck.oblige("correspondence corr_secack (impl == model on %d sessions)" % evals, dis == 0, "%d disagreements" % dis)
    ck.oblige("mirror oracle accepts implementation wire (known findings excepted)", not ck.violations, "%d rejected" % bad)
    ck.coverage.update({"evaluations": evals, "distinct_nontrivial": min(evals, mirrors), "distribution": dist, "mirrors_observed": mirrors,
                        "rule": "sessions against a 4-board config (feature 0x03 = 1, 0, absent, 0x14): boards log in at random addresses (depth 1-2), then occupied/free/multiple/position reports with arbitrary detector numbers, bitmap sizes (valid and invalid) and positions from SecAck, non-SecAck, unknown and disconnected nodes, interleaved with stall notices and budget-consuming requests; non-trivial = sessions in which mirrors were observed",
                        "samples": samples or [{"events": flowgen.ev_json(cases[0][0])[:10]}], "disagreements_checked": dis})
    return vlib.finish_with_broken(ck, trusted=vlib.TRUSTED_COMMON)

def replay(ck, path):
    return vlib.replay_generic(ck, path)
