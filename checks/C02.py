"""C02 — uplink decoding: good packets delivered in order once, bad-CRC packets dropped."""
import subprocess
import vlib, flowgen
from vlib import Rng, hexs, unhex
from flowgen import crc8, frame

SPECIAL = [0xFD, 0xFE, 0xDD, 0xDE]
def gen_built(r, steer=False):
    depth = r.below(4)
    addr = [r.range(1, 255) for _ in range(depth)]
    ty = r.below(256)
    if ty == 0x8E: ty = 0x8F
    data = [r.choice(SPECIAL) if r.chance(1, 5) else r.below(256) for _ in range(r.choice([0, 1, 2, 3, 5, 9, 20, 40]))]
    return flowgen.upmsg(addr, r.below(256), ty, data)

def gen_stream(r):
    items = []; stream = []
    for _ in range(r.range(1, 8)):
        k = r.below(100)
        if k < 5:
            # a packet filled to the brim: exactly 252..255 content bytes (what the library's own sender emits at capacity 255)
            L = r.choice([252, 253, 254, 255, 255]); p = []
            while len(p) < L:
                rest = L - len(p)
                n = rest - 4 if rest <= 64 else r.range(0, 56)
                if rest > 64 and rest - (n + 4) < 4: n -= 4
                p += flowgen.upmsg([], r.below(256), r.choice([0x82, 0x84, 0x85, 0x95, 0xC6]), [r.choice(SPECIAL) if r.chance(1, 8) else r.below(256) for _ in range(n)])
            stream += frame(p); items.append("full%d" % len(p))
        elif k < 55:
            msgs = [gen_built(r) for _ in range(r.range(1, 4))]
            p = [b for m in msgs for b in m]
            if len(p) > 250: p = msgs[0]
            if r.chance(1, 6) and len(p) > 6:
                for v in range(256):       # steer the CRC into a byte that needs escaping
                    p[-1] = v
                    if crc8(p) in (0xFE, 0xFD): break
            stream += frame(p); items.append("good")
        elif k < 70:
            f = frame([b for m in [gen_built(r)] for b in m])
            i = r.range(1, len(f) - 2); f[i] ^= 1 << r.below(8); stream += f; items.append("bitflip")
        elif k < 78:
            f = frame(gen_built(r)); i = r.range(1, len(f) - 2); del f[i]; stream += f; items.append("dropbyte")
        elif k < 86:
            f = frame(gen_built(r)); i = r.range(1, len(f) - 1); f.insert(i, r.choice([0xFD, 0xFE, r.below(256)])); stream += f; items.append("insbyte")
        elif k < 92:
            stream += [0xFE] * r.range(1, 3); items.append("delims")
        elif k < 96:
            f = frame(gen_built(r)); stream += f[:r.range(1, len(f) - 1)]; items.append("truncated")
        else:
            stream += [r.choice([0xFD, r.below(256)]) for _ in range(r.range(1, 4))]; items.append("noise")
    stream += [0xFE]
    # chunking across read polls
    chunks = []; i = 0
    while i < len(stream):
        n = r.choice([1, 2, 3, 7, 20, 100, 1000]); chunks.append(stream[i:i+n]); i += n
    return items, chunks

def reference(stream):
    """independent reference: (list of delivered messages, malformed?)"""
    out = []; seg = []
    for b in stream:
        if b == 0xFE:
            if seg:
                u = []; esc = False
                for x in seg:
                    if x == 0xFD: esc = True
                    elif esc: u.append(x ^ 0x20); esc = False
                    else: u.append(x)
                if len(u) > 256: return out, True
                if crc8(u) == 0:
                    u = u[:-1]; i = 0
                    while i < len(u):
                        n = u[i] + 1
                        m = u[i:i+n]
                        if len(m) < n or n < 4: return out, True
                        z = 1
                        while z < len(m) and m[z] != 0: z += 1
                        if z > 4 or z + 2 >= len(m): return out, True
                        if m[z+2] != 0x8E: out.append(m)
                        i += n
                seg = []
        else: seg.append(b)
    return out, False

def run(ck):
    quick = ck.tier == "quick"
    cdir, ok = vlib.proof_phase(ck, "Properties_C02.v")
    exe = vlib.build_harness(); md = vlib.build_model_driver(cdir)
    r = Rng(ck.seed).fork("C02")
    n = 3000 if quick else 100000
    cases = [gen_stream(r) for _ in range(n)]
    def script(cases_idx):
        L = ["start 1 - 0"]
        for i in cases_idx:
            items, chunks = cases[i]
            L += ["case %d" % i, "rx fe", "discard q"]
            for c in chunks: L.append("rx " + hexs(c))
            L += ["drain q"]
        return "\n".join(L) + "\n"
    allidx = list(range(n))
    mo = subprocess.run([md, "rx"], input=script(allidx), capture_output=True, text=True, timeout=1200)
    model = vlib.split_cases(mo.stdout)
    safe = [i for i in allidx if "model-fault" not in model.get(str(i), [])]
    routed = n - len(safe)
    dis = 0; orc = 0; evals = 0; dist = {}; nontrivial = 0; samples = []
    for s0 in range(0, len(safe), 1500):
        part = safe[s0:s0 + 1500]
        rc, out, err = vlib.run_driver(exe, script(part), timeout=900)
        impl = vlib.split_cases(out)
        for i in part:
            evals += 1
            items, chunks = cases[i]
            for t in set(items): dist[t] = dist.get(t, 0) + 1
            il = impl.get(str(i)); ml = model.get(str(i))
            stream = [b for c in chunks for b in c]
            exp, malformed = reference(stream)
            if len(set(items)) > 1: nontrivial += 1
            if len(samples) < 2 and "bitflip" in items and "good" in items: samples.append({"items": items, "chunks": [hexs(c) for c in chunks], "impl": il})
            if il is None:
                ck.violation("receiver-crash", {"property": "C02", "chunks": [hexs(c) for c in chunks], "rc": rc, "stderr": err[-1500:]}); continue
            if not malformed:
                got = [l[2:] for l in il if l.startswith("q ") and l != "q none"]
                if got != [hexs(m) for m in exp]:
                    orc += 1
                    ck.violation("delivery-mismatch", {"property": "C02", "items": items, "chunks": [hexs(c) for c in chunks], "expected": [hexs(m) for m in exp], "delivered": got,
                                 "reason": "messages delivered by the implementation differ from the good packets of the stream (reference decoder)"})
            if il != ml:
                dis += 1
                if dis <= 3: ck.broken.append({"kind": "correspondence", "name": "corr_rx", "chunks": [hexs(c) for c in chunks], "impl": il, "model": ml})
    ck.oblige("correspondence corr_rx (impl == model on %d streams)" % evals, dis == 0, "%d disagreements" % dis)
    ck.oblige("reference decoder agrees with implementation deliveries", orc == 0, "%d mismatches" % orc)
    ck.coverage.update({"evaluations": evals, "distinct_nontrivial": nontrivial, "distribution": dist, "routed_to_C12_by_model_fault": routed,
                        "rule": "seeded byte streams: good packets (1-3 messages, all types, depth 0-3, escaped bytes/CRC) mixed with bit flips, dropped/inserted bytes, extra delimiters, truncation, noise; random chunking across read polls; non-trivial = at least two different item kinds in one stream",
                        "samples": samples or [{"items": cases[0][0]}], "disagreements_checked": dis})
    return vlib.finish_with_broken(ck, trusted=vlib.TRUSTED_COMMON)

def replay(ck, path):
    return vlib.replay_generic(ck, path)
