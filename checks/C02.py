"""C02 — uplink decoding: good packets delivered in order once, bad-CRC packets dropped."""
import subprocess
import vlib, flowgen
from vlib import Rng, hexs, unhex
from flowgen import crc8, frame

SPECIAL = [0xFD, 0xFE, 0xDD, 0xDE]
def gen_built(r, steer=False):
    depth = r.below(4)
    addr = [r.range(1, 255) for _ in range(depth)]
    ty = r.below(256)
    if ty == 0x8E: ty = 0x8F
    data = [r.choice(SPECIAL) if r.chance(1, 5) else r.below(256) for _ in range(r.choice([0, 1, 2, 3, 5, 9, 20, 40]))]
    return flowgen.upmsg(addr, r.below(256), ty, data)

def gen_stream(r):
    items = []; stream = []
    for _ in range(r.range(1, 8)):
        k = r.below(100)
        if k < 5:
            # a packet filled to the brim: exactly 252..255 content bytes (what the library's own sender emits at capacity 255)
            L = r.choice([252, 253, 254, 255, 255]); p = []
            while len(p) < L:
                rest = L - len(p)
                n = rest - 4 if rest <= 64 else r.range(0, 56)
                if rest > 64 and rest - (n + 4) < 4: n -= 4
                p += flowgen.upmsg([], r.below(256), r.choice([0x82, 0x84, 0x85, 0x95, 0xC6]), [r.choice(SPECIAL) if r.chance(1, 8) else r.below(256) for _ in range(n)])
            stream += frame(p); items.append("full%d" % len(p))
        elif k < 55:
            msgs = [gen_built(r) for _ in range(r.range(1, 4))]
            p = [b for m in msgs for b in m]
            if len(p) > 250: p = msgs[0]
            if r.chance(1, 6) and len(p) > 6:
                for v in range(256):       # steer the CRC into a byte that needs escaping
                    p[-1] = v
                    if crc8(p) in (0xFE, 0xFD): break
            stream += frame(p); items.append("good")
        elif k < 70:
            f = frame([b for m in [gen_built(r)] for b in m])
            i = r.range(1, len(f) - 2); f[i] ^= 1 << r.below(8); stream += f; items.append("bitflip")
        elif k < 78:
            f = frame(gen_built(r)); i = r.range(1, len(f) - 2); del f[i]; stream += f; items.append("dropbyte")
        elif k < 86:
            f = frame(gen_built(r)); i = r.range(1, len(f) - 1); f.insert(i, r.choice([0xFD, 0xFE, r.below(256)])); stream += f; items.append("insbyte")
        elif k < 92:
            stream += [0xFE] * r.range(1, 3); items.append("delims")
        elif k < 96:
            f = frame(gen_built(r)); stream += f[:r.range(1, len(f) - 1)]; items.append("truncated")
        else:
            stream += [r.choice([0xFD, r.below(256)]) for _ in range(r.range(1, 4))]; items.append("noise")
    stream += [0xFE]
    # chunking across read polls
    chunks = []; i = 0
    while i < len(stream):
        n = r.choice([1, 2, 3, 7, 20, 100, 1000]); chunks.append(stream[i:i+n]); i += n
    return items, chunks

def reference(stream):
    """independent reference: (list of delivered messages, malformed?)"""
    out = []; seg = []
    for b in stream:
        if b == 0xFE:
            if seg:
                u = []; esc = False
                for x in seg:
                    if x == 0xFD: esc = True
                    elif esc: u.append(x ^ 0x20); esc = False
                    else: u.append(x)
                if len(u) > 256: return out, True
                if crc8(u) == 0:
                    u = u[:-1]; i = 0
                    while i < len(u):
                        n = u[i] + 1
                        m = u[i:i+n]
                        if len(m) < n or n < 4: return out, True
                        z = 1
                        while z < len(m) and m[z] != 0: z += 1
                        if z > 4 or z + 2 >= len(m): return out, True
                        if m[z+2] != 0x8E: out.append(m)
                        i += n
                seg = []
        else: seg.append(b)
    return out, False

def run(ck):
    quick = ck.tier == "quick"
    cdir, ok = vlib.proof_phase(ck, "Properties_C02.v")
    exe = vlib.build_harness(); md = vlib.build_model_driver(cdir)
    r = Rng(ck.seed).fork("C02")
    n = 3000 if quick else 100000
    cases = [gen_stream(r) for _ in range(n)]
    def script(cases_idx, impl=False):
        L = ["start 1 - 0"]
        for i in cases_idx:
            items, chunks = cases[i]
            L += ["case %d" % i, "rx fe", "discard q"]
            for ci, c in enumerate(chunks):
                L.append("rx " + hexs(c))
                # every chunking of the stream across read polls: now and then a long silence (hundreds of empty polls) between two chunks
                if impl and len(chunks) > 1 and (i * 31 + ci * 7) % 23 == 0: L.append("idle %d" % [450, 900, 2500][(i + ci) % 3])
            L += ["drain q"]
        return "\n".join(L) + "\n"
    allidx = list(range(n))
    mo = subprocess.run([md, "rx"], input=script(allidx), capture_output=True, text=True, timeout=1200)
    model = vlib.split_cases(mo.stdout)
    safe = [i for i in allidx if "model-fault" not in model.get(str(i), [])]
    routed = n - len(safe)
    dis = 0; orc = 0; evals = 0; dist = {}; nontrivial = 0; samples = []
    for s0 in range(0, len(safe), 1500):
        part = safe[s0:s0 + 1500]
        rc, out, err = vlib.run_driver(exe, script(part, impl=True), timeout=900)
        impl = vlib.split_cases(out)
        for i in part:
            evals += 1
            items, chunks = cases[i]
            for t in set(items): dist[t] = dist.get(t, 0) + 1
            il = impl.get(str(i)); ml = model.get(str(i))
            stream = [b for c in chunks for b in c]
            exp, malformed = reference(stream)
            if len(set(items)) > 1: nontrivial += 1
            if len(samples) < 2 and "bitflip" in items and "good" in items: samples.append({"items": items, "chunks": [hexs(c) for c in chunks], "impl": il})
            if il is None:
                ck.violation("receiver-crash", {"property": "C02", "chunks": [hexs(c) for c in chunks], "rc": rc, "stderr": err[-1500:]}); continue
            if not malformed:
                got = [l[2:] for l in il if l.startswith("q ") and l != "q none"]
                if got != [hexs(m) for m in exp]:
                    orc += 1
                    ck.violation("delivery-mismatch", {"property": "C02", "items": items, "script": script([i], impl=True).split("\n")[:-1], "chunks": [hexs(c) for c in chunks], "expected": [hexs(m) for m in exp], "delivered": got,
                                 "reason": "messages delivered by the implementation differ from the good packets of the stream (reference decoder)"})
            if il != ml:
                dis += 1
                if dis <= 3: ck.broken.append({"kind": "correspondence", "name": "corr_rx", "chunks": [hexs(c) for c in chunks], "impl": il, "model": ml})
    # outside low-level debug mode: the same splitting feeds the type dispatcher; packets of 1-4 messages of types that reach
    # a user queue unconditionally (README table), sender depth 0-3, escaped bytes: each message is in its queue once, in
    # stream order, byte-identical (the data-byte offset behind the address stack is what the dispatcher computes per depth)
    MSGQ = [0x82, 0x83, 0x84, 0x85, 0x87, 0x94, 0x95, 0xB9, 0xC6, 0xC8, 0xC9, 0xCA, 0xE4, 0xA5, 0xA8]; ERRQ = [0x86, 0x8B, 0x91, 0xC1]
    nn = 600 if quick else 20000; ncases = []
    for _ in range(nn):
        pk = []
        for _p in range(r.range(1, 3)):
            msgs = []
            for _m in range(r.range(1, 4)):
                depth = r.choice([0, 1, 2, 3, 3]); addr = [r.range(1, 255) for _ in range(depth)]
                ty = r.choice(MSGQ + ERRQ)
                data = [r.choice(SPECIAL) if r.chance(1, 6) else r.below(256) for _ in range(r.choice([9, 10, 12, 16, 16, 40, 59, 60, 61, 100, 200, 240]))]   # up to the longest messages a packet can carry
                if ty == 0x86: data[0] = r.choice([0x00, 0x01, 0x02, 0x03, 0x10, 0x11, 0x12, 0x20, 0x21, 0x22, 0x30]); data[1] = r.below(7)
                msgs.append(flowgen.upmsg(addr, r.below(256), ty, data))
            while sum(len(m) for m in msgs) > 250: msgs.pop()
            if msgs: pk.append(msgs)
        ncases.append(pk)
    L = ["start 0 - 0", "logw 0"]
    for i, pk in enumerate(ncases):
        L += ["case n%d" % i, "discard q", "discard e"]
        for msgs in pk: L.append("rx " + hexs(frame([b for m in msgs for b in m])))
        L += ["drain q", "drain e"]
    rcn, outn, errn = vlib.run_driver(exe, "\n".join(L) + "\n", timeout=900)
    impln = vlib.split_cases(outn); nbad = 0; depth3 = 0
    for i, pk in enumerate(ncases):
        flat = [m for msgs in pk for m in msgs]
        depth3 += sum(1 for m in flat if m[1] and m[2] and m[3])
        expq = ["q " + hexs(m) for m in flat if m[m.index(0, 1) + 2] in MSGQ] + ["q none"]
        expe = ["e " + hexs(m) for m in flat if m[m.index(0, 1) + 2] in ERRQ] + ["e none"]
        il = impln.get("n%d" % i)
        if il is None:
            ck.violation("receiver-crash", {"property": "C02", "mode": "normal", "script": L[:2] + ["rx " + hexs(frame([b for m in msgs for b in m])) for msgs in pk], "rc": rcn, "stderr": errn[-1500:]}); nbad += 1; break
        if [l for l in il if l[:2] in ("q ", "e ")] != expq + expe:
            nbad += 1
            ck.violation("delivery-mismatch.normal-mode", {"property": "C02", "script": ["start 0 - 0", "discard q", "discard e"] + ["rx " + hexs(frame([b for m in msgs for b in m])) for msgs in pk] + ["drain q", "drain e"],
                         "expected": expq + expe, "delivered": il, "reason": "outside debug mode a message of a CRC-valid packet did not reach its queue exactly once, in order and byte-identical"})
    ck.oblige("normal mode: every message of %d good packets-sequences (depth 0-3, %d messages from depth-3 senders) reaches its user queue once, in order, byte-identical" % (nn, depth3), nbad == 0, "%d mismatches" % nbad)
    # round trip on the real code: whatever the library's own sender emits, its receiver decodes to the identical message sequence
    # (packets of one message each, flushed one by one, so that the packet CRC takes every value - also the two that need an escape)
    nl = 60 if quick else 1500; lcases = []
    for _ in range(nl):
        ms = []
        for _m in range(30):
            depth = r.below(4); addr = [r.range(1, 255) for _ in range(depth)] + [0] * (3 - depth)
            data = [r.choice(SPECIAL) if r.chance(1, 6) else r.below(256) for _ in range(r.choice([1, 1, 2, 3, 6]))]
            ms.append((addr, r.choice([0x22, 0x23]), data))      # mirror messages: no answer expected, never held by flow control
        lcases.append(ms)
    LA = ["start 1 - 0", "logw 1"]
    for i, ms in enumerate(lcases):
        LA += ["case L%d" % i, "reset_nodes", "cap 0", "flush"]
        for addr, ty, data in ms: LA += ["send %d %d %d %d %s" % (addr[0], addr[1], addr[2], ty, hexs(data)), "flush"]
    rca, outa, erra = vlib.run_driver(exe, "\n".join(LA) + "\n", timeout=900)
    wa = vlib.split_cases(outa)
    LB = ["start 1 - 0"]
    wires = {}
    for i in range(nl):
        w = [b for l in wa.get("L%d" % i, []) if l.startswith("w ") for b in unhex(l[2:])]; wires[i] = w
        LB += ["case L%d" % i, "rx fe", "discard q", "rx " + hexs(w + [0xFE]), "drain q"]
    rcb, outb, errb = vlib.run_driver(exe, "\n".join(LB) + "\n", timeout=900)
    wb = vlib.split_cases(outb); lbad = 0; esc_crc = 0
    for i, ms in enumerate(lcases):
        got = [unhex(l[2:]) for l in wb.get("L%d" % i, []) if l.startswith("q ") and l != "q none"]
        w = wires[i]
        esc_crc += sum(1 for j in range(2, len(w)) if w[j] == 0xFE and w[j - 2] == 0xFD)
        def fields(m):
            z = m.index(0, 1); return (list(m[1:z]), m[z + 2], list(m[z + 3:]))
        want = [([x for x in addr if x], ty, data) for addr, ty, data in ms]
        try: have = [fields(m) for m in got]
        except Exception: have = None
        if have != want:
            lbad += 1
            ck.violation("roundtrip", {"property": "C02", "script": ["start 1 - 0", "logw 1", "reset_nodes", "cap 0", "flush"] + [x for addr, ty, data in ms for x in ("send %d %d %d %d %s" % (addr[0], addr[1], addr[2], ty, hexs(data)), "flush")] +
                         ["# the bytes written above, fed back:", "rx fe", "discard q", "rx " + hexs(w + [0xFE]), "drain q"],
                         "sent": [[hexs(a) or "-", "%02x" % t, hexs(d)] for a, t, d in want], "delivered": [hexs(m) for m in got], "wire": hexs(w),
                         "reason": "the receiver did not decode the sender's own output to the identical message sequence"})
    ck.oblige("round trip on the real code: %d packets written by the sender and fed back to the receiver (%d with an escaped CRC) deliver the sent messages" % (nl * 30, esc_crc), lbad == 0, "%d histories differ" % lbad)
    ck.oblige("correspondence corr_rx (impl == model on %d streams)" % evals, dis == 0, "%d disagreements" % dis)
    ck.oblige("reference decoder agrees with implementation deliveries", orc == 0, "%d mismatches" % orc)
    ck.coverage.update({"evaluations": evals, "distinct_nontrivial": nontrivial, "distribution": dist, "routed_to_C12_by_model_fault": routed,
                        "rule": "seeded byte streams: good packets (1-3 messages, all types, depth 0-3, escaped bytes/CRC) mixed with bit flips, dropped/inserted bytes, extra delimiters, truncation, noise; random chunking across read polls; non-trivial = at least two different item kinds in one stream",
                        "samples": samples or [{"items": cases[0][0]}], "disagreements_checked": dis})
    return vlib.finish_with_broken(ck, trusted=vlib.TRUSTED_COMMON)

def replay(ck, path):
    return vlib.replay_generic(ck, path)
