"""C08 — train presence / position / orientation always agree with the segment address lists."""
import os, subprocess
import vlib, stategen
from vlib import Rng, hexs
from stategen import T

def board_at(c, dump_lines, addr):
    """the first connected board (board order) whose reported address is addr — from the implementation's own `b` lines"""
    a3 = (list(addr) + [0, 0, 0])[:3]
    conn = {}
    for l in dump_lines:
        f = l.split()
        if f[0] == "b" and f[2] == "1" and f[3] != "-": conn[int(f[1][1:])] = [int(x) for x in f[3].split(".")]
    for i in range(len(c.boards)):
        if conn.get(i) == a3: return i
    return None

def oracle(c, events, dumps):
    """the property evaluated on the implementation's getter results after every event. dumps[0] = initial state,
    dumps[k] = after events[k-1]. Returns list of (key, reason, event index)."""
    viol = []
    for k, d in enumerate(dumps):
        p = stategen.parse_dump(d)
        order = sorted(p["segs"], key=lambda x: int(x[1:]))
        for i, (l, h, _) in enumerate(c.trains):
            tid = stategen.tname(i)
            if tid not in p["trains"] or tid not in p["pos"]:
                viol.append(("getter-missing-train", "train %s missing in the dump" % tid, k)); continue
            listing = []; kinds = []
            for g in order:
                for (al, ah, at) in p["segs"][g]["addrs"]:
                    if (al, ah) == (l, h): listing.append(g); kinds.append(at)
            tr = p["trains"][tid]; n, segs, ori, ontrack = p["pos"][tid]
            on = tr["on"] == "1"
            if on != bool(listing): viol.append(("on-track-vs-segments", "%s on_track=%s but segments listing its address: %s" % (tid, on, listing), k))
            if ontrack != on: viol.append(("on-track-getters-differ", "%s bidib_get_train_on_track=%s, train state on_track=%s" % (tid, ontrack, on), k))
            if set(segs) != set(listing) or n != len(segs): viol.append(("position-vs-segments", "%s position %s but segments listing it: %s" % (tid, segs, listing), k))
            elif segs != listing: viol.append(("position-order", "%s position %s, listing order %s" % (tid, segs, listing), k))
            if on and listing:
                allowed = {"L" if t == 0 else "R" for t in kinds}
                if tr["ori"] not in allowed: viol.append(("orientation-not-reported", "%s orientation %s, reported kinds %s" % (tid, tr["ori"], kinds), k))
                if ori != tr["ori"]: viol.append(("orientation-getters-differ", "%s position query says %s, train state %s" % (tid, ori, tr["ori"]), k))
        ids = [stategen.tname(i) for i in range(len(c.trains)) if p["trains"].get(stategen.tname(i), {}).get("on") == "1"]
        ot = [l for l in d if l.startswith("ontrack ")]
        if ot and ot[0].split()[1] != (",".join(ids) if ids else "-"):
            viol.append(("trains-on-track-list", "bidib_get_trains_on_track %s vs on_track flags %s" % (ot[0], ids), k))
        # effect of the event itself on the referred segment (free clears, occ sets, address list replaces)
        if k >= 1:
            e = events[k - 1]; prev = stategen.parse_dump(dumps[k - 1])
            if e[0] == "msg" and e[2] in (T["BM_FREE"], T["BM_OCC"], T["BM_ADDRESS"], T["BM_MULTIPLE"]):
                b = board_at(c, dumps[k - 1], e[1])
                touched = {}
                # a message with fewer data bytes than the fixed part of its type (1; MULTIPLE 2) is ignored by the dispatcher
                if b is not None and len(e[3]) >= (2 if e[2] == T["BM_MULTIPLE"] else 1):
                    segmap = dict(c.boards[b]["segs"])
                    if e[2] == T["BM_MULTIPLE"]:
                        base, size, bits = e[3][0], e[3][1], e[3][2:]
                        # a report whose bitmap is incomplete ((size + 7) / 8 bytes) is malformed and ignored as a whole
                        for i in (range(size) if len(bits) >= (size + 7) // 8 else ()):
                            if base + i < 255 and (base + i) in segmap and i // 8 < len(bits):
                                touched["g%d" % segmap[base + i]] = ("occ" if bits[i // 8] >> (i % 8) & 1 else "free")
                    elif e[3][0] in segmap:
                        touched["g%d" % segmap[e[3][0]]] = {T["BM_FREE"]: "free", T["BM_OCC"]: "occ", T["BM_ADDRESS"]: "addr"}[e[2]]
                for g in order:
                    now = p["segs"][g]; was = prev["segs"].get(g)
                    what = touched.get(g)
                    if what == "free" and (now["addrs"] or now["occ"]):
                        viol.append(("free-does-not-clear", "segment %s reported free but lists %s occ=%s" % (g, now["addrs"], now["occ"]), k))
                    elif what == "occ" and (not now["occ"] or now["addrs"] != was["addrs"]):
                        viol.append(("occ-effect", "segment %s reported occupied: occ=%s addrs %s -> %s" % (g, now["occ"], was["addrs"], now["addrs"]), k))
                    elif what == "addr":
                        bs = e[3][1:]; pr = [(bs[j], bs[j + 1]) for j in range(0, len(bs) - 1, 2)]
                        exp = [] if pr == [(0, 0)] else [(lo, hi & 0x3F, hi >> 6) for lo, hi in pr if (hi >> 6) in (0, 2)]
                        if now["addrs"] != exp: viol.append(("address-list-effect", "segment %s lists %s after report %s (expected %s)" % (g, now["addrs"], bs, exp), k))
                    elif what is None and was is not None and (now["addrs"] != was["addrs"] or now["occ"] != was["occ"]):
                        viol.append(("unrelated-segment-changed", "segment %s changed by a report that does not refer to it: %s -> %s" % (g, was, now), k))
    return viol

def probe_allowed(dumps):
    ok = set()
    for d in dumps:
        for l in d:
            f = l.split()
            if f[0] == "pos": ok.add("P %s %s %s %s" % (f[1], f[2], f[3], f[4]))
            elif f[0] == "tr": ok.add("S %s %s %s" % (f[1], f[2], f[3]))
    return ok

def run(ck):
    vlib.CURRENT_EXTS = ("C07",)      # the driver commands of harness/ext_C07.inc (shared by C07 and C08)
    quick = ck.tier == "quick"
    cdir, ok = vlib.proof_phase(ck, "Properties_C08.v", translators=("tables", "statetabs", "access", "lockcfg"))
    diag, side = vlib.lock_diagnosis(cdir, kinds=("guard", "balance"), threadsafe_only=True)
    rel = [d for d in diag if any(g in d["what"] for g in ("bidib_track_state.segments", "bidib_track_state.trains", "bidib_trains"))]
    ck.oblige("lock fact: every access to the segment table, the train-state table and the train list on a thread-safe path holds its guard", not rel, "; ".join(d["what"] for d in rel[:3]))
    if rel: ck.broken.append({"kind": "lock-fact", "name": "segments/trains guarded", "detail": rel[:5]})
    # atomic view (semantic): the single-hold facts of the occupancy setters and the getters, decided by the verified
    # checker on the regenerated lock programs (LockAtomicC08.c08_single_hold); the translator's mirror explains a failure
    sh = [d for d in (side.get("single_hold") or []) if d.get("table", "").startswith("c08")] if isinstance(side, dict) else []
    sh_bad = [d for d in sh if not d.get("ok")]
    ck.oblige("single-hold facts: on every path of bidib_state_bm_occ/bm_multiple/bm_address all accesses to the segment and train-state tables lie inside one hold of trackstate_segments_mutex and of trackstate_trains_mutex; the four getters read inside one hold (%d facts, verified checker; premise of C08_atomic_view)" % len(sh),
              ok and bool(sh) and not sh_bad, "; ".join(d.get("what", "")[:200] for d in sh_bad[:2]) if sh_bad else ("" if ok and sh else "Properties_C08.v / LockAtomicC08.v did not build" if sh else "no single-hold facts generated"))
    torn_script = None
    codes = stategen.tables_codes(cdir)
    badc = [k for k in T if codes.get(k) != T[k]]
    ck.oblige("message type codes used by the generator equal the source's", not badc, ",".join(badc))
    if badc: ck.broken.append({"kind": "translator", "name": "type-codes", "detail": badc})
    exe = vlib.build_harness(); md = vlib.build_model_driver(cdir, "_C07")
    tmp = vlib.mktmp("vc08")
    r = Rng(ck.seed).fork("C08")
    n = 2500 if quick else 60000
    dis = 0; evals = 0; nontrivial = 0; dist = {}; samples = []; orc = 0; conc_obs = 0; conc_mid = 0
    nprobe = 0; nrouted = 0; first_events = None
    SH = 2500
    for s0 in range(0, n, SH):
        cnt = min(SH, n - s0); sdir = os.path.join(tmp, "s%d" % s0)
        cases = stategen.make_cases(r, cnt, sdir, occupancy_only=True, rich=False, min_ev=4, max_ev=16)
        ids = list(range(s0, s0 + cnt))
        if first_events is None: first_events = [stategen.ev_json(e) for e in cases[0]["events"]]
        scripts = {i: stategen.script_of(i, cs["dir"], cs["cfg"], cs["events"], snap=False) for i, cs in zip(ids, cases)}
        # concurrent readers: in every 10th history a second application thread polls the train getters while the
        # receiver thread works; whatever it saw must be the value of some prefix state
        for i in range(s0, s0 + cnt, 10):
            sc = scripts[i]; k = sc.index("dump")
            scripts[i] = sc[:k + 1] + ["probe start"] + sc[k + 1:-1] + ["probe stop", "stop"]; nprobe += 1
        model = stategen.run_model(md, "model", "\n".join(l for i in ids for l in scripts[i]) + "\n")
        safe = [i for i in ids if not any(l.startswith("model-fault") for l in model.get(str(i), []))]
        nrouted += cnt - len(safe)
        impl, crashed = stategen.run_impl(exe, scripts, safe)
        for i in safe:
            cs = cases[i - s0]; il = impl.get(i); ml = model.get(str(i))
            if i in crashed or il is None:
                ck.violation("driver-crash", {"property": "C08", "cfg": stategen.cfg_json(cs["cfg"]), "events": [stategen.ev_json(e) for e in cs["events"]],
                                              "script": scripts[i], "rc": crashed.get(i, ("?", ""))[0], "stderr": crashed.get(i, ("", ""))[1]})
                continue
            evals += 1
            di = stategen.real_dumps(il); dm = stategen.real_dumps(ml)
            dumps = di
            obs = [l[4:] for l in il if l.startswith("obs ")]
            if obs:
                okset = probe_allowed(dumps); conc_obs += len(obs)
                initial = probe_allowed(dumps[:1]) | probe_allowed(dumps[-1:])
                conc_mid += sum(1 for o in obs if o not in initial)
                torn = [o for o in obs if o not in okset]
                if torn:
                    orc += 1
                    if torn_script is None: torn_script = (scripts[i], torn[:10])
                    ck.violation("concurrent-reader-sees-no-prefix-state", {"property": "C08", "reason": "a concurrent reader obtained a getter result that is not the value in any prefix state",
                                 "observations": torn[:10], "script": scripts[i]})
            tags = set()
            last = stategen.parse_dump(dumps[-1]) if dumps else {"pos": {}, "segs": {}}
            for d in dumps:
                p = stategen.parse_dump(d)
                for t, (cnt, segs, ori, ot) in p["pos"].items():
                    if cnt >= 2: tags.add("train-spans-segments")
                    if cnt >= 1: tags.add("train-on-track")
                for g, sg in p["segs"].items():
                    if len(sg["addrs"]) >= 2: tags.add("several-addresses-in-segment")
                    if any((al, ah) not in [(l, h) for l, h, _ in cs["cfg"].trains] for al, ah, _ in sg["addrs"]): tags.add("unknown-address-listed")
            if any(e[0] == "msg" and e[2] == T["BM_MULTIPLE"] for e in cs["events"]): tags.add("multiple")
            if any(e[0] == "msg" and e[2] in (T["NODE_LOST"],) for e in cs["events"]): tags.add("node-lost")
            for t in tags: dist[t] = dist.get(t, 0) + 1
            if "train-on-track" in tags: nontrivial += 1
            if len(samples) < 2 and "train-spans-segments" in tags and "several-addresses-in-segment" in tags:
                samples.append({"cfg": stategen.cfg_json(cs["cfg"]), "events": [stategen.ev_json(e) for e in cs["events"]], "final_dump": dumps[-1]})
            if len(dumps) == len(cs["events"]) + 1:
                vs = oracle(cs["cfg"], cs["events"], dumps)
            else:
                vs = [("dump-count", "expected %d dumps, got %d" % (len(cs["events"]) + 1, len(dumps)), 0)]
            for key, reason, at in vs[:1]:
                orc += 1
                ck.violation(key, {"property": "C08", "reason": reason, "after_event": at, "cfg": stategen.cfg_json(cs["cfg"]),
                                   "events": [stategen.ev_json(e) for e in cs["events"]], "script": scripts[i],
                                   "impl_dump": dumps[at] if at < len(dumps) else None, "same_as_model": di == dm})
            mi = [stategen.mask(cs["cfg"], d) for d in di]; mm = [stategen.mask(cs["cfg"], d) for d in dm]
            if mi != mm:
                dis += 1
                if dis <= 3:
                    k = next((j for j, (x, y) in enumerate(zip(mi, mm)) if x != y), None)
                    ck.broken.append({"kind": "correspondence", "name": "corr_state_occupancy", "script": scripts[i], "first_difference_dump": k,
                                      "impl": di[k] if k is not None else None, "model": dm[k] if k is not None else None})

        del model, impl
        import shutil; shutil.rmtree(sdir, ignore_errors=True)
    seen_sh = set()
    for d in sh_bad:
        k = (d["function"], d["lock"])
        if k in seen_sh: continue
        seen_sh.add(k)
        content = {"property": "C08", "violated_fact": "C08_atomic_view (LockAtomicC08.c08_single_hold)", "function": d["function"], "lock": d["lock"], "globals": d["globals"],
                   "diagnosis": d.get("why"), "reason": d.get("what")}
        if torn_script is not None:
            content.update({"script": torn_script[0], "observations": torn_script[1], "note": "the polling reader of this run obtained a getter result that is no prefix state"})
            ck.violation("atomic.single-hold.%s.%s" % k, content)
        else:
            content["note"] = "the polling reader (every 10th history) saw only prefix states in this run"
            ck.violation("atomic.single-hold.%s.%s" % k, content, no_input=True)
    ck.oblige("correspondence corr_state_occupancy (all getters after every event, impl == model on %d histories)" % evals, dis == 0, "%d disagreements" % dis)
    ck.oblige("the C08 invariant evaluated on the implementation's getter results after every event", orc == 0, "%d violations" % orc)
    ck.coverage.update({"evaluations": evals, "distinct_nontrivial": nontrivial, "distribution": dist, "routed_to_C12_by_model_fault": nrouted,
                        "single_hold_facts": [{"function": d["function"], "lock": d["lock"], "globals": d["globals"], "ok": d["ok"]} for d in sh],
                        "concurrent_reader": {"histories": nprobe, "distinct_observations": conc_obs, "observations_of_intermediate_states": conc_mid},
                        "rule": "seeded configurations (1-4 boards incl. boards without track entry, 0-8 segments per board, 0-4 trains incl. trains whose configured address has bits above 0x3F) x histories of node new/lost, OCC, FREE, MULTIPLE, ADDRESS reports (known / unknown / unconnected nodes and numbers; free form; 0-16 addresses incl. accessory kinds, unknown decoders, the same decoder twice, stray byte); all getters dumped after every event; non-trivial = some train was on track at some point",
                        "samples": samples or [{"events": first_events}], "disagreements_checked": dis})
    return vlib.finish_with_broken(ck, trusted=vlib.TRUSTED_COMMON + ["translator/gen_statetabs.py (enum values, table sizes, the two pure conversion functions evaluated by the compiled C)",
        "checks/stategen.py writes the YAML configuration for the library and the same configuration as cfg lines for the model driver (ids are index-named)",
        "atomic view for concurrent readers: C08_atomic_view is a theorem about the lock programs generated from the source (lock-granularity model: which accesses to the segment / train-state tables a path performs and under which holds; one-level pointer taint as for C10); that the values read are those of a prefix state additionally uses the sequential correspondence"])

def replay(ck, path):
    def judge(c, events, di, dm, ds):
        if len(di) < len(events) + 1: return ["expected %d dumps, got %d" % (len(events) + 1, len(di))]
        return ["%s: %s (after event %d)" % v for v in oracle(c, events, di[:len(events) + 1])]
    return stategen.replay_case(ck, path, judge)
