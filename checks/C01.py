"""C01 — downlink bytes are well-formed packets carrying each sent message exactly once."""
import os, json, subprocess
import vlib
from vlib import Rng, hexs, unhex

def crc8(bs):
    c = 0
    for b in bs:
        x = b ^ c
        for _ in range(8):
            x = (x >> 1) ^ 0x8C if x & 1 else x >> 1
        c = x
    return c

SPECIAL = [0xFD, 0xFE, 0xDD, 0xDE]

def gen_msg(r, maxlen=40, steer_crc=False, prefix=()):
    depth = r.below(4)
    addr = [r.range(1, 255) for _ in range(depth)] + [0]
    body_len = r.range(0, max(0, maxlen - len(addr) - 3))
    data = [r.choice(SPECIAL) if r.chance(1, 4) else r.below(256) for _ in range(body_len)]
    m = addr + [r.below(256), r.below(256)] + data
    m = [len(m)] + m
    if steer_crc and data:
        want = r.choice([0xFE, 0xFD])
        for v in range(256):
            m[-1] = v
            if crc8(list(prefix) + m) == want:
                break
    return m

def gen_case(r, kind):
    ops = []
    if kind == "basic":
        for _ in range(r.range(1, 10)):
            k = r.below(10)
            if k < 7: ops.append(("add", gen_msg(r, r.choice([8, 20, 40, 64]))))
            elif k < 9: ops.append(("flush",))
            else: ops.append(("cap", r.choice([0, 1, 63, 64, 65, 66, 100, 128, 200, 254, 255, r.below(256)])))
    elif kind == "crc":
        ops.append(("add", gen_msg(r, 30, steer_crc=True)))
        ops.append(("flush",))
        ops.append(("add", gen_msg(r, 12)))
    elif kind == "capedge":
        cap = r.choice([0, 64, 65, 70, 100, 128, 255, r.range(60, 255)])
        ops.append(("cap", cap))
        eff = max(64, cap)
        tot = 0
        for _ in range(r.range(2, 8)):
            tgt = r.choice([eff - 5, eff - 4, eff - 3, eff, eff + 1, eff - 1]) - tot
            ln = tgt if (4 <= tgt <= 200 and r.chance(1, 2)) else r.range(4, 40)
            m = gen_msg(r, ln)
            while len(m) < ln:
                m.append(r.below(256)); m[0] = len(m) - 1
            ops.append(("add", m))
            tot += len(m)
            if tot > eff - 4: tot = 0
            if r.chance(1, 8): ops.append(("cap", r.choice([0, 64, 80, 255, r.below(256)])))
    elif kind == "staging":
        ops.append(("cap", 255))
        n = r.range(2, 5)
        for _ in range(n):
            ln = r.range(40, 120)
            m = [ln - 1, 0, r.below(256), r.below(256)] + [r.choice([0xFE, 0xFD]) if r.chance(3, 4) else r.below(256) for _ in range(ln - 4)]
            ops.append(("add", m))
    elif kind == "big":
        ops.append(("cap", r.choice([0, 255])))
        ln = r.choice([250, 251, 252, 255, 256, r.range(128, 256)])
        m = [ln - 1, 0, 1, 2] + [r.below(256) for _ in range(ln - 4)]
        ops.append(("add", gen_msg(r, 10)))
        ops.append(("add", m))
        ops.append(("add", gen_msg(r, 10)))
    return ops

def script_of(cid, ops):
    L = ["case %s" % cid, "cap 0", "flush"]
    for i, o in enumerate(ops):
        if o[0] == "add": L.append("add " + hexs(o[1]))
        elif o[0] == "flush": L.append("flush")
        else: L.append("cap %d" % o[1])
        L.append("mark %d" % i)
    L.append("flush")
    return L

def classify(ops, lines):
    tags = set()
    ws = [l for l in lines if l.startswith("w ")]
    for o in ops:
        if o[0] == "add" and any(b in (0xFE, 0xFD) for b in o[1]): tags.add("escape")
    for w in ws:
        b = unhex(w[2:])
        if len(b) >= 3 and b[-1] == 0xFE and b[-3] == 0xFD: tags.add("escaped-crc")
        if b and (b[0] != 0xFE or b[-1] != 0xFE): tags.add("staging-split")
    # a flush caused by an add: wire output between the previous mark and the mark of an add operation
    pending = 0
    for l in lines:
        if l.startswith("w "): pending += 1
        elif l.startswith("mark "):
            try: i = int(l[5:])
            except ValueError: i = -1
            if pending and 0 <= i < len(ops) and ops[i][0] == "add": tags.add("flush-on-add")
            pending = 0
    if len(ws) >= 2: tags.add("multi-packet")
    return tags

def two_sender_probe(ck, rr, prop):
    """two senders under forced lock-granularity schedules on the real code (used by C01 and C10)"""
    import flowgen
    # two senders under forced lock-granularity schedules: sender A (long message, deep address) is parked before its k-th
    # mutex acquisition inside the submission while sender B (short message, other node) submits; the wire must carry exactly
    # the two messages, each intact (address, type, data) and once
    exe2 = vlib.build_harness(wrap=("pthread_mutex_lock",))
    L2 = ["start 1 - 0"]; sp = []
    for k in range(1, 9):
        da = [rr.range(1, 250) for _ in range(rr.range(12, 30))]; db = [rr.range(1, 250) for _ in range(rr.range(1, 3))]
        ja = (1, 2, 3, 0x17, da); jb = (rr.choice([4, 5]), 0, 0, 0x17, db)
        if k % 2 == 0: ja, jb = jb, ja
        sp.append((k, ja, jb))
        L2 += ["case t%d" % k, "reset_nodes", "cap 0", "flush", "sched2 %d %d %d %d %d %s %d %d %d %d %s" % ((k,) + ja[:4] + (hexs(ja[4]),) + jb[:4] + (hexs(jb[4]),)), "flush"]
    rc2, out2, err2 = vlib.run_driver(exe2, "\n".join(L2) + "\n", timeout=300)
    pc2 = vlib.split_cases(out2); tbad = 0
    for k, ja, jb in sp:
        ls = pc2.get("t%d" % k)
        chunks = [unhex(l[2:]) for l in (ls or []) if l.startswith("w ")]
        pk = flowgen.decode_wire(chunks) if ls is not None else None
        got = sorted((tuple(a), ty, tuple(d)) for p in (pk or []) for a, sq, ty, d in [flowgen.msg_fields(m) for m in p])
        want = sorted((tuple(x for x in j[:3] if x), j[3], tuple(j[4])) for j in (ja, jb))
        if pk is None or got != want:
            tbad += 1
            if tbad <= 2:
                ck.violation("concurrent-submit", {"property": prop, "scenario": "sender A parked before its %d-th mutex acquisition inside the submission while sender B submits; then A continues" % k,
                             "schedule": ["sched2 %d %d %d %d %d %s %d %d %d %d %s" % ((k,) + ja[:4] + (hexs(ja[4]),) + jb[:4] + (hexs(jb[4]),))],
                             "A": [list(ja[:3]), ja[3], hexs(ja[4])], "B": [list(jb[:3]), jb[3], hexs(jb[4])], "wire_chunks": [hexs(c) for c in chunks], "decoded": [list(map(str, g)) for g in got],
                             "driver_rc": rc2, "reason": "the wire does not carry exactly the two submitted messages, each intact and once"})
    ck.oblige("concurrency probe: two senders under forced lock-granularity schedules, messages intact and once (%d schedules)" % len(sp), tbad == 0, "%d bad" % tbad)
    return tbad

def run(ck):
    quick = ck.tier == "quick"
    cdir, proofs_ok = vlib.proof_phase(ck, "Properties_C01.v", translators=("tables", "lockcfg"))
    # lock facts C01 relies on: buffer, staging buffer, index, capacity and the write callback are only
    # touched under bidib_send_buffer_mutex (generated lock programs, verified checker)
    okl, logl = vlib.coq_make(cdir, ["LockProofs.vo"])
    diag, side = vlib.lock_diagnosis(cdir, kinds=("guard", "balance"), threadsafe_only=True)
    rel = [d for d in diag if any(g in d["what"] for g in ("buffer", "pkt_max_cap", "write_bytes"))]
    ck.oblige("lock fact: packet buffer / staging buffer / write callback only used under bidib_send_buffer_mutex", okl and not rel, "; ".join(d["what"] for d in rel[:3]))
    if not okl or rel:
        ck.broken.append({"kind": "lock-fact", "name": "guarded_by send_buffer", "detail": rel[:5] or logl[-800:]})
    exe = vlib.build_harness()
    # concurrency probe on the real code: a second thread buffers and flushes while the first is inside a
    # slow write callback; both messages must appear exactly once in decodable packets
    rr = Rng(ck.seed).fork("C01race")
    probe = ["start 1 - 0"]
    pm = []
    for i in range(4 if quick else 40):
        a = gen_msg(rr, 20); b = gen_msg(rr, 20); pm.append((a, b))
        probe += ["case r%d" % i, "cap 0", "flush", "race_flush %s %s" % (hexs(a), hexs(b)), "flush"]
    rc, out, err = vlib.run_driver(exe, "\n".join(probe) + "\n", timeout=120)
    pc = vlib.split_cases(out)
    import flowgen
    race_bad = 0
    for i, (a, b) in enumerate(pm):
        chunks = [unhex(l[2:]) for l in pc.get("r%d" % i, []) if l.startswith("w ")]
        pk = flowgen.decode_wire(chunks)
        got = sorted(hexs(m) for p in (pk or []) for m in p)
        if pk is None or got != sorted([hexs(a), hexs(b)]):
            race_bad += 1
            ck.violation("concurrent-flush", {"property": "C01", "scenario": "thread 1: add A, flush (slow write callback); thread 2 meanwhile: add B, flush",
                         "A": hexs(a), "B": hexs(b), "wire_chunks": [hexs(c) for c in chunks], "reason": "wire is not a sequence of valid packets carrying A and B exactly once"})
    ck.oblige("concurrency probe: flush racing a slow write callback (%d runs)" % len(pm), race_bad == 0, "%d bad" % race_bad)
    two_sender_probe(ck, rr, "C01")
    # the submission path itself (bidib_buffer_message_with(out)_data) for every address depth and payload sizes around the default
    # packet capacity and up to the largest legal message (length byte 127): each submitted message is on the wire once, intact
    L3 = ["start 1 - 0"]; sw = []
    for d, a3 in enumerate([(0, 0, 0), (1, 0, 0), (1, 2, 0), (1, 2, 3)]):
        top = 124 - d
        for n in sorted(set([0, 1, 2, 54, 55, 56, 57, 58, 59, 60, 61, 62, 100, top - 3, top - 2, top - 1, top])):
            data = [rr.range(1, 250) for _ in range(n)]
            sw.append((a3, n, data))
            L3 += ["case w%d" % (len(sw) - 1), "reset_nodes", "cap 0", "flush", "send %d %d %d %d %s" % (a3 + (0x23, hexs(data) if data else "-")), "flush"]
    rc3, out3, err3 = vlib.run_driver(exe, "\n".join(L3) + "\n", timeout=300)
    pc3 = vlib.split_cases(out3); wbad = 0
    for i, (a3, n, data) in enumerate(sw):
        ls = pc3.get("w%d" % i)
        chunks = [unhex(l[2:]) for l in (ls or []) if l.startswith("w ")]
        pk = flowgen.decode_wire(chunks) if ls is not None else None
        got = [(tuple(a), ty, tuple(dd)) for p in (pk or []) for a, sq, ty, dd in [flowgen.msg_fields(m) for m in p]]
        if pk is None or got != [(tuple(x for x in a3 if x), 0x23, tuple(data))]:
            wbad += 1
            if wbad <= 2:
                ck.violation("submit-dropped-or-altered", {"property": "C01", "script": ["reset_nodes", "cap 0", "flush", "send %d %d %d %d %s" % (a3 + (0x23, hexs(data) if data else "-")), "flush"],
                             "address": list(a3), "data_bytes": n, "wire_chunks": [hexs(c) for c in chunks], "driver_rc": rc3,
                             "reason": "a message of legal size submitted through bidib_buffer_message_with(out)_data is not on the wire exactly once and intact"})
    ck.oblige("submission path: every address depth x payload sizes up to the largest legal message, on the wire once and intact (%d messages)" % len(sw), wbad == 0, "%d bad" % wbad)
    md = vlib.build_model_driver(cdir)
    r = Rng(ck.seed).fork("C01")
    n = 4000 if quick else 150000
    kinds = ["basic"] * 5 + ["crc"] * 2 + ["capedge"] * 4 + ["staging"] * 1 + ["big"] * 1
    # corpus first
    cases = []
    cp = os.path.join(vlib.VERIF, "corpus", "C01.json")
    if os.path.exists(cp):
        for c in json.load(open(cp)):
            cases.append([tuple(o) if o[0] != "add" else ("add", o[1]) for o in c])
    if not quick:
        for cap in range(256):   # every announced capacity
            rr = r.fork("cap%d" % cap)
            ops = [("cap", cap)] + [("add", gen_msg(rr, rr.choice([8, 20, 40, 64]))) for _ in range(12)]
            cases.append(ops)
    while len(cases) < n:
        cases.append(gen_case(r, r.choice(kinds)))
    shard = 2000
    total_dis = 0; nontrivial = 0; dist = {}; oracle_fail = 0; evals = 0
    samples = []
    for s0 in range(0, len(cases), shard):
        part = cases[s0:s0 + shard]
        lines = ["start 1 - 0"]
        for i, ops in enumerate(part):
            lines += script_of(str(s0 + i), ops)
        script = "\n".join(lines) + "\n"
        rc, out, err = vlib.run_driver(exe, script, timeout=600)
        mo = subprocess.run([md, "tx"], input=script, capture_output=True, text=True, timeout=600)
        impl = vlib.split_cases(out); model = vlib.split_cases(mo.stdout)
        # oracle on the implementation's output
        olines = []
        for i, ops in enumerate(part):
            cid = str(s0 + i)
            olines.append("case " + cid)
            for o in ops:
                if o[0] == "add": olines.append("add " + hexs(o[1]))
            olines += [l for l in impl.get(cid, []) if l.startswith("w ")]
        orc = subprocess.run([md, "tx-oracle"], input="\n".join(olines) + "\n", capture_output=True, text=True, timeout=600)
        overd = vlib.split_cases(orc.stdout)
        for i, ops in enumerate(part):
            cid = str(s0 + i); evals += 1
            il = impl.get(cid); ml = model.get(cid)
            tags = classify(ops, il or [])
            for t in tags: dist[t] = dist.get(t, 0) + 1
            if tags: nontrivial += 1
            if len(samples) < 3 and tags: samples.append({"ops": [[o[0]] + ([hexs(o[1])] if o[0] == "add" else list(o[1:])) for o in ops], "impl": il})
            ofail = overd.get(cid) != ["oracle ok"]
            # capacity rule of the property text: a packet carrying more than one message never exceeds
            # the capacity in force when it was filled (= when its last message was added)
            if not ofail and il is not None:
                import flowgen
                pk = flowgen.decode_wire([unhex(l[2:]) for l in il if l.startswith("w ")])
                capv = 64; caps = []
                for o in ops:
                    if o[0] == "cap": capv = 64 if o[1] <= 64 else o[1]
                    elif o[0] == "add": caps.append(capv)
                k = 0
                for p in (pk or []):
                    k += len(p)
                    if len(p) >= 2 and sum(len(m) for m in p) > caps[k - 1]:
                        oracle_fail += 1
                        ck.violation("capacity-exceeded", {"property": "C01", "ops": [[o[0]] + ([hexs(o[1])] if o[0] == "add" else list(o[1:])) for o in ops], "impl": il,
                                     "reason": "a packet with %d messages carries %d payload bytes, capacity in force when it was filled is %d" % (len(p), sum(len(m) for m in p), caps[k - 1])})
                        break
            if il is None or rc != 0 and cid == str(s0 + len(part) - 1):
                ofail = True
            if ofail:
                oracle_fail += 1
                ck.violation("wire-not-decodable", {"property": "C01", "ops": [[o[0]] + ([hexs(o[1])] if o[0] == "add" else list(o[1:])) for o in ops],
                             "impl": il, "model": ml, "reason": "reference decoder does not recover the added messages from the implementation's wire", "driver_rc": rc, "stderr": err[-800:]})
            elif il != ml:
                total_dis += 1
                if total_dis <= 3:
                    ck.broken.append({"kind": "correspondence", "name": "corr_framing", "case": [[o[0]] + ([hexs(o[1])] if o[0] == "add" else list(o[1:])) for o in ops], "impl": il, "model": ml})
        if rc != 0 and not ck.violations:
            ck.violation("driver-crash", {"property": "C01", "rc": rc, "stderr": err[-1500:]})
    ck.oblige("correspondence corr_framing (impl == model on %d cases)" % evals, total_dis == 0, "%d disagreements" % total_dis)
    ck.oblige("oracle ref_decode accepts implementation wire", oracle_fail == 0, "%d rejected" % oracle_fail)
    ck.coverage.update({"evaluations": evals, "distinct_nontrivial": nontrivial,
                        "rule": "seeded op lists (add/flush/setcap) over generated messages; non-trivial = hits an escape, an escaped CRC, a flush caused by add, several packets or a staging split",
                        "distribution": dist, "samples": samples, "disagreements_checked": total_dis})
    ck.assumptions += ["write callback delivery to a serial port is outside the model",
                       "atomicity of add/flush/setcap under concurrent callers is the lock fact of C10/C11"]
    return vlib.finish_with_broken(ck, trusted=vlib.TRUSTED_COMMON)

def replay(ck, path):
    return vlib.replay_generic(ck, path)
