#!/usr/bin/env python3
"""gen_dispatch: regenerate coq/DispatchTab.v from the source:
 - the class of every case label of the switch in bidib_handle_received_message (which queue-add
   function its segment calls, conditionally or not; whether it frees the message), the default class,
   and a check of the debug-mode preamble;
 - the two bullet lists under "Error queue" / "Message queue" in README.md.
Anything that no longer fits the recognised shapes raises TranslatorError (broken tie)."""
import os, re, json, subprocess

class TranslatorError(Exception):
    pass

def pkgflags():
    return subprocess.check_output(["pkg-config", "--cflags", "glib-2.0"]).decode().split()

def load_fn(repo, file, name):
    r = subprocess.run(["clang", "-std=gnu11", "-w"] + pkgflags() + ["-fsyntax-only", "-Xclang", "-ast-dump=json",
                        "-Xclang", "-ast-dump-filter=" + name, os.path.join(repo, file)], capture_output=True, text=True)
    if r.returncode != 0: raise TranslatorError("clang failed: " + r.stderr[:300])
    dec = json.JSONDecoder(); txt = r.stdout; i = 0
    while i < len(txt):
        while i < len(txt) and txt[i] in " \n\r\t": i += 1
        if i >= len(txt): break
        o, i = dec.raw_decode(txt, i)
        if o.get("kind") == "FunctionDecl" and o.get("name") == name and any(c.get("kind") == "CompoundStmt" for c in o.get("inner", [])):
            return o
    raise TranslatorError("function %s not found in %s" % (name, file))

def calls(node, under_if=False, out=None):
    if out is None: out = []
    if not isinstance(node, dict): return out
    k = node.get("kind")
    if k == "CallExpr":
        c = node["inner"][0]
        while c.get("kind") in ("ImplicitCastExpr", "ParenExpr"): c = c["inner"][0]
        if c.get("kind") == "DeclRefExpr": out.append((c["referencedDecl"].get("name"), under_if))
    if k == "IfStmt":
        kids = node.get("inner", [])
        calls(kids[0], under_if, out)
        for b in kids[1:]: calls(b, True, out)
        return out
    for c in node.get("inner", []) or []: calls(c, under_if, out)
    return out

def const_eval(e):
    k = e.get("kind")
    if k in ("ConstantExpr", "ParenExpr", "ImplicitCastExpr", "CStyleCastExpr"): return const_eval(e["inner"][0])
    if k == "IntegerLiteral": return int(e["value"])
    if k == "BinaryOperator":
        a, b = const_eval(e["inner"][0]), const_eval(e["inner"][1]); op = e.get("opcode")
        if op == "+": return a + b
        if op == "-": return a - b
        if op == "*": return a * b
        if op == "|": return a | b
        if op == "<<": return a << b
    raise TranslatorError("case label is not a simple constant expression")

def case_value(cs):
    return const_eval(cs["inner"][0])

SINKS = {"bidib_uplink_queue_add": "KMsgQ", "bidib_uplink_error_queue_add": "KErrQ", "bidib_uplink_intern_queue_add": "KInternQ"}

def classify(stmts):
    cs = []
    for s in stmts: calls(s, False, cs)
    sinks = [(SINKS[n], u) for n, u in cs if n in SINKS]
    frees = [u for n, u in cs if n == "free"]
    if not sinks:
        if not frees: raise TranslatorError("a dispatcher case neither queues nor frees the message")
        return "KConsumed"
    if len(sinks) == 1 and not sinks[0][1] and not frees: return sinks[0][0]
    if len(sinks) >= 1 and all(u and k == "KErrQ" for k, u in sinks) and frees and all(frees): return "KCondErrQ"
    raise TranslatorError("unrecognised queueing pattern in a dispatcher case: %s / frees %s" % (sinks, frees))

def gen_dispatch(repo):
    fn = load_fn(repo, "src/transmission/bidib_transmission_receive.c", "bidib_handle_received_message")
    body = [c for c in fn["inner"] if c["kind"] == "CompoundStmt"][0]["inner"]
    if not body or body[0].get("kind") != "IfStmt": raise TranslatorError("debug-mode preamble of the dispatcher not found")
    pre = []; calls(body[0], False, pre)
    if ("bidib_uplink_queue_add", True) not in pre: raise TranslatorError("debug-mode preamble does not queue the message")
    src = open(os.path.join(repo, "src/transmission/bidib_transmission_receive.c"), errors="replace").read()
    if not re.search(r'if\s*\(\s*type\s*!=\s*MSG_STALL\s*&&\s*bidib_lowlevel_debug_mode\s*\)', src):
        raise TranslatorError("debug-mode preamble condition changed")
    sw = [c for c in body if c.get("kind") == "SwitchStmt"]
    if len(sw) != 1: raise TranslatorError("expected exactly one switch in the dispatcher")
    segs = []   # (labels, stmts) ; label None = default
    def add_label(node, labels):
        if node["kind"] == "CaseStmt": labels.append(case_value(node))
        else: labels.append(None)
        sub = node["inner"][-1]
        if sub.get("kind") in ("CaseStmt", "DefaultStmt"): return add_label(sub, labels)
        return sub
    cur = None
    for c in sw[0]["inner"][-1]["inner"]:
        if c.get("kind") in ("CaseStmt", "DefaultStmt"):
            labels = []
            first = add_label(c, labels)
            if cur is not None and not cur[2]:
                # previous segment falls through into this one: merge labels
                labels = cur[0] + labels; segs.pop()
            cur = [labels, [first], False]; segs.append(cur)
        else:
            cur[1].append(c)
        if c.get("kind") in ("BreakStmt", "ReturnStmt") or (c.get("kind") in ("CaseStmt", "DefaultStmt") and first.get("kind") in ("BreakStmt", "ReturnStmt")):
            cur[2] = True
    table = {}; default = None
    for labels, stmts, _ in segs:
        k = classify(stmts)
        for l in labels:
            if l is None: default = k
            else: table[l] = k
    if default is None: raise TranslatorError("dispatcher switch has no default case")
    return table, default

def gen_readme(repo, macros):
    txt = open(os.path.join(repo, "README.md"), errors="replace").read()
    def section(title):
        m = re.search(r'#### ' + title + r'\s*\n((?:\*.*\n)+)', txt)
        if not m: raise TranslatorError("README section '%s' not found" % title)
        items = []
        for line in m.group(1).splitlines():
            mm = re.match(r'\*\s+(MSG_\w+)\s*(\(only in case of an error\))?', line)
            if not mm: raise TranslatorError("unparsable README bullet: " + line)
            if mm.group(1) not in macros: raise TranslatorError("README names unknown message " + mm.group(1))
            items.append((mm.group(1), bool(mm.group(2))))
        return items
    return section("Error queue"), section("Message queue")

def generate_files(repo):
    import gen_tables
    consts, macros, crc, resp = gen_tables.gen(repo)
    table, default = gen_dispatch(repo)
    errq, msgq = gen_readme(repo, macros)
    L = ["(* GENERATED by translator/gen_dispatch.py from bidib_transmission_receive.c and README.md. Do not edit. *)",
         "From Coq Require Import List NArith.", "Import ListNotations.", "Local Open Scope N_scope.",
         "Inductive dclass := KMsgQ | KErrQ | KInternQ | KConsumed | KCondErrQ.",
         "Definition dispatch_cases : list (N * dclass) := [%s]." % "; ".join("(%d, %s)" % (k, v) for k, v in sorted(table.items())),
         "Definition dispatch_default : dclass := %s." % default,
         "Definition readme_errq : list N := [%s]." % "; ".join(str(macros[n]) for n, c in errq if not c),
         "Definition readme_errq_cond : list N := [%s]." % "; ".join(str(macros[n]) for n, c in errq if c),
         "Definition readme_msgq : list N := [%s]." % "; ".join(str(macros[n]) for n, c in msgq),
         "(* uplink message codes that bidib_messages.h defines (MSG_* >= 0x80) *)",
         "Definition known_uplink : list N := [%s]." % "; ".join(str(v) for v in sorted({v for k, v in macros.items() if k.startswith("MSG_") and 0x80 <= v <= 0xFF}))]
    # who takes messages out of the two USER queues: only the public readers may (a message has exactly one consumer). Counted
    # textually over src/**/*.c (comments stripped): calls of bidib_read_message / bidib_read_error_message anywhere, and pops of
    # uplink_queue / uplink_error_queue outside those two functions
    consumers = internal_user_queue_consumers(repo)
    L.append("(* internal consumers of the user queues: %s *)" % ("; ".join("%s:%d %s" % c for c in consumers) or "none"))
    L.append("Definition internal_user_queue_consumers : N := %d." % len(consumers))
    uah = use_after_handover(repo)
    L.append("(* uses of a message after it was handed to a queue, in bidib_handle_received_message: %s *)" % ("; ".join("line %d (after %s)" % (a, b) for a, b, c in uah) or "none"))
    L.append("Definition uses_after_handover : N := %d." % len(uah))
    return {"DispatchTab.v": "\n".join(L) + "\n"}

def use_after_handover(repo):
    """lines of bidib_handle_received_message that still use `message` after it was handed to a queue (the queue's reader owns and
    frees it from then on); textual, per switch segment: reset at case labels, break, return and `} else`"""
    f = os.path.join(repo, "src", "transmission", "bidib_transmission_receive.c")
    txt = open(f, encoding="utf-8", errors="replace").read()
    txt = re.sub(r"/\*.*?\*/", lambda m: re.sub(r"[^\n]", " ", m.group(0)), txt, flags=re.S); txt = re.sub(r"//[^\n]*", "", txt)
    out = []; infn = False; handed = None
    for ln, line in enumerate(txt.split("\n"), 1):
        if re.match(r"^void bidib_handle_received_message\b", line): infn = True; continue
        if infn and line.startswith("}"): break
        if not infn: continue
        if re.search(r"^\s*(case\s+\w+|default)\s*:", line) or re.search(r"\bbreak\s*;", line) or re.search(r"\}\s*else\b", line) or re.search(r"\breturn\b", line):
            handed = None; continue
        if handed and re.search(r"\bmessage\b", line): out.append((ln, handed, line.strip()[:120]))
        m = re.search(r"\b(bidib_uplink_\w*queue_add)\s*\(\s*message\b", line)
        if m: handed = "%s at line %d" % (m.group(1), ln)
    return out

def internal_user_queue_consumers(repo):
    import glob
    out = []
    for f in sorted(glob.glob(os.path.join(repo, "src", "*", "*.c"))):
        txt = open(f, encoding="utf-8", errors="replace").read()
        txt = re.sub(r"/\*.*?\*/", lambda m: re.sub(r"[^\n]", " ", m.group(0)), txt, flags=re.S)
        txt = re.sub(r"//[^\n]*", "", txt)
        # current function by a simple scan: a line that starts at column 0 with an identifier and ends a parameter list with '{'
        cur = None
        for ln, line in enumerate(txt.split("\n"), 1):
            m = re.match(r"^[A-Za-z_][\w\s\*]*?\b(\w+)\s*\([^;]*$", line)
            if m and not line.startswith((" ", "\t")) and m.group(1) not in ("if", "while", "for", "switch"): cur = m.group(1)
            for call in re.findall(r"\b(bidib_read_message|bidib_read_error_message)\s*\(", line):
                if cur != call: out.append((os.path.relpath(f, repo), ln, "%s calls %s" % (cur, call)))
            if re.search(r"\(\s*uplink_(error_)?queue\s*[,)]", line) and re.search(r"\b(g_queue_pop\w*|bidib_read_message_from_queue)\s*\(", line):
                if cur not in ("bidib_read_message", "bidib_read_error_message"): out.append((os.path.relpath(f, repo), ln, "%s pops a user queue" % cur))
    return out

if __name__ == "__main__":
    import sys
    sys.path.insert(0, os.path.dirname(os.path.abspath(__file__)))
    print(generate_files(sys.argv[1] if len(sys.argv) > 1 else "/repo")["DispatchTab.v"])
