#!/usr/bin/env python3
"""gen_sendfns: translate every public bidib_send_* constructor of src/lowlevel/*.c into Gallina.

Input: the clang JSON AST of each src/lowlevel/*.c (macros are expanded by clang, so type codes and
opcodes arrive as the integers the compiler sees) and the prototypes in include/lowlevel/*.h (which
functions are public, and in which order).
Output: coq/SendFns.v  (one `gen_<cname>` per public function over the vocabulary of coq/SendLib.v, the
inductive `fn`, `all_fns`, `fn_sig`, `gen_call`, `compound`, `has_node_address`), a description of the
flattened argument lists for the check, and harness/C18_dispatch.inc (C dispatch by name).

Accepted subset of a function body (anything else raises TranslatorError with the source line):
  [ if (c) { syslog_libbidib(...); return; } [else if ...]* ]*        range checks
  uint8_t addr_stack[] = {e, e, e, 0x00};
  then any of   uint8_t x = e;   uint8_t a[] = {e,...};   uint8_t a[e];   a[e] = e;   x++;
                for (int i = 0; i < e; i++) {...}   if (c) {...}  (inside loops, no return)
  bidib_buffer_message_with_data(addr_stack, TYPE, len, a, action_id);  |  ..._without_data(addr_stack, TYPE, action_id);
  trailing statements (state mirror / locks; anything else marks the function `compound`).
A public function whose body is only (locks +) one call of a non-public bidib_send_*_intern of the same
file with its own parameters is translated through that callee.
Expressions: uint8_t parameters (struct parameters flattened field by field), integer literals, + - * / %,
comparisons, && || !, casts, reads p[e] of pointer parameters. Evaluation is C `int` arithmetic (Z);
conversions to uint8_t become `mod 256` exactly where the AST has the cast.
"""
import os, sys, json, subprocess, re, glob
from concurrent.futures import ThreadPoolExecutor

class TranslatorError(Exception):
    pass

COQ_KEYWORDS = {"end", "at", "in", "as", "if", "then", "else", "fun", "let", "match", "with", "return", "forall",
                "exists", "fix", "cofix", "for", "where", "struct", "using", "Type", "Prop", "Set", "mod", "by"}
RESERVED = {"bind", "Ok", "Err", "Rejected", "Sent", "SentIndet", "vla_new", "vla_set", "vla_lit", "buf_get", "for_loop",
            "send_with_data", "send_without_data", "negb", "andb", "orb", "argz", "argb", "nth", "fn", "gen_call"}
STATE_MIRROR = {"pthread_rwlock_rdlock", "pthread_rwlock_wrlock", "pthread_rwlock_unlock", "pthread_mutex_lock",
                "pthread_mutex_unlock", "bidib_state_cs_drive", "bidib_state_cs_accessory"}
LOCKS = {"pthread_rwlock_rdlock", "pthread_rwlock_wrlock", "pthread_rwlock_unlock", "pthread_mutex_lock", "pthread_mutex_unlock"}

def pkgflags():
    return subprocess.check_output(["pkg-config", "--cflags", "glib-2.0"]).decode().split()

def cid(name):
    if name in COQ_KEYWORDS or name in RESERVED or re.match(r'^(rd|st)\d*_?$', name):
        return name + "_"
    return name

# ------------------------------------------------------------------ AST loading
def load_ast(path, flags):
    r = subprocess.run(["clang", "-std=gnu11", "-w"] + flags + ["-fsyntax-only", "-Xclang", "-ast-dump=json", path],
                       capture_output=True, text=True)
    if r.returncode != 0:
        raise TranslatorError("clang cannot parse %s:\n%s" % (path, r.stderr[:1500]))
    return json.loads(r.stdout)

def kids(n):
    return [c for c in n.get("inner", []) if not c.get("kind", "").endswith("Comment")]

def dtype(n):
    t = n.get("type", {})
    return t.get("desugaredQualType", t.get("qualType", ""))

def is_u8(t):
    return t.replace("const ", "").strip() == "unsigned char"

def where(n, path):
    def find(x):
        if isinstance(x, dict):
            if "line" in x and isinstance(x["line"], int): return x["line"]
            for k in ("expansionLoc", "spellingLoc", "begin", "end"):
                if k in x:
                    v = find(x[k])
                    if v: return v
        return None
    ln = find(n.get("range", {})) or find(n.get("loc", {}))
    return "%s:%s" % (os.path.basename(path), ln if ln else "?")

def strip_casts(n):
    while n.get("kind") in ("ImplicitCastExpr", "ParenExpr", "CStyleCastExpr"):
        n = kids(n)[0]
    return n

def callee_name(call):
    f = strip_casts(kids(call)[0])
    if f.get("kind") == "DeclRefExpr":
        return f["referencedDecl"].get("name")
    return None

def all_callees(n, acc):
    if isinstance(n, dict):
        if n.get("kind") == "CallExpr":
            acc.append(callee_name(n) or "<indirect>")
        for c in n.get("inner", []): all_callees(c, acc)
    return acc

# ------------------------------------------------------------------ records (struct parameters)
class Records:
    def __init__(self, tu):
        self.fields = {}     # record id -> [(name, typenode)]   ("" = anonymous member, typenode {"__record__": id})
        self.union = set()
        self.typedef = {}    # typedef name -> record id
        def scan(n):
            if n.get("kind") == "RecordDecl":
                fl = []; last = None
                for c in kids(n):
                    if c.get("kind") == "RecordDecl": scan(c); last = c["id"]
                    elif c.get("kind") == "FieldDecl":
                        if "name" in c: fl.append((c["name"], c["type"]))
                        elif last is not None: fl.append(("", {"__record__": last}))
                self.fields[n["id"]] = fl
                if n.get("tagUsed") == "union": self.union.add(n["id"])
        for n in tu["inner"]:
            if n.get("kind") == "RecordDecl": scan(n)
            elif n.get("kind") == "TypedefDecl":
                rid = self._find_record(n)
                if rid: self.typedef[n["name"]] = rid
    def _find_record(self, n):
        if isinstance(n, dict):
            if n.get("kind") == "RecordType" and "decl" in n: return n["decl"]["id"]
            if "ownedTagDecl" in n and n["ownedTagDecl"].get("kind") == "RecordDecl": return n["ownedTagDecl"]["id"]
            for c in n.get("inner", []):
                r = self._find_record(c)
                if r: return r
        return None
    def flatten_record(self, rid, pname, fn, path):
        fl = self.fields[rid]
        if rid in self.union:
            # a union is accepted only as  { uint8_t view[n]; struct { uint8_t ...; }; } : the anonymous struct is the value
            anon = [t for (nm, t) in fl if nm == ""]
            views = [t for (nm, t) in fl if nm != ""]
            if len(anon) != 1 or any(not re.match(r'^(uint8_t|unsigned char)\s*\[\d+\]$', t.get("qualType", "")) for t in views):
                raise TranslatorError("%s: parameter %s of %s is a union outside the translated subset" % (path, pname, fn))
            inner = self.flatten_record(anon[0]["__record__"], pname, fn, path)
            for t in views:
                if int(re.search(r'\[(\d+)\]', t["qualType"]).group(1)) != len(inner):
                    raise TranslatorError("%s: union parameter %s of %s: byte view and struct differ in size" % (path, pname, fn))
            return inner
        out = []
        for fname, ftype in fl:
            if fname == "":
                out += self.flatten_record(ftype["__record__"], pname, fn, path); continue
            for (cn, acc, kind) in self.flatten(fname, ftype, fn, path):
                out.append((pname + "_" + cn, pname + "." + acc, kind))
        return out
    def flatten(self, pname, ptype, fn, path):
        """-> list of (coq name, c access path, kind) ; kind in 'u8', 'buf'"""
        q = ptype.get("qualType", ""); d = ptype.get("desugaredQualType", q)
        if is_u8(d): return [(pname, pname, "u8")]
        if re.match(r'^(const )?(uint8_t|unsigned char) \*( ?const)?$', q) or re.match(r'^(const )?unsigned char \*( ?const)?$', d):
            return [(pname, pname, "buf")]
        base = q.replace("const ", "").replace("struct ", "").strip()
        if base in self.typedef:
            return self.flatten_record(self.typedef[base], pname, fn, path)
        raise TranslatorError("%s: parameter %s of %s has unsupported type '%s'" % (path, pname, fn, q))

# ------------------------------------------------------------------ expressions
class Ex:
    """a translated int expression"""
    def __init__(self, text, const=None, nonneg=True, atom=False, boolean=False):
        self.text = text; self.const = const; self.nonneg = nonneg; self.atom = atom; self.boolean = boolean
    def p(self):
        return self.text if self.atom else "(" + self.text + ")"

def lit(v):
    return Ex(str(v) if v >= 0 else "(%d)" % v, const=v, nonneg=v >= 0, atom=True)

class FnCtx:
    def __init__(self, fname, path, scalars, bufs, bools):
        self.fname = fname; self.path = path
        self.scalars = scalars      # c access path -> coq name
        self.bufs = bufs            # c access path -> (index, coq name)
        self.bools = bools          # name -> literal value (bound by a wrapper) or None
        self.locals = {}            # local scalar name -> coq name (uint8_t)
        self.arrays = {}            # local array name -> coq name
        self.loopvars = []          # int loop counters
        self.reads = []             # hoisted reads: (var, bufidx, bufname, idxtext)
        self.nread = 0
        self.in_short = 0; self.short_base = 0
    def err(self, n, msg):
        raise TranslatorError("%s (%s): %s" % (where(n, self.path), self.fname, msg))

def access_path(n):
    """DeclRefExpr / MemberExpr chain on a parameter -> 'p.a.b' or None"""
    if n.get("kind") == "DeclRefExpr":
        return n["referencedDecl"].get("name"), n["referencedDecl"].get("kind")
    if n.get("kind") == "MemberExpr" and not n.get("isArrow"):
        b = access_path(kids(n)[0])
        if b and b[0]: return (b[0] + "." + n["name"] if n.get("name") else b[0]), b[1]
    return None, None

def to_u8(e):
    if e.const is not None: return lit(e.const % 256)
    return Ex("%s mod 256" % e.p(), nonneg=True)

def tr_size_string(ctx, s, node):
    """the size of a VLA is only present as source text in the type: parse  ident | int | (uint8_t) e | e + e | e * e | (e)"""
    toks = re.findall(r'\(uint8_t\)|\(unsigned char\)|0[xX][0-9a-fA-F]+|\d+|[A-Za-z_][A-Za-z_0-9.]*|[-+*/()]', s)
    if "".join(toks).replace(" ", "") != s.replace(" ", ""):
        ctx.err(node, "cannot parse array size '%s'" % s)
    pos = [0]
    def peek(): return toks[pos[0]] if pos[0] < len(toks) else None
    def take(): t = toks[pos[0]]; pos[0] += 1; return t
    def prim():
        t = take()
        if t in ("(uint8_t)", "(unsigned char)"): return to_u8(prim())
        if t == "(":
            e = summ()
            if take() != ")": ctx.err(node, "cannot parse array size '%s'" % s)
            return e
        if re.match(r'^(0[xX][0-9a-fA-F]+|\d+)$', t): return lit(int(t, 0))
        if t in ctx.locals: return Ex(ctx.locals[t], atom=True)
        if t in ctx.scalars: return Ex(ctx.scalars[t], atom=True)
        ctx.err(node, "array size refers to '%s' which is not a uint8_t parameter or local" % t)
    def prod():
        e = prim()
        while peek() == "*":
            take(); f = prim(); e = binop(ctx, node, "*", e, f)
        return e
    def summ():
        e = prod()
        while peek() in ("+",):
            take(); f = prod(); e = binop(ctx, node, "+", e, f)
        return e
    e = summ()
    if pos[0] != len(toks): ctx.err(node, "cannot parse array size '%s'" % s)
    return e

def binop(ctx, n, op, a, b):
    if op in ("<<", ">>", "|", "&", "^"):
        # bit operations occur only inside constant macros (RC_PING_ONCE | RC_P0 ...): folded, never emitted
        if a.const is None or b.const is None or a.const < 0 or b.const < 0 or (op in ("<<", ">>") and b.const > 30):
            ctx.err(n, "bit operator '%s' on non-constant operands is outside the translated subset" % op)
        v = {"<<": a.const << b.const, ">>": a.const >> b.const, "|": a.const | b.const, "&": a.const & b.const, "^": a.const ^ b.const}[op]
        if v >= 2 ** 31: ctx.err(n, "constant overflows int")
        return lit(v)
    if op in ("+", "*", "-", "/", "%"):
        if a.const is not None and b.const is not None and not (op in "/%" and b.const == 0):
            if op == "+": return lit(a.const + b.const)
            if op == "*": return lit(a.const * b.const)
            if op == "-": return lit(a.const - b.const)
            if a.const >= 0 and b.const > 0:
                return lit(a.const // b.const if op == "/" else a.const % b.const)
        if op == "+": return Ex("%s + %s" % (a.p(), b.p()), nonneg=a.nonneg and b.nonneg)
        if op == "*": return Ex("%s * %s" % (a.p(), b.p()), nonneg=a.nonneg and b.nonneg)
        if op == "-": return Ex("%s - %s" % (a.p(), b.p()), nonneg=False)
        if not (a.nonneg and b.const is not None and b.const > 0):
            ctx.err(n, "'%s' is only translated for a non-negative dividend and a positive literal divisor (C truncates, Z floors)" % op)
        return Ex("%s %s %s" % (a.p(), "/" if op == "/" else "mod", b.p()), nonneg=True)
    cmpmap = {"<": ("%s <? %s", False), ">": ("%s <? %s", True), "<=": ("%s <=? %s", False), ">=": ("%s <=? %s", True)}
    if op in cmpmap:
        fmt, swap = cmpmap[op]; x, y = (b, a) if swap else (a, b)
        return Ex(fmt % (x.p(), y.p()), boolean=True)
    if op == "==": return Ex("%s =? %s" % (a.p(), b.p()), boolean=True)
    if op == "!=": return Ex("negb (%s =? %s)" % (a.p(), b.p()), boolean=True)
    ctx.err(n, "operator '%s' outside the translated subset" % op)

def as_bool(ctx, n, e):
    if e.boolean: return e
    return Ex("negb (%s =? 0)" % e.p(), boolean=True)

def tr_expr(ctx, n):
    k = n.get("kind")
    if k == "IntegerLiteral": return lit(int(n["value"]))
    if k == "ParenExpr": return tr_expr(ctx, kids(n)[0])
    if k == "ConstantExpr": return tr_expr(ctx, kids(n)[0])
    if k in ("ImplicitCastExpr", "CStyleCastExpr"):
        ck = n.get("castKind"); inner = kids(n)[0]
        if ck in ("LValueToRValue", "NoOp"): return tr_expr(ctx, inner)
        if ck == "IntegralCast":
            e = tr_expr(ctx, inner); t = dtype(n)
            if e.boolean: ctx.err(n, "boolean used as integer")
            if is_u8(t):
                if is_u8(dtype(inner)): return e
                return to_u8(e)
            if t in ("int", "long", "long long", "short"): return e
            if t in ("unsigned int", "unsigned long", "unsigned long long", "unsigned short"):
                if not e.nonneg: ctx.err(n, "conversion of a possibly negative value to '%s'" % t)
                return e
            ctx.err(n, "cast to '%s' outside the translated subset" % t)
        ctx.err(n, "cast kind %s outside the translated subset" % ck)
    if k in ("DeclRefExpr", "MemberExpr"):
        ap, dk = access_path(n)
        if ap is None: ctx.err(n, "unsupported lvalue")
        if dk == "ParmVarDecl":
            if ap in ctx.scalars: return Ex(ctx.scalars[ap], atom=True)
            if ap in ctx.bools and ctx.bools[ap] is not None: return lit(ctx.bools[ap])
            ctx.err(n, "parameter '%s' is not a uint8_t value" % ap)
        if dk == "VarDecl":
            if ap in ctx.loopvars: return Ex(cid(ap), atom=True)
            if ap in ctx.locals: return Ex(ctx.locals[ap], atom=True)
            ctx.err(n, "local '%s' is not a scalar known to the translator" % ap)
        ctx.err(n, "reference to %s '%s'" % (dk, ap))
    if k == "ArraySubscriptExpr":
        base, idx = kids(n)
        b = strip_casts(base); ap, dk = access_path(b)
        if dk == "ParmVarDecl" and ap in ctx.bufs:
            ie = tr_expr(ctx, idx)
            if ie.boolean: ctx.err(n, "boolean index")
            bi, bn = ctx.bufs[ap]
            for (v, i2, n2, t2) in ctx.reads:
                if i2 == bi and t2 == ie.text: return Ex(v, atom=True)
            if ctx.in_short and len(ctx.reads) > ctx.short_base - 0 and True:
                pass
            if ctx.in_short and ctx.short_rhs:
                ctx.err(n, "read %s[%s] on the right of a short-circuit operator is not one already made on its left" % (ap, ie.text))
            ctx.nread += 1; v = "rd%d" % ctx.nread
            ctx.reads.append((v, bi, bn, ie.text))
            return Ex(v, atom=True)
        ctx.err(n, "read of '%s[...]' (only pointer parameters are read)" % (ap,))
    if k == "BinaryOperator":
        op = n["opcode"]; l, r = kids(n)
        if op in ("&&", "||"):
            a = as_bool(ctx, l, tr_expr(ctx, l))
            ctx.in_short += 1; old = getattr(ctx, "short_rhs", False); ctx.short_rhs = True
            try:
                b = as_bool(ctx, r, tr_expr(ctx, r))
            finally:
                ctx.in_short -= 1; ctx.short_rhs = old
            return Ex("%s %s %s" % (a.p(), "&&" if op == "&&" else "||", b.p()), boolean=True)
        a = tr_expr(ctx, l); b = tr_expr(ctx, r)
        if a.boolean or b.boolean: ctx.err(n, "comparison result used as integer")
        return binop(ctx, n, op, a, b)
    if k == "UnaryOperator" and n.get("opcode") == "!":
        e = as_bool(ctx, n, tr_expr(ctx, kids(n)[0]))
        return Ex("negb %s" % e.p(), boolean=True)
    ctx.err(n, "expression kind %s outside the translated subset" % k)

FnCtx.short_rhs = False

def take_reads(ctx):
    r = ctx.reads; ctx.reads = []
    return "".join("%s <- buf_get %d %s %s ;; " % (v, bi, bn, "(%s)" % t if not re.match(r'^\w+$', t) else t) for (v, bi, bn, t) in r)

# ------------------------------------------------------------------ statements
def assigned_vars(ctx, stmts):
    """names (coq) of arrays / scalars modified by a statement list, in first-modification order"""
    out = []
    def add(x):
        if x not in out: out.append(x)
    def walk(n):
        k = n.get("kind")
        if k == "BinaryOperator" and n.get("opcode") in ("=", "+=", "-="):
            tgt = kids(n)[0]
            if tgt.get("kind") == "ArraySubscriptExpr":
                b = strip_casts(kids(tgt)[0]); add(("arr", b["referencedDecl"]["name"]))
            else:
                t = strip_casts(tgt)
                if t.get("kind") == "DeclRefExpr": add(("var", t["referencedDecl"]["name"]))
                else: ctx.err(n, "assignment target outside the translated subset")
        elif k == "UnaryOperator" and n.get("opcode") in ("++", "--"):
            t = strip_casts(kids(n)[0])
            if t.get("kind") == "DeclRefExpr": add(("var", t["referencedDecl"]["name"]))
            else: ctx.err(n, "increment target outside the translated subset")
        for c in kids(n): walk(c)
    for s in stmts: walk(s)
    return out

def mentions(n, names):
    if n.get("kind") == "DeclRefExpr" and n["referencedDecl"].get("name") in names: return True
    return any(mentions(c, names) for c in kids(n))

def state_tuple(ctx, vs):
    names = [ctx.arrays[v] if k == "arr" else ctx.locals[v] for (k, v) in vs]
    return names

def tr_stmts(ctx, stmts, final, in_loop):
    """translate a statement list to a Coq term of type res _ ; `final` is the text that ends the block"""
    if not stmts: return final
    s = stmts[0]; rest = stmts[1:]; k = s.get("kind")
    if k == "NullStmt": return tr_stmts(ctx, rest, final, in_loop)
    if k == "CompoundStmt": return tr_stmts(ctx, kids(s) + rest, final, in_loop)
    if k == "DeclStmt":
        out = ""
        ds = kids(s)
        for i, v in enumerate(ds):
            if v.get("kind") != "VarDecl": ctx.err(v, "declaration outside the translated subset")
            name = v["name"]; q = v["type"].get("qualType", ""); d = dtype(v)
            m = re.match(r'^(?:uint8_t|unsigned char)\s*\[(.*)\]$', q)
            if m:
                if name in ctx.arrays or name in ctx.locals: ctx.err(v, "redeclared '%s'" % name)
                init = kids(v)
                if init:
                    if init[0].get("kind") != "InitListExpr": ctx.err(v, "array initialiser outside the translated subset")
                    if "array_filler" in init[0]: ctx.err(v, "partially initialised array")
                    es = [tr_expr(ctx, e) for e in kids(init[0])]
                    if any(e.boolean for e in es): ctx.err(v, "boolean in array initialiser")
                    if not re.match(r'^\d+$', m.group(1)) or int(m.group(1)) != len(es): ctx.err(v, "array size does not match its initialiser")
                    rd = take_reads(ctx); ctx.arrays[name] = cid(name)
                    out += "%slet %s := vla_lit [%s] in\n  " % (rd, cid(name), "; ".join(e.text for e in es))
                else:
                    sz = tr_size_string(ctx, m.group(1), v)
                    ctx.arrays[name] = cid(name)
                    out += "%s <- vla_new %s ;;\n  " % (cid(name), sz.p())
            elif is_u8(d):
                init = kids(v)
                if not init: ctx.err(v, "uninitialised scalar '%s'" % name)
                e = tr_expr(ctx, init[0])
                if e.boolean: ctx.err(v, "boolean initialiser")
                if not is_u8(dtype(init[0])): e = to_u8(e)
                rd = take_reads(ctx); ctx.locals[name] = cid(name)
                out += "%slet %s := %s in\n  " % (rd, cid(name), e.text)
            else:
                ctx.err(v, "local '%s' of type '%s' outside the translated subset" % (name, q))
        return out + tr_stmts(ctx, rest, final, in_loop)
    if k == "BinaryOperator" and s.get("opcode") == "=":
        tgt, val = kids(s)
        e = tr_expr(ctx, val)
        if e.boolean: ctx.err(s, "boolean stored")
        if not is_u8(dtype(val)): e = to_u8(e)
        if tgt.get("kind") == "ArraySubscriptExpr":
            b = strip_casts(kids(tgt)[0])
            if b.get("kind") != "DeclRefExpr" or b["referencedDecl"].get("name") not in ctx.arrays:
                ctx.err(s, "store through something that is not a local array")
            an = ctx.arrays[b["referencedDecl"]["name"]]
            ie = tr_expr(ctx, kids(tgt)[1])
            rd = take_reads(ctx)
            return "%s%s <- vla_set %s %s %s ;;\n  " % (rd, an, an, ie.p(), e.p()) + tr_stmts(ctx, rest, final, in_loop)
        t = strip_casts(tgt)
        if t.get("kind") == "DeclRefExpr" and t["referencedDecl"].get("name") in ctx.locals:
            rd = take_reads(ctx); ln = ctx.locals[t["referencedDecl"]["name"]]
            return "%slet %s := %s in\n  " % (rd, ln, e.text) + tr_stmts(ctx, rest, final, in_loop)
        ctx.err(s, "assignment target outside the translated subset")
    if k == "UnaryOperator" and s.get("opcode") == "++":
        t = strip_casts(kids(s)[0])
        if t.get("kind") == "DeclRefExpr" and t["referencedDecl"].get("name") in ctx.locals and is_u8(dtype(t)):
            ln = ctx.locals[t["referencedDecl"]["name"]]
            return "let %s := (%s + 1) mod 256 in\n  " % (ln, ln) + tr_stmts(ctx, rest, final, in_loop)
        ctx.err(s, "'++' on something that is not a uint8_t local")
    if k == "ForStmt":
        parts = s.get("inner", [])
        if len(parts) != 5: ctx.err(s, "for statement shape")
        init, condvar, cond, inc, body = parts
        if condvar.get("kind"): ctx.err(s, "for statement with a condition variable")
        iv = kids(init)[0] if init.get("kind") == "DeclStmt" and len(kids(init)) == 1 else None
        if not iv or iv.get("kind") != "VarDecl" or dtype(iv) != "int" or not kids(iv) or strip_casts(kids(iv)[0]).get("value") != "0":
            ctx.err(s, "loop must start with 'int i = 0'")
        i = iv["name"]
        if cond.get("kind") != "BinaryOperator" or cond.get("opcode") != "<": ctx.err(s, "loop condition must be 'i < e'")
        cl, cr = kids(cond)
        if strip_casts(cl).get("kind") != "DeclRefExpr" or strip_casts(cl)["referencedDecl"].get("name") != i: ctx.err(s, "loop condition must be 'i < e'")
        if inc.get("kind") != "UnaryOperator" or inc.get("opcode") != "++" or strip_casts(kids(inc)[0])["referencedDecl"].get("name") != i:
            ctx.err(s, "loop increment must be 'i++'")
        bstmts = kids(body) if body.get("kind") == "CompoundStmt" else [body]
        mods = assigned_vars(ctx, bstmts)
        modnames = {v for (_, v) in mods}
        if i in modnames: ctx.err(s, "loop counter modified in the body")
        if mentions(cr, modnames): ctx.err(s, "loop bound depends on something the body modifies")
        if not mods: ctx.err(s, "loop without effect")
        bound = tr_expr(ctx, cr)
        if bound.boolean or ctx.reads: ctx.err(s, "loop bound outside the translated subset")
        names = state_tuple(ctx, mods)
        tup = names[0] if len(names) == 1 else "(%s)" % ", ".join(names)
        ctx.loopvars.append(i)
        saved_locals = dict(ctx.locals); saved_arrays = dict(ctx.arrays)
        b = tr_stmts(ctx, bstmts, "Ok %s" % tup, True)
        ctx.loopvars.pop()
        if set(ctx.locals) != set(saved_locals) or set(ctx.arrays) != set(saved_arrays): ctx.err(s, "declaration inside a loop body")
        if len(names) == 1:
            return "%s <- for_loop %s (fun %s %s =>\n    %s) %s ;;\n  " % (tup, bound.p(), cid(i), tup, b, tup) + tr_stmts(ctx, rest, final, in_loop)
        return "st_ <- for_loop %s (fun %s st_ => let '%s := st_ in\n    %s) %s ;;\n  let '%s := st_ in\n  " % (bound.p(), cid(i), tup, b, tup, tup) + tr_stmts(ctx, rest, final, in_loop)
    if k == "IfStmt" and in_loop:
        parts = kids(s)
        if len(parts) != 2: ctx.err(s, "'if' with 'else' inside a loop is outside the translated subset")
        c = as_bool(ctx, parts[0], tr_expr(ctx, parts[0]))
        rd = take_reads(ctx)
        bstmts = kids(parts[1]) if parts[1].get("kind") == "CompoundStmt" else [parts[1]]
        if mentions_kind(parts[1], ("ReturnStmt", "BreakStmt", "ContinueStmt", "GotoStmt")): ctx.err(s, "jump inside a loop")
        mods = assigned_vars(ctx, bstmts)
        if not mods: ctx.err(s, "'if' without effect")
        names = state_tuple(ctx, mods)
        tup = names[0] if len(names) == 1 else "(%s)" % ", ".join(names)
        b = tr_stmts(ctx, bstmts, "Ok %s" % tup, True)
        if len(names) == 1:
            return "%s%s <- (if %s then\n    %s else Ok %s) ;;\n  " % (rd, tup, c.text, b, tup) + tr_stmts(ctx, rest, final, in_loop)
        return "%sst_ <- (if %s then\n    %s else Ok %s) ;;\n  let '%s := st_ in\n  " % (rd, c.text, b, tup, tup) + tr_stmts(ctx, rest, final, in_loop)
    ctx.err(s, "statement kind %s outside the translated subset" % k)

def mentions_kind(n, kinds):
    if n.get("kind") in kinds: return True
    return any(mentions_kind(c, kinds) for c in kids(n))

def is_reject_branch(ctx, n):
    st = kids(n) if n.get("kind") == "CompoundStmt" else [n]
    if not st or st[-1].get("kind") != "ReturnStmt" or kids(st[-1]): return False
    for x in st[:-1]:
        if x.get("kind") != "CallExpr" or callee_name(x) not in ("syslog_libbidib", "syslog"): return False
    return True

def disjuncts(n):
    """top-level  a || b || c  of a range check -> [a, b, c]"""
    m = n
    while m.get("kind") == "ParenExpr": m = kids(m)[0]
    if m.get("kind") == "BinaryOperator" and m.get("opcode") == "||":
        l, r = kids(m)
        return disjuncts(l) + disjuncts(r)
    return [n]

def tr_reject_chain(ctx, s):
    """IfStmt whose branches all reject -> list of (reads-prefix, condition text).
    `if (a || b) reject` is emitted as `if (a) reject else if (b) reject` (the same control flow), so that a read in b
    is made only after a has been found false, as in the C."""
    out = []
    while True:
        parts = kids(s)
        if len(parts) not in (2, 3): ctx.err(s, "if statement shape")
        if not is_reject_branch(ctx, parts[1]): ctx.err(parts[1], "range-check branch must be 'syslog_libbidib(...); return;'")
        ds = disjuncts(parts[0])
        if len(ds) > 1 and not any(mentions_kind(d, ("ArraySubscriptExpr",)) for d in ds): ds = [parts[0]]
        for d in ds:
            c = as_bool(ctx, d, tr_expr(ctx, d))
            out.append((take_reads(ctx), c.text))
        if len(parts) == 2: return out
        s = parts[2]
        if s.get("kind") != "IfStmt": ctx.err(s, "'else' of a range check must be another range check")

def tr_body(ctx, body):
    stmts = kids(body)
    text = ""
    i = 0
    while i < len(stmts) and stmts[i].get("kind") == "IfStmt":
        for rd, c in tr_reject_chain(ctx, stmts[i]):
            text += "%sif %s then Ok Rejected else\n  " % (rd, c)
        i += 1
    # addr_stack
    if i >= len(stmts) or stmts[i].get("kind") != "DeclStmt": ctx.err(body, "expected the addr_stack declaration after the range checks")
    v = kids(stmts[i])[0]
    if v.get("name") != "addr_stack" or not kids(v) or kids(v)[0].get("kind") != "InitListExpr" or v["type"].get("qualType") != "uint8_t[4]":
        ctx.err(stmts[i], "expected 'uint8_t addr_stack[] = {a, b, c, 0x00}'")
    els = [tr_expr(ctx, e) for e in kids(kids(v)[0])]
    if len(els) != 4 or els[3].const != 0 or ctx.reads: ctx.err(stmts[i], "addr_stack must have four elements, the last one 0")
    addr = "(%s, %s, %s)" % (els[0].text, els[1].text, els[2].text)
    i += 1
    # find the final call
    j = i
    while j < len(stmts) and not (stmts[j].get("kind") == "CallExpr" and callee_name(stmts[j]) in
                                  ("bidib_buffer_message_with_data", "bidib_buffer_message_without_data")):
        if mentions_kind(stmts[j], ("ReturnStmt", "GotoStmt", "CallExpr")):
            ctx.err(stmts[j], "call or jump before the message is handed over")
        j += 1
    if j >= len(stmts): ctx.err(body, "no bidib_buffer_message_with(out)_data call")
    call = stmts[j]; args = kids(call)[1:]
    def is_addr(a):
        a = strip_casts(a); return a.get("kind") == "DeclRefExpr" and a["referencedDecl"].get("name") == "addr_stack"
    def is_action(a):
        a = strip_casts(a); return a.get("kind") == "DeclRefExpr" and a["referencedDecl"].get("name") == "action_id"
    if callee_name(call) == "bidib_buffer_message_without_data":
        if len(args) != 3 or not is_addr(args[0]) or not is_action(args[2]): ctx.err(call, "arguments of bidib_buffer_message_without_data")
        ty = tr_expr(ctx, args[1])
        if ty.const is None: ctx.err(call, "message type is not a constant")
        final = "send_without_data %s %d" % (addr, ty.const % 256)
    else:
        if len(args) != 5 or not is_addr(args[0]) or not is_action(args[4]): ctx.err(call, "arguments of bidib_buffer_message_with_data")
        ty = tr_expr(ctx, args[1])
        if ty.const is None: ctx.err(call, "message type is not a constant")
        final = None
    pre = tr_stmts(ctx, stmts[i:j], "@@FINAL@@", False)
    if final is None:
        ln = tr_expr(ctx, args[2])
        if ln.boolean or ctx.reads: ctx.err(call, "length argument outside the translated subset")
        if not is_u8(dtype(args[2])): ln = to_u8(ln)
        d = strip_casts(args[3])
        if d.get("kind") != "DeclRefExpr" or d["referencedDecl"].get("name") not in ctx.arrays: ctx.err(call, "data argument must be a local array")
        final = "send_with_data %s %d %s %s" % (addr, ty.const % 256, ln.p(), ctx.arrays[d["referencedDecl"]["name"]])
    text += pre.replace("@@FINAL@@", final)
    trailing = []
    for t in stmts[j + 1:]:
        all_callees(t, trailing)
        if mentions_kind(t, ("ReturnStmt", "GotoStmt")): ctx.err(t, "jump after the message is handed over")
    return text, trailing, ty.const % 256

# ------------------------------------------------------------------ functions
def fn_body(f):
    for c in f.get("inner", []):
        if c.get("kind") == "CompoundStmt": return c
    return None

def params(f):
    return [c for c in f.get("inner", []) if c.get("kind") == "ParmVarDecl"]

def public_names(repo):
    out = []
    hs = sorted(glob.glob(os.path.join(repo, "include/lowlevel/*.h")))
    if not hs: raise TranslatorError("no headers under include/lowlevel")
    for h in hs:
        txt = re.sub(r'/\*.*?\*/', '', open(h, errors="replace").read(), flags=re.S)
        for m in re.finditer(r'\b(bidib_send_\w+)\s*\(', txt):
            if m.group(1) not in [n for n, _ in out]: out.append((m.group(1), os.path.basename(h)))
    return out

_cache = {}
def translate(repo):
    key = os.path.realpath(repo)
    srcs = sorted(glob.glob(os.path.join(repo, "src/lowlevel/*.c")))
    stamp = tuple((p, os.path.getmtime(p), os.path.getsize(p)) for p in srcs + sorted(glob.glob(os.path.join(repo, "include/*/*.h"))))
    if key in _cache and _cache[key][0] == stamp: return _cache[key][1]
    if not srcs: raise TranslatorError("no sources under src/lowlevel")
    flags = pkgflags()
    with ThreadPoolExecutor(max_workers=9) as ex:
        tus = list(ex.map(lambda p: load_ast(p, flags), srcs))
    defs = {}     # name -> (FunctionDecl, path, Records)
    for path, tu in zip(srcs, tus):
        recs = Records(tu)
        for n in tu["inner"]:
            if n.get("kind") == "FunctionDecl" and fn_body(n) is not None and n.get("name", "").startswith("bidib_send_"):
                if n["name"] in defs: raise TranslatorError("%s defined twice" % n["name"])
                defs[n["name"]] = (n, path, recs)
    pub = public_names(repo)
    fns = []
    for name, header in pub:
        if name not in defs: raise TranslatorError("public function %s (declared in %s) has no definition in src/lowlevel" % (name, header))
        fns.append(translate_fn(name, header, defs))
    res = {"fns": fns}
    _cache[key] = (stamp, res)
    return res

def wrapper_target(f, defs, path):
    """body = locks* ; call g(own params / literals) ; locks*  with g a non-public bidib_send_* of the same file"""
    st = kids(fn_body(f)); calls = [s for s in st if s.get("kind") == "CallExpr"]
    if len(calls) != len(st): return None
    core = [c for c in calls if callee_name(c) not in LOCKS]
    if len(core) != 1: return None
    g = callee_name(core[0])
    if g is None or g not in defs or g == f["name"] or defs[g][1] != path: return None
    return core[0], g

def translate_fn(name, header, defs):
    f, path, recs = defs[name]
    used = f; bound = {}
    wt = wrapper_target(f, defs, path)
    wrapped = None
    if wt:
        call, g = wt; gdecl = defs[g][0]; wrapped = g
        own = {p["name"]: p for p in params(f)}
        gp = params(gdecl); args = kids(call)[1:]
        if len(gp) != len(args): raise TranslatorError("%s: call of %s with wrong arity" % (name, g))
        for p, a in zip(gp, args):
            a0 = strip_casts(a)
            if a0.get("kind") == "DeclRefExpr" and a0["referencedDecl"].get("kind") == "ParmVarDecl":
                if a0["referencedDecl"]["name"] != p["name"] or own[p["name"]]["type"].get("qualType") != p["type"].get("qualType"):
                    raise TranslatorError("%s: passes '%s' for parameter '%s' of %s (renaming is outside the subset)" % (name, a0["referencedDecl"]["name"], p["name"], g))
            elif a0.get("kind") == "IntegerLiteral":
                bound[p["name"]] = int(a0["value"])
            else:
                raise TranslatorError("%s: argument of %s outside the translated subset" % (name, g))
        used = gdecl
    scalars = {}; bufs = {}; bools = {}; flat = []; cparams = []
    for p in params(used):
        pn = p["name"]; q = p["type"].get("qualType", "")
        if pn in bound:
            bools[pn] = bound[pn]; continue
        if pn == "action_id":
            if q != "unsigned int": raise TranslatorError("%s: action_id of type %s" % (name, q))
            cparams.append((pn, q, "action")); continue
        items = recs.flatten(pn, p["type"], name, path)
        cparams.append((pn, q, "value"))
        for (cn, acc, kind) in items:
            flat.append((cid(cn), acc, kind))
    if len({c for c, _, _ in flat}) != len(flat): raise TranslatorError("%s: flattened parameter names collide" % name)
    sc = [(c, a) for (c, a, k) in flat if k == "u8"]; bf = [(c, a) for (c, a, k) in flat if k == "buf"]
    for c, a in sc: scalars[a] = c
    for i, (c, a) in enumerate(bf): bufs[a] = (i, c)
    ctx = FnCtx(name, path, scalars, bufs, bools)
    text, trailing, ty = tr_body(ctx, fn_body(used))
    compound = sorted(set(t for t in trailing if t not in STATE_MIRROR))
    has_addr = len(sc) >= 3 and [a for _, a in sc[:3]] == ["node_address.top", "node_address.sub", "node_address.subsub"]
    return {"name": name, "short": name[len("bidib_send_"):], "header": header, "file": os.path.basename(path), "via": wrapped,
            "scalars": sc, "bufs": bf, "cparams": cparams, "body": text, "trailing": sorted(set(trailing)),
            "compound": compound, "has_addr": has_addr, "type": ty}

# ------------------------------------------------------------------ output
def to_coq(res):
    fns = res["fns"]
    L = ["(* GENERATED by translator/gen_sendfns.py from src/lowlevel/*.c and include/lowlevel/*.h. Do not edit. *)",
         "From Coq Require Import List ZArith Bool.", "From LB Require Import SendLib.", "Import ListNotations.",
         "Local Open Scope Z_scope.", "Local Open Scope bool_scope.", ""]
    for f in fns:
        ps = ""
        if f["scalars"]: ps += " (%s : Z)" % " ".join(c for c, _ in f["scalars"])
        if f["bufs"]: ps += " (%s : list Z)" % " ".join(c for c, _ in f["bufs"])
        L.append("(* %s:%s%s%s *)" % (f["file"], f["name"], " via " + f["via"] if f["via"] else "",
                                     "; after the message: " + ", ".join(f["trailing"]) if f["trailing"] else ""))
        L.append("Definition gen_%s%s : outcome :=\n  %s.\n" % (f["name"], ps, f["body"]))
    L.append("Inductive fn :=\n" + "\n".join("| F_%s" % f["short"] for f in fns) + ".\n")
    L.append("Definition all_fns : list fn :=\n  [%s].\n" % ";\n   ".join("F_%s" % f["short"] for f in fns))
    L.append("(* number of uint8_t arguments (struct parameters flattened field by field) and of pointer arguments *)")
    L.append("Definition fn_sig (f : fn) : nat * nat :=\n  match f with\n" +
             "\n".join("  | F_%s => (%d, %d)%%nat" % (f["short"], len(f["scalars"]), len(f["bufs"])) for f in fns) + "\n  end.\n")
    def call(f):
        a = "".join(" (argz sc %d)" % i for i in range(len(f["scalars"]))) + "".join(" (argb bufs %d)" % i for i in range(len(f["bufs"])))
        return "gen_%s%s" % (f["name"], a)
    L.append("Definition gen_call (f : fn) (sc : list Z) (bufs : list (list Z)) : outcome :=\n  match f with\n" +
             "\n".join("  | F_%s => %s" % (f["short"], call(f)) for f in fns) + "\n  end.\n")
    L.append("(* the constant type argument of the bidib_buffer_message_with(out)_data call *)")
    L.append("Definition gen_type (f : fn) : Z :=\n  match f with\n" +
             "\n".join("  | F_%s => %d" % (f["short"], f["type"]) for f in fns) + "\n  end.\n")
    L.append("(* the first three uint8_t arguments are node_address.top/sub/subsub *)")
    L.append("Definition has_node_address (f : fn) : bool :=\n  match f with\n" +
             "\n".join("  | F_%s => %s" % (f["short"], "true" if f["has_addr"] else "false") for f in fns) + "\n  end.\n")
    L.append("(* after handing over its message the function calls something other than locks and the state mirror\n"
             "   (bidib_state_cs_drive / bidib_state_cs_accessory): the generated function models its first message only *)")
    L.append("Definition compound (f : fn) : bool :=\n  match f with\n" +
             "\n".join("  | F_%s => %s" % (f["short"], "true" if f["compound"] else "false") for f in fns) + "\n  end.\n")
    return "\n".join(L)

def generate_files(repo):
    return {"SendFns.v": to_coq(translate(repo))}

def describe(repo):
    """for the check: [{name, short, scalars:[names], bufs:[names], compound, has_addr, type}] in all_fns order"""
    return [{"name": f["name"], "short": f["short"], "scalars": [c for c, _ in f["scalars"]], "bufs": [c for c, _ in f["bufs"]],
             "compound": bool(f["compound"]), "has_addr": f["has_addr"], "type": f["type"], "header": f["header"]} for f in translate(repo)["fns"]]

def dispatch_text(repo):
    """C dispatch by name for harness/ext_C18.inc: arguments = flattened uint8_t values s[], malloc'ed buffers b[]"""
    L = ["/* GENERATED by translator/gen_sendfns.py (python3 translator/gen_sendfns.py --dispatch). Do not edit. */",
         "static int c18_dispatch(const char *name, const uint8_t *s, int ns, uint8_t **b, int nb) {"]
    for f in translate(repo)["fns"]:
        L.append('\tif (!strcmp(name, "%s")) {' % f["name"])
        L.append("\t\tif (ns != %d || nb != %d) return -1;" % (len(f["scalars"]), len(f["bufs"])))
        args = []
        for (pn, q, kind) in f["cparams"]:
            if kind == "action": args.append("0"); continue
            q0 = q.replace("const ", "").replace(" const", "").replace("*const", "*").strip()
            if "*" in q0: L.append("\t\t%s %s = NULL;" % (q0, pn))
            elif q0 in ("uint8_t", "unsigned char"): L.append("\t\t%s %s = 0;" % (q0, pn))
            else: L.append("\t\t%s %s; memset(&%s, 0, sizeof %s);" % (q0, pn, pn, pn))
            args.append(pn)
        for i, (c, a) in enumerate(f["scalars"]): L.append("\t\t%s = s[%d];" % (a, i))
        for i, (c, a) in enumerate(f["bufs"]): L.append("\t\t%s = b[%d];" % (a, i))
        L.append("\t\t%s(%s);" % (f["name"], ", ".join(args)))
        L.append("\t\treturn 0;\n\t}")
    L.append("\t(void)s; (void)ns; (void)b; (void)nb;\n\treturn -2;\n}")
    return "\n".join(L) + "\n"

def main():
    args = [a for a in sys.argv[1:] if not a.startswith("--")]
    repo = args[0] if args else os.environ.get("VERIF_REPO", "/repo")
    here = os.path.dirname(os.path.abspath(__file__))
    try:
        if "--dispatch" in sys.argv:
            p = os.path.join(here, "..", "harness", "C18_dispatch.inc")
            open(p, "w").write(dispatch_text(repo)); print("wrote", os.path.normpath(p))
        else:
            p = args[1] if len(args) > 1 else os.path.join(here, "..", "coq", "SendFns.v")
            text = generate_files(repo)["SendFns.v"]
            if not os.path.exists(p) or open(p).read() != text: open(p, "w").write(text)
            print("gen_sendfns: %s (%d functions)" % (os.path.normpath(p), len(translate(repo)["fns"])))
    except TranslatorError as e:
        print("TRANSLATOR-ERROR gen_sendfns:", e, file=sys.stderr); sys.exit(2)

if __name__ == "__main__":
    main()
