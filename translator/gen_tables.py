#!/usr/bin/env python3
"""gen_tables: regenerate coq/gen/Tables.v from the repository's current source.

A C probe #includes the repository's headers and the three transmission .c files that
hold file-local constants, prints every table/constant the Coq models use (macro
arithmetic is evaluated by the C compiler), and this script turns the output into Gallina.
A renamed/removed identifier makes the probe fail to compile -> TranslatorError (broken tie).
"""
import os, re, subprocess, sys, tempfile, shutil

class TranslatorError(Exception):
    pass

PROBE_HEAD = r'''
#include <stdio.h>
#include <stdint.h>
#include <stddef.h>
#include "%(repo)s/src/transmission/bidib_transmission_send.c"
#include "%(repo)s/src/transmission/bidib_transmission_node_states.c"
#include "%(repo)s/src/transmission/bidib_transmission_receive.c"
'''

def macro_names(repo):
    names = []
    for h in ["include/definitions/bidib_messages.h", "include/definitions/bidib_definitions_custom.h"]:
        p = os.path.join(repo, h)
        if not os.path.exists(p):
            raise TranslatorError("missing header " + h)
        for line in open(p, errors="replace"):
            m = re.match(r'\s*#\s*define\s+((?:MSG|BIDIB|FEATURE|BIDIB_ERR|CLASS)_[A-Za-z0-9_]+)\s+(\S.*)$', line)
            if m and '(' not in m.group(1):
                body = m.group(2).split('//')[0].strip()
                if body and not body.startswith('"') and '{' not in body:
                    names.append(m.group(1))
    seen = set(); out = []
    for n in names:
        if n not in seen:
            seen.add(n); out.append(n)
    return out

def pkgflags():
    return subprocess.check_output(["pkg-config", "--cflags", "glib-2.0"]).decode().split()

def run_probe(repo, names, tmp):
    src = PROBE_HEAD % {"repo": repo}
    src += "int main(void){\n"
    src += ' printf("CONST pkt_magic %d\\n", (int)BIDIB_PKT_MAGIC);\n'
    src += ' printf("CONST pkt_escape %d\\n", (int)BIDIB_PKT_ESCAPE);\n'
    src += ' printf("CONST default_cap %u\\n", (unsigned)pkt_max_cap);\n'
    src += ' printf("CONST tx_buf_size %d\\n", (int)PACKET_BUFFER_SIZE);\n'
    src += ' printf("CONST tx_aux_size %d\\n", (int)PACKET_BUFFER_AUX_SIZE);\n'
    src += ' printf("CONST rx_buf_size %d\\n", (int)READ_BUFFER_SIZE);\n'
    src += ' printf("CONST queue_size %d\\n", (int)QUEUE_SIZE);\n'
    src += ' printf("CONST response_limit %d\\n", (int)response_limit);\n'
    src += ' printf("CONST expiry_secs %d\\n", (int)RESPONSE_QUEUE_EXPIRATION_SECS);\n'
    src += ' printf("CONST response_rows %d\\n", (int)(sizeof(bidib_response_info)/sizeof(bidib_response_info[0])));\n'
    src += ' printf("CONST response_cols %d\\n", (int)(sizeof(bidib_response_info[0])/sizeof(bidib_response_info[0][0])));\n'
    src += ' printf("CRC"); for(int i=0;i<256;i++) printf(" %d", (int)bidib_crc_array[i]); printf("\\n");\n'
    src += ' for(size_t r=0;r<sizeof(bidib_response_info)/sizeof(bidib_response_info[0]);r++){ printf("RESP");'
    src += '  for(size_t c=0;c<sizeof(bidib_response_info[0])/sizeof(bidib_response_info[0][0]);c++) printf(" %d", bidib_response_info[r][c]); printf("\\n"); }\n'
    src += ' printf("STRLEN cs_state %d\\n", (int)(sizeof(bidib_cs_state_string_mapping)/sizeof(char*)));\n' if False else ''
    for n in names:
        src += ' printf("MACRO %s %%lld\\n", (long long)(%s));\n' % (n, n)
    src += " return 0; }\n"
    c = os.path.join(tmp, "probe.c"); exe = os.path.join(tmp, "probe")
    open(c, "w").write(src)
    import glob
    excl = {"bidib_transmission_send.c", "bidib_transmission_node_states.c", "bidib_transmission_receive.c"}
    others = [f for f in sorted(glob.glob(os.path.join(repo, "src/*/*.c"))) if os.path.basename(f) not in excl]
    cmd = ["clang", "-std=gnu11", "-w", "-O0", "-ferror-limit=0"] + pkgflags() + [c] + others + [
           "-o", exe, "-lglib-2.0", "-lyaml", "-lpthread"]
    r = subprocess.run(cmd, capture_output=True, text=True)
    return r, exe

def gen(repo):
    tmp = tempfile.mkdtemp(prefix="vtab")
    try:
        names = macro_names(repo)
        r, exe = run_probe(repo, names, tmp)
        if r.returncode != 0:
            # drop macros that are not integer constant expressions, retry once
            bad = set()
            for line in r.stderr.splitlines():
                m = re.search(r'probe\.c:(\d+):', line)
                if m and 'error' in line:
                    bad.add(int(m.group(1)))
            srclines = open(os.path.join(tmp, "probe.c")).read().splitlines()
            badnames = set()
            for ln in bad:
                m = re.match(r' printf\("MACRO (\S+) ', srclines[ln-1]) if ln-1 < len(srclines) else None
                if m: badnames.add(m.group(1))
                else:
                    raise TranslatorError("constant probe does not compile against the source:\n" + r.stderr[:2000])
            names = [n for n in names if n not in badnames]
            r, exe = run_probe(repo, names, tmp)
            if r.returncode != 0:
                raise TranslatorError("constant probe does not compile against the source:\n" + r.stderr[:2000])
        out = subprocess.run([exe], capture_output=True, text=True, timeout=20)
        if out.returncode != 0:
            raise TranslatorError("constant probe crashed")
        consts = {}; macros = {}; crc = None; resp = []
        for line in out.stdout.splitlines():
            f = line.split()
            if f[0] == "CONST": consts[f[1]] = int(f[2])
            elif f[0] == "MACRO": macros[f[1]] = int(f[2])
            elif f[0] == "CRC": crc = [int(x) for x in f[1:]]
            elif f[0] == "RESP": resp.append([int(x) for x in f[1:]])
        return consts, macros, crc, resp
    finally:
        shutil.rmtree(tmp, ignore_errors=True)

def to_coq(consts, macros, crc, resp):
    L = []
    L.append("(* GENERATED by translator/gen_tables.py from the repository source. Do not edit. *)")
    L.append("From Coq Require Import List NArith ZArith.")
    L.append("Import ListNotations.")
    L.append("Local Open Scope N_scope.")
    for k in sorted(consts):
        L.append("Definition %s : N := %d." % (k, consts[k]))
    L.append("Definition crc_table : list N := [%s]." % "; ".join(str(x) for x in crc))
    # negative entries cannot appear in N; keep as Z list too
    for row in resp:
        for x in row:
            if x < 0: raise TranslatorError("negative entry in bidib_response_info")
    L.append("Definition response_info : list (list N) := [\n  %s]." %
             ";\n  ".join("[" + "; ".join(str(x) for x in row) + "]" for row in resp))
    for k in sorted(macros):
        v = macros[k]
        if v < 0: continue
        L.append("Definition %s : N := %d." % (k, v))
    return "\n".join(L) + "\n"

def write_if_changed(path, text):
    if os.path.exists(path) and open(path).read() == text:
        return False
    os.makedirs(os.path.dirname(path), exist_ok=True)
    open(path, "w").write(text)
    return True

def main():
    repo = sys.argv[1] if len(sys.argv) > 1 else "/repo"
    outp = sys.argv[2] if len(sys.argv) > 2 else os.path.join(os.path.dirname(__file__), "..", "coq", "Tables.v")
    try:
        text = to_coq(*gen(repo))
    except TranslatorError as e:
        print("TRANSLATOR-ERROR gen_tables:", e, file=sys.stderr)
        sys.exit(2)
    ch = write_if_changed(outp, text)
    print("gen_tables: %s (%s)" % (outp, "updated" if ch else "unchanged"))

if __name__ == "__main__":
    main()
