#!/usr/bin/env python3
"""gen_lockcfg: translate every function of src/**/*.c into the structured lock language of
coq/LockLang.v (lock acquire/release, accesses to guarded globals, calls, control flow), using the
clang JSON AST. Emits coq/LockCfg.v plus a JSON side-car with names and a Python-side diagnosis
(nesting pairs, generated ranks, first failing function/context) used for replay files.
Constructs outside the supported subset (goto is supported as an error for now, trylock, condition
variables, timed locks, setjmp, recursion) raise TranslatorError = broken tie.

Every access carries a mode (read / write). A write is: the guarded global, or memory reached from it
(members, elements, one-level pointer taint), as the target of '=', 'op=', '++'/'--'; as an argument in a
mutated position of a glib/libc call (MUTATORS); as an argument of a library function that writes through
that pointer parameter (summary computed to a fixpoint); or through the pointer returned by a library
lookup. Everything else is a read. External functions that receive guarded data and are in neither
MUTATORS nor READERS are reported in the side-car (unclassified_externals) and count as reads."""
import os, sys, re, json, glob, subprocess
from concurrent.futures import ThreadPoolExecutor

class TranslatorError(Exception):
    pass

LOCK_FNS = {"pthread_mutex_lock": "acq", "pthread_rwlock_rdlock": "acq", "pthread_rwlock_wrlock": "acq",
            "pthread_mutex_unlock": "rel", "pthread_rwlock_unlock": "rel"}
REFUSED = {"pthread_mutex_trylock", "pthread_rwlock_tryrdlock", "pthread_rwlock_trywrlock", "pthread_cond_wait",
           "pthread_cond_timedwait", "pthread_mutex_timedlock", "pthread_rwlock_timedrdlock", "pthread_rwlock_timedwrlock",
           "setjmp", "longjmp", "_setjmp"}
# globals guarded by a lock that the source does not annotate with a "guarded by" comment
GUARDS_FIXED = {
    "bidib_boards": "bidib_boards_rwlock",
    "bidib_trains": "bidib_trains_rwlock",
    "node_state_table": "bidib_node_state_table_mutex",
    "uplink_queue": "bidib_uplink_queue_mutex",
    "uplink_error_queue": "bidib_uplink_error_queue_mutex",
    "uplink_intern_queue": "bidib_uplink_intern_queue_mutex",
    "buffer": "bidib_send_buffer_mutex",
    "buffer_aux": "bidib_send_buffer_mutex",
    "buffer_index": "bidib_send_buffer_mutex",
    "pkt_max_cap": "bidib_send_buffer_mutex",
    "write_bytes": "bidib_send_buffer_mutex",     # the write callback is only invoked under the buffer mutex
    "action_id": "bidib_action_id_mutex",
}
# calls that must happen under a lock (pseudo-globals): the three steps of a submission stay under
# the send-order mutex, which is what makes a submission atomic with respect to other submitters (C05)
CALL_GUARDS = {
    "bidib_node_state_get_and_incr_send_seqnum": "bidib_send_order_mutex",
    "bidib_node_try_send": "bidib_send_order_mutex",
    "bidib_buffer_message": "bidib_send_order_mutex",
    # call-site specific (caller:callee): the append of an admitted message to the packet buffer is the
    # third step of a submission and must still be inside the send-order region (the receiver thread's
    # own appends in bidib_node_try_queued_messages are not)
    "bidib_buffer_message:bidib_add_to_buffer": "bidib_send_order_mutex",
}
# external (glib / libc) functions: argument positions whose pointee is modified (or freed)
MUTATORS = {
    "g_array_append_vals": (0,), "g_array_prepend_vals": (0,), "g_array_insert_vals": (0,), "g_array_remove_index": (0,),
    "g_array_remove_index_fast": (0,), "g_array_remove_range": (0,), "g_array_free": (0,), "g_array_unref": (0,),
    "g_array_set_size": (0,), "g_array_sort": (0,), "g_array_sort_with_data": (0,), "g_array_set_clear_func": (0,),
    "g_queue_push_tail": (0,), "g_queue_push_head": (0,), "g_queue_pop_head": (0,), "g_queue_pop_tail": (0,),
    "g_queue_free": (0,), "g_queue_free_full": (0,), "g_queue_clear": (0,), "g_queue_remove": (0,), "g_queue_remove_all": (0,),
    "g_queue_init": (0,), "g_queue_insert_sorted": (0,), "g_queue_delete_link": (0,), "g_queue_pop_nth": (0,),
    "g_hash_table_insert": (0,), "g_hash_table_replace": (0,), "g_hash_table_add": (0,), "g_hash_table_remove": (0,),
    "g_hash_table_remove_all": (0,), "g_hash_table_steal": (0,), "g_hash_table_destroy": (0,), "g_hash_table_unref": (0,),
    "g_hash_table_iter_remove": (0,), "g_hash_table_iter_steal": (0,), "g_hash_table_iter_replace": (0,),
    "g_string_free": (0,), "g_string_printf": (0,), "g_string_append_printf": (0,), "g_string_append": (0,),
    "g_string_append_c": (0,), "g_string_append_len": (0,), "g_string_assign": (0,), "g_string_truncate": (0,),
    "g_string_erase": (0,), "g_string_prepend": (0,), "g_string_insert": (0,), "g_string_set_size": (0,),
    "g_string_vprintf": (0,), "g_string_append_vprintf": (0,), "g_string_overwrite": (0,),
    "g_string_append_c_inline": (0,), "g_string_append_len_inline": (0,),
    "free": (0,), "g_free": (0,), "realloc": (0,), "g_realloc": (0,),
    "memcpy": (0,), "memmove": (0,), "memset": (0,), "strcpy": (0,), "strncpy": (0,), "strcat": (0,), "strncat": (0,),
    "sprintf": (0,), "snprintf": (0,), "vsprintf": (0,), "vsnprintf": (0,),
    "__builtin___memcpy_chk": (0,), "__builtin___memset_chk": (0,), "__builtin___strcpy_chk": (0,),
    "__builtin___sprintf_chk": (0,), "__builtin___snprintf_chk": (0,), "__builtin_memcpy": (0,), "__builtin_memset": (0,),
}
# external functions known not to modify what their pointer arguments point to
READERS = {"strcmp", "strncmp", "strlen", "strdup", "strndup", "strtol", "strtoul", "atoi", "strchr", "strstr", "memcmp",
           "g_queue_is_empty", "g_queue_get_length", "g_queue_peek_head", "g_queue_peek_tail", "g_queue_find_custom",
           "g_queue_find", "g_queue_peek_nth", "g_queue_index", "g_hash_table_lookup", "g_hash_table_contains",
           "g_hash_table_size", "g_hash_table_iter_next", "g_string_new", "g_strdup", "g_str_equal", "g_str_hash",
           "malloc", "calloc", "g_malloc", "g_malloc0", "difftime", "g_hash_table_iter_init", "syslog", "vsyslog", "printf", "fprintf", "puts", "g_array_get_element_size", "g_string_equal",
           "__builtin_strlen", "__builtin_strcmp", "__builtin_object_size", "__builtin_expect"}
# "waiting for the receiver": queues that only the receiver thread fills. A wait point is a pop from such a queue
# (a call of one of POP_FNS with the queue as argument; found in the AST: bidib_read_intern_message); the callers poll it
# in loops until the receiver has queued an answer, so while a thread is there it must not hold a lock the receiver
# thread may need. The pop is marked by an access to the pseudo-global "wait:<queue>" (same guard as the queue).
WAIT_GLOBALS = {"uplink_intern_queue"}
POP_FNS = {"g_queue_pop_head", "g_queue_pop_tail", "g_queue_pop_nth", "bidib_read_message_from_queue"}
RX_MAIN = "bidib_auto_receive"
# globals into which pointers are handed out (pointer taint)
TAINT_GLOBALS = {"bidib_boards", "bidib_trains", "node_state_table"}
THREAD_MAINS = ["bidib_auto_receive", "bidib_auto_flush", "bidib_heartbeat_log"]
# public functions the README excludes from concurrent use (start/stop/reset) or that only set modes
NOT_THREADSAFE = {"bidib_start_pointer", "bidib_start_serial", "bidib_stop", "bidib_set_lowlevel_debug_mode",
                  "bidib_send_sys_reset"}

def pkgflags():
    return subprocess.check_output(["pkg-config", "--cflags", "glib-2.0"]).decode().split()

def ast_of(path, flt="bidib"):
    r = subprocess.run(["clang", "-std=gnu11", "-w"] + pkgflags() + ["-fsyntax-only", "-Xclang", "-ast-dump=json",
                        "-Xclang", "-ast-dump-filter=" + flt, path], capture_output=True, text=True)
    if r.returncode != 0:
        raise TranslatorError("clang failed on %s: %s" % (path, r.stderr[:500]))
    dec = json.JSONDecoder(); txt = r.stdout; i = 0; objs = []
    n = len(txt)
    while i < n:
        while i < n and txt[i] in " \n\r\t": i += 1
        if i >= n: break
        o, j = dec.raw_decode(txt, i); objs.append(o); i = j
    annotate_lines(objs)
    return objs

def annotate_lines(objs):
    """clang prints "line" only when it differs from the previously printed location; replay that
    state in document order and give every node the (expansion) line of the start of its range as
    "_line". Used for diagnostics only."""
    st = [0]
    def bare(d):
        if "line" in d: st[0] = d["line"]
        return st[0]
    def loc(d):
        if "offset" in d: return bare(d)
        ln = None
        for k, v in d.items():
            if isinstance(v, dict) and k in ("spellingLoc", "expansionLoc"):
                x = bare(v) if "offset" in v else None
                if k == "expansionLoc": ln = x
        return ln
    def walk(n):
        if isinstance(n, list):
            for c in n: walk(c)
            return
        if not isinstance(n, dict): return
        for k, v in list(n.items()):
            if k == "loc" and isinstance(v, dict): loc(v)
            elif k == "range" and isinstance(v, dict):
                b = loc(v.get("begin", {})); loc(v.get("end", {}))
                n["_line"] = b if b is not None else st[0]
            elif isinstance(v, (dict, list)): walk(v)
    walk(objs)

def strip(e):
    while e and e.get("kind") in ("ImplicitCastExpr", "ParenExpr", "CStyleCastExpr", "ConstantExpr"):
        inner = e.get("inner") or []
        if not inner: break
        e = inner[0]
    return e

class Fn:
    def __init__(self, name, params, body, file):
        self.name = name; self.params = params; self.body = body; self.file = file

class Translator:
    def __init__(self, repo):
        self.repo = repo
        self.fns = {}            # name -> Fn (IR)
        self.locks = []          # lock names
        self.globals = []        # guarded global names
        self.guard_of = {}       # global -> lock
        self.fp_targets = {}     # (function, param index) -> set of function names passed
        self.raw = {}            # name -> (FunctionDecl json, file)
        self.rwlocks = set()     # locks taken with pthread_rwlock_* (shared/exclusive); the others are mutexes
        self.mutexes = set()
        self.pwrites = {}        # function -> set of parameter indices through which it (transitively) writes
        self.unclassified = {}   # external function -> set of callers passing it guarded data (not in MUTATORS/READERS)
        self.taint = {}
        self.wait_sites = {}     # wait marker -> functions that pop from the queue

    def lock_id(self, n):
        if n not in self.locks: self.locks.append(n)
        return self.locks.index(n)
    def glob_id(self, n):
        if n not in self.globals: self.globals.append(n)
        return self.globals.index(n)

    def load(self):
        files = sorted(glob.glob(os.path.join(self.repo, "src/*/*.c")))
        if not files: raise TranslatorError("no sources")
        with ThreadPoolExecutor(16) as ex:
            asts = list(ex.map(ast_of, files))
        ndefs_text = 0
        for f, objs in zip(files, asts):
            for o in objs:
                if o.get("kind") == "FunctionDecl" and any(c.get("kind") == "CompoundStmt" for c in o.get("inner", [])):
                    self.raw[o["name"]] = (o, f)
        # every function definition of the sources must have been seen (the AST filter is by name)
        for f in files:
            txt = open(f, errors="replace").read()
            for m in re.finditer(r'^[A-Za-z_][\w \*]*?\b(\w+)\s*\([^;{]*\)\s*\{', txt, re.M):
                nm = m.group(1)
                if nm in ("if", "while", "for", "switch"): continue
                if nm not in self.raw:
                    for o in ast_of(f, nm):
                        if o.get("kind") == "FunctionDecl" and o.get("name") == nm and any(c.get("kind") == "CompoundStmt" for c in o.get("inner", [])):
                            self.raw[nm] = (o, f)
                if nm not in self.raw:
                    raise TranslatorError("function %s in %s not covered by the AST dump" % (nm, f))
        # guarded-by comments
        hp = os.path.join(self.repo, "src/state/bidib_state_intern.h")
        for line in open(hp, errors="replace"):
            m = re.search(r'GArray \*(\w+);\s*//\s*guarded by (\w+)', line)
            if m: self.guard_of["bidib_track_state." + m.group(1)] = m.group(2)
        if not any(k.startswith("bidib_track_state.") for k in self.guard_of):
            raise TranslatorError("no 'guarded by' annotations found in bidib_state_intern.h")
        self.guard_of.update(GUARDS_FIXED)
        # function-pointer parameters: collect targets passed at call sites
        for name, (o, f) in self.raw.items():
            self.scan_fp_args(o)
        self.accsum = {}; self.retsum = {}
        self.translate_all(False)
        # transitive set of guarded globals each function touches (for the pointer taint of pass 2)
        direct = {}; calls = {}
        def walk(ir, acc, cl):
            if ir[0] == "acc": acc.add(ir[1])
            elif ir[0] == "call": cl.add(ir[1])
            for x in ir[1:]:
                if isinstance(x, tuple) and x and isinstance(x[0], str): walk(x, acc, cl)
        for n, fn in self.fns.items():
            a = set(); c = set(); walk(fn.body, a, c); direct[n] = a; calls[n] = c
        changed = True
        self.accsum = {n: set(direct[n]) for n in self.fns}
        while changed:
            changed = False
            for n in self.fns:
                for c in calls[n]:
                    if c in self.accsum and not self.accsum[c] <= self.accsum[n]:
                        self.accsum[n] |= self.accsum[c]; changed = True
        # what the pointer returned by a function points into: the guarded globals that occur in its
        # return expressions (through tainted locals and pointer-returning callees), to a fixpoint
        self.retsum = {n: set() for n in self.fns}
        for _ in range(4):
            self.translate_all(True, collect_returns=True)
        # write summaries (which pointer parameters a function writes through) to a fixpoint
        for _ in range(12):
            before = {k: set(v) for k, v in self.pwrites.items()}
            self.unclassified = {}
            self.translate_all(True)
            if before == self.pwrites: break
        else:
            raise TranslatorError("write summaries did not stabilise")

    def translate_all(self, with_taint, collect_returns=False):
        for name, (o, f) in self.raw.items():
            params = [c for c in o.get("inner", []) if c.get("kind") == "ParmVarDecl"]
            body = [c for c in o.get("inner", []) if c.get("kind") == "CompoundStmt"][0]
            self.cur = name; self.cur_params = [p.get("name") for p in params]
            self.cur_locals = set(self.cur_params)
            ptr_locals = set()
            def collect(n):
                if isinstance(n, dict):
                    if n.get("kind") == "VarDecl" and n.get("storageClass") != "static" and n.get("storageClass") != "extern":
                        self.cur_locals.add(n.get("name"))
                        if "*" in n.get("type", {}).get("qualType", ""): ptr_locals.add(n.get("name"))
                    for c in n.get("inner", []) or []: collect(c)
            collect(body)
            self.cur_ptypes = [p.get("type", {}).get("qualType", "") for p in params]
            self.taint = {}
            if with_taint:
                # flow-insensitive, one level: a local pointer assigned from an expression that touches a
                # guarded global (directly, or through a pointer-returning library function that does) is
                # treated as pointing into that global; dereferencing it is an access to the global
                for _ in range(2):
                    def scan(n):
                        if not isinstance(n, dict): return
                        if n.get("kind") == "VarDecl" and n.get("name") in ptr_locals and n.get("inner"):
                            t = set(); self.sources(n["inner"][-1], t)
                            if t: self.taint.setdefault(n["name"], set()).update(t)
                        if n.get("kind") == "BinaryOperator" and n.get("opcode") == "=":
                            l = strip(n["inner"][0])
                            if l.get("kind") == "DeclRefExpr" and l["referencedDecl"].get("name") in ptr_locals:
                                t = set(); self.sources(n["inner"][1], t)
                                if t: self.taint.setdefault(l["referencedDecl"]["name"], set()).update(t)
                        for c in n.get("inner", []) or []: scan(c)
                    scan(body)
                if collect_returns:
                    rs = set()
                    def rets(n):
                        if not isinstance(n, dict): return
                        if n.get("kind") == "ReturnStmt":
                            for c in n.get("inner", []) or []: self.sources(c, rs)
                        for c in n.get("inner", []) or []: rets(c)
                    rets(body)
                    self.retsum[name] = self.retsum.get(name, set()) | rs
                    continue
            self.fns[name] = Fn(name, self.cur_params, self.stmt(body), f)

    def sources(self, e, out):
        """the guarded globals an expression may point into (one level, flow-insensitive)"""
        if not isinstance(e, dict): return
        k = e.get("kind")
        if k == "DeclRefExpr":
            rd = e.get("referencedDecl", {})
            if rd.get("kind") == "VarDecl" and rd.get("name") in TAINT_GLOBALS and rd.get("name") not in self.cur_locals: out.add(rd["name"])
            if rd.get("kind") == "VarDecl" and rd.get("name") in self.taint: out.update(self.taint[rd["name"]])
        if k == "MemberExpr":
            b = strip(e["inner"][0]) if e.get("inner") else None
            if b and b.get("kind") == "DeclRefExpr" and b["referencedDecl"].get("name") == "bidib_track_state":
                key = "bidib_track_state." + e.get("name", "")
                if key in self.guard_of: out.add(key)
        if k == "CallExpr":
            c = strip(e["inner"][0])
            if c.get("kind") == "DeclRefExpr" and c["referencedDecl"].get("kind") == "FunctionDecl":
                cn = c["referencedDecl"].get("name")
                rt = c["referencedDecl"].get("type", {}).get("qualType", "")
                if cn in self.raw:
                    # a library function: only what its return value points into counts,
                    # not what its arguments point into
                    if "*" in rt.split("(")[0]: out.update(self.retsum.get(cn, set()))
                    return
        for c in e.get("inner", []) or []: self.sources(c, out)

    def guarded_refs(self, e, out):
        """every guarded global an expression mentions or may point into (for the unclassified-external report)"""
        if not isinstance(e, dict): return
        self.sources(e, out)
        def w(n):
            if not isinstance(n, dict): return
            if n.get("kind") == "DeclRefExpr":
                rd = n.get("referencedDecl", {})
                if rd.get("kind") == "VarDecl" and rd.get("name") in self.guard_of and rd.get("name") not in self.cur_locals: out.add(rd["name"])
            for c in n.get("inner", []) or []: w(c)
        w(e)

    def scan_fp_args(self, node):
        if node.get("kind") == "CallExpr":
            inner = node.get("inner", [])
            callee = strip(inner[0]) if inner else None
            if callee and callee.get("kind") == "DeclRefExpr" and callee["referencedDecl"].get("kind") == "FunctionDecl":
                cn = callee["referencedDecl"]["name"]
                for i, a in enumerate(inner[1:]):
                    a = strip(a)
                    if a and a.get("kind") == "UnaryOperator" and a.get("opcode") == "&": a = strip(a["inner"][0])
                    if a and a.get("kind") == "DeclRefExpr" and a["referencedDecl"].get("kind") == "FunctionDecl":
                        self.fp_targets.setdefault((cn, i), set()).add(a["referencedDecl"]["name"])
        for c in node.get("inner", []) or []:
            if isinstance(c, dict): self.scan_fp_args(c)

    # ---- IR: tuples ("skip",) ("acq",l) ("rel",l) ("acc",g) ("call",f,args) ("seq",a,b) ("if",a,b)
    #          ("ifp",i,a,b) ("loop",b) ("catch",s) ("ret",) ("brk",) ("cont",)
    def seq(self, xs):
        xs = [x for x in xs if x != ("skip",)]
        if not xs: return ("skip",)
        r = xs[-1]
        for x in reversed(xs[:-1]): r = ("seq", x, r)
        return r

    def lock_arg(self, e):
        e = strip(e)
        if e.get("kind") == "UnaryOperator" and e.get("opcode") == "&":
            t = strip(e["inner"][0])
            if t.get("kind") == "DeclRefExpr": return t["referencedDecl"]["name"]
        raise TranslatorError("lock argument is not the address of a global lock in %s" % self.cur)

    def param_index(self, e):
        e = strip(e)
        if e and e.get("kind") == "DeclRefExpr" and e["referencedDecl"].get("kind") == "ParmVarDecl":
            n = e["referencedDecl"]["name"]
            if n in self.cur_params:
                i = self.cur_params.index(n)
                if "bool" in self.cur_ptypes[i] or "_Bool" in self.cur_ptypes[i]: return i
        return None

    def acc(self, g, wr, e):
        return ("acc", self.glob_id(g), bool(wr), (e or {}).get("_line", 0))

    def arg_modes(self, name, ckind, args):
        """per argument: "pt" when the callee modifies what the argument points to, else None"""
        if ckind != "FunctionDecl": return [None] * len(args)
        if name in self.raw:
            w = self.pwrites.get(name, ())
            return ["pt" if i in w else None for i in range(len(args))]
        w = MUTATORS.get(name, ())
        if name not in MUTATORS and name not in READERS:
            for a in args:
                t = set(); self.guarded_refs(a, t)
                if t: self.unclassified.setdefault(name, set()).add(self.cur)
        return ["pt" if i in w else None for i in range(len(args))]

    def expr(self, e, m=None):
        """effects of evaluating an expression, in evaluation order. m = None: the value is only read;
        "lv": the object designated by e is modified; "pt": the object e points to is modified."""
        if not e or not isinstance(e, dict) or "kind" not in e: return ("skip",)
        k = e["kind"]
        if k in ("ImplicitCastExpr", "ParenExpr", "CStyleCastExpr", "ConstantExpr"):
            return self.seq([self.expr(c, m) for c in e.get("inner", []) if isinstance(c, dict)])
        if k == "CallExpr":
            inner = e.get("inner", [])
            callee = strip(inner[0])
            args = inner[1:]
            name = None; ckind = None
            if callee.get("kind") == "DeclRefExpr":
                name = callee["referencedDecl"].get("name"); ckind = callee["referencedDecl"].get("kind")
            if name in REFUSED: raise TranslatorError("unsupported primitive %s in %s" % (name, self.cur))
            if name in LOCK_FNS:
                ln = self.lock_arg(args[0])
                (self.rwlocks if "rwlock" in name else self.mutexes).add(ln)
                l = self.lock_id(ln)
                return ("acq", l, name != "pthread_rwlock_rdlock", e.get("_line", 0)) if LOCK_FNS[name] == "acq" else ("rel", l)
            modes = self.arg_modes(name, ckind, args)
            pre = [self.expr(a, modes[i]) for i, a in enumerate(args)]
            if name in POP_FNS and ckind == "FunctionDecl":
                for a in args:
                    sa = strip(a)
                    if sa.get("kind") == "DeclRefExpr" and sa["referencedDecl"].get("name") in WAIT_GLOBALS and self.is_global(sa["referencedDecl"]):
                        g = sa["referencedDecl"]["name"]; key = "wait:" + g
                        self.guard_of[key] = self.guard_of.get(g)
                        self.wait_sites.setdefault(key, set()).add(self.cur)
                        pre = pre + [self.acc(key, True, e)]
            if ckind == "FunctionDecl":
                if name in self.raw:
                    bargs = []
                    for a in args:
                        s = strip(a)
                        if s.get("kind") == "IntegerLiteral": bargs.append(s.get("value") != "0")
                        elif s.get("kind") == "CXXBoolLiteralExpr": bargs.append(bool(s.get("value")))
                        else: bargs.append(None)
                    for ck in (name, self.cur + ":" + name):
                        if ck in CALL_GUARDS:
                            key = "call:" + ck
                            self.guard_of[key] = CALL_GUARDS[ck]
                            pre = pre + [self.acc(key, True, e)]
                    post = []
                    if m is not None:    # the memory behind the returned pointer is modified
                        post = [self.acc(g, True, e) for g in sorted(self.retsum.get(name, ()))]
                    return self.seq(pre + [("call", name, tuple(bargs))] + post)
                return self.seq(pre)       # external library function
            if ckind == "VarDecl":      # static function pointer (read_byte / write_bytes)
                if name in self.guard_of and name not in self.cur_locals:
                    return self.seq(pre + [self.acc(name, False, e)])
                return self.seq(pre)
            if ckind == "ParmVarDecl":  # callback parameter: any function ever passed in that position
                idx = self.cur_params.index(name) if name in self.cur_params else -1
                tg = sorted(self.fp_targets.get((self.cur, idx), []))
                tg = [t for t in tg if t in self.raw]
                alt = ("skip",)
                for t in tg: alt = ("if", ("call", t, ()), alt)
                return self.seq(pre + [alt])
            # member / computed callee: evaluate it, no known target
            return self.seq([self.expr(inner[0])] + pre)
        if k == "DeclRefExpr":
            rd = e.get("referencedDecl", {})
            nm = rd.get("name")
            if rd.get("kind") == "VarDecl" and nm in self.guard_of and self.is_global(rd):
                return self.acc(nm, m is not None, e)
            if m == "pt":
                if rd.get("kind") == "VarDecl" and nm in self.taint:
                    return self.seq([self.acc(g, True, e) for g in sorted(self.taint[nm])])
                if rd.get("kind") == "ParmVarDecl" and nm in self.cur_params:
                    self.pwrites.setdefault(self.cur, set()).add(self.cur_params.index(nm))
            return ("skip",)
        if k in ("MemberExpr", "UnaryOperator", "ArraySubscriptExpr") and m is None and self.taint:
            isderef = (k == "MemberExpr" and e.get("isArrow")) or (k == "UnaryOperator" and e.get("opcode") == "*") or k == "ArraySubscriptExpr"
            b0 = strip(e["inner"][0]) if e.get("inner") else None
            if isderef and b0 and b0.get("kind") == "DeclRefExpr" and b0["referencedDecl"].get("name") in self.taint \
               and b0["referencedDecl"].get("kind") == "VarDecl":
                accs = [self.acc(g, False, e) for g in sorted(self.taint[b0["referencedDecl"]["name"]])]
                return self.seq(accs + [self.expr(c) for c in e.get("inner", [])[1:]])
        if k == "MemberExpr":
            base = strip(e["inner"][0]) if e.get("inner") else None
            if base and base.get("kind") == "DeclRefExpr" and base["referencedDecl"].get("name") == "bidib_track_state":
                key = "bidib_track_state." + e.get("name", "")
                if key in self.guard_of: return self.acc(key, m is not None, e)
                return ("skip",)
            if m is None: return self.seq([self.expr(c) for c in e.get("inner", [])])
            # x.f: part of the object x; p->f: part of the object p points to
            return self.expr(e["inner"][0], "pt" if e.get("isArrow") else "lv")
        if k == "ArraySubscriptExpr" and m is not None:
            return self.seq([self.expr(e["inner"][0], "pt"), self.expr(e["inner"][1])])
        if k == "UnaryOperator":
            op = e.get("opcode")
            if op in ("++", "--"):
                return self.seq([self.expr(e["inner"][0], "lv")] + ([self.expr(e["inner"][0], "pt")] if m == "pt" else []))
            if m is not None and op == "*": return self.expr(e["inner"][0], "pt")
            if m is not None and op == "&": return self.expr(e["inner"][0], "lv")
        if k == "CompoundAssignOperator":
            l, r = e["inner"]
            return self.seq([self.expr(l, "lv"), self.expr(r)])
        if k == "BinaryOperator" and e.get("opcode") == "=":
            l, r = e["inner"]
            return self.seq([self.expr(l, "lv"), self.expr(r)])
        if k == "BinaryOperator" and e.get("opcode") in ("&&", "||"):
            a, b = e["inner"]
            return self.seq([self.expr(a), ("if", self.expr(b), ("skip",))])
        if k == "BinaryOperator" and e.get("opcode") == ",":
            a, b = e["inner"]
            return self.seq([self.expr(a), self.expr(b, m)])
        if k == "BinaryOperator" and e.get("opcode") in ("+", "-") and m == "pt":
            a, b = e["inner"]
            return self.seq([self.expr(a, "pt"), self.expr(b)])
        if k == "ConditionalOperator":
            c, a, b = e["inner"]
            return self.seq([self.expr(c), ("if", self.expr(a, m), self.expr(b, m))])
        if k in ("StmtExpr",):
            return self.stmt(e["inner"][0])
        return self.seq([self.expr(c) for c in e.get("inner", []) if isinstance(c, dict)])

    def is_global(self, rd):
        return rd.get("name") not in self.cur_locals

    def stmt(self, s):
        if not s or not isinstance(s, dict) or "kind" not in s: return ("skip",)
        k = s["kind"]
        if k == "CompoundStmt":
            kids = s.get("inner", [])
            return self.seq([self.stmt(c) for c in kids])
        if k == "DeclStmt":
            out = []
            for d in s.get("inner", []):
                if d.get("kind") == "VarDecl":
                    if d.get("name") in self.guard_of and d.get("storageClass") != "static" and d.get("name") in ("buffer", "buffer_index"):
                        self.shadow = getattr(self, "shadow", set()); self.shadow.add((self.cur, d.get("name")))
                    for c in d.get("inner", []): out.append(self.expr(c))
            return self.seq(out)
        if k == "IfStmt":
            kids = s.get("inner", [])
            cond, th = kids[0], kids[1]
            el = kids[2] if len(kids) > 2 else None
            pi = self.param_index(cond); neg = False
            sc = strip(cond)
            if pi is None and sc.get("kind") == "UnaryOperator" and sc.get("opcode") == "!":
                pi = self.param_index(sc["inner"][0]); neg = True
            a = self.stmt(th); b = self.stmt(el) if el else ("skip",)
            if pi is not None:
                return ("ifp", pi, b, a) if neg else ("ifp", pi, a, b)
            return self.seq([self.expr(cond), ("if", a, b)])
        if k == "WhileStmt":
            cond, body = s["inner"][0], s["inner"][-1]
            c = self.expr(cond)
            return self.seq([("loop", self.seq([c, self.stmt(body)])), c])
        if k == "DoStmt":
            body, cond = s["inner"][0], s["inner"][1]
            return ("loop", self.seq([self.stmt(body), self.expr(cond)]))
        if k == "ForStmt":
            kids = s["inner"]
            init, cond, inc, body = kids[0], kids[2], kids[3], kids[4]
            c = self.expr(cond) if cond and "kind" in cond else ("skip",)
            i0 = self.stmt(init) if init and "kind" in init and init["kind"] in ("DeclStmt", "CompoundStmt") else self.expr(init)
            return self.seq([i0, ("loop", self.seq([c, self.stmt(body), self.expr(inc)])), c])
        if k == "SwitchStmt":
            cond, body = s["inner"][0], s["inner"][-1]
            segs = []     # list of lists of stmts; a new segment starts at each label
            def add_labelled(node):
                # CaseStmt / DefaultStmt nest: case A: case B: stmt
                segs.append([])
                sub = node["inner"][-1]
                if sub.get("kind") in ("CaseStmt", "DefaultStmt"): add_labelled(sub)
                else: segs[-1].append(self.stmt(sub))
            for c in body.get("inner", []):
                if c.get("kind") in ("CaseStmt", "DefaultStmt"): add_labelled(c)
                else:
                    if not segs: segs.append([])
                    segs[-1].append(self.stmt(c))
            segs = [self.seq(x) for x in segs]
            def ends(st):
                while st[0] == "seq": st = st[2]
                return st[0] in ("brk", "ret", "cont")
            alt = ("skip",)
            for i in range(len(segs) - 1, -1, -1):
                chain = []
                for j in range(i, len(segs)):
                    chain.append(segs[j])
                    if ends(segs[j]): break
                alt = ("if", self.seq(chain), alt)
            return self.seq([self.expr(cond), ("catch", alt)])
        if k == "ReturnStmt":
            return self.seq([self.expr(c) for c in s.get("inner", [])] + [("ret",)])
        if k == "BreakStmt": return ("brk",)
        if k == "ContinueStmt": return ("cont",)
        if k in ("GotoStmt", "LabelStmt", "IndirectGotoStmt"):
            raise TranslatorError("goto/label in %s is outside the translated subset" % self.cur)
        if k == "NullStmt": return ("skip",)
        if k in ("CaseStmt", "DefaultStmt"):
            raise TranslatorError("case label outside a switch body in %s" % self.cur)
        return self.expr(s)

# ---------------------------------------------------------------- Python mirror of LockLang.exec (diagnosis + ranks)
class Analysis:
    """H is a sorted tuple of (lock id, exclusive?) pairs, as LockLang.held"""
    def __init__(self, tr):
        self.tr = tr; self.memo = {}; self.pairs = {}; self.errors = []; self.depth = 0; self.maxdepth = 0
        self.stack = []
        self.acc_stats = {}      # (guard lock, access mode, how the guard is held) -> number of checked (context, site) pairs
    def err(self, what, **extra):
        d = {"what": what, "chain": list(self.stack)}
        d.update(extra)
        self.errors.append(d)
    def merge(self, a, b, where):
        if a is None: return b
        if b is None: return a
        if a != b:
            self.err("different lock sets meet at %s: %s vs %s" % (where, self.names(a), self.names(b)))
        return a
    def lname(self, h):
        n = self.tr.locks[h[0]]
        return n + ("(wr)" if h[1] else "(rd)") if n in self.tr.rwlocks else n
    def names(self, H): return [self.lname(h) for h in H]
    def merge_out(self, x, y, where):
        return tuple(self.merge(x[i], y[i], where) for i in range(4))
    def run(self, s, H, penv):
        k = s[0]
        if k == "skip": return (H, None, None, None)
        if k == "acq":
            l = s[1]
            if any(h[0] == l for h in H): self.err("lock %s acquired while already held" % self.tr.locks[l])
            for h in H: self.pairs.setdefault((h[0], l), list(self.stack))
            return (tuple(sorted(H + ((l, bool(s[2])),))), None, None, None)
        if k == "rel":
            l = s[1]
            hit = [h for h in H if h[0] == l]
            if not hit:
                self.err("lock %s released but not held" % self.tr.locks[l]); return (H, None, None, None)
            HL = list(H); HL.remove(hit[0]); return (tuple(HL), None, None, None)
        if k == "acc":
            g = self.tr.globals[s[1]]; l = self.tr.guard_of.get(g); wr = bool(s[2])
            if l is not None:
                lid = self.tr.lock_id(l)
                hit = [h for h in H if h[0] == lid]
                fn = self.stack[-1] if self.stack else "?"
                info = {"function": fn, "file": os.path.relpath(self.tr.fns[fn].file, self.tr.repo) if fn in self.tr.fns else "?",
                        "line": s[3] if self.tr.lines_ok else 0, "global": g, "guard": l,
                        "mode": "write" if wr else "read", "held": self.names(H)}
                st = (l, "write" if wr else "read", "not held" if not hit else ("exclusive" if hit[0][1] else "shared"))
                self.acc_stats[st] = self.acc_stats.get(st, 0) + 1
                if not hit:
                    self.err("access to %s without holding %s" % (g, l), kind="guard", **info)
                elif wr and not hit[0][1]:
                    self.err("access to %s (write) with %s held only shared (rdlock) in %s" % (g, l, fn), kind="rw", **info)
            return (H, None, None, None)
        if k == "call":
            return self.call(s[1], s[2], H)
        if k == "seq":
            oa = self.run(s[1], H, penv)
            if oa[0] is None: return oa
            ob = self.run(s[2], oa[0], penv)
            return self.merge_out((None, oa[1], oa[2], oa[3]), ob, "sequence")
        if k == "if":
            return self.merge_out(self.run(s[1], H, penv), self.run(s[2], H, penv), "if/else join in " + (self.stack[-1] if self.stack else "?"))
        if k == "ifp":
            v = penv[s[1]] if s[1] < len(penv) else None
            if v is True: return self.run(s[2], H, penv)
            if v is False: return self.run(s[3], H, penv)
            return self.merge_out(self.run(s[2], H, penv), self.run(s[3], H, penv), "if(param) join in " + (self.stack[-1] if self.stack else "?"))
        if k == "loop":
            ob = self.run(s[1], H, penv)
            for x, nm in ((ob[0], "end of loop body"), (ob[2], "continue"), (ob[1], "break")):
                if x is not None and x != H: self.err("loop %s with locks %s, entered with %s" % (nm, self.names(x), self.names(H)))
            return (H, None, None, ob[3])
        if k == "catch":
            oa = self.run(s[1], H, penv)
            return (self.merge(oa[0], oa[1], "end of switch in " + (self.stack[-1] if self.stack else "?")), None, oa[2], oa[3])
        if k == "ret": return (None, None, None, H)
        if k == "brk": return (None, H, None, None)
        if k == "cont": return (None, None, H, None)
        raise TranslatorError("bad IR " + str(k))
    def call(self, f, args, H):
        key = (f, args, H)
        if key in self.memo: return self.memo[key]
        if f in self.stack: raise TranslatorError("recursion through %s" % f)
        self.stack.append(f); self.maxdepth = max(self.maxdepth, len(self.stack))
        fn = self.tr.fns[f]
        penv = list(args) + [None] * (len(fn.params) - len(args))
        o = self.run(fn.body, H, penv)
        if o[1] is not None or o[2] is not None: self.err("break/continue escapes %s" % f)
        n = self.merge(o[0], o[3], "function end/return of " + f)
        self.stack.pop()
        res = (n, None, None, None)
        self.memo[key] = res
        return res

WITNESS_CHOICES = 8     # must equal the number of choices searched in coq/LockProofs.v (witness ... 8 ...)

def gen_path(tr, f, args, ch):
    """Python mirror of LockWitness.gen_call: the path of function f selected by the branch choices ch
    (consumed left to right; exhausted = False). Returns (actions, remaining choices) or None."""
    def pop(ch): return (ch[0], ch[1:]) if ch else (False, ch)
    def st(s, penv, ch):
        k = s[0]
        if k == "skip": return ([], "n", ch)
        if k == "acq": return ([("acq", s[1], bool(s[2]))], "n", ch)
        if k == "rel": return ([("rel", s[1])], "n", ch)
        if k == "acc": return ([("acc", s[1], eff_write(tr, s))], "n", ch)
        if k == "call":
            r = call(s[1], s[2], ch)
            return None if r is None else (r[0], "n", r[1])
        if k == "seq":
            a = st(s[1], penv, ch)
            if a is None or a[1] != "n": return a
            b = st(s[2], penv, a[2])
            return None if b is None else (a[0] + b[0], b[1], b[2])
        if k == "if":
            c, ch1 = pop(ch)
            return st(s[1] if c else s[2], penv, ch1)
        if k == "ifp":
            v = penv[s[1]] if s[1] < len(penv) else None
            if v is True: return st(s[2], penv, ch)
            if v is False: return st(s[3], penv, ch)
            c, ch1 = pop(ch)
            return st(s[2] if c else s[3], penv, ch1)
        if k == "loop":
            c, ch1 = pop(ch)
            if not c: return ([], "n", ch1)
            b = st(s[1], penv, ch1)
            if b is None: return None
            return (b[0], "r" if b[1] == "r" else "n", b[2])
        if k == "catch":
            a = st(s[1], penv, ch)
            if a is None: return None
            return (a[0], "n", a[2]) if a[1] == "b" else a
        if k == "ret": return ([], "r", ch)
        if k == "brk": return ([], "b", ch)
        if k == "cont": return ([], "c", ch)
        raise TranslatorError("bad IR " + str(k))
    def call(f, args, ch):
        r = st(tr.fns[f].body, list(args), ch)
        if r is None or r[1] not in ("n", "r"): return None
        return (r[0], r[2])
    return call(f, args, ch)

ATOMIC_CHOICES = 12     # must equal the number of choices searched in coq/LockAtomicC08.v / LockAtomicC10.v
# functions whose concrete paths witness the atomicity theorems (non-vacuity examples)
ATOMIC_EX = [("ex_c08_writer", "bidib_state_bm_occ"), ("ex_c08_reader", "bidib_get_train_state"),
             ("ex_c10_a", "bidib_set_train_peripheral"), ("ex_c10_b", "bidib_set_train_speed")]

def find_witness_path(tr, f, target, nchoices=WITNESS_CHOICES):
    """first choice list (in the order of LockWitness.choice_lists) whose path contains the action"""
    import itertools
    for ch in itertools.product([True, False], repeat=nchoices):
        r = gen_path(tr, f, (), list(ch))
        if r is not None and target in r[0]: return r[0]
    return None

# ---------------------------------------------------------------- single-hold facts (atomicity, LockAtomic.v)
SEG = "bidib_track_state.segments"; TRN = "bidib_track_state.trains"
# (table, function, lock, the hold must be exclusive, globals): on every path of the function all accesses to the
# globals lie inside ONE hold interval of the lock (no release and re-acquisition in between)
SINGLE_HOLD = [
    # C08: the occupancy setters run on the receiver thread: segment update and the derived train data in one hold
    ("c08_writer", "bidib_state_bm_occ", "trackstate_segments_mutex", True, (SEG, TRN)),
    ("c08_writer", "bidib_state_bm_occ", "trackstate_trains_mutex", True, (SEG, TRN)),
    ("c08_writer", "bidib_state_bm_multiple", "trackstate_segments_mutex", True, (SEG, TRN)),
    ("c08_writer", "bidib_state_bm_multiple", "trackstate_trains_mutex", True, (SEG, TRN)),
    ("c08_writer", "bidib_state_bm_address", "trackstate_segments_mutex", True, (SEG, TRN)),
    ("c08_writer", "bidib_state_bm_address", "trackstate_trains_mutex", True, (SEG, TRN)),
    # C08: the getters read inside one hold
    ("c08_reader", "bidib_get_train_position", "trackstate_segments_mutex", False, (SEG, TRN)),
    ("c08_reader", "bidib_get_train_position", "trackstate_trains_mutex", False, (SEG, TRN)),
    ("c08_reader", "bidib_get_train_state", "trackstate_trains_mutex", False, (TRN,)),
    ("c08_reader", "bidib_get_train_on_track", "trackstate_trains_mutex", False, (TRN,)),
    ("c08_reader", "bidib_get_segment_state", "trackstate_segments_mutex", False, (SEG,)),
    # C10: read-modify-write commands on a train: read of the tracked bits/speed ... store of the new ones inside
    # one EXCLUSIVE hold of the train list lock
    ("c10_rmw", "bidib_set_train_peripheral", "bidib_trains_rwlock", True, (TRN,)),
    ("c10_rmw", "bidib_set_train_speed", "bidib_trains_rwlock", True, (TRN,)),
    ("c10_rmw", "bidib_set_calibrated_train_speed", "bidib_trains_rwlock", True, (TRN,)),
    ("c10_rmw", "bidib_emergency_stop_train", "bidib_trains_rwlock", True, (TRN,)),
    # C10: everything the receiver thread does for one uplink message (MSG_CS_DRIVE*, occupancy, speed, ...) and the
    # low-level bidib_send_cs_drive touch the train states inside one hold (shared is enough) of the same lock,
    # so they are serialised against each of the commands above
    ("c10_other", "bidib_handle_received_message", "bidib_trains_rwlock", False, (TRN,)),
    ("c10_other", "bidib_send_cs_drive", "bidib_trains_rwlock", False, (TRN,)),
]
SH_NAMES = {"out": "outside any%s hold of %s", "in": "inside the hold", "used": "inside the hold (accessed)", "done": "after the hold of %s that contains the earlier accesses was released"}

class ShFail(Exception):
    def __init__(self, info): self.info = info

class SingleHold:
    """Python mirror of LockAtomic.aexec/acall for the single-hold automaton (diagnosis only)."""
    def __init__(self, tr, lock, excl, gs):
        self.tr = tr; self.l = tr.lock_id(lock); self.lock = lock; self.excl = excl
        self.gs = set(tr.glob_id(g) for g in gs); self.stack = []
    def step(self, S, s):
        out = set()
        k = s[0]
        for st in S:
            isgs = k == "acc" and s[1] in self.gs
            isrel = k == "rel" and s[1] == self.l
            isacq = k == "acq" and s[1] == self.l and (bool(s[2]) or not self.excl)
            if st == "out":
                if isgs: self.fail(s, st)
                out.add("in" if isacq else "out")
            elif st == "in": out.add("used" if isgs else ("out" if isrel else "in"))
            elif st == "used": out.add("done" if isrel else "used")
            else:
                if isgs: self.fail(s, st)
                out.add("done")
        return frozenset(out)
    def fail(self, s, st):
        fn = self.stack[-1] if self.stack else "?"
        how = (SH_NAMES[st] % ((" exclusive" if self.excl else ""), self.lock)) if st == "out" else (SH_NAMES[st] % self.lock)
        raise ShFail({"function": fn, "file": os.path.relpath(self.tr.fns[fn].file, self.tr.repo) if fn in self.tr.fns else "?",
                      "line": s[3] if getattr(self.tr, "lines_ok", False) else 0, "global": self.tr.globals[s[1]], "lock": self.lock,
                      "exclusive": self.excl, "state": how, "chain": list(self.stack)})
    E = frozenset()
    def run(self, s, S, penv):
        k = s[0]; E = self.E
        if k == "skip": return (S, E, E, E)
        if k in ("acq", "rel", "acc"): return (self.step(S, s), E, E, E)
        if k == "call": return (self.call(s[1], s[2], S), E, E, E)
        if k == "seq":
            a = self.run(s[1], S, penv); b = self.run(s[2], a[0], penv)
            return (b[0], a[1] | b[1], a[2] | b[2], a[3] | b[3])
        if k == "if":
            a = self.run(s[1], S, penv); b = self.run(s[2], S, penv)
            return tuple(a[i] | b[i] for i in range(4))
        if k == "ifp":
            v = penv[s[1]] if s[1] < len(penv) else None
            if v is True: return self.run(s[2], S, penv)
            if v is False: return self.run(s[3], S, penv)
            a = self.run(s[2], S, penv); b = self.run(s[3], S, penv)
            return tuple(a[i] | b[i] for i in range(4))
        if k == "loop":
            I = S
            for _ in range(8):
                ob = self.run(s[1], I, penv); I = ob[0] | ob[2] | I
            ob = self.run(s[1], I, penv)
            if not (ob[0] <= I and ob[2] <= I): raise TranslatorError("single-hold loop invariant not reached")
            return (I | ob[1], E, E, ob[3])
        if k == "catch":
            a = self.run(s[1], S, penv); return (a[0] | a[1], E, a[2], a[3])
        if k == "ret": return (E, E, E, S)
        if k == "brk": return (E, S, E, E)
        if k == "cont": return (E, E, S, E)
        raise TranslatorError("bad IR " + str(k))
    def call(self, f, args, S):
        if f in self.stack: raise TranslatorError("recursion through %s" % f)
        self.stack.append(f)
        o = self.run(self.tr.fns[f].body, S, list(args))
        self.stack.pop()
        return o[0] | o[3]
    def check(self, f):
        """None when the fact holds, else a diagnosis"""
        self.stack = []
        try:
            fin = self.call(f, (), frozenset(["out"]))
        except ShFail as e:
            return e.info
        bad = fin - {"out", "done"}
        if bad:
            return {"function": f, "file": os.path.relpath(self.tr.fns[f].file, self.tr.repo), "line": 0, "global": "-", "lock": self.lock, "exclusive": self.excl,
                    "state": "the function can return while still holding %s" % self.lock, "chain": [f]}
        return None

# ---------------------------------------------------------------- no lock of the receiver held at a wait point (LockWait.v)
def rx_acquisitions(tr):
    """every (lock, exclusive?) the receiver thread main can acquire on any path (syntactic closure over calls)"""
    seen = set(); acq = set(); todo = [RX_MAIN]
    def walk(ir):
        if ir[0] == "acq": acq.add((ir[1], bool(ir[2])))
        elif ir[0] == "call": todo.append(ir[1])
        for x in ir[1:]:
            if isinstance(x, tuple) and x and isinstance(x[0], str): walk(x)
    while todo:
        f = todo.pop()
        if f in seen or f not in tr.fns: continue
        seen.add(f); walk(tr.fns[f].body)
    return sorted(acq), seen

class NoWait(SingleHold):
    """Python mirror of the no-wait automaton of LockWait.v (diagnosis only): the state is the set of (lock, mode)
    acquired and not yet released on the path; at a wait marker no held (lock, mode) may be forbidden"""
    def __init__(self, tr, forbidden, waits):
        self.tr = tr; self.forb = set(forbidden); self.waits = set(waits); self.stack = []; self.memo = {}
    def step(self, S, s):
        out = set(); k = s[0]
        for st in S:
            if k == "acq": out.add(tuple(sorted(set(st) | {(s[1], bool(s[2]))})))
            elif k == "rel": out.add(tuple(x for x in st if x[0] != s[1]))
            elif k == "acc" and s[1] in self.waits and any(x in self.forb for x in st):
                fn = self.stack[-1] if self.stack else "?"
                raise ShFail({"function": fn, "file": os.path.relpath(self.tr.fns[fn].file, self.tr.repo) if fn in self.tr.fns else "?",
                              "line": s[3] if getattr(self.tr, "lines_ok", False) else 0, "wait": self.tr.globals[s[1]],
                              "held": [x for x in st if x in self.forb], "chain": list(self.stack)})
            else: out.add(st)
        return frozenset(out)
    def call(self, f, args, S):
        key = (f, args, S)
        if key in self.memo: return self.memo[key]
        r = SingleHold.call(self, f, args, S)
        self.memo[key] = r
        return r
    def check(self, f):
        self.stack = []
        try: self.call(f, (), frozenset([()]))
        except ShFail as e: return e.info
        return None

def wait_forbidden(rx, wmx):
    """(lock, held mode) that must not be held at a wait point: held exclusively and the receiver takes the lock at
    all, or held shared and the receiver takes it exclusively; never the wait queue's own mutex"""
    f = set()
    for (l, w) in rx:
        if l in wmx: continue
        f.add((l, True))
        if w: f.add((l, False))
    return sorted(f)

def no_wait_facts(tr, entries):
    rx, rx_fns = rx_acquisitions(tr)
    waits = [tr.glob_id(g) for g in sorted(tr.wait_sites)]
    wmx = sorted(set(tr.lock_id(tr.guard_of[g]) for g in tr.wait_sites if tr.guard_of.get(g)))
    full = wait_forbidden(rx, wmx)
    def mode(l, w): return tr.locks[l] + (("(wr)" if w else "(rd)") if tr.locks[l] in tr.rwlocks else "")
    viol = []; seen = set()
    chk0 = NoWait(tr, full, waits)      # shared over the entries (memoised contexts)
    found = []
    for e in entries:
        cur = set(full)
        for rnd in range(8):            # a run stops at its first violation: drop what was found and look for further ones
            why = (chk0 if rnd == 0 else NoWait(tr, sorted(cur), waits)).check(e)
            if why is None: break
            cur -= set(why["held"]); found.append((e, why))
    for e, why in found:
        for (lid, w) in why["held"]:
            holder = why["chain"][0]; hline = 0
            for fn in why["chain"]:
                hit = []
                def wk(ir):
                    if ir[0] == "acq" and ir[1] == lid: hit.append(ir[3])
                    for x in ir[1:]:
                        if isinstance(x, tuple) and x and isinstance(x[0], str) and ir[0] != "call": wk(x)
                wk(tr.fns[fn].body)
                if hit: holder = fn; hline = hit[0]
            k = (holder, lid, w)
            if k in seen: continue
            seen.add(k)
            needs = sorted(set(mode(l2, w2) for (l2, w2) in rx if l2 == lid and (w or w2)))
            viol.append({"entry": e, "function": holder, "file": os.path.relpath(tr.fns[holder].file, tr.repo), "line": hline if tr.lines_ok else 0,
                         "lock": tr.locks[lid], "held_exclusive": w,
                         "wait_in": why["function"], "wait_file": why["file"], "wait_line": why["line"], "wait": why["wait"], "chain": why["chain"],
                         "receiver_acquires": needs,
                         "what": "wait holding a receiver lock: %s (%s:%s) holds %s while %s (%s:%s) polls for a message only the receiver thread can queue; the receiver acquires %s in some handlers, so a spontaneous message of such a type blocks the receiver and the wait never ends"
                                 % (holder, os.path.relpath(tr.fns[holder].file, tr.repo), hline, mode(lid, w), why["function"], why["file"], why["line"], ", ".join(needs))})
    return ({"rx_main": RX_MAIN, "rx_acquisitions": [mode(l, w) for l, w in rx], "rx_functions": len(rx_fns),
             "wait_markers": {g: sorted(v) for g, v in tr.wait_sites.items()}, "wait_mutexes": [tr.locks[l] for l in wmx],
             "forbidden_at_wait": sorted(set(mode(l, w) for l, w in full if w or tr.locks[l] in tr.rwlocks)),
             "entries_checked": len(entries), "violations": viol}, rx, waits, wmx)

def getter_facts(tr, pub):
    """C10, 'every getter result is a state that existed at some instant': for every public getter and every lock that guards
    something the getter touches (transitively), all its accesses to the data under that lock lie inside ONE hold of the lock
    (a two-pass getter that releases the lock between counting and copying fails this)"""
    rows = []
    for f in pub:
        if not f.startswith("bidib_get_"): continue
        by_lock = {}
        for gi in sorted(tr.accsum.get(f, ())):
            g = tr.globals[gi]; l = tr.guard_of.get(g)
            # the tracked state and the board / train tables (not the transmission side a few "getters" use to send a query)
            if l and not g.startswith(("call:", "wait:")) and (l.startswith("trackstate_") or l in ("bidib_boards_rwlock", "bidib_trains_rwlock")):
                by_lock.setdefault(l, []).append(g)
        for l, gs in sorted(by_lock.items()): rows.append(("c10_getter", f, l, False, tuple(gs)))
    return rows

def single_hold_facts(tr, pub=()):
    out = []
    for tab, f, lock, excl, gs in SINGLE_HOLD + getter_facts(tr, pub):
        if f not in tr.fns: raise TranslatorError("single-hold fact names function %s, which the source no longer defines" % f)
        for g in gs:
            if g not in tr.guard_of: raise TranslatorError("single-hold fact names global %s, which has no guard" % g)
        why = SingleHold(tr, lock, excl, gs).check(f)
        d = {"table": tab, "function": f, "lock": lock, "exclusive": excl, "globals": list(gs), "ok": why is None}
        if why is not None:
            d["why"] = why
            d["what"] = "single hold: %s accesses %s %s (in %s, %s:%s): not all accesses to %s on every path of %s lie inside one%s hold of %s" % (
                f, why["global"], why["state"], why["function"], why["file"], why["line"], "/".join(gs), f, " exclusive" if excl else "", lock)
        out.append(d)
    return out

def directed_choices(tr, f, interesting_ir, pred, budget=20000):
    """choice list (LockWitness.gen_call order) of a path of f satisfying pred, found by enumerating paths lazily and
    branching only where a branch can reach something interesting (an IR node accepted by interesting_ir, directly or
    through calls); loops run zero or one time. None when the budget is exhausted."""
    reach = {}
    def fn_int(g, stack=()):
        if g in reach: return reach[g]
        if g in stack or g not in tr.fns: return False
        reach[g] = None
        r = st_int(tr.fns[g].body, stack + (g,))
        reach[g] = r
        return r
    def st_int(ir, stack=()):
        if interesting_ir(ir): return True
        if ir[0] == "call": return bool(fn_int(ir[1], stack))
        return any(st_int(x, stack) for x in ir[1:] if isinstance(x, tuple) and x and isinstance(x[0], str))
    def gen(ir, penv):
        k = ir[0]
        if k == "skip": yield ([], "n", []); return
        if k == "acq": yield ([("acq", ir[1], bool(ir[2]))], "n", []); return
        if k == "rel": yield ([("rel", ir[1])], "n", []); return
        if k == "acc": yield ([("acc", ir[1], eff_write(tr, ir))], "n", []); return
        if k == "call":
            for p, e, c in gen(tr.fns[ir[1]].body, list(ir[2])):
                if e in ("n", "r"): yield (p, "n", c)
            return
        if k == "seq":
            for p, e, c in gen(ir[1], penv):
                if e != "n": yield (p, e, c); continue
                for q, e2, c2 in gen(ir[2], penv): yield (p + q, e2, c + c2)
            return
        if k in ("if", "ifp"):
            a, b = (ir[1], ir[2]) if k == "if" else (ir[2], ir[3])
            if k == "ifp":
                v = penv[ir[1]] if ir[1] < len(penv) else None
                if v is True: yield from gen(a, penv); return
                if v is False: yield from gen(b, penv); return
            ia, ib = st_int(a), st_int(b)
            order = [(True, a), (False, b)] if ia or not ib else [(False, b), (True, a)]
            if not ia and not ib: order = [(False, b)]
            for cv, br in order:
                for p, e, c in gen(br, penv): yield (p, e, [cv] + c)
            return
        if k == "loop":
            if st_int(ir[1]):
                for p, e, c in gen(ir[1], penv): yield (p, "r" if e == "r" else "n", [True] + c)
            yield ([], "n", [False]); return
        if k == "catch":
            for p, e, c in gen(ir[1], penv): yield (p, "n" if e == "b" else e, c)
            return
        if k == "ret": yield ([], "r", []); return
        if k == "brk": yield ([], "b", []); return
        if k == "cont": yield ([], "c", []); return
        raise TranslatorError("bad IR " + str(k))
    n = 0
    for p, e, c in gen(tr.fns[f].body, []):
        n += 1
        if e in ("n", "r") and pred(p):
            r = gen_path(tr, f, (), list(c))          # must agree with the mirror of LockWitness.gen_call
            if r is not None and r[0] == p:
                while c and not c[-1]: c.pop()
                return c
        if n > budget: return None
    return None

def eff_write(tr, s):
    """mode emitted for an access: data guarded by a mutex has a single mode (every access needs the
    mutex, which is always exclusive); data guarded by an rwlock keeps the syntactic read/write mode"""
    l = tr.guard_of.get(tr.globals[s[1]])
    return True if l not in tr.rwlocks else bool(s[2])

def coq_stmt(tr, fid, s):
    k = s[0]
    if k == "skip": return "Skip"
    if k == "acq": return "(Acq %d %s)" % (s[1], "true" if s[2] else "false")
    if k == "rel": return "(Rel %d)" % s[1]
    if k == "acc": return "(Access %d %s)" % (s[1], "true" if eff_write(tr, s) else "false")
    if k == "call":
        args = "[" + "; ".join("None" if a is None else ("Some true" if a else "Some false") for a in s[2]) + "]"
        return "(Call %d %s)" % (fid[s[1]], args)
    if k == "seq": return "(Seq %s %s)" % (coq_stmt(tr, fid, s[1]), coq_stmt(tr, fid, s[2]))
    if k == "if": return "(If %s %s)" % (coq_stmt(tr, fid, s[1]), coq_stmt(tr, fid, s[2]))
    if k == "ifp": return "(IfP %d %s %s)" % (s[1], coq_stmt(tr, fid, s[2]), coq_stmt(tr, fid, s[3]))
    if k == "loop": return "(Loop %s)" % coq_stmt(tr, fid, s[1])
    if k == "catch": return "(Catch %s)" % coq_stmt(tr, fid, s[1])
    return {"ret": "Return", "brk": "Break", "cont": "Continue"}[k]

def public_names(repo):
    names = set()
    for h in glob.glob(os.path.join(repo, "include/**/*.h"), recursive=True):
        txt = open(h, errors="replace").read()
        txt = re.sub(r'/\*.*?\*/', '', txt, flags=re.S)
        for m in re.finditer(r'\b(bidib_\w+|syslog_libbidib)\s*\(', txt): names.add(m.group(1))
    return names

def generate(repo):
    sys.setrecursionlimit(100000)
    tr = Translator(repo); tr.load()
    names = sorted(tr.fns)
    fid = {n: i for i, n in enumerate(names)}
    pub = sorted(n for n in public_names(repo) if n in tr.fns)
    mains = [m for m in THREAD_MAINS if m in tr.fns]
    if len(mains) != len(THREAD_MAINS): raise TranslatorError("thread main functions not found: %s" % (set(THREAD_MAINS) - set(mains)))
    if len(pub) < 100: raise TranslatorError("only %d public functions found" % len(pub))
    # make sure every lock mentioned as a guard has an id
    for g, l in tr.guard_of.items(): tr.lock_id(l)
    both = tr.rwlocks & tr.mutexes
    if both: raise TranslatorError("lock(s) %s used both as mutex and as rwlock" % sorted(both))
    # line numbers (diagnostics only): trusted when every acquire's line in the source text names a pthread lock call
    def walk_ir(ir, f):
        f(ir)
        for x in ir[1:]:
            if isinstance(x, tuple) and x and isinstance(x[0], str): walk_ir(x, f)
    tr.lines_ok = True
    for n, fn in tr.fns.items():
        src = open(fn.file, errors="replace").read().splitlines()
        def chk(ir):
            if ir[0] == "acq" and not (0 < ir[3] <= len(src) and "pthread_" in src[ir[3] - 1]): tr.lines_ok = False
        walk_ir(fn.body, chk)
    # access sites per guard / global / mode (syntactic classification, before the single mode of mutex-guarded data)
    sites = {}
    def cnt(ir):
        if ir[0] == "acc":
            g = tr.globals[ir[1]]; l = tr.guard_of.get(g)
            d = sites.setdefault(l, {}).setdefault(g, {"read": 0, "write": 0})
            d["write" if ir[2] else "read"] += 1
    for n, fn in tr.fns.items(): walk_ir(fn.body, cnt)
    # witnesses for the non-vacuity example: a function that writes rwlock-guarded data under its own
    # write lock, and a public function that reads the same global under its own read lock
    def direct(fn, pred):
        hit = []
        walk_ir(tr.fns[fn].body, lambda ir: hit.append(ir) if pred(ir) else None)
        return hit
    ex = None; ex_paths = None
    cands = ["bidib_state_node_new"] + sorted(tr.fns)
    def accepted_alone(fn):
        a2 = Analysis(tr)
        try: o = a2.call(fn, (), ())
        except TranslatorError: return False
        return not a2.errors and o[0] in (None, ())
    for w in cands:
        if w not in tr.fns or ex: continue
        for a in direct(w, lambda ir: ir[0] == "acc" and ir[2] and tr.guard_of.get(tr.globals[ir[1]]) in tr.rwlocks):
            l = tr.lock_id(tr.guard_of[tr.globals[a[1]]])
            if not direct(w, lambda ir: ir[0] == "acq" and ir[1] == l and ir[2]): continue
            if not accepted_alone(w): continue
            pw = find_witness_path(tr, w, ("acc", a[1], True))
            if pw is None: continue
            for r in [x for x in pub if x not in NOT_THREADSAFE]:
                if direct(r, lambda ir: ir[0] == "acq" and ir[1] == l and not ir[2]) and direct(r, lambda ir: ir[0] == "acc" and ir[1] == a[1] and not ir[2]) \
                   and not direct(r, lambda ir: ir[0] == "acq" and ir[1] == l and ir[2]) and accepted_alone(r):
                    pr = find_witness_path(tr, r, ("acc", a[1], False))
                    if pr is None: continue
                    ex = (w, r, a[1], l); ex_paths = (pw, pr); break
            if ex: break
    # witnesses for the atomicity examples: a path with an access to the train-state table for each named function
    atom_ok = TRN in tr.globals
    atom_target = ("acc", tr.glob_id(TRN), True) if atom_ok else None
    for _, fn in ATOMIC_EX:
        if not atom_ok: break
        if fn not in tr.fns or not accepted_alone(fn) or find_witness_path(tr, fn, atom_target, ATOMIC_CHOICES) is None: atom_ok = False
    ex_present = ex is not None      # no witness is not an alarm: the example degrades to "no witness" and the check says so
    if ex is None: ex = (names[0], names[0], 0, 0)
    an = Analysis(tr)
    per_entry = {}
    # thread-safe entries and thread mains first: a context is analysed (and its errors recorded) once, for the
    # first entry that reaches it, so the entries the C10 facts are about must not be masked by start/stop/reset
    ts_first = [n for n in pub if n not in NOT_THREADSAFE] + mains
    stats_ts = None
    for e in ts_first + [n for n in pub if n in NOT_THREADSAFE]:
        if stats_ts is None and e in NOT_THREADSAFE: stats_ts = dict(an.acc_stats)
        before = len(an.errors)
        an.stack = []
        o = an.call(e, (), ())
        if o[0] not in (None, ()): an.errors.append({"what": "%s returns holding %s" % (e, an.names(o[0])), "chain": [e]})
        per_entry[e] = an.errors[before:]
    # ranks: topological order of observed nesting pairs (held -> acquired)
    nl = len(tr.locks)
    succ = {i: set() for i in range(nl)}
    for (h, l) in an.pairs: succ[h].add(l)
    order = []; state = {}
    cyc = []
    def visit(u, path):
        if state.get(u) == 2: return
        if state.get(u) == 1:
            cyc.append([tr.locks[x] for x in path[path.index(u):] + [u]]); return
        state[u] = 1
        for v in sorted(succ[u]): visit(v, path + [u])
        state[u] = 2; order.append(u)
    for u in range(nl): visit(u, [])
    order.reverse()
    rank = [0] * nl
    for pos, u in enumerate(order): rank[u] = pos + 1
    guard_tab = []
    for g in tr.globals:
        l = tr.guard_of.get(g); guard_tab.append("Some %d" % tr.lock_id(l) if l else "None")
    L = ["(* GENERATED by translator/gen_lockcfg.py from the repository source. Do not edit. *)",
         "From Coq Require Import List.", "From LB Require Import LockLang.", "Import ListNotations.", ""]
    L.append("(* locks: " + "; ".join("%d=%s" % (i, n) for i, n in enumerate(tr.locks)) + " *)")
    L.append("Definition rank_tab : list nat := [%s]." % "; ".join(str(r) for r in rank))
    L.append("Definition rank (l : nat) : nat := nth l rank_tab 0.")
    L.append("(* guarded globals: " + "; ".join("%d=%s" % (i, n) for i, n in enumerate(tr.globals)) + " *)")
    L.append("Definition guard_tab : list (option nat) := [%s]." % "; ".join(guard_tab))
    L.append("Definition guard (g : nat) : option nat := nth g guard_tab None.")
    # the receiver-filled queues: guarded on EVERY entry (also the ones documented as not thread-safe), because the
    # library's own receiver thread uses them whatever the application does
    L.append("Definition running_entries : list nat := [%s]." % "; ".join(str(fid[n]) for n in pub if n not in ("bidib_start_pointer", "bidib_start_serial")))
    L.append("Definition queue_globals : list nat := [%s]." % "; ".join(str(i) for i, n in enumerate(tr.globals) if n.startswith("uplink_") or n.startswith("wait:uplink_")))
    for n in names:
        L.append("Definition fn_%d : stmt := (* %s *)\n  %s." % (fid[n], n, coq_stmt(tr, fid, tr.fns[n].body)))
    L.append("Definition body_tab : list (option stmt) := [%s]." % "; ".join("Some fn_%d" % fid[n] for n in names))
    L.append("Definition body (f : nat) : option stmt := nth f body_tab None.")
    L.append("Definition public_entries : list nat := [%s]." % "; ".join(str(fid[n]) for n in pub))
    L.append("Definition thread_mains : list nat := [%s]." % "; ".join(str(fid[n]) for n in mains))
    ts = [n for n in pub if n not in NOT_THREADSAFE]
    L.append("Definition threadsafe_entries : list nat := [%s]." % "; ".join(str(fid[n]) for n in ts))
    L.append("Definition call_depth : nat := %d." % (an.maxdepth + 2))
    L.append("Definition lock_count : nat := %d." % nl)
    L.append("(* locks taken through pthread_rwlock_* (shared / exclusive); all others are mutexes *)")
    L.append("Definition rwlock_ids : list nat := [%s]." % "; ".join(str(tr.lock_id(l)) for l in sorted(tr.rwlocks, key=tr.lock_id)))
    L.append("(* witnesses for the non-vacuity example: %s writes %s under its own wrlock on %s; %s reads it under rdlock *)" % (ex[0], tr.globals[ex[2]], tr.locks[ex[3]], ex[1]))
    L.append("Definition ex_present : bool := %s." % ("true" if ex_present else "false"))
    L.append("Definition ex_writer : nat := %d." % fid[ex[0]])
    L.append("Definition ex_reader : nat := %d." % fid[ex[1]])
    L.append("Definition ex_global : nat := %d." % ex[2])
    L.append("Definition ex_rwlock : nat := %d." % ex[3])
    L.append("(* witnesses for the atomicity examples (paths with an access to %s): %s *)" % (TRN, ", ".join("%s=%s" % x for x in ATOMIC_EX)))
    L.append("Definition ex_atomic_present : bool := %s." % ("true" if atom_ok else "false"))
    L.append("Definition ex_atomic_global : nat := %d." % (tr.glob_id(TRN) if atom_ok else 0))
    for nm, fn in ATOMIC_EX:
        L.append("Definition %s : nat := %d." % (nm, fid.get(fn, 0)))
    shf = single_hold_facts(tr, pub)
    for tab in sorted(set(d["table"] for d in shf)):
        rows = ["(%d, %d, %s, [%s])" % (fid[d["function"]], tr.lock_id(d["lock"]), "true" if d["exclusive"] else "false", "; ".join(str(tr.glob_id(g)) for g in d["globals"])) for d in shf if d["table"] == tab]
        L.append("(* single-hold facts (function, lock, exclusive?, globals): " + "; ".join("%s/%s" % (d["function"], d["lock"]) for d in shf if d["table"] == tab) + " *)")
        L.append("Definition %s_facts : list (nat * nat * bool * list nat) := [%s]." % (tab, "; ".join(rows)))
    nonrx = pub + [m for m in mains if m != RX_MAIN]
    nw, rx_acq, wait_ids, wmx_ids = no_wait_facts(tr, nonrx)
    pr = lambda xs: "; ".join("(%d, %s)" % (l, "true" if w else "false") for l, w in xs)
    L.append("(* waiting for the receiver: receiver main %s; rx_acqs = every (lock, exclusive?) it can acquire; wait markers: %s; checked entries = public functions + the other thread mains *)" % (RX_MAIN, "; ".join("%s popped in %s" % (g, ",".join(v)) for g, v in sorted(nw["wait_markers"].items()))))
    L.append("Definition rx_main : nat := %d." % fid[RX_MAIN])
    L.append("Definition rx_acqs : list (nat * bool) := [%s]." % pr(rx_acq))
    L.append("Definition wait_globals : list nat := [%s]." % "; ".join(str(x) for x in wait_ids))
    L.append("Definition wait_mutexes : list nat := [%s]." % "; ".join(str(x) for x in wmx_ids))
    L.append("Definition nonrx_entries : list nat := [%s]." % "; ".join(str(fid[n]) for n in nonrx))
    # witnesses for the non-vacuity example: an entry with a path to a wait point, and a function on that way whose
    # releases of a receiver lock, once removed, make the mirror reject the entry (what seed C11-e amounts to)
    exw = None
    for ent, fn, lk in (("bidib_send_sys_reset", "bidib_state_init_allocation_table", "bidib_boards_rwlock"),):
        if ent in tr.fns and fn in tr.fns and lk in tr.locks and wait_ids and not nw["violations"]:
            wtarget = ("acc", wait_ids[0], True)
            exch = directed_choices(tr, ent, lambda ir: ir[0] == "acc" and ir[1] == wait_ids[0], lambda path: wtarget in path)
            if exch is None: continue
            lid = tr.lock_id(lk)
            def strip_rel(ir):
                if ir[0] == "rel" and ir[1] == lid: return ("skip",)
                return tuple(strip_rel(x) if isinstance(x, tuple) and x and isinstance(x[0], str) and ir[0] != "call" else x for x in ir)
            saved = tr.fns[fn].body
            tr.fns[fn].body = strip_rel(saved)
            try: rejected = NoWait(tr, wait_forbidden(rx_acq, wmx_ids), wait_ids).check(ent) is not None
            finally: tr.fns[fn].body = saved
            if rejected: exw = (ent, fn, lid, wait_ids[0], exch); break
    L.append("Definition ex_wait_present : bool := %s." % ("true" if exw else "false"))
    L.append("Definition ex_wait_entry : nat := %d." % (fid[exw[0]] if exw else 0))
    L.append("Definition ex_wait_fn : nat := %d." % (fid[exw[1]] if exw else 0))
    L.append("Definition ex_wait_lock : nat := %d." % (exw[2] if exw else 0))
    L.append("Definition ex_wait_global : nat := %d." % (exw[3] if exw else 0))
    L.append("(* branch choices (LockWitness.gen_call) of a path of the witness entry that reaches a wait point *)")
    L.append("Definition ex_wait_choices : list bool := [%s]." % ("; ".join("true" if c else "false" for c in exw[4]) if exw else ""))
    nw["example"] = {"present": bool(exw), "entry": exw[0] if exw else None, "function": exw[1] if exw else None, "lock": tr.locks[exw[2]] if exw else None}
    rw = []; seen = set()
    for e in an.errors:
        if e.get("kind") == "rw":
            k = (e["function"], e["global"], e["line"])
            if k in seen: continue
            seen.add(k); rw.append(e)
    def fold(st):
        out = {}
        for (l, mode, how), n in sorted(st.items()):
            out.setdefault(l, {})["%s, guard %s" % (mode, how)] = n
        return out
    stats = fold(stats_ts if stats_ts is not None else an.acc_stats)      # thread-safe entries + thread mains
    stats_all = fold(an.acc_stats)                                       # plus start/stop/reset (excluded by the README)
    side = {"locks": tr.locks, "globals": tr.globals, "guards": {g: tr.guard_of.get(g) for g in tr.globals},
            "functions": names, "public": pub, "thread_mains": mains, "threadsafe": ts, "rank": {tr.locks[i]: rank[i] for i in range(nl)},
            "nesting_pairs": [[tr.locks[h], tr.locks[l], ch] for (h, l), ch in sorted(an.pairs.items())],
            "cycles": cyc, "errors": an.errors[:200], "errors_per_entry": {k: v[:5] for k, v in per_entry.items() if v},
            "queue_errors": [dict(e, entry=k) for k, v in per_entry.items() if k not in ("bidib_start_pointer", "bidib_start_serial")
                             for e in v if str(e.get("global", "")).startswith(("uplink_", "wait:uplink_"))],
            "contexts": len(an.memo), "max_call_depth": an.maxdepth,
            "rwlocks": sorted(tr.rwlocks), "access_sites": sites, "access_checks": stats, "access_checks_all_entries": stats_all, "rw_violations": rw[:100],
            "param_writers": {k: sorted(v) for k, v in sorted(tr.pwrites.items()) if v},
            "unclassified_externals": {k: sorted(v) for k, v in sorted(tr.unclassified.items())},
            "line_numbers_checked": tr.lines_ok, "single_hold": shf, "no_wait": nw, "atomic_example": {"present": atom_ok, "functions": dict(ATOMIC_EX)}, "example": {"present": ex_present, "writer_path": [list(x) for x in ex_paths[0]] if ex_paths else None, "reader_path": [list(x) for x in ex_paths[1]] if ex_paths else None, "writer": ex[0], "reader": ex[1], "global": tr.globals[ex[2]], "lock": tr.locks[ex[3]]}}
    return "\n".join(L) + "\n", side

def main():
    repo = sys.argv[1] if len(sys.argv) > 1 else "/repo"
    outv = sys.argv[2] if len(sys.argv) > 2 else os.path.join(os.path.dirname(os.path.abspath(__file__)), "..", "coq", "LockCfg.v")
    try:
        text, side = generate(repo)
    except TranslatorError as e:
        print("TRANSLATOR-ERROR gen_lockcfg:", e, file=sys.stderr); sys.exit(2)
    old = open(outv).read() if os.path.exists(outv) else None
    if old != text: open(outv, "w").write(text)
    json.dump(side, open(outv[:-2] + ".json", "w"), indent=1)
    print("gen_lockcfg: %d functions, %d locks, %d guarded globals, %d contexts, %d nesting pairs, %d errors, cycles=%d (%s)" % (
        len(side["functions"]), len(side["locks"]), len(side["globals"]), side["contexts"], len(side["nesting_pairs"]), len(side["errors"]), len(side["cycles"]),
        "updated" if old != text else "unchanged"))

if __name__ == "__main__":
    main()
