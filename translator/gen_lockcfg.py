#!/usr/bin/env python3
"""gen_lockcfg: translate every function of src/**/*.c into the structured lock language of
coq/LockLang.v (lock acquire/release, accesses to guarded globals, calls, control flow), using the
clang JSON AST. Emits coq/LockCfg.v plus a JSON side-car with names and a Python-side diagnosis
(nesting pairs, generated ranks, first failing function/context) used for replay files.
Constructs outside the supported subset (goto is supported as an error for now, trylock, condition
variables, timed locks, setjmp, recursion) raise TranslatorError = broken tie."""
import os, sys, re, json, glob, subprocess
from concurrent.futures import ThreadPoolExecutor

class TranslatorError(Exception):
    pass

LOCK_FNS = {"pthread_mutex_lock": "acq", "pthread_rwlock_rdlock": "acq", "pthread_rwlock_wrlock": "acq",
            "pthread_mutex_unlock": "rel", "pthread_rwlock_unlock": "rel"}
REFUSED = {"pthread_mutex_trylock", "pthread_rwlock_tryrdlock", "pthread_rwlock_trywrlock", "pthread_cond_wait",
           "pthread_cond_timedwait", "pthread_mutex_timedlock", "pthread_rwlock_timedrdlock", "pthread_rwlock_timedwrlock",
           "setjmp", "longjmp", "_setjmp"}
# globals guarded by a lock that the source does not annotate with a "guarded by" comment
GUARDS_FIXED = {
    "bidib_boards": "bidib_boards_rwlock",
    "bidib_trains": "bidib_trains_rwlock",
    "node_state_table": "bidib_node_state_table_mutex",
    "uplink_queue": "bidib_uplink_queue_mutex",
    "uplink_error_queue": "bidib_uplink_error_queue_mutex",
    "uplink_intern_queue": "bidib_uplink_intern_queue_mutex",
    "buffer": "bidib_send_buffer_mutex",
    "buffer_aux": "bidib_send_buffer_mutex",
    "buffer_index": "bidib_send_buffer_mutex",
    "pkt_max_cap": "bidib_send_buffer_mutex",
    "write_bytes": "bidib_send_buffer_mutex",     # the write callback is only invoked under the buffer mutex
    "action_id": "bidib_action_id_mutex",
}
# calls that must happen under a lock (pseudo-globals): the three steps of a submission stay under
# the send-order mutex, which is what makes a submission atomic with respect to other submitters (C05)
CALL_GUARDS = {
    "bidib_node_state_get_and_incr_send_seqnum": "bidib_send_order_mutex",
    "bidib_node_try_send": "bidib_send_order_mutex",
    "bidib_buffer_message": "bidib_send_order_mutex",
    # call-site specific (caller:callee): the append of an admitted message to the packet buffer is the
    # third step of a submission and must still be inside the send-order region (the receiver thread's
    # own appends in bidib_node_try_queued_messages are not)
    "bidib_buffer_message:bidib_add_to_buffer": "bidib_send_order_mutex",
}
# globals into which pointers are handed out (pointer taint)
TAINT_GLOBALS = {"bidib_boards", "bidib_trains", "node_state_table"}
THREAD_MAINS = ["bidib_auto_receive", "bidib_auto_flush", "bidib_heartbeat_log"]
# public functions the README excludes from concurrent use (start/stop/reset) or that only set modes
NOT_THREADSAFE = {"bidib_start_pointer", "bidib_start_serial", "bidib_stop", "bidib_set_lowlevel_debug_mode",
                  "bidib_send_sys_reset"}

def pkgflags():
    return subprocess.check_output(["pkg-config", "--cflags", "glib-2.0"]).decode().split()

def ast_of(path, flt="bidib"):
    r = subprocess.run(["clang", "-std=gnu11", "-w"] + pkgflags() + ["-fsyntax-only", "-Xclang", "-ast-dump=json",
                        "-Xclang", "-ast-dump-filter=" + flt, path], capture_output=True, text=True)
    if r.returncode != 0:
        raise TranslatorError("clang failed on %s: %s" % (path, r.stderr[:500]))
    dec = json.JSONDecoder(); txt = r.stdout; i = 0; objs = []
    n = len(txt)
    while i < n:
        while i < n and txt[i] in " \n\r\t": i += 1
        if i >= n: break
        o, j = dec.raw_decode(txt, i); objs.append(o); i = j
    return objs

def strip(e):
    while e and e.get("kind") in ("ImplicitCastExpr", "ParenExpr", "CStyleCastExpr", "ConstantExpr"):
        inner = e.get("inner") or []
        if not inner: break
        e = inner[0]
    return e

class Fn:
    def __init__(self, name, params, body, file):
        self.name = name; self.params = params; self.body = body; self.file = file

class Translator:
    def __init__(self, repo):
        self.repo = repo
        self.fns = {}            # name -> Fn (IR)
        self.locks = []          # lock names
        self.globals = []        # guarded global names
        self.guard_of = {}       # global -> lock
        self.fp_targets = {}     # (function, param index) -> set of function names passed
        self.raw = {}            # name -> (FunctionDecl json, file)

    def lock_id(self, n):
        if n not in self.locks: self.locks.append(n)
        return self.locks.index(n)
    def glob_id(self, n):
        if n not in self.globals: self.globals.append(n)
        return self.globals.index(n)

    def load(self):
        files = sorted(glob.glob(os.path.join(self.repo, "src/*/*.c")))
        if not files: raise TranslatorError("no sources")
        with ThreadPoolExecutor(16) as ex:
            asts = list(ex.map(ast_of, files))
        ndefs_text = 0
        for f, objs in zip(files, asts):
            for o in objs:
                if o.get("kind") == "FunctionDecl" and any(c.get("kind") == "CompoundStmt" for c in o.get("inner", [])):
                    self.raw[o["name"]] = (o, f)
        # every function definition of the sources must have been seen (the AST filter is by name)
        for f in files:
            txt = open(f, errors="replace").read()
            for m in re.finditer(r'^[A-Za-z_][\w \*]*?\b(\w+)\s*\([^;{]*\)\s*\{', txt, re.M):
                nm = m.group(1)
                if nm in ("if", "while", "for", "switch"): continue
                if nm not in self.raw:
                    for o in ast_of(f, nm):
                        if o.get("kind") == "FunctionDecl" and o.get("name") == nm and any(c.get("kind") == "CompoundStmt" for c in o.get("inner", [])):
                            self.raw[nm] = (o, f)
                if nm not in self.raw:
                    raise TranslatorError("function %s in %s not covered by the AST dump" % (nm, f))
        # guarded-by comments
        hp = os.path.join(self.repo, "src/state/bidib_state_intern.h")
        for line in open(hp, errors="replace"):
            m = re.search(r'GArray \*(\w+);\s*//\s*guarded by (\w+)', line)
            if m: self.guard_of["bidib_track_state." + m.group(1)] = m.group(2)
        if not any(k.startswith("bidib_track_state.") for k in self.guard_of):
            raise TranslatorError("no 'guarded by' annotations found in bidib_state_intern.h")
        self.guard_of.update(GUARDS_FIXED)
        # function-pointer parameters: collect targets passed at call sites
        for name, (o, f) in self.raw.items():
            self.scan_fp_args(o)
        self.accsum = {}; self.retsum = {}
        self.translate_all(False)
        # transitive set of guarded globals each function touches (for the pointer taint of pass 2)
        direct = {}; calls = {}
        def walk(ir, acc, cl):
            if ir[0] == "acc": acc.add(ir[1])
            elif ir[0] == "call": cl.add(ir[1])
            for x in ir[1:]:
                if isinstance(x, tuple) and x and isinstance(x[0], str): walk(x, acc, cl)
        for n, fn in self.fns.items():
            a = set(); c = set(); walk(fn.body, a, c); direct[n] = a; calls[n] = c
        changed = True
        self.accsum = {n: set(direct[n]) for n in self.fns}
        while changed:
            changed = False
            for n in self.fns:
                for c in calls[n]:
                    if c in self.accsum and not self.accsum[c] <= self.accsum[n]:
                        self.accsum[n] |= self.accsum[c]; changed = True
        # what the pointer returned by a function points into: the guarded globals that occur in its
        # return expressions (through tainted locals and pointer-returning callees), to a fixpoint
        self.retsum = {n: set() for n in self.fns}
        for _ in range(4):
            self.translate_all(True, collect_returns=True)
        self.translate_all(True)

    def translate_all(self, with_taint, collect_returns=False):
        for name, (o, f) in self.raw.items():
            params = [c for c in o.get("inner", []) if c.get("kind") == "ParmVarDecl"]
            body = [c for c in o.get("inner", []) if c.get("kind") == "CompoundStmt"][0]
            self.cur = name; self.cur_params = [p.get("name") for p in params]
            self.cur_locals = set(self.cur_params)
            ptr_locals = set()
            def collect(n):
                if isinstance(n, dict):
                    if n.get("kind") == "VarDecl" and n.get("storageClass") != "static" and n.get("storageClass") != "extern":
                        self.cur_locals.add(n.get("name"))
                        if "*" in n.get("type", {}).get("qualType", ""): ptr_locals.add(n.get("name"))
                    for c in n.get("inner", []) or []: collect(c)
            collect(body)
            self.cur_ptypes = [p.get("type", {}).get("qualType", "") for p in params]
            self.taint = {}
            if with_taint:
                # flow-insensitive, one level: a local pointer assigned from an expression that touches a
                # guarded global (directly, or through a pointer-returning library function that does) is
                # treated as pointing into that global; dereferencing it is an access to the global
                def sources(e, out):
                    if not isinstance(e, dict): return
                    k = e.get("kind")
                    if k == "DeclRefExpr":
                        rd = e.get("referencedDecl", {})
                        if rd.get("kind") == "VarDecl" and rd.get("name") in TAINT_GLOBALS and rd.get("name") not in self.cur_locals: out.add(rd["name"])
                        if rd.get("kind") == "VarDecl" and rd.get("name") in self.taint: out.update(self.taint[rd["name"]])
                    if k == "MemberExpr":
                        b = strip(e["inner"][0]) if e.get("inner") else None
                        if b and b.get("kind") == "DeclRefExpr" and b["referencedDecl"].get("name") == "bidib_track_state":
                            key = "bidib_track_state." + e.get("name", "")
                            if key in self.guard_of: out.add(key)
                    if k == "CallExpr":
                        c = strip(e["inner"][0])
                        if c.get("kind") == "DeclRefExpr" and c["referencedDecl"].get("kind") == "FunctionDecl":
                            cn = c["referencedDecl"].get("name")
                            rt = c["referencedDecl"].get("type", {}).get("qualType", "")
                            if cn in self.raw:
                                # a library function: only what its return value points into counts,
                                # not what its arguments point into
                                if "*" in rt.split("(")[0]: out.update(self.retsum.get(cn, set()))
                                return
                    for c in e.get("inner", []) or []: sources(c, out)
                for _ in range(2):
                    def scan(n):
                        if not isinstance(n, dict): return
                        if n.get("kind") == "VarDecl" and n.get("name") in ptr_locals and n.get("inner"):
                            t = set(); sources(n["inner"][-1], t)
                            if t: self.taint.setdefault(n["name"], set()).update(t)
                        if n.get("kind") == "BinaryOperator" and n.get("opcode") == "=":
                            l = strip(n["inner"][0])
                            if l.get("kind") == "DeclRefExpr" and l["referencedDecl"].get("name") in ptr_locals:
                                t = set(); sources(n["inner"][1], t)
                                if t: self.taint.setdefault(l["referencedDecl"]["name"], set()).update(t)
                        for c in n.get("inner", []) or []: scan(c)
                    scan(body)
                if collect_returns:
                    rs = set()
                    def rets(n):
                        if not isinstance(n, dict): return
                        if n.get("kind") == "ReturnStmt":
                            for c in n.get("inner", []) or []: sources(c, rs)
                        for c in n.get("inner", []) or []: rets(c)
                    rets(body)
                    self.retsum[name] = self.retsum.get(name, set()) | rs
                    continue
            self.fns[name] = Fn(name, self.cur_params, self.stmt(body), f)

    def scan_fp_args(self, node):
        if node.get("kind") == "CallExpr":
            inner = node.get("inner", [])
            callee = strip(inner[0]) if inner else None
            if callee and callee.get("kind") == "DeclRefExpr" and callee["referencedDecl"].get("kind") == "FunctionDecl":
                cn = callee["referencedDecl"]["name"]
                for i, a in enumerate(inner[1:]):
                    a = strip(a)
                    if a and a.get("kind") == "UnaryOperator" and a.get("opcode") == "&": a = strip(a["inner"][0])
                    if a and a.get("kind") == "DeclRefExpr" and a["referencedDecl"].get("kind") == "FunctionDecl":
                        self.fp_targets.setdefault((cn, i), set()).add(a["referencedDecl"]["name"])
        for c in node.get("inner", []) or []:
            if isinstance(c, dict): self.scan_fp_args(c)

    # ---- IR: tuples ("skip",) ("acq",l) ("rel",l) ("acc",g) ("call",f,args) ("seq",a,b) ("if",a,b)
    #          ("ifp",i,a,b) ("loop",b) ("catch",s) ("ret",) ("brk",) ("cont",)
    def seq(self, xs):
        xs = [x for x in xs if x != ("skip",)]
        if not xs: return ("skip",)
        r = xs[-1]
        for x in reversed(xs[:-1]): r = ("seq", x, r)
        return r

    def lock_arg(self, e):
        e = strip(e)
        if e.get("kind") == "UnaryOperator" and e.get("opcode") == "&":
            t = strip(e["inner"][0])
            if t.get("kind") == "DeclRefExpr": return t["referencedDecl"]["name"]
        raise TranslatorError("lock argument is not the address of a global lock in %s" % self.cur)

    def param_index(self, e):
        e = strip(e)
        if e and e.get("kind") == "DeclRefExpr" and e["referencedDecl"].get("kind") == "ParmVarDecl":
            n = e["referencedDecl"]["name"]
            if n in self.cur_params:
                i = self.cur_params.index(n)
                if "bool" in self.cur_ptypes[i] or "_Bool" in self.cur_ptypes[i]: return i
        return None

    def expr(self, e):
        """effects of evaluating an expression, in evaluation order"""
        if not e or not isinstance(e, dict) or "kind" not in e: return ("skip",)
        k = e["kind"]
        if k == "CallExpr":
            inner = e.get("inner", [])
            callee = strip(inner[0])
            args = inner[1:]
            name = None; ckind = None
            if callee.get("kind") == "DeclRefExpr":
                name = callee["referencedDecl"].get("name"); ckind = callee["referencedDecl"].get("kind")
            if name in REFUSED: raise TranslatorError("unsupported primitive %s in %s" % (name, self.cur))
            if name in LOCK_FNS:
                l = self.lock_id(self.lock_arg(args[0]))
                return ("acq", l, name != "pthread_rwlock_rdlock") if LOCK_FNS[name] == "acq" else ("rel", l)
            pre = [self.expr(a) for a in args]
            if ckind == "FunctionDecl":
                if name in self.raw:
                    bargs = []
                    for a in args:
                        s = strip(a)
                        if s.get("kind") == "IntegerLiteral": bargs.append(s.get("value") != "0")
                        elif s.get("kind") == "CXXBoolLiteralExpr": bargs.append(bool(s.get("value")))
                        else: bargs.append(None)
                    for ck in (name, self.cur + ":" + name):
                        if ck in CALL_GUARDS:
                            key = "call:" + ck
                            self.guard_of[key] = CALL_GUARDS[ck]
                            pre = pre + [("acc", self.glob_id(key))]
                    return self.seq(pre + [("call", name, tuple(bargs))])
                return self.seq(pre)       # external library function
            if ckind == "VarDecl":      # static function pointer (read_byte / write_bytes)
                if name in self.guard_of and name not in self.cur_locals:
                    return self.seq(pre + [("acc", self.glob_id(name))])
                return self.seq(pre)
            if ckind == "ParmVarDecl":  # callback parameter: any function ever passed in that position
                idx = self.cur_params.index(name) if name in self.cur_params else -1
                tg = sorted(self.fp_targets.get((self.cur, idx), []))
                tg = [t for t in tg if t in self.raw]
                alt = ("skip",)
                for t in tg: alt = ("if", ("call", t, ()), alt)
                return self.seq(pre + [alt])
            # member / computed callee: evaluate it, no known target
            return self.seq([self.expr(inner[0])] + pre)
        if k == "DeclRefExpr":
            rd = e.get("referencedDecl", {})
            if rd.get("kind") == "VarDecl" and rd.get("name") in self.guard_of and self.is_global(rd):
                return ("acc", self.glob_id(rd["name"]))
            return ("skip",)
        if k in ("MemberExpr", "UnaryOperator", "ArraySubscriptExpr") and getattr(self, "taint", None):
            isderef = (k == "MemberExpr" and e.get("isArrow")) or (k == "UnaryOperator" and e.get("opcode") == "*") or k == "ArraySubscriptExpr"
            b0 = strip(e["inner"][0]) if e.get("inner") else None
            if isderef and b0 and b0.get("kind") == "DeclRefExpr" and b0["referencedDecl"].get("name") in self.taint \
               and b0["referencedDecl"].get("kind") == "VarDecl":
                accs = [("acc", self.glob_id(g)) for g in sorted(self.taint[b0["referencedDecl"]["name"]])]
                return self.seq(accs + [self.expr(c) for c in e.get("inner", [])[1:]])
        if k == "MemberExpr":
            base = strip(e["inner"][0]) if e.get("inner") else None
            if base and base.get("kind") == "DeclRefExpr" and base["referencedDecl"].get("name") == "bidib_track_state":
                key = "bidib_track_state." + e.get("name", "")
                if key in self.guard_of: return ("acc", self.glob_id(key))
                return ("skip",)
            return self.seq([self.expr(c) for c in e.get("inner", [])])
        if k == "BinaryOperator" and e.get("opcode") in ("&&", "||"):
            a, b = e["inner"]
            return self.seq([self.expr(a), ("if", self.expr(b), ("skip",))])
        if k == "ConditionalOperator":
            c, a, b = e["inner"]
            return self.seq([self.expr(c), ("if", self.expr(a), self.expr(b))])
        if k in ("StmtExpr",):
            return self.stmt(e["inner"][0])
        return self.seq([self.expr(c) for c in e.get("inner", []) if isinstance(c, dict)])

    def is_global(self, rd):
        return rd.get("name") not in self.cur_locals

    def stmt(self, s):
        if not s or not isinstance(s, dict) or "kind" not in s: return ("skip",)
        k = s["kind"]
        if k == "CompoundStmt":
            kids = s.get("inner", [])
            return self.seq([self.stmt(c) for c in kids])
        if k == "DeclStmt":
            out = []
            for d in s.get("inner", []):
                if d.get("kind") == "VarDecl":
                    if d.get("name") in self.guard_of and d.get("storageClass") != "static" and d.get("name") in ("buffer", "buffer_index"):
                        self.shadow = getattr(self, "shadow", set()); self.shadow.add((self.cur, d.get("name")))
                    for c in d.get("inner", []): out.append(self.expr(c))
            return self.seq(out)
        if k == "IfStmt":
            kids = s.get("inner", [])
            cond, th = kids[0], kids[1]
            el = kids[2] if len(kids) > 2 else None
            pi = self.param_index(cond); neg = False
            sc = strip(cond)
            if pi is None and sc.get("kind") == "UnaryOperator" and sc.get("opcode") == "!":
                pi = self.param_index(sc["inner"][0]); neg = True
            a = self.stmt(th); b = self.stmt(el) if el else ("skip",)
            if pi is not None:
                return ("ifp", pi, b, a) if neg else ("ifp", pi, a, b)
            return self.seq([self.expr(cond), ("if", a, b)])
        if k == "WhileStmt":
            cond, body = s["inner"][0], s["inner"][-1]
            c = self.expr(cond)
            return self.seq([("loop", self.seq([c, self.stmt(body)])), c])
        if k == "DoStmt":
            body, cond = s["inner"][0], s["inner"][1]
            return ("loop", self.seq([self.stmt(body), self.expr(cond)]))
        if k == "ForStmt":
            kids = s["inner"]
            init, cond, inc, body = kids[0], kids[2], kids[3], kids[4]
            c = self.expr(cond) if cond and "kind" in cond else ("skip",)
            i0 = self.stmt(init) if init and "kind" in init and init["kind"] in ("DeclStmt", "CompoundStmt") else self.expr(init)
            return self.seq([i0, ("loop", self.seq([c, self.stmt(body), self.expr(inc)])), c])
        if k == "SwitchStmt":
            cond, body = s["inner"][0], s["inner"][-1]
            segs = []     # list of lists of stmts; a new segment starts at each label
            def add_labelled(node):
                # CaseStmt / DefaultStmt nest: case A: case B: stmt
                segs.append([])
                sub = node["inner"][-1]
                if sub.get("kind") in ("CaseStmt", "DefaultStmt"): add_labelled(sub)
                else: segs[-1].append(self.stmt(sub))
            for c in body.get("inner", []):
                if c.get("kind") in ("CaseStmt", "DefaultStmt"): add_labelled(c)
                else:
                    if not segs: segs.append([])
                    segs[-1].append(self.stmt(c))
            segs = [self.seq(x) for x in segs]
            def ends(st):
                while st[0] == "seq": st = st[2]
                return st[0] in ("brk", "ret", "cont")
            alt = ("skip",)
            for i in range(len(segs) - 1, -1, -1):
                chain = []
                for j in range(i, len(segs)):
                    chain.append(segs[j])
                    if ends(segs[j]): break
                alt = ("if", self.seq(chain), alt)
            return self.seq([self.expr(cond), ("catch", alt)])
        if k == "ReturnStmt":
            return self.seq([self.expr(c) for c in s.get("inner", [])] + [("ret",)])
        if k == "BreakStmt": return ("brk",)
        if k == "ContinueStmt": return ("cont",)
        if k in ("GotoStmt", "LabelStmt", "IndirectGotoStmt"):
            raise TranslatorError("goto/label in %s is outside the translated subset" % self.cur)
        if k == "NullStmt": return ("skip",)
        if k in ("CaseStmt", "DefaultStmt"):
            raise TranslatorError("case label outside a switch body in %s" % self.cur)
        return self.expr(s)

# ---------------------------------------------------------------- Python mirror of LockLang.exec (diagnosis + ranks)
class Analysis:
    def __init__(self, tr):
        self.tr = tr; self.memo = {}; self.pairs = {}; self.errors = []; self.depth = 0; self.maxdepth = 0
        self.stack = []
    def err(self, what):
        self.errors.append({"what": what, "chain": list(self.stack)})
    def merge(self, a, b, where):
        if a is None: return b
        if b is None: return a
        if a != b:
            self.err("different lock sets meet at %s: %s vs %s" % (where, self.names(a), self.names(b)))
        return a
    def names(self, H): return [self.tr.locks[l] for l in H]
    def merge_out(self, x, y, where):
        return tuple(self.merge(x[i], y[i], where) for i in range(4))
    def run(self, s, H, penv):
        k = s[0]
        if k == "skip": return (H, None, None, None)
        if k == "acq":
            l = s[1]
            if l in H: self.err("lock %s acquired while already held" % self.tr.locks[l])
            for h in H: self.pairs.setdefault((h, l), list(self.stack))
            return (tuple(sorted(H + (l,))), None, None, None)
        if k == "rel":
            l = s[1]
            if l not in H:
                self.err("lock %s released but not held" % self.tr.locks[l]); return (H, None, None, None)
            HL = list(H); HL.remove(l); return (tuple(HL), None, None, None)
        if k == "acc":
            g = self.tr.globals[s[1]]; l = self.tr.guard_of.get(g)
            if l is not None:
                lid = self.tr.lock_id(l)
                if lid not in H: self.err("access to %s without holding %s" % (g, l))
            return (H, None, None, None)
        if k == "call":
            return self.call(s[1], s[2], H)
        if k == "seq":
            oa = self.run(s[1], H, penv)
            if oa[0] is None: return oa
            ob = self.run(s[2], oa[0], penv)
            return self.merge_out((None, oa[1], oa[2], oa[3]), ob, "sequence")
        if k == "if":
            return self.merge_out(self.run(s[1], H, penv), self.run(s[2], H, penv), "if/else join in " + (self.stack[-1] if self.stack else "?"))
        if k == "ifp":
            v = penv[s[1]] if s[1] < len(penv) else None
            if v is True: return self.run(s[2], H, penv)
            if v is False: return self.run(s[3], H, penv)
            return self.merge_out(self.run(s[2], H, penv), self.run(s[3], H, penv), "if(param) join in " + (self.stack[-1] if self.stack else "?"))
        if k == "loop":
            ob = self.run(s[1], H, penv)
            for x, nm in ((ob[0], "end of loop body"), (ob[2], "continue"), (ob[1], "break")):
                if x is not None and x != H: self.err("loop %s with locks %s, entered with %s" % (nm, self.names(x), self.names(H)))
            return (H, None, None, ob[3])
        if k == "catch":
            oa = self.run(s[1], H, penv)
            return (self.merge(oa[0], oa[1], "end of switch in " + (self.stack[-1] if self.stack else "?")), None, oa[2], oa[3])
        if k == "ret": return (None, None, None, H)
        if k == "brk": return (None, H, None, None)
        if k == "cont": return (None, None, H, None)
        raise TranslatorError("bad IR " + str(k))
    def call(self, f, args, H):
        key = (f, args, H)
        if key in self.memo: return self.memo[key]
        if f in self.stack: raise TranslatorError("recursion through %s" % f)
        self.stack.append(f); self.maxdepth = max(self.maxdepth, len(self.stack))
        fn = self.tr.fns[f]
        penv = list(args) + [None] * (len(fn.params) - len(args))
        o = self.run(fn.body, H, penv)
        if o[1] is not None or o[2] is not None: self.err("break/continue escapes %s" % f)
        n = self.merge(o[0], o[3], "function end/return of " + f)
        self.stack.pop()
        res = (n, None, None, None)
        self.memo[key] = res
        return res

def coq_stmt(tr, fid, s):
    k = s[0]
    if k == "skip": return "Skip"
    if k == "acq": return "(Acq %d %s)" % (s[1], "true" if s[2] else "false")
    if k == "rel": return "(Rel %d)" % s[1]
    if k == "acc": return "(Access %d)" % s[1]
    if k == "call":
        args = "[" + "; ".join("None" if a is None else ("Some true" if a else "Some false") for a in s[2]) + "]"
        return "(Call %d %s)" % (fid[s[1]], args)
    if k == "seq": return "(Seq %s %s)" % (coq_stmt(tr, fid, s[1]), coq_stmt(tr, fid, s[2]))
    if k == "if": return "(If %s %s)" % (coq_stmt(tr, fid, s[1]), coq_stmt(tr, fid, s[2]))
    if k == "ifp": return "(IfP %d %s %s)" % (s[1], coq_stmt(tr, fid, s[2]), coq_stmt(tr, fid, s[3]))
    if k == "loop": return "(Loop %s)" % coq_stmt(tr, fid, s[1])
    if k == "catch": return "(Catch %s)" % coq_stmt(tr, fid, s[1])
    return {"ret": "Return", "brk": "Break", "cont": "Continue"}[k]

def public_names(repo):
    names = set()
    for h in glob.glob(os.path.join(repo, "include/**/*.h"), recursive=True):
        txt = open(h, errors="replace").read()
        txt = re.sub(r'/\*.*?\*/', '', txt, flags=re.S)
        for m in re.finditer(r'\b(bidib_\w+|syslog_libbidib)\s*\(', txt): names.add(m.group(1))
    return names

def generate(repo):
    sys.setrecursionlimit(100000)
    tr = Translator(repo); tr.load()
    names = sorted(tr.fns)
    fid = {n: i for i, n in enumerate(names)}
    pub = sorted(n for n in public_names(repo) if n in tr.fns)
    mains = [m for m in THREAD_MAINS if m in tr.fns]
    if len(mains) != len(THREAD_MAINS): raise TranslatorError("thread main functions not found: %s" % (set(THREAD_MAINS) - set(mains)))
    if len(pub) < 100: raise TranslatorError("only %d public functions found" % len(pub))
    # make sure every lock mentioned as a guard has an id
    for g, l in tr.guard_of.items(): tr.lock_id(l)
    an = Analysis(tr)
    per_entry = {}
    for e in pub + mains:
        before = len(an.errors)
        an.stack = []
        o = an.call(e, (), ())
        if o[0] not in (None, ()): an.errors.append({"what": "%s returns holding %s" % (e, an.names(o[0])), "chain": [e]})
        per_entry[e] = an.errors[before:]
    # ranks: topological order of observed nesting pairs (held -> acquired)
    nl = len(tr.locks)
    succ = {i: set() for i in range(nl)}
    for (h, l) in an.pairs: succ[h].add(l)
    order = []; state = {}
    cyc = []
    def visit(u, path):
        if state.get(u) == 2: return
        if state.get(u) == 1:
            cyc.append([tr.locks[x] for x in path[path.index(u):] + [u]]); return
        state[u] = 1
        for v in sorted(succ[u]): visit(v, path + [u])
        state[u] = 2; order.append(u)
    for u in range(nl): visit(u, [])
    order.reverse()
    rank = [0] * nl
    for pos, u in enumerate(order): rank[u] = pos + 1
    guard_tab = []
    for g in tr.globals:
        l = tr.guard_of.get(g); guard_tab.append("Some %d" % tr.lock_id(l) if l else "None")
    L = ["(* GENERATED by translator/gen_lockcfg.py from the repository source. Do not edit. *)",
         "From Coq Require Import List.", "From LB Require Import LockLang.", "Import ListNotations.", ""]
    L.append("(* locks: " + "; ".join("%d=%s" % (i, n) for i, n in enumerate(tr.locks)) + " *)")
    L.append("Definition rank_tab : list nat := [%s]." % "; ".join(str(r) for r in rank))
    L.append("Definition rank (l : nat) : nat := nth l rank_tab 0.")
    L.append("(* guarded globals: " + "; ".join("%d=%s" % (i, n) for i, n in enumerate(tr.globals)) + " *)")
    L.append("Definition guard_tab : list (option nat) := [%s]." % "; ".join(guard_tab))
    L.append("Definition guard (g : nat) : option nat := nth g guard_tab None.")
    for n in names:
        L.append("Definition fn_%d : stmt := (* %s *)\n  %s." % (fid[n], n, coq_stmt(tr, fid, tr.fns[n].body)))
    L.append("Definition body_tab : list (option stmt) := [%s]." % "; ".join("Some fn_%d" % fid[n] for n in names))
    L.append("Definition body (f : nat) : option stmt := nth f body_tab None.")
    L.append("Definition public_entries : list nat := [%s]." % "; ".join(str(fid[n]) for n in pub))
    L.append("Definition thread_mains : list nat := [%s]." % "; ".join(str(fid[n]) for n in mains))
    ts = [n for n in pub if n not in NOT_THREADSAFE]
    L.append("Definition threadsafe_entries : list nat := [%s]." % "; ".join(str(fid[n]) for n in ts))
    L.append("Definition call_depth : nat := %d." % (an.maxdepth + 2))
    L.append("Definition lock_count : nat := %d." % nl)
    side = {"locks": tr.locks, "globals": tr.globals, "guards": {g: tr.guard_of.get(g) for g in tr.globals},
            "functions": names, "public": pub, "thread_mains": mains, "threadsafe": ts, "rank": {tr.locks[i]: rank[i] for i in range(nl)},
            "nesting_pairs": [[tr.locks[h], tr.locks[l], ch] for (h, l), ch in sorted(an.pairs.items())],
            "cycles": cyc, "errors": an.errors[:200], "errors_per_entry": {k: v[:5] for k, v in per_entry.items() if v},
            "contexts": len(an.memo), "max_call_depth": an.maxdepth}
    return "\n".join(L) + "\n", side

def main():
    repo = sys.argv[1] if len(sys.argv) > 1 else "/repo"
    outv = sys.argv[2] if len(sys.argv) > 2 else os.path.join(os.path.dirname(os.path.abspath(__file__)), "..", "coq", "LockCfg.v")
    try:
        text, side = generate(repo)
    except TranslatorError as e:
        print("TRANSLATOR-ERROR gen_lockcfg:", e, file=sys.stderr); sys.exit(2)
    old = open(outv).read() if os.path.exists(outv) else None
    if old != text: open(outv, "w").write(text)
    json.dump(side, open(outv[:-2] + ".json", "w"), indent=1)
    print("gen_lockcfg: %d functions, %d locks, %d guarded globals, %d contexts, %d nesting pairs, %d errors, cycles=%d (%s)" % (
        len(side["functions"]), len(side["locks"]), len(side["globals"]), side["contexts"], len(side["nesting_pairs"]), len(side["errors"]), len(side["cycles"]),
        "updated" if old != text else "unchanged"))

if __name__ == "__main__":
    main()
