"""gen_getfacts — recompute from the clang AST of src/highlevel/bidib_highlevel_getter.c and of
include/definitions/bidib_definitions_custom.h which members of the result struct every getter assigns on
which path, and emit coq/GetterFacts.v. coq/GetterFactsCheck.v proves (vm_compute) that the hand-written shape
model of coq/Getters.v leaves exactly these members undefined on the NULL / not-found / found paths and in the
elements the snapshot helpers build, and that no pointer member is assigned from anything but strdup / malloc /
NULL.

Facts per public getter that declares `query`:
  null   = leaves of the result type not covered by the initialiser or by the assignments that precede the
           first top-level `if`   (what a NULL argument returns)
  nf     = leaves not covered by the initialiser or by the unconditional top-level assignments (lookup fails)
  found  = leaves not covered by any assignment in the body
Facts per snapshot helper (static bidib_get_state_*): leaves of the element type not covered by any assignment to
state[i] (a whole-element assignment `state[i] = *tmp` covers everything).
Unions are left out (the only one belongs to a getter with an initialiser)."""
import json, os, subprocess, tempfile

class TranslatorError(Exception):
    pass

def _cflags():
    return subprocess.check_output(["pkg-config", "--cflags", "glib-2.0"]).decode().split()

def _objs(txt):
    dec = json.JSONDecoder(); i = 0; out = []
    while i < len(txt):
        while i < len(txt) and txt[i] in " \n\r\t": i += 1
        if i >= len(txt): break
        o, j = dec.raw_decode(txt, i); out.append(o); i = j
    return out

def layouts(repo):
    with tempfile.TemporaryDirectory(prefix="vgf") as d:
        src = os.path.join(d, "hdr.c"); open(src, "w").write('#include "definitions/bidib_definitions_custom.h"\n')
        r = subprocess.run(["clang", "-std=gnu11", "-w", "-I", os.path.join(repo, "include"), "-fsyntax-only", "-Xclang", "-ast-dump=json", src],
                           capture_output=True, text=True, timeout=120)
        if r.returncode != 0: raise TranslatorError("header does not compile: " + r.stderr[:500])
        tu = json.loads(r.stdout)
    recs = {}; tds = {}
    def find_decl(x):
        if "decl" in x and x["decl"].get("kind") == "RecordDecl": return x["decl"]["id"]
        if "ownedTagDecl" in x: return x["ownedTagDecl"]["id"]
        for c in x.get("inner", []):
            r = find_decl(c)
            if r: return r
        return None
    for n in tu["inner"]:
        if n["kind"] == "RecordDecl":
            recs[n["id"]] = [(f.get("name", ""), f.get("type", {}).get("qualType", "")) for f in n.get("inner", []) if f["kind"] == "FieldDecl"]
        elif n["kind"] == "TypedefDecl" and n["name"].startswith("t_bidib"):
            tds[n["name"]] = find_decl(n)
    return {name: recs[rid] for name, rid in tds.items() if rid in recs}

def leaves(lay, ty, prefix=""):
    """[(dotted member path, 'p' | 's')] in declaration order; by-value structs are expanded, unions skipped"""
    out = []
    for name, qt in lay.get(ty, []):
        if not name or "union " in qt: continue
        qt = qt.replace("const ", "").strip()
        if qt in lay: out += leaves(lay, qt, prefix + name + ".")
        else: out.append((prefix + name, "p" if "*" in qt else "s"))
    return out

def _member_path(n, root_names):
    """LHS expression -> (dotted path, rooted?) for query.a.b / state[i].a.b; path '' = the whole object"""
    path = []
    while True:
        k = n.get("kind")
        if k == "MemberExpr":
            if n.get("name"): path.append(n["name"])
            n = n["inner"][0]
        elif k in ("ImplicitCastExpr", "ParenExpr"): n = n["inner"][0]
        elif k == "ArraySubscriptExpr":
            base = n["inner"][0]
            while base.get("kind") in ("ImplicitCastExpr", "ParenExpr"): base = base["inner"][0]
            if base.get("kind") == "DeclRefExpr" and base["referencedDecl"]["name"] in root_names: return ".".join(reversed(path)), True
            if base.get("kind") == "MemberExpr": n = base; path.append("[]"); continue
            return None, False
        elif k == "DeclRefExpr":
            return (".".join(reversed(path)), True) if n["referencedDecl"]["name"] in root_names else (None, False)
        else: return None, False

def _rhs_kind(n):
    while n.get("kind") in ("ImplicitCastExpr", "ParenExpr", "CStyleCastExpr"):
        if n.get("kind") == "CStyleCastExpr" and n.get("type", {}).get("qualType") == "void *": return "null"
        n = n["inner"][0]
    if n.get("kind") == "CallExpr":
        f = n["inner"][0]
        while f.get("kind") in ("ImplicitCastExpr", "ParenExpr"): f = f["inner"][0]
        name = f.get("referencedDecl", {}).get("name", "?")
        return "fresh" if name in ("strdup", "malloc", "calloc", "g_strdup") else "call:" + name
    if n.get("kind") == "IntegerLiteral": return "null"
    return "other"

def _assignments(stmt, roots, depth, acc, seen_if):
    """collect (path, depth, before_first_toplevel_if, rhs kind) of assignments rooted at one of roots"""
    k = stmt.get("kind")
    if k == "BinaryOperator" and stmt.get("opcode") == "=":
        p, ok = _member_path(stmt["inner"][0], roots)
        if ok: acc.append((p, depth, not seen_if[0], _rhs_kind(stmt["inner"][1]), stmt["inner"][0].get("type", {}).get("qualType", "")))
    cond = k in ("IfStmt", "ForStmt", "WhileStmt", "DoStmt", "SwitchStmt", "ConditionalOperator")
    if k == "IfStmt" and depth == 0: seen_if[0] = True
    for c in stmt.get("inner", []):
        if isinstance(c, dict): _assignments(c, roots, depth + (1 if cond else 0), acc, seen_if)

def _covered(leaf, paths):
    return any(p == "" or leaf == p or leaf.startswith(p + ".") for p in paths)

def facts(repo):
    lay = layouts(repo)
    src = os.path.join(repo, "src/highlevel/bidib_highlevel_getter.c")
    r = subprocess.run(["clang", "-std=gnu11", "-w"] + _cflags() + ["-fsyntax-only", "-Xclang", "-ast-dump=json", "-Xclang", "-ast-dump-filter=bidib_get", src],
                       capture_output=True, text=True, timeout=300)
    if r.returncode != 0: raise TranslatorError("getter source does not compile: " + r.stderr[:500])
    getters = []; helpers = []; suspects = []; helper_names = set()
    for f in _objs(r.stdout):
        if f.get("kind") != "FunctionDecl": continue
        body = next((c for c in f.get("inner", []) if c.get("kind") == "CompoundStmt"), None)
        if body is None: continue
        name = f["name"]; rty = f["type"]["qualType"].split("(")[0].replace("const ", "").strip()
        if f.get("storageClass") == "static" and name.startswith("bidib_get_state_") and rty.endswith("*"):
            ety = rty.rstrip("* ").strip()
            if ety not in lay: raise TranslatorError("snapshot helper %s: unknown element type %s" % (name, ety))
            acc = []; _assignments(body, ("state",), 0, acc, [False])
            if not acc: raise TranslatorError("snapshot helper %s: no assignment to state[i] recognised" % name)
            paths = [a[0] for a in acc]
            lv = leaves(lay, ety)
            helpers.append((name, [l for l, k in lv], [l for l, k in lv if not _covered(l, paths)]))
            for a in acc:
                if "*" in a[4] and a[3] not in ("fresh", "null"): suspects.append((name, a[0], a[3]))
            # a whole-element copy brings the state's pointers along: every pointer leaf must be re-assigned from strdup/malloc
            fresh = {a[0] for a in acc if a[3] in ("fresh", "null")}
            for l, k in lv:
                if k == "p" and l not in fresh: suspects.append((name, l, "copied with the element, never re-assigned"))
            # the array itself must come from malloc
            sv = [v for st in body.get("inner", []) if st.get("kind") == "DeclStmt" for v in st.get("inner", []) if v.get("kind") == "VarDecl" and v.get("name") == "state"]
            if not sv or "inner" not in sv[0] or _rhs_kind(sv[0]["inner"][0]) != "fresh": suspects.append((name, "state", "array not allocated by malloc"))
            helper_names.add(name)
            continue
        if f.get("storageClass") == "static" or not name.startswith("bidib_get_") or name.endswith("_intern"): continue
        q = None
        for st in body.get("inner", []):
            if st.get("kind") == "DeclStmt":
                for v in st.get("inner", []):
                    if v.get("kind") == "VarDecl" and v.get("name") == "query": q = v
        if q is None: continue
        if rty not in lay: raise TranslatorError("getter %s: unknown result type %s" % (name, rty))
        acc = []; _assignments(body, ("query",), 0, acc, [False])
        lv = leaves(lay, rty)
        if "init" in q: null = nf = found = []
        else:
            null = [l for l, k in lv if not _covered(l, [a[0] for a in acc if a[1] == 0 and a[2]])]
            nf = [l for l, k in lv if not _covered(l, [a[0] for a in acc if a[1] == 0])]
            found = [l for l, k in lv if not _covered(l, [a[0] for a in acc])]
        for a in acc:
            if a[3].startswith("call:") and a[3][5:] in helper_names: continue      # result of a snapshot helper (checked above)
            if "*" in a[4] and "[]" not in a[0] and a[3] not in ("fresh", "null"): suspects.append((name, a[0], a[3]))
            if "[]" in a[0] and a[4].replace("const ", "").strip() == "char *" and a[3] != "fresh": suspects.append((name, a[0], a[3]))
        getters.append((name[len("bidib_get_"):], [l for l, k in lv], null, nf, found))
    if len(getters) < 30 or len(helpers) < 8:
        raise TranslatorError("only %d getters with a query variable and %d snapshot helpers recognised" % (len(getters), len(helpers)))
    return getters, helpers, suspects

def _sl(l): return "[" + "; ".join('"%s"' % x for x in l) + "]"

def generate_files(repo):
    getters, helpers, suspects = facts(repo)
    L = ["(* GetterFacts.v — GENERATED by translator/gen_getfacts.py from the clang AST of",
         "   src/highlevel/bidib_highlevel_getter.c and include/definitions/bidib_definitions_custom.h. Do not edit. *)",
         "From Coq Require Import List String.", "Import ListNotations.", "Local Open Scope string_scope.", "",
         "(* getter, leaves of its result type, leaves never written for NULL / when the lookup fails / when it succeeds *)",
         "Definition getter_facts : list (string * (list string * (list string * (list string * list string)))) :=", "  ["]
    L.append(";\n".join('   ("%s", (%s, (%s, (%s, %s))))' % (n, _sl(lv), _sl(a), _sl(b), _sl(c)) for n, lv, a, b, c in getters))
    L += ["  ].", "", "(* snapshot helper, leaves of the element type, leaves it never writes *)",
          "Definition helper_facts : list (string * (list string * list string)) :=", "  ["]
    L.append(";\n".join('   ("%s", (%s, %s))' % (n, _sl(lv), _sl(u)) for n, lv, u in helpers))
    L += ["  ].", "", "(* pointer members assigned from something that is not strdup / malloc / NULL *)",
          "Definition alias_suspects : list (string * (string * string)) :=", "  ["]
    L.append(";\n".join('   ("%s", ("%s", "%s"))' % s for s in suspects))
    L += ["  ].", ""]
    return {"GetterFacts.v": "\n".join(L)}

if __name__ == "__main__":
    import sys
    print(generate_files(sys.argv[1] if len(sys.argv) > 1 else "/repo")["GetterFacts.v"])
