"""vlib — shared machinery for /verif/bin/check: building, running, evidence, verdicts."""
import os, sys, json, time, subprocess, tempfile, shutil, atexit, glob, fcntl, hashlib, re, importlib

VERIF = os.path.dirname(os.path.dirname(os.path.abspath(__file__)))
REPO = os.environ.get("VERIF_REPO", "/repo")
GUARD = "LIBBIDIB_VERIF"
CURRENT_PID = ""
CURRENT_EXTS = ()   # a check may set vlib.CURRENT_EXTS = ("C07",) to name extension files it needs besides its own
NCPU = 16

_tmpdirs = []
def mktmp(prefix="vchk"):
    d = tempfile.mkdtemp(prefix=prefix)
    _tmpdirs.append(d)
    return d
def _cleanup():
    for d in _tmpdirs:
        shutil.rmtree(d, ignore_errors=True)
atexit.register(_cleanup)

# ------------------------------------------------------------------ PRNG (splitmix64)
class Rng:
    def __init__(self, seed):
        self.s = seed & 0xFFFFFFFFFFFFFFFF
    def next(self):
        self.s = (self.s + 0x9E3779B97F4A7C15) & 0xFFFFFFFFFFFFFFFF
        z = self.s
        z = ((z ^ (z >> 30)) * 0xBF58476D1CE4E5B9) & 0xFFFFFFFFFFFFFFFF
        z = ((z ^ (z >> 27)) * 0x94D049BB133111EB) & 0xFFFFFFFFFFFFFFFF
        return z ^ (z >> 31)
    def below(self, n):
        return self.next() % n if n > 0 else 0
    def range(self, lo, hi):  # inclusive
        return lo + self.below(hi - lo + 1)
    def chance(self, num, den):
        return self.below(den) < num
    def choice(self, xs):
        return xs[self.below(len(xs))]
    def fork(self, tag):
        h = int(hashlib.sha256(("%d:%s" % (self.s, tag)).encode()).hexdigest()[:16], 16)
        return Rng(h)

def hexs(b):
    return "".join("%02x" % x for x in b) if len(b) else "-"
def unhex(s):
    return [] if s == "-" else [int(s[i:i+2], 16) for i in range(0, len(s), 2)]

# ------------------------------------------------------------------ Coq workspace
class ProofBroken(Exception):
    def __init__(self, target, log):
        self.target = target; self.log = log

def coq_dir():
    """in-place for the default repo; private copy when VERIF_REPO points elsewhere"""
    if os.path.realpath(REPO) == "/repo":
        return os.path.join(VERIF, "coq")
    d = mktmp("vcoq")
    dst = os.path.join(d, "coq")
    shutil.copytree(os.path.join(VERIF, "coq"), dst)
    return dst

class Lock:
    def __init__(self, path): self.path = path
    def __enter__(self):
        self.f = open(self.path, "w"); fcntl.flock(self.f, fcntl.LOCK_EX); return self
    def __exit__(self, *a):
        fcntl.flock(self.f, fcntl.LOCK_UN); self.f.close()

def run(cmd, timeout=600, cwd=None, input=None, env=None):
    return subprocess.run(cmd, cwd=cwd, input=input, capture_output=True, text=True, timeout=timeout, env=env)

def regenerate(cdir, which=("tables",)):
    """run the translators against REPO; returns list of (name, error) for broken ties"""
    errs = []
    sys.path.insert(0, os.path.join(VERIF, "translator"))
    if "tables" in which:
        import gen_tables
        try:
            text = gen_tables.to_coq(*gen_tables.gen(REPO))
            gen_tables.write_if_changed(os.path.join(cdir, "Tables.v"), text)
        except gen_tables.TranslatorError as e:
            errs.append(("gen_tables", str(e)))
    if "lockcfg" in which:
        import gen_lockcfg
        try:
            text, side = gen_lockcfg.generate(REPO)
            gen_lockcfg_write(cdir, text, side)
        except gen_lockcfg.TranslatorError as e:
            errs.append(("gen_lockcfg", str(e)))
    for name in which:
        if name in ("tables", "lockcfg"): continue
        mod = importlib.import_module("gen_" + name)
        try:
            for fn, text in mod.generate_files(REPO).items():
                pth = os.path.join(cdir, fn)
                if not os.path.exists(pth) or open(pth).read() != text:
                    open(pth, "w").write(text)
        except Exception as e:
            if e.__class__.__name__ != "TranslatorError": raise
            errs.append(("gen_" + name, str(e)))
    return errs

def gen_lockcfg_write(cdir, text, side):
    p = os.path.join(cdir, "LockCfg.v")
    if not os.path.exists(p) or open(p).read() != text:
        open(p, "w").write(text)
    json.dump(side, open(os.path.join(cdir, "LockCfg.json"), "w"), indent=1)

def lock_diagnosis(cdir, kinds=("balance", "order", "guard"), threadsafe_only=False):
    """errors found by the Python mirror of the checker, filtered. An access error carries function, file,
    line, global, guard, mode (read/write) and the locks held with their mode; kind "rw" = a write to
    rwlock-guarded data with the guard held only shared, kind "guard" = guard not held at all"""
    try:
        side = json.load(open(os.path.join(cdir, "LockCfg.json")))
    except Exception:
        return [], {}
    out = []
    ts = set(side.get("threadsafe", [])) | set(side.get("thread_mains", []))
    for entry, errs in side.get("errors_per_entry", {}).items():
        if threadsafe_only and entry not in ts: continue
        for e in errs:
            w = e["what"]
            is_guard = w.startswith("access to")
            if is_guard and "guard" not in kinds: continue
            if not is_guard and "balance" not in kinds: continue
            d = {"entry": entry, "what": w, "call_chain": e["chain"]}
            # read/write model: where, what, in which mode, and which locks were held (with their mode)
            for k in ("kind", "function", "file", "line", "global", "guard", "mode", "held"):
                if k in e: d[k] = e[k]
            out.append(d)
    for cyc in side.get("cycles", []):
        if "order" in kinds: out.append({"entry": "*", "what": "lock order cycle " + " -> ".join(cyc), "call_chain": []})
    return out, side

def coq_project(cdir):
    """(re)generate _CoqProject and Makefile from the .v files present (Extract*.v are compiled separately)"""
    files = sorted(os.path.basename(f) for f in glob.glob(os.path.join(cdir, "*.v")) if not os.path.basename(f).startswith("Extract"))
    text = "-Q . LB\n" + "\n".join(files) + "\n"
    pp = os.path.join(cdir, "_CoqProject")
    if not os.path.exists(pp) or open(pp).read() != text or not os.path.exists(os.path.join(cdir, "Makefile")):
        open(pp, "w").write(text)
        r = run(["coq_makefile", "-f", "_CoqProject", "-o", "Makefile"], cwd=cdir)
        if r.returncode != 0:
            return False, r.stdout + r.stderr
    return True, ""

def coq_make(cdir, targets, timeout=1500):
    """make the given .vo targets (and their deps). Returns (ok, log)."""
    with Lock(os.path.join(cdir, ".lock")):
        ok, log = coq_project(cdir)
        if not ok:
            return False, log
        r = run(["timeout", str(timeout), "make", "-k", "-j%d" % NCPU] + list(targets), cwd=cdir, timeout=timeout + 30)
        return r.returncode == 0, r.stdout + r.stderr

def coq_props(cdir, prop_file):
    """force recompilation of a Properties file; returns (ok, log, theorems, assumptions)"""
    vo = os.path.join(cdir, prop_file[:-2] + ".vo")
    with Lock(os.path.join(cdir, ".lock")):
        if os.path.exists(vo):
            os.remove(vo)
    ok, log = coq_make(cdir, [prop_file[:-2] + ".vo"])
    src = open(os.path.join(cdir, prop_file)).read()
    thms = re.findall(r'^(?:Theorem|Example)\s+(\w+)', src, re.M)
    closed = log.count("Closed under the global context")
    axioms = []
    m = re.findall(r'Axioms:\n((?:.+\n)+?)(?=\S|$)', log)
    for block in m:
        axioms.append(block.strip())
    return ok, log, thms, closed, axioms

FORBIDDEN = re.compile(r'\b(Admitted|admit|Axiom|Parameter|Conjecture|Unset Guard|bypass_check|Admit Obligations)\b')
def strip_coq_comments(text):
    out = []; depth = 0; i = 0; n = len(text); instr = False
    while i < n:
        if depth == 0 and text[i] == '"':
            instr = not instr; out.append(text[i]); i += 1; continue
        if not instr and text.startswith("(*", i):
            depth += 1; i += 2; continue
        if not instr and depth > 0 and text.startswith("*)", i):
            depth -= 1; i += 2; continue
        if depth == 0: out.append(text[i])
        elif text[i] == "\n": out.append("\n")
        i += 1
    return "".join(out)

def grep_gate(cdir):
    bad = []
    for f in sorted(glob.glob(os.path.join(cdir, "*.v"))):
        for i, line in enumerate(strip_coq_comments(open(f).read()).splitlines(), 1):
            if FORBIDDEN.search(line):
                bad.append("%s:%d: %s" % (os.path.basename(f), i, line.strip()))
    return bad

# ------------------------------------------------------------------ OCaml model driver
def build_model_driver(cdir, name=""):
    """extract (Extract<name>.v -> model<name>.ml) and build ocaml/driver<name>.ml in a temp dir; returns path.
    name="" is the shared transmission-layer driver; per-property drivers use e.g. name="_C18"."""
    d = mktmp("vml")
    ev = os.path.join(cdir, "Extract%s.v" % name)
    mods = []
    for line in open(ev):
        m = re.match(r'From LB Require Import (.*)\.', line.strip())
        if m: mods += m.group(1).split()
    ok, log = coq_make(cdir, [x + ".vo" for x in mods])
    if not ok:
        raise ProofBroken("models", log[-3000:])
    r = run(["timeout", "600", "coqc", "-Q", cdir, "LB", ev], cwd=d, timeout=630)
    if r.returncode != 0:
        raise ProofBroken("Extract%s.v" % name, r.stdout + r.stderr)
    for junk in glob.glob(os.path.join(cdir, "Extract%s.vo*" % name)) + glob.glob(os.path.join(cdir, "Extract%s.glob" % name)) + glob.glob(os.path.join(cdir, ".Extract%s.aux" % name)):
        try: os.remove(junk)
        except OSError: pass
    mlname = "model%s" % name.lower()
    shutil.copy(os.path.join(VERIF, "ocaml", "driver%s.ml" % name), os.path.join(d, "driver.ml"))
    base = ["ocamlfind", "ocamlopt", "-w", "-a", "-package", "str", "-linkpkg", mlname + ".mli", mlname + ".ml", "driver.ml", "-o", "model_driver"]
    r = run(base[:2] + ["-O3"] + base[2:], cwd=d, timeout=600)
    if r.returncode != 0:
        r = run(base, cwd=d, timeout=600)
        if r.returncode != 0:
            raise RuntimeError("model driver build failed:\n" + r.stdout + r.stderr)
    return os.path.join(d, "model_driver")

# ------------------------------------------------------------------ C library + harness
class BuildBroken(Exception):
    pass

def pkg_cflags():
    return subprocess.check_output(["pkg-config", "--cflags", "glib-2.0"]).decode().split()

def build_harness(san="asan", extra_defs=(), wrap=()):
    """compile /repo/src/*/*.c + harness/drv.c into a temp dir; returns path of the driver"""
    d = mktmp("vhar")
    allexts = sorted(glob.glob(os.path.join(VERIF, "harness", "ext_*.inc")))
    def write_ext(exts):
        with open(os.path.join(d, "ext_all.inc"), "w") as f:
            for e in exts:
                f.write('#include "%s"\n' % e)
            f.write("static int ext_command(char *cmd, char **a, int na, uint8_t *bytes, size_t nbytes) {\n")
            for e in exts:
                tag = os.path.basename(e)[4:-4]
                f.write("\tif (ext_cmd_%s(cmd, a, na, bytes, nbytes)) return 1;\n" % tag)
            f.write("\t(void)cmd; (void)a; (void)na; (void)bytes; (void)nbytes; return 0;\n}\n")
    write_ext(allexts)
    srcs = sorted(glob.glob(os.path.join(REPO, "src/*/*.c")))
    if not srcs:
        raise BuildBroken("no sources under %s/src" % REPO)
    flags = ["-std=gnu11", "-g", "-O1", "-w", "-fno-omit-frame-pointer", "-D" + GUARD] + list(extra_defs)
    if "pthread_mutex_lock" in wrap: flags.append("-DDRV_WRAP_LOCKS")
    if "pthread_rwlock_rdlock" in wrap: flags.append("-DDRV_WRAP_RW")
    if "pthread_mutex_unlock" in wrap: flags.append("-DDRV_WRAP_OWNER")
    if san == "asan":
        flags += ["-fsanitize=address,undefined", "-fno-sanitize-recover=undefined"]
    elif san == "tsan":
        flags += ["-fsanitize=thread"]
    flags += pkg_cflags()
    procs = []
    objs = []
    for s in srcs:
        o = os.path.join(d, os.path.basename(s)[:-2] + ".o")
        objs.append(o)
        procs.append((s, subprocess.Popen(["clang"] + flags + ["-c", s, "-o", o], stdout=subprocess.PIPE, stderr=subprocess.STDOUT, text=True)))
    drv = os.path.join(d, "drv.o")
    procs.append(("drv.c", subprocess.Popen(["clang"] + flags + ["-I", os.path.join(REPO, "include"), "-I", os.path.join(REPO, "src"), "-iquote", d, "-iquote", os.path.join(VERIF, "harness"),
                  "-c", os.path.join(VERIF, "harness", "drv.c"), "-o", drv], stdout=subprocess.PIPE, stderr=subprocess.STDOUT, text=True)))
    for s, p in procs:
        out, _ = p.communicate()
        if p.returncode != 0 and s == "drv.c":
            # an extension file of another property (possibly under construction) must not break this
            # property's harness: retry with the shared extension and this property's own only
            mine = [e for e in allexts if os.path.basename(e)[4:-4] in ("race", "sched", CURRENT_PID) or os.path.basename(e)[4:-4] in CURRENT_EXTS]
            write_ext(mine)
            r2 = run(["clang"] + flags + ["-I", os.path.join(REPO, "include"), "-I", os.path.join(REPO, "src"), "-iquote", d, "-iquote", os.path.join(VERIF, "harness"),
                      "-c", os.path.join(VERIF, "harness", "drv.c"), "-o", drv], timeout=300)
            if r2.returncode != 0:
                raise BuildBroken("compile failed: drv.c\n%s" % ((r2.stdout + r2.stderr)[:3000]))
            continue
        if p.returncode != 0:
            raise BuildBroken("compile failed: %s\n%s" % (s, out[:3000]))
    exe = os.path.join(d, "drv")
    link = ["clang"] + [f for f in flags if f.startswith("-fsanitize") or f == "-g"] + objs + [drv, "-o", exe, "-lglib-2.0", "-lyaml", "-lpthread"]
    for w in wrap:
        link.append("-Wl,--wrap=" + w)
    r = run(link, timeout=120)
    if r.returncode != 0:
        raise BuildBroken("link failed:\n" + (r.stdout + r.stderr)[:3000])
    return exe

SAN_ENV = {"G_SLICE": "always-malloc", "ASAN_OPTIONS": "detect_leaks=0:abort_on_error=0:exitcode=77:allocator_may_return_null=1", "UBSAN_OPTIONS": "print_stacktrace=0:halt_on_error=1:exitcode=78"}
def run_driver(exe, script, timeout=300, env_extra=None):
    env = dict(os.environ); env.update(SAN_ENV)
    if env_extra: env.update(env_extra)
    try:
        r = subprocess.run([exe], input=script, capture_output=True, text=True, timeout=timeout, env=env, errors="replace")
        return r.returncode, r.stdout, r.stderr
    except subprocess.TimeoutExpired as e:
        return -999, (e.stdout or b"").decode(errors="replace") if isinstance(e.stdout, bytes) else (e.stdout or ""), "TIMEOUT"

def split_cases(text):
    """observation text -> {case id: [lines]}"""
    cases = {}; cur = None
    for line in text.splitlines():
        if line.startswith("case "):
            cur = line[5:].strip(); cases[cur] = []
        elif cur is not None:
            cases[cur].append(line)
    return cases

# ------------------------------------------------------------------ known findings
def load_known():
    known = []; fixed = []
    p = os.path.join(VERIF, "known_findings.txt")
    if os.path.exists(p):
        for line in open(p):
            line = line.strip()
            if not line or line.startswith("#"): continue
            m = re.match(r'known:\s+property=(\S+)\s+key=(\S+)\s+(.*)$', line)
            if m: known.append({"property": m.group(1), "key": m.group(2), "what": m.group(3)}); continue
            m = re.match(r'fixed:\s+property=(\S+)\s+(\S+)\s+(.*)$', line)
            if m: fixed.append({"property": m.group(1), "commit": m.group(2), "what": m.group(3)})
    return known, fixed

# ------------------------------------------------------------------ verdict / evidence
class Check:
    def __init__(self, pid, tier, seed):
        self.pid = pid; self.tier = tier; self.seed = seed
        self.t0 = time.time()
        self.obligations = []       # (name, ok, detail)
        self.violations = []        # (key, replay path, no_input)
        self.known_hits = []
        self.coverage = {}
        self.assumptions = []
        self.known, self.fixed = load_known()
        self.known = [k for k in self.known if k["property"] == pid]
        self.outdir = VERIF if os.path.realpath(REPO) == "/repo" else os.environ.get("VERIF_OUT", "/tmp/verif-out-" + hashlib.sha256(REPO.encode()).hexdigest()[:8])
        os.makedirs(os.path.join(self.outdir, "replays"), exist_ok=True)
        os.makedirs(os.path.join(self.outdir, "evidence"), exist_ok=True)

    def oblige(self, name, ok, detail=""):
        self.obligations.append((name, bool(ok), detail))

    def replay_file(self, tag, content):
        p = os.path.join(self.outdir, "replays", "%s-%s-%d.json" % (self.pid, re.sub(r'[^A-Za-z0-9_.-]', '_', tag)[:110], self.seed))
        with open(p, "w") as f:
            json.dump(content, f, indent=1)
        return p

    def violation(self, key, content, no_input=False):
        """key identifies the failing input class / site; matched against known_findings"""
        for k in self.known:
            if k["key"] == key:
                if key not in [h["key"] for h in self.known_hits]:
                    self.known_hits.append(k)
                    try: self.replay_file("known-" + key, content)     # reproducer of the recorded finding
                    except Exception: pass
                return
        p = self.replay_file(key, content)
        self.violations.append((key, p, no_input))

    def finish(self, level="proof", checker_cmd="", trusted=None, extra=None):
        cov = dict(self.coverage)
        cov["obligations"] = len(self.obligations)
        cov["discharged"] = sum(1 for o in self.obligations if o[1])
        cov["obligation_list"] = [{"name": n, "ok": ok, "detail": d[:300]} for n, ok, d in self.obligations]
        cov["checker_cmd"] = checker_cmd or ("cd /verif/coq && make Properties_%s.vo (coqc 8.16.1)" % self.pid)
        cov["trusted_base"] = trusted or []
        if extra: cov.update(extra)
        ev = {"property_id": self.pid, "tier": self.tier, "seed": self.seed, "level": level,
              "coverage": cov, "assumptions": self.assumptions, "wall_s": round(time.time() - self.t0, 2),
              "violations": len(self.violations),
              "known_findings_hit": [k["key"] for k in self.known_hits]}
        with open(os.path.join(self.outdir, "evidence", "%s.json" % self.pid), "w") as f:
            json.dump(ev, f, indent=1)
        for k in self.known_hits:
            print("KNOWN-FINDING: property=%s %s (%s)" % (self.pid, k["what"], k["key"]))
        seen = set()
        for key, p, no_input in self.violations:
            if key in seen: continue
            seen.add(key)
            print("VIOLATION property=%s replay=%s%s" % (self.pid, p, " no-failing-input-found" if no_input else ""))
        sys.stdout.flush()
        return 1 if self.violations else 0

TRUSTED_COMMON = [
    "Coq 8.16.1 kernel (coqc); vm_compute used for finite enumerations; no native_compute",
    "no axioms: every property theorem prints 'Closed under the global context'",
    "translator/gen_tables.py + clang evaluating the C constant probe (tables, constants from the source)",
    "extraction to OCaml with ExtrOcamlBasic only (Extract Inductive bool/option/unit/list/prod/sumbool/sumor/comparison), no Extract Constant; used only for the correspondence",
    "harness/drv.c (callbacks, usleep/time/syslog interposers), clang ASan/UBSan as observers",
]

# ------------------------------------------------------------------ standard phases
def failing_items(cdir, log):
    """map coqc error locations in a make log to the enclosing Lemma/Theorem names"""
    items = []
    for m in re.finditer(r'File "\./([^"]+)", line (\d+)', log):
        f, ln = m.group(1), int(m.group(2))
        name = "?"
        try:
            lines = open(os.path.join(cdir, f)).read().splitlines()
            for i in range(min(ln, len(lines)) - 1, -1, -1):
                mm = re.match(r'\s*(?:Lemma|Theorem|Example|Definition|Fixpoint|Corollary)\s+(\w+)', lines[i])
                if mm: name = mm.group(1); break
        except OSError:
            pass
        items.append("%s:%d:%s" % (f, ln, name))
    return items

def proof_phase(ck, prop_file, translators=("tables",)):
    """regenerate, build, record obligations. Returns (cdir, ok). Broken items go to ck.broken."""
    if not hasattr(ck, "broken"): ck.broken = []
    cdir = coq_dir()
    ck.cdir = cdir
    for n, e in regenerate(cdir, translators):
        ck.oblige("translator:" + n, False, e)
        ck.broken.append({"kind": "translator", "name": n, "detail": e[:1500]})
    gate = grep_gate(cdir)
    ck.oblige("no Admitted/Axiom/Parameter in the development", not gate, "; ".join(gate[:5]))
    if gate:
        ck.broken.append({"kind": "gate", "name": "forbidden-vernacular", "detail": "; ".join(gate[:10])})
    ok, log, thms, closed, axioms = coq_props(cdir, prop_file)
    n_pa = len(re.findall(r'^Print Assumptions', open(os.path.join(cdir, prop_file)).read(), re.M))
    if ok:
        for t in thms:
            ck.oblige("theorem:" + t, True, "")
        ck.oblige("Print Assumptions: closed under the global context (%d of %d)" % (closed, n_pa), closed == n_pa and not axioms, "; ".join(axioms)[:300])
        if closed != n_pa or axioms:
            ck.broken.append({"kind": "axioms", "name": prop_file, "detail": "; ".join(axioms)[:1000]})
    else:
        items = failing_items(cdir, log)
        for t in thms:
            ck.oblige("theorem:" + t, False, "build failed at " + ", ".join(items[:3]))
        ck.broken.append({"kind": "proof", "name": prop_file, "failing": items, "detail": log[-1500:]})
    ck.coverage["theorems"] = thms
    return cdir, ok

def finish_with_broken(ck, **kw):
    """if a proof/translator/correspondence is broken and the search found no failing input, report so"""
    if getattr(ck, "broken", None) and not ck.violations and not ck.known_hits_cover_broken():
        p = ck.replay_file("broken-tie", {"broken": ck.broken, "note": "no failing input found by the search; the named theorem/translator/correspondence no longer checks"})
        ck.violations.append(("broken-tie", p, True))
    return ck.finish(**kw)

def _kh(self):
    return False
Check.known_hits_cover_broken = _kh


# ------------------------------------------------------------------ replay
def replay_generic(ck, path, start="start 1 - 0", wrap=()):
    """re-run the failing case recorded in a replay file on the current implementation and print what it does"""
    if not os.path.exists(path):
        print("replay file %s does not exist" % path); return 2
    d = json.load(open(path))
    print("replay of %s" % path)
    for k in ("reason", "scenario", "meaning", "failing_path", "broken"):
        if k in d: print("%s: %s" % (k, json.dumps(d[k])[:1500]))
    script = None
    if "script" in d: script = d["script"]
    elif "schedule" in d: script = ["case replay", "reset_nodes", "cap 0", "flush"] + d["schedule"] + ["flush"]; wrap = ("pthread_mutex_lock",)
    elif "ops" in d:
        script = ["case replay", "cap 0", "flush"]
        for o in d["ops"]:
            script.append("add " + o[1] if o[0] == "add" else ("flush" if o[0] == "flush" else "cap %s" % o[1]))
        script.append("flush")
    elif "chunks" in d:
        script = ["case replay", "rx fe", "discard q"] + ["rx " + c for c in d["chunks"]] + ["drain q", "drain e"]
    elif "message" in d and isinstance(d["message"], str):
        import flowgen
        start = d.get("start", start)
        script = ["case replay", "rx " + hexs(flowgen.frame(unhex(d["message"]))), "drain q", "drain e"]
    if script is None:
        print("(no executable script in this replay file; it documents a broken proof obligation / tie)")
        return 0
    exe = build_harness(wrap=wrap)
    rc, out, err = run_driver(exe, start + "\n" + "\n".join(script) + "\n", timeout=60)
    print("--- script"); print("\n".join(script))
    print("--- implementation (exit %d)" % rc); print(out)
    if err.strip(): print("--- stderr"); print(err[:1500])
    if "impl" in d: print("--- recorded at detection time"); print("\n".join(d["impl"] or []))
    return 0
