(* driver_C17.ml — runs the extracted getter shape model (coq/Getters.v) on the C17 scripts and prints
   the observation lines in the format of harness/ext_C17.inc. Glue only: parsing of the "st" state
   abstraction lines into the extracted records, conversion int<->N, printing of shapes. *)
type ostring = string
open Model_c17

let rec pos_of_int (i : int) : positive =
  if i = 1 then XH else if i land 1 = 1 then XI (pos_of_int (i lsr 1)) else XO (pos_of_int (i lsr 1))
let n_of_int (i : int) : n = if i = 0 then N0 else Npos (pos_of_int i)
let rec i64_of_pos (p : positive) : int64 =
  match p with XH -> 1L | XO q -> Int64.shift_left (i64_of_pos q) 1 | XI q -> Int64.add (Int64.shift_left (i64_of_pos q) 1) 1L
let dec_of_n (x : n) : ostring = match x with N0 -> "0" | Npos p -> Printf.sprintf "%Lu" (i64_of_pos p)
let rec int_of_pos (p : positive) : int = match p with XH -> 1 | XO q -> 2 * int_of_pos q | XI q -> 2 * int_of_pos q + 1
let int_of_n (x : n) : int = match x with N0 -> 0 | Npos p -> int_of_pos p

let unhex (s : ostring) : n list =
  if s = "-" then [] else
    List.init (String.length s / 2) (fun i -> n_of_int (int_of_string ("0x" ^ String.sub s (2 * i) 2)))
let hex (l : n list) : ostring =
  if l = [] then "-" else String.concat "" (List.map (fun b -> Printf.sprintf "%02x" (int_of_n b)) l)
(* "u" = a state member that was never initialised: any value >= 2^64 (Getters.undef_mark) *)
let undef_mark : n = Npos (let rec go k = if k = 0 then XH else XO (go (k - 1)) in go 64)
let num (s : ostring) : n = if s = "u" then undef_mark else n_of_int (int_of_string s)
let sid (s : ostring) : n list option = if s = "null" then None else Some (unhex s)

let char_of_ascii (Ascii (b0, b1, b2, b3, b4, b5, b6, b7)) =
  let v b k = if b then 1 lsl k else 0 in
  Char.chr (v b0 0 + v b1 1 + v b2 2 + v b3 3 + v b4 4 + v b5 5 + v b6 6 + v b7 7)
let rec ostr (s : string) : ostring = match s with EmptyString -> "" | String (c, r) -> String.make 1 (char_of_ascii c) ^ ostr r

let split_ws (s : ostring) : ostring list = List.filter (fun x -> x <> "") (String.split_on_char ' ' s)
let buf = Buffer.create 65536
let out s = Buffer.add_string buf s; Buffer.add_char buf '\n'

(* ---------------------------------------------------------------- shapes -> lines *)
let join (p : ostring) (name : ostring) : ostring =
  if p = "" then name else if name = "" || name.[0] = '[' then p ^ name else p ^ "." ^ name
let rec pr (path : ostring) (s : shape) : unit =
  match s with
  | Sc (Some v) -> out (Printf.sprintf "s %s %s" path (dec_of_n v))
  | Sc None -> out (Printf.sprintf "s %s undef" path)
  | PNull -> out (Printf.sprintf "p %s null" path)
  | PUndef -> out (Printf.sprintf "p %s undef" path)
  | PFresh t -> out (Printf.sprintf "p %s fresh" path); pr path t
  | PAlias t -> out (Printf.sprintf "p %s alias" path); pr path t
  | Str x -> out (Printf.sprintf "t %s %s" path (hex x))
  | Arr l -> List.iteri (fun i e -> pr (path ^ Printf.sprintf "[%d]" i) e) l
  | Rec l -> List.iter (fun (k, v) -> pr (join path (ostr k)) v) l

(* ---------------------------------------------------------------- "st" lines -> astate *)
let upd_last f l = match List.rev l with [] -> [] | x :: r -> List.rev (f x :: r)
let cur = ref st_empty
let bld = ref st_empty
let last_map = ref ""
let upd_board f = bld := { !bld with boards = upd_last f !bld.boards }
let add_map tag m =
  last_map := tag;
  upd_board (fun b -> match tag with
    | "bpb" -> { b with b_points_board = b.b_points_board @ [m] }
    | "bpd" -> { b with b_points_dcc = b.b_points_dcc @ [m] }
    | "bsb" -> { b with b_signals_board = b.b_signals_board @ [m] }
    | "bsd" -> { b with b_signals_dcc = b.b_signals_dcc @ [m] }
    | _ -> { b with b_peripherals = b.b_peripherals @ [m] })
let add_asp a =
  let f m = { m with mp_aspects = m.mp_aspects @ [a] } in
  upd_board (fun b -> match !last_map with
    | "bpb" -> { b with b_points_board = upd_last f b.b_points_board }
    | "bpd" -> { b with b_points_dcc = upd_last f b.b_points_dcc }
    | "bsb" -> { b with b_signals_board = upd_last f b.b_signals_board }
    | "bsd" -> { b with b_signals_dcc = upd_last f b.b_signals_dcc }
    | _ -> { b with b_peripherals = upd_last f b.b_peripherals })
let st_line (t : ostring list) : unit =
  let s = !bld in
  match t with
  | ["begin"] -> bld := st_empty
  | ["end"] -> cur := !bld
  | ["board"; id; conn; uid; addr] ->
      bld := { s with boards = s.boards @ [{ b_id = unhex id; b_connected = conn <> "0"; b_uid = unhex uid; b_addr = unhex addr; b_features = [];
               b_points_board = []; b_points_dcc = []; b_signals_board = []; b_signals_dcc = []; b_peripherals = []; b_segments = []; b_reversers = [] }] }
  | ["feat"; a; b] -> upd_board (fun x -> { x with b_features = x.b_features @ [(num a, num b)] })
  | ("bpb" | "bpd" | "bsb" | "bsd" | "bper" as tag) :: id :: _ -> add_map tag { mp_id = unhex id; mp_aspects = [] }
  | ["asp"; id] -> add_asp (unhex id)
  | "bseg" :: id :: _ -> upd_board (fun x -> { x with b_segments = x.b_segments @ [unhex id] })
  | "brev" :: id :: _ -> upd_board (fun x -> { x with b_reversers = x.b_reversers @ [unhex id] })
  | ["train"; id; l; h; ty] -> bld := { s with trains = s.trains @ [{ tr_id = unhex id; tr_dcc = [num l; num h; num ty]; tr_peripherals = [] }] }
  | "tper" :: id :: _ -> bld := { s with trains = upd_last (fun x -> { x with tr_peripherals = x.tr_peripherals @ [unhex id] }) s.trains }
  | [("pb" | "sb" as tag); id; si; sv; ex; w] ->
      let a = { ba_id = unhex id; ba_sid = sid si; ba_sv = num sv; ba_exec = num ex; ba_wait = num w } in
      if tag = "pb" then bld := { s with points_board = s.points_board @ [a] } else bld := { s with signals_board = s.signals_board @ [a] }
  | [("pd" | "sd" as tag); id; si; sv; co; oc; ak; tu; sw] ->
      let a = { da_id = unhex id; da_sid = sid si; da_sv = num sv; da_coil = num co; da_oct = num oc; da_ack = num ak; da_tu = num tu; da_swt = num sw } in
      if tag = "pd" then bld := { s with points_dcc = s.points_dcc @ [a] } else bld := { s with signals_dcc = s.signals_dcc @ [a] }
  | ["per"; id; si; sv; tu; w] ->
      bld := { s with peripherals = s.peripherals @ [{ pe_id = unhex id; pe_sid = sid si; pe_sv = num sv; pe_tu = num tu; pe_wait = num w }] }
  | ["seg"; id; oc; v; f; ns; pk; po; pc] ->
      bld := { s with segments = s.segments @ [{ sg_id = unhex id; sg_occ = num oc; sg_void = num v; sg_freeze = num f; sg_nosig = num ns;
               sg_pknown = num pk; sg_pover = num po; sg_pcur = num pc; sg_addrs = [] }] }
  | ["sda"; l; h; ty] -> bld := { s with segments = upd_last (fun x -> { x with sg_addrs = x.sg_addrs @ [[num l; num h; num ty]] }) s.segments }
  | ["rev"; id; si; sv] -> bld := { s with reversers = s.reversers @ [{ rv_id = unhex id; rv_sid = sid si; rv_sv = num sv }] }
  | "ts" :: id :: on :: ori :: step :: fwd :: ack :: kmh :: dec ->
      bld := { s with tstates = s.tstates @ [{ tt_id = unhex id; tt_on = num on; tt_orient = num ori; tt_step = num step; tt_fwd = num fwd;
               tt_ack = num ack; tt_kmh = num kmh; tt_dec = List.map num dec; tt_pers = [] }] }
  | ["tsp"; id; v] -> bld := { s with tstates = upd_last (fun x -> { x with tt_pers = x.tt_pers @ [(unhex id, num v)] }) s.tstates }
  | ["boo"; id; ps; pss; pk; po; pc; vk; v; tk; t] ->
      bld := { s with boosters = s.boosters @ [{ bo_id = unhex id; bo_ps = num ps; bo_pss = num pss; bo_pknown = num pk; bo_pover = num po;
               bo_pcur = num pc; bo_vknown = num vk; bo_v = num v; bo_tknown = num tk; bo_t = num t }] }
  | ["to"; id; cs] -> bld := { s with touts = s.touts @ [{ to_id = unhex id; to_cs = num cs }] }
  | _ -> out ("bad-st-line " ^ String.concat " " t)

(* ---------------------------------------------------------------- getters *)
let getter_names = ["state"; "point_state_index"; "signal_state_index"; "segment_state_index"; "point_state"; "signal_state";
  "peripheral_state"; "segment_state"; "reverser_state"; "uniqueid"; "nodeaddr"; "uniqueid_by_nodeaddr"; "nodeaddr_by_uniqueid"; "board_id";
  "boards"; "boards_connected"; "board_connected"; "board_features"; "board_points"; "board_signals"; "board_peripherals"; "board_segments";
  "board_reversers"; "connected_points"; "connected_signals"; "connected_peripherals"; "connected_segments"; "connected_reversers";
  "connected_boosters"; "boosters"; "track_outputs"; "connected_track_outputs"; "booster_state"; "track_output_state"; "trains";
  "trains_on_track"; "train_peripherals"; "train_id"; "train_dcc_addr"; "train_state"; "train_peripheral_state"; "train_position";
  "train_speed_step"; "train_speed_kmh"; "train_on_track"; "point_aspects"; "signal_aspects"; "peripheral_aspects"]
let getter_of (name : ostring) : getter option =
  let rec go ns gs = match ns, gs with n :: nr, g :: gr -> if n = name then Some g else go nr gr | _ -> None in
  go getter_names all_getters
let arg_of (s : ostring) : arg =
  if String.length s >= 2 && s.[1] = ':' then
    (let v = unhex (String.sub s 2 (String.length s - 2)) in if s.[0] = 's' then AStr v else ARaw v)
  else ANull

let held : (ostring * rtype * shape) list ref = ref []

let () =
  (try while true do
    let line = input_line stdin in
    match split_ws line with
    | [] -> ()
    | "case" :: id :: _ -> out ("case " ^ id)
    | "start" :: _ -> out "start 0"
    | "stop" :: _ -> out "stopped"
    | "mark" :: r -> out ("mark " ^ String.concat " " r)
    | "st" :: t -> st_line t
    | "c17get" :: name :: rest ->
        let a1s = (match rest with a :: _ -> a | [] -> "-") in
        let a2s = (match rest with _ :: b :: _ -> Some b | _ -> None) in
        out ("g " ^ name ^ " " ^ a1s ^ (match a2s with Some b -> " " ^ b | None -> ""));
        (match getter_of name with
         | None -> out ("unknown-getter " ^ name)
         | Some g ->
           (match call g (arg_of a1s) (match a2s with Some b -> arg_of b | None -> ANull) !cur with
            | Crash -> out "call fault"
            | Res s ->
              pr "" s;
              let rt = rtype_of g in
              (match rt with
               | RNoFree -> out "free none"
               | _ -> (match free_query rt s with FOk -> out "free ok" | FFault -> out "free fault"));
              held := !held @ [(name, rt, s)]))
    | "c17recheck" :: _ ->
        List.iteri (fun i (name, rt, s) ->
          if has_alias s || free_query rt s = FFault then out (Printf.sprintf "recheck %d %s" i name)) !held;
        out (Printf.sprintf "recheck done %d" (List.length !held))
    | "c17release" :: _ -> held := []; out "released"
    | "c17snapcheck" :: _ ->
        List.iter (fun ((c, id), m) -> out (Printf.sprintf "mismatch %s %s %s" (ostr (cat_array c)) (hex id) (ostr m))) (snapshot_mismatches !cur)
    | _ -> ()
  done with End_of_file -> ());
  print_string (Buffer.contents buf)
