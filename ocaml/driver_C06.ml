(* driver_C06.ml — model side of the C06 correspondence: receive path + routing + three bounded queues *)
open Model_c06
let rec pos_of_int i = if i = 1 then XH else if i land 1 = 1 then XI (pos_of_int (i lsr 1)) else XO (pos_of_int (i lsr 1))
let n_of_int i = if i = 0 then N0 else Npos (pos_of_int i)
let rec int_of_pos p = match p with XH -> 1 | XO q -> 2 * int_of_pos q | XI q -> 2 * int_of_pos q + 1
let int_of_n x = match x with N0 -> 0 | Npos p -> int_of_pos p
let unhex s = if s = "-" then [] else List.init (String.length s / 2) (fun i -> n_of_int (int_of_string ("0x" ^ String.sub s (2 * i) 2)))
let hex l = if l = [] then "-" else String.concat "" (List.map (fun b -> Printf.sprintf "%02x" (int_of_n b)) l)
let split_ws s = List.filter (fun x -> x <> "") (String.split_on_char ' ' s)
let buf = Buffer.create 65536
let out s = Buffer.add_string buf s; Buffer.add_char buf '\n'
let () =
  let rs = ref rx_init and qs = ref queues_init and debug = ref true in
  let drain tag =
    let get q = match tag with "q" -> q.q_msg | "e" -> q.q_err | _ -> q.q_int in
    List.iter (fun m -> out (tag ^ " " ^ hex m)) (get !qs);
    (qs := match tag with
      | "q" -> { !qs with q_msg = [] } | "e" -> { !qs with q_err = [] } | _ -> { !qs with q_int = [] });
    out (tag ^ " none") in
  (try while true do
    match split_ws (input_line stdin) with
    | [] -> ()
    | "case" :: id :: _ -> out ("case " ^ id)
    | "start" :: d :: _ -> rs := rx_init; qs := queues_init; debug := (d <> "0"); out "start 0"
    | "debugmode" :: d :: _ -> debug := (d <> "0")
    | "rx" :: h :: _ ->
        let (r1, items) = rx_run !rs (unhex h) in
        rs := r1;
        List.iter (fun it -> match it with Delivered m -> qs := route !debug !qs m | _ -> ()) items
    | "drain" :: t :: _ -> drain t
    | "discard" :: t :: _ ->
        (qs := match t with "q" -> { !qs with q_msg = [] } | "e" -> { !qs with q_err = [] } | _ -> { !qs with q_int = [] })
    | ("readq" | "reade" | "readi") as c :: _ ->
        let tag = String.make 1 c.[4] in
        let q = (match tag with "q" -> !qs.q_msg | "e" -> !qs.q_err | _ -> !qs.q_int) in
        (match q_pop q with
         | (Some m, r) -> out (tag ^ " " ^ hex m);
             (qs := match tag with "q" -> { !qs with q_msg = r } | "e" -> { !qs with q_err = r } | _ -> { !qs with q_int = r })
         | (None, _) -> out (tag ^ " none"))
    | "logw" :: _ | "flush" :: _ -> ()
    | "mark" :: r -> out ("mark " ^ String.concat " " r)
    | c :: _ -> out ("unknown-command " ^ c)
  done with End_of_file -> ());
  print_string (Buffer.contents buf)
