(* driver_C18.ml — runs the extracted send-function models on the same scripts as harness/drv.c (+ ext_C18.inc).
   Thin glue only: parsing, int<->Z/N conversion, printing.
   mode gen : the generated functions (SendFns.gen_call); prints what the C driver prints (`w` lines on flush) where the
              model determines the bytes, `indet <addr> <type> <pattern>` for messages with never-written bytes and
              `model-fault <site>` where the model predicts an out-of-bounds access.
   mode spec: the hand-written specification (SendSpec.spec_call): `spec rejected` | `spec <addr> <type> <data>` per call. *)
open Model_c18

let rec pos_of_int (i : int) : positive =
  if i = 1 then XH else if i land 1 = 1 then XI (pos_of_int (i lsr 1)) else XO (pos_of_int (i lsr 1))
let z_of_int (i : int) : z = if i = 0 then Z0 else if i > 0 then Zpos (pos_of_int i) else Zneg (pos_of_int (-i))
let rec int_of_pos (p : positive) : int = match p with XH -> 1 | XO q -> 2 * int_of_pos q | XI q -> 2 * int_of_pos q + 1
let int_of_z (x : z) : int = match x with Z0 -> 0 | Zpos p -> int_of_pos p | Zneg p -> - (int_of_pos p)
let int_of_n (x : n) : int = match x with N0 -> 0 | Npos p -> int_of_pos p

let unhex (s : string) : z list =
  if s = "-" then [] else
    let k = String.length s / 2 in
    List.init k (fun i -> z_of_int (int_of_string ("0x" ^ String.sub s (2 * i) 2)))
let hexz (l : z list) : string =
  if l = [] then "-" else String.concat "" (List.map (fun b -> Printf.sprintf "%02x" ((int_of_z b) land 0xff)) l)
let hexn (l : n list) : string =
  if l = [] then "-" else String.concat "" (List.map (fun b -> Printf.sprintf "%02x" (int_of_n b)) l)
let hexo (l : z option list) : string =
  if l = [] then "-" else String.concat "" (List.map (fun b -> match b with Some v -> Printf.sprintf "%02x" ((int_of_z v) land 0xff) | None -> "??") l)
let addr_str (((t, s), ss) : (z * z) * z) : string = hexz [t; s; ss]

let split_ws (s : string) : string list = List.filter (fun x -> x <> "") (String.split_on_char ' ' s)
let buf = Buffer.create 65536
let out s = Buffer.add_string buf s; Buffer.add_char buf '\n'
let flush_out () = print_string (Buffer.contents buf); Buffer.clear buf

let rec int_of_nat (n : nat) : int = match n with O -> 0 | S m -> 1 + int_of_nat m
let fault_str (f : fault) : string =
  match f with
  | BufRead (k, i) -> Printf.sprintf "buf-read %d %d" (int_of_nat k) (int_of_z i)
  | VlaSize n -> Printf.sprintf "vla-size %d" (int_of_z n)
  | VlaWrite i -> Printf.sprintf "vla-write %d" (int_of_z i)
  | VlaRead l -> Printf.sprintf "vla-read %d" (int_of_z l)

let fns = Array.of_list all_fns

let run (mode : string) =
  let pending = ref [] in   (* lines to print at the next flush *)
  (try while true do
    let line = input_line stdin in
    match split_ws line with
    | [] -> ()
    | "case" :: id :: _ -> pending := []; out ("case " ^ id)
    | "start" :: _ -> out "start 0"
    | ("sendfn" | "sendfn_first" as cmd) :: idx :: name :: sc :: bufs ->
        let f = fns.(int_of_string idx) in
        let sc = unhex sc and bufs = List.map unhex bufs in
        if mode = "spec" then begin
          match spec_call f sc bufs with
          | Rejected -> out "spec rejected"
          | Sent (a, ty, d) -> out (Printf.sprintf "spec %s %02x %s" (addr_str a) (int_of_z ty) (hexz d))
          | SentIndet (a, ty, d) -> out "spec indet"
        end else begin
          match gen_call f sc bufs with
          | Err e -> out ("model-fault " ^ fault_str e)
          | Ok Rejected -> ()
          | Ok (Sent (a, ty, d)) -> pending := !pending @ List.map (fun c -> "w " ^ hexn c) (sent_wire a ty d)
          | Ok (SentIndet (a, ty, d)) -> pending := !pending @ [Printf.sprintf "indet %s %02x %s" (addr_str a) (int_of_z ty) (hexo d)]
        end;
        if cmd = "sendfn_first" then begin List.iter out !pending; pending := []; out "first-only" end
    | "flush" :: _ -> List.iter out !pending; pending := []
    | "mark" :: r -> out ("mark " ^ String.concat " " r)
    | ("seqon" | "reset_nodes" | "cap") :: _ -> ()
    | c :: _ when String.length c > 0 && c.[0] = '#' -> ()
    | c :: _ -> out ("unknown-command " ^ c)
  done with End_of_file -> ());
  flush_out ()

let () =
  match Array.to_list Sys.argv with
  | _ :: "gen" :: _ -> run "gen"
  | _ :: "spec" :: _ -> run "spec"
  | _ -> prerr_endline "usage: model_driver gen|spec"; exit 2
