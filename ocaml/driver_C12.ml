(* driver_C12.ml — model side of the C12 dispatcher/handler comparison (thin glue over the extraction of
   AccessModel.v / Handlers.v). One query per line, one answer line per query:
     msg <secack> <known> <had> <booster> <type> <hex>   -> "msg drop" | "msg handled len=<data_length> reads=<i,..> ptrs=<i,..> var=<reads|fault i>"
     vendor <len> <hex>                                  -> "vendor acc=<0|1> ext=<e> reads=<..>" | "vendor fault <i>"
     mults <number> <size> <hex>  (bidib_state_bm_multiple)        -> "mults ext=<e> reads=<..>" | "mults fault <i>"
     multm <number> <size> <hex>  (bidib_send_bm_mirror_multiple)  -> "multm ext=<e> reads=<..>" | "multm fault <i>"
     multc <secack> <number> <size> <avail> <hex>  (the dispatcher case) -> "multc acc=<0|1> ext=<e>" | "multc fault <i>"
     addr <known> <had> <count> <hex>                    -> "addr ext=<e> reads=<..>" | "addr fault <i>"
     diag <booster> <len> <hex>                          -> "diag ext=<e> reads=<..>" | "diag fault <i>"
   ext = one more than the largest index read behind the pointer (0: nothing read). *)
open Model_c12
let rec pos_of_int i = if i = 1 then XH else if i land 1 = 1 then XI (pos_of_int (i lsr 1)) else XO (pos_of_int (i lsr 1))
let n_of_int i = if i = 0 then N0 else Npos (pos_of_int i)
let rec int_of_pos p = match p with XH -> 1 | XO q -> 2 * int_of_pos q | XI q -> 2 * int_of_pos q + 1
let int_of_n x = match x with N0 -> 0 | Npos p -> int_of_pos p
let int_of_z x = match x with Z0 -> 0 | Zpos p -> int_of_pos p | Zneg p -> - (int_of_pos p)
let rec nat_of_int i = if i <= 0 then O else S (nat_of_int (i - 1))
let rec int_of_nat x = match x with O -> 0 | S y -> 1 + int_of_nat y
let unhex s = if s = "-" then [] else List.init (String.length s / 2) (fun i -> n_of_int (int_of_string ("0x" ^ String.sub s (2 * i) 2)))
let split_ws s = List.filter (fun x -> x <> "") (String.split_on_char ' ' s)
let ints l = if l = [] then "-" else String.concat "," (List.map string_of_int l)
let nats l = ints (List.map int_of_nat l)
let b s = s <> "0"
let buf = Buffer.create 65536
let out s = Buffer.add_string buf s; Buffer.add_char buf '\n'
let simple tag r = match r with
  | Fault i -> out (Printf.sprintf "%s fault %d" tag (int_of_nat i))
  | Done reads -> out (Printf.sprintf "%s ext=%d reads=%s" tag (int_of_nat (extent reads)) (nats reads))
let () =
  (try while true do
    match split_ws (input_line stdin) with
    | [] -> ()
    | "msg" :: sa :: kn :: had :: bo :: ty :: h :: _ ->
        let m = unhex h and t = n_of_int (int_of_string ty) in
        let e = { e_secack = b sa; e_segment_known = b kn; e_had_addresses = b had; e_booster = b bo } in
        (match dispatch m t with
         | ODropped -> out "msg drop"
         | OHandled acc ->
             let rs = List.sort_uniq compare (List.concat_map (fun a -> match a with ARead i -> [int_of_z i] | APtr _ -> []) acc) in
             let ps = List.sort_uniq compare (List.concat_map (fun a -> match a with APtr i -> [int_of_z i] | ARead _ -> []) acc) in
             let v = (match handle_var e m t with Fault i -> Printf.sprintf "fault %d" (int_of_nat i) | Done r -> nats r) in
             out (Printf.sprintf "msg handled len=%d reads=%s ptrs=%s var=%s" (int_of_z (data_length m)) (ints rs) (ints ps) v))
    | "vendor" :: len :: h :: _ ->
        (match vendor_h (nat_of_int (int_of_string len)) (unhex h) with
         | Fault i -> out (Printf.sprintf "vendor fault %d" (int_of_nat i))
         | Done (reads, acc) -> out (Printf.sprintf "vendor acc=%d ext=%d reads=%s" (if acc then 1 else 0) (int_of_nat (extent reads)) (nats reads)))
    | "mults" :: num :: size :: h :: _ ->
        simple "mults" (multiple_setter_h (nat_of_int (int_of_string num)) (nat_of_int (int_of_string size)) (unhex h))
    | "multm" :: num :: size :: h :: _ ->
        simple "multm" (multiple_mirror_h (nat_of_int (int_of_string num)) (nat_of_int (int_of_string size)) (unhex h))
    | "multc" :: sa :: num :: size :: avail :: h :: _ ->
        (match multiple_h (b sa) (nat_of_int (int_of_string num)) (nat_of_int (int_of_string size)) (nat_of_int (int_of_string avail)) (unhex h) with
         | Fault i -> out (Printf.sprintf "multc fault %d" (int_of_nat i))
         | Done (reads, acc) -> out (Printf.sprintf "multc acc=%d ext=%d" (if acc then 1 else 0) (int_of_nat (extent reads))))
    | "addr" :: kn :: had :: count :: h :: _ ->
        simple "addr" (address_h (b kn) (b had) (nat_of_int (int_of_string count)) (unhex h))
    | "diag" :: bo :: len :: h :: _ ->
        simple "diag" (diag_h (b bo) (nat_of_int (int_of_string len)) (unhex h))
    | c :: _ -> out ("unknown-command " ^ c)
  done with End_of_file -> ());
  print_string (Buffer.contents buf)
