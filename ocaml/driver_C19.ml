(* driver_C19.ml — model side of the C19 correspondence *)
open Model_c19
let rec pos_of_int i = if i = 1 then XH else if i land 1 = 1 then XI (pos_of_int (i lsr 1)) else XO (pos_of_int (i lsr 1))
let n_of_int i = if i = 0 then N0 else Npos (pos_of_int i)
let rec int_of_pos p = match p with XH -> 1 | XO q -> 2 * int_of_pos q | XI q -> 2 * int_of_pos q + 1
let int_of_n x = match x with N0 -> 0 | Npos p -> int_of_pos p
let unhex s = if s = "-" then [] else List.init (String.length s / 2) (fun i -> n_of_int (int_of_string ("0x" ^ String.sub s (2 * i) 2)))
let hex l = if l = [] then "-" else String.concat "" (List.map (fun b -> Printf.sprintf "%02x" (int_of_n b)) l)
let split_ws s = List.filter (fun x -> x <> "") (String.split_on_char ' ' s)
let buf = Buffer.create 65536
let out s = Buffer.add_string buf s; Buffer.add_char buf '\n'
let () =
  let boards0 = ref [] in
  let fresh () = { w_boards = !boards0; w_flow = (flow_init, n_of_int 1000000) } in
  let w = ref (fresh ()) and rs = ref rx_init in
  let emit ps = List.iter (fun c -> out ("w " ^ hex c)) (wire_chunks ps) in
  let step es = let (f, ps) = flow_run !w.w_flow es in w := { !w with w_flow = f }; emit ps in
  let ni s = n_of_int (int_of_string s) in
  (try while true do
    match split_ws (input_line stdin) with
    | [] -> ()
    | "case" :: id :: _ -> out ("case " ^ id)
    | "board" :: uid :: sec :: _ -> boards0 := !boards0 @ [{ sb_uid = unhex uid; sb_secack = (sec <> "0"); sb_conn = false; sb_addr = [] }]
    | "start" :: _ -> w := fresh (); rs := rx_init; out "start 0"
    | "restart" :: _ -> w := fresh (); rs := rx_init
    | "rx" :: h :: _ ->
        let (r1, items) = rx_run !rs (unhex h) in rs := r1;
        let (w1, ps) = handle_items !w items in w := w1; emit ps
    | "flush" :: _ -> step [FFlush]
    | "cap" :: v :: _ -> step [FCap (ni v)]
    | "time" :: v :: _ -> step [FTime (ni v)]
    | "reset_nodes" :: _ -> step [FReset]
    | "send" :: t :: s :: ss :: ty :: d :: _ -> step [FSend (((ni t, ni s), ni ss), ni ty, unhex d)]
    | ("discard" | "drain" | "logw" | "stop") :: _ -> ()
    | "mark" :: r -> out ("mark " ^ String.concat " " r)
    | c :: _ -> out ("unknown-command " ^ c)
  done with End_of_file -> ());
  print_string (Buffer.contents buf)
