(* driver_C09.ml — runs the extracted HighLevel model on the same scripts as harness/drv.c (+ ext_C09.inc)
   and prints the same canonical observation lines. Thin glue only: parsing, int<->N conversion, printing.
   The configuration the C side reads from YAML reaches the model through "#cfg ..." comment lines
   (ignored by drv.c) written by checks/C09.py from the same seeded config value.
   Identifier strings <-> numbers: the number is the decimal suffix of the name; the generator makes the
   suffix unique over all entity names of a script, aspects all use the prefix "a". *)
open Model_c09

let rec pos_of_int (i : int) : positive =
  if i = 1 then XH else if i land 1 = 1 then XI (pos_of_int (i lsr 1)) else XO (pos_of_int (i lsr 1))
let n_of_int (i : int) : n = if i = 0 then N0 else Npos (pos_of_int i)
let rec int_of_pos (p : positive) : int = match p with XH -> 1 | XO q -> 2 * int_of_pos q | XI q -> 2 * int_of_pos q + 1
let int_of_n (x : n) : int = match x with N0 -> 0 | Npos p -> int_of_pos p
let z_of_int (i : int) : z = if i = 0 then Z0 else if i > 0 then Zpos (pos_of_int i) else Zneg (pos_of_int (- i))
let int_of_z (x : z) : int = match x with Z0 -> 0 | Zpos p -> int_of_pos p | Zneg p -> - (int_of_pos p)

let unhex (s : string) : n list =
  if s = "-" then [] else
    let k = String.length s / 2 in
    List.init k (fun i -> n_of_int (int_of_string ("0x" ^ String.sub s (2 * i) 2)))
let hex (l : n list) : string =
  if l = [] then "-" else String.concat "" (List.map (fun b -> Printf.sprintf "%02x" (int_of_n b)) l)
let split_ws (s : string) : string list = List.filter (fun x -> x <> "") (String.split_on_char ' ' s)
let split_on c s = if s = "-" || s = "" then [] else String.split_on_char c s

let buf = Buffer.create 65536
let out s = Buffer.add_string buf s; Buffer.add_char buf '\n'
let flush_out () = print_string (Buffer.contents buf); Buffer.clear buf

(* names *)
let names : (int, string) Hashtbl.t = Hashtbl.create 64
let num_of_name (s : string) : int =
  let k = ref (String.length s) in
  while !k > 0 && s.[!k - 1] >= '0' && s.[!k - 1] <= '9' do decr k done;
  if !k = String.length s then 999999 else int_of_string (String.sub s !k (String.length s - !k))
let id_of (s : string) : n = n_of_int (num_of_name s)
let reg (s : string) : n = Hashtbl.replace names (num_of_name s) s; id_of s
let name_of (x : n) : string = try Hashtbl.find names (int_of_n x) with Not_found -> "?" ^ string_of_int (int_of_n x)
let aspect_name (x : n) : string = "a" ^ string_of_int (int_of_n x)
let byte_of s = n_of_int (int_of_string s)

let parse_aspects (s : string) : aspect list =
  List.map (fun it -> match String.split_on_char ':' it with
    | [a; v] -> { as_id = id_of a; as_val = byte_of v }
    | _ -> failwith "aspect") (split_on ',' s)
let parse_daspects (s : string) : daspect list =
  List.map (fun it -> match String.split_on_char '=' it with
    | [a; ps] -> { da_id = id_of a; da_ports = List.map (fun pv -> match String.split_on_char ':' pv with
        | [p; v] -> (byte_of p, byte_of v) | _ -> failwith "port") (split_on '/' ps) }
    | _ -> failwith "daspect") (split_on ',' s)

(* config accumulation *)
let boards : board list ref = ref []
let trains : train list ref = ref []
let upd_board (bid : n) (f : board -> board) =
  boards := List.map (fun b -> if b.b_id = bid then f b else b) !boards

let cfg_line (w : string list) =
  match w with
  | ["board"; id; uid] ->
      boards := !boards @ [{ b_id = reg id; b_uid = unhex uid; b_conn = false; b_addr = ((N0, N0), N0);
                             b_pts = []; b_dpts = []; b_sigs = []; b_dsigs = []; b_pers = []; b_revs = [] }]
  | ["bacc"; k; bid; id; num; asp] ->
      let m = { ba_id = reg id; ba_num = byte_of num; ba_aspects = parse_aspects asp } in
      upd_board (id_of bid) (fun b -> if k = "P" then { b with b_pts = b.b_pts @ [m] } else { b with b_sigs = b.b_sigs @ [m] })
  | ["dacc"; k; bid; id; ah; al; ext; asp] ->
      let m = { dc_id = reg id; dc_addrl = byte_of al; dc_addrh = byte_of ah; dc_ext = byte_of ext; dc_aspects = parse_daspects asp } in
      upd_board (id_of bid) (fun b -> if k = "P" then { b with b_dpts = b.b_dpts @ [m] } else { b with b_dsigs = b.b_dsigs @ [m] })
  | ["per"; bid; id; p1; p0; asp] ->
      let m = { pe_id = reg id; pe_port0 = byte_of p0; pe_port1 = byte_of p1; pe_aspects = parse_aspects asp } in
      upd_board (id_of bid) (fun b -> { b with b_pers = b.b_pers @ [m] })
  | ["rev"; bid; id; cv] ->
      let m = { rv_id = reg id; rv_cv = List.init (String.length cv) (fun i -> n_of_int (Char.code cv.[i])) } in
      upd_board (id_of bid) (fun b -> { b with b_revs = b.b_revs @ [m] })
  | ["train"; id; ah; al; steps; cal; pers] ->
      let c = if cal = "-" then None else Some (List.map byte_of (split_on ',' cal)) in
      let ps = List.map (fun it -> match String.split_on_char ':' it with
        | [p; b] -> { tp_id = reg p; tp_bit = byte_of b } | _ -> failwith "tper") (split_on ',' pers) in
      trains := !trains @ [{ tr_id = reg id; tr_addrl = byte_of al; tr_addrh = byte_of ah; tr_steps = byte_of steps;
                             tr_calib = c; tr_pers = ps }]
  | _ -> ()

let b01 b = if b then 1 else 0

let print_state (w : world) =
  List.iter (fun b ->
    if b.b_conn then
      let ((t, s), ss) = b.b_addr in
      out (Printf.sprintf "st B %s 1 %d.%d.%d" (name_of b.b_id) (int_of_n t) (int_of_n s) (int_of_n ss))
    else out (Printf.sprintf "st B %s 0 -" (name_of b.b_id))) w.w_boards;
  List.iter (fun t ->
    let ps = if t.ts_pers = [] then "-" else
      String.concat "," (List.map (fun q -> Printf.sprintf "%s=%d" (name_of q.tq_id) (int_of_n q.tq_state)) t.ts_pers) in
    out (Printf.sprintf "st T %s %d %d %d %s" (name_of t.ts_id) (int_of_z t.ts_speed) (b01 t.ts_fwd) (int_of_n t.ts_ack) ps)) w.w_tst;
  let dl tag l = List.iter (fun d ->
    out (Printf.sprintf "st %s %s %s %d %d %d %d %d %d" tag (name_of d.ds_id)
           (match d.ds_sid with None -> "unknown" | Some a -> aspect_name a)
           (int_of_n d.ds_val) (b01 d.ds_coil) (b01 d.ds_oct) (int_of_n d.ds_unit) (int_of_n d.ds_time) (int_of_n d.ds_ack))) l in
  dl "P" w.w_dpts; dl "S" w.w_dsigs;
  List.iter (fun r -> out (Printf.sprintf "st R %s %d" (name_of r.rs_id) (int_of_n r.rs_val))) w.w_revs

let () =
  let w = ref (init_world [] []) and pending : hmsg list ref = ref [] and dead = ref false in
  let run c =
    if !dead then out "model-fault" else
    match cmd !w c with
    | Fault site -> dead := true; out (Printf.sprintf "model-fault %d" (int_of_n site))
    | Done (r, ms, w1) -> w := w1; pending := !pending @ ms; out (Printf.sprintf "ret %d" (int_of_n r)) in
  (try while true do
    let line = input_line stdin in
    match split_ws line with
    | [] -> ()
    | "#cfg" :: rest -> cfg_line rest
    | "case" :: id :: _ -> out ("case " ^ id)
    | "start" :: _ ->
        w := init_world !boards !trains; pending := []; dead := false;
        out "start 0";
        out (Printf.sprintf "wf %d" (b01 (wfb !w)))
    | "flush" :: _ ->
        List.iter (fun ((((t, s), ss), ty), data) ->
          out (Printf.sprintf "m %d.%d.%d %d %s" (int_of_n t) (int_of_n s) (int_of_n ss) (int_of_n ty) (hex data))) !pending;
        pending := []
    | "reset_nodes" :: _ -> ()
    | "c9" :: "connect" :: t :: s :: ss :: l :: uid :: _ ->
        w := node_new !w ((byte_of t, byte_of s), byte_of ss) (byte_of l) (unhex uid)
    | "c9" :: "lost" :: uid :: _ -> w := node_lost !w (unhex uid)
    | "c9" :: "revfb" :: r :: v :: _ -> w := rev_feedback !w (id_of r) (byte_of v)
    | "c9" :: "switch_point" :: p :: a :: _ -> run (SwitchPoint (id_of p, id_of a))
    | "c9" :: "set_signal" :: p :: a :: _ -> run (SetSignal (id_of p, id_of a))
    | "c9" :: "set_peripheral" :: p :: a :: _ -> run (SetPeripheral (id_of p, id_of a))
    | "c9" :: "speed" :: t :: sp :: o :: _ -> run (SetTrainSpeed (id_of t, z_of_int (int_of_string sp), id_of o))
    | "c9" :: "cspeed" :: t :: sp :: o :: _ -> run (SetCalibratedSpeed (id_of t, z_of_int (int_of_string sp), id_of o))
    | "c9" :: "estop" :: t :: o :: _ -> run (EmergencyStop (id_of t, id_of o))
    | "c9" :: "tper" :: t :: p :: s :: o :: _ -> run (SetTrainPeripheral (id_of t, id_of p, n_of_int ((int_of_string s) land 255), id_of o))
    | "c9" :: "booster" :: b :: on :: _ -> run (SetBooster (id_of b, on <> "0"))
    | "c9" :: "output" :: b :: s :: _ -> run (SetTrackOutput (id_of b, n_of_int ((int_of_string s) land 255)))
    | "c9" :: "output_all" :: s :: _ -> run (SetTrackOutputAll (n_of_int ((int_of_string s) land 255)))
    | "c9" :: "reverser" :: r :: b :: _ -> run (RequestReverser (id_of r, id_of b))
    | "c9" :: "state" :: _ -> print_state !w
    | "c9" :: op :: _ -> out ("c9-bad-command " ^ op)
    | "mark" :: r -> out ("mark " ^ String.concat " " r)
    | c :: _ when String.length c > 0 && c.[0] = '#' -> ()
    | c :: _ -> out ("unknown-command " ^ c)
  done with End_of_file -> ());
  flush_out ()
