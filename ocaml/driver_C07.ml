(* driver_C07.ml — runs the extracted tracked-state model (State.v: mode "model") or the specification
   (StateSpec.v: mode "spec") on the same scripts as harness/drv.c + harness/ext_C07.inc and prints the same
   canonical observation lines. Thin glue only: parsing, int<->N/nat conversion, printing. *)
open Model_c07

let rec pos_of_int (i : int) : positive =
  if i = 1 then XH else if i land 1 = 1 then XI (pos_of_int (i lsr 1)) else XO (pos_of_int (i lsr 1))
let n_of_int (i : int) : n = if i = 0 then N0 else Npos (pos_of_int i)
let rec int_of_pos (p : positive) : int = match p with XH -> 1 | XO q -> 2 * int_of_pos q | XI q -> 2 * int_of_pos q + 1
let int_of_n (x : n) : int = match x with N0 -> 0 | Npos p -> int_of_pos p
let int_of_z (x : z) : int = match x with Z0 -> 0 | Zpos p -> int_of_pos p | Zneg p -> - (int_of_pos p)
let rec nat_of_int (i : int) : nat = if i <= 0 then O else S (nat_of_int (i - 1))
let rec int_of_nat (x : nat) : int = match x with O -> 0 | S y -> 1 + int_of_nat y

let unhex (s : string) : n list =
  if s = "-" then [] else
    let k = String.length s / 2 in
    List.init k (fun i -> n_of_int (int_of_string ("0x" ^ String.sub s (2 * i) 2)))
let split_ws (s : string) : string list = List.filter (fun x -> x <> "") (String.split_on_char ' ' s)
let ni s = n_of_int (int_of_string s)
let nati s = nat_of_int (int_of_string s)

let buf = Buffer.create 65536
let out s = Buffer.add_string buf s; Buffer.add_char buf '\n'
let flush_out () = print_string (Buffer.contents buf); Buffer.clear buf

(* ---------------------------------------------------------------- configuration lines *)
type bb = { mutable uid : n list; mutable secack : bool; mutable segs : (n * nat) list; mutable points : bacc_map list; mutable signals : bacc_map list;
            mutable dpoints : dacc_map list; mutable dsignals : dacc_map list; mutable periph : per_map list; mutable revs : rev_map list }
let boards : bb list ref = ref []          (* reversed *)
let trains : train_cfg list ref = ref []   (* reversed *)
let counts = ref (0, 0, 0, 0, 0, 0, 0)
let cfg_reset () = boards := []; trains := []; counts := (0, 0, 0, 0, 0, 0, 0)
let board i = List.nth (List.rev !boards) i
let aspects (s : string) : aspect list =
  if s = "-" then [] else
    List.map (fun x -> match String.split_on_char ':' x with
                       | [v; a] -> { as_val = ni v; as_id = nati a }
                       | _ -> failwith "aspect") (String.split_on_char ',' s)
let build_cfg () : cfg =
  let (a, b, c, d, e, f, g) = !counts in
  { c_boards = List.map (fun x -> { bc_uid = x.uid; bc_secack = x.secack; bc_segs = List.rev x.segs; bc_points = List.rev x.points; bc_signals = List.rev x.signals;
                                    bc_dpoints = List.rev x.dpoints; bc_dsignals = List.rev x.dsignals; bc_periph = List.rev x.periph;
                                    bc_revs = List.rev x.revs }) (List.rev !boards);
    c_trains = List.rev !trains;
    c_nsegs = nat_of_int a; c_npoints = nat_of_int b; c_nsignals = nat_of_int c; c_ndpoints = nat_of_int d; c_ndsignals = nat_of_int e;
    c_nper = nat_of_int f; c_nrev = nat_of_int g }

(* ---------------------------------------------------------------- printing *)
let b01 b = if b then "1" else "0"
let pw_str (p : power) : string =
  match power_view p with None -> "u" | Some None -> "o" | Some (Some v) -> string_of_int (int_of_n v)
let sid_str (o : nat option) : string = match o with None -> "unknown" | Some a -> "a" ^ string_of_int (int_of_nat a)

let dump (c : cfg) (s : st) =
  List.iteri (fun i (b : bdyn) ->
    if b.bd_conn then (let ((t, sb), ss) = b.bd_addr in out (Printf.sprintf "b b%d 1 %d.%d.%d" i (int_of_n t) (int_of_n sb) (int_of_n ss)))
    else out (Printf.sprintf "b b%d 0 -" i)) s.s_boards;
  List.iteri (fun g (sg : segst) ->
    let ad = if sg.sg_addrs = [] then "-" else
        String.concat "," (List.map (fun (d : dcc) -> Printf.sprintf "%d:%d:%d" (int_of_n d.d_l) (int_of_n d.d_h) (int_of_n d.d_t)) sg.sg_addrs) in
    out (Printf.sprintf "seg g%d occ=%s conf=%s%s%s pw=%s addrs=%s" g (b01 sg.sg_occ) (b01 sg.sg_void) (b01 sg.sg_freeze) (b01 sg.sg_nosig) (pw_str sg.sg_pw) ad)) s.s_segs;
  List.iteri (fun i (t : trainst) ->
    let per = if t.tr_per = [] then "-" else String.concat "," (List.mapi (fun k v -> Printf.sprintf "f%d:%d" k (int_of_n v)) t.tr_per) in
    let dec = String.concat "," (List.mapi (fun k o -> match o with None -> "-" | Some v -> if k = 1 then string_of_int (int_of_z (s8 v)) else string_of_int (int_of_n v)) t.tr_dec) in
    out (Printf.sprintf "tr t%s on=%s ori=%s step=%d fwd=%s ack=%d kmh=%d per=%s dec=%s" (String.make (i + 1) '0') (b01 t.tr_on) (if t.tr_left then "L" else "R")
           (int_of_z t.tr_step) (b01 t.tr_fwd) (int_of_n t.tr_ack) (int_of_n t.tr_kmh) per dec);
    let (sl, left) = train_position c s (nat_of_int i) in
    let sg = if sl = [] then "-" else String.concat "," (List.map (fun g -> "g" ^ string_of_int (int_of_nat g)) sl) in
    out (Printf.sprintf "pos t%s %d %s %s ontrack=%s" (String.make (i + 1) '0') (List.length sl) sg (if sl = [] then "-" else if left then "L" else "R") (b01 t.tr_on))) s.s_trains;
  (let on = List.filter (fun x -> x <> "") (List.mapi (fun i (t : trainst) -> if t.tr_on then "t" ^ String.make (i + 1) '0' else "") s.s_trains) in
   out ("ontrack " ^ (if on = [] then "-" else String.concat "," on)));
  List.iteri (fun i (bc : board_cfg) ->
    match bc.bc_uid with
    | cls :: _ when (int_of_n cls) land 2 <> 0 ->
        let b = List.nth s.s_boost i in
        out (Printf.sprintf "bo b%d ps=%d simple=%d pw=%s volt=%s temp=%s" i (int_of_n b.bo_ps) (int_of_n b.bo_simple) (pw_str b.bo_pw)
               (if b.bo_vk then string_of_int (int_of_n b.bo_v) else "-") (if b.bo_tk then string_of_int (int_of_z (s8 b.bo_t)) else "-"))
    | _ -> ()) c.c_boards;
  List.iteri (fun i (bc : board_cfg) ->
    match bc.bc_uid with
    | cls :: _ when (int_of_n cls) land 16 <> 0 -> out (Printf.sprintf "to b%d cs=%d" i (int_of_n (List.nth s.s_cs i)))
    | _ -> ()) c.c_boards;
  let bacc kind pre l = List.iteri (fun i (a : baccst) ->
    out (Printf.sprintf "%s %s%d B %s %d %d %d" kind pre i (sid_str a.ba_sid) (int_of_n a.ba_val) (int_of_n a.ba_exec) (int_of_n a.ba_wait))) l in
  let dacc kind pre point l = List.iteri (fun i (a : daccst) ->
    out (Printf.sprintf "%s %s%d D %s %d coil=%s oct=? ack=? unit=%d time=%d" kind pre i (sid_str a.da_sid) (int_of_n a.da_val)
           (if point then b01 a.da_coil else "?") (int_of_n a.da_unit) (int_of_n a.da_time))) l in
  bacc "pt" "p" s.s_points; dacc "pt" "dp" true s.s_dpoints; bacc "sg" "s" s.s_signals; dacc "sg" "ds" false s.s_dsignals;
  List.iteri (fun i (p : perst) ->
    out (Printf.sprintf "pe pe%d %s %d unit=%d wait=%d" i (sid_str p.pe_sid) (int_of_n p.pe_val) (int_of_n p.pe_unit) (int_of_n p.pe_wait))) s.s_per;
  List.iteri (fun i (r : revst) ->
    out (Printf.sprintf "rv r%d %s %d" i (if r.rv_set then "r" ^ string_of_int i else "unknown") (int_of_n r.rv_val))) s.s_rev;
  out "enddump"

let dumpsnap (s : st) =
  let dacc kind pre l = List.iteri (fun i (a : daccst) ->
    out (Printf.sprintf "%s %s%d D %s %d coil=%s oct=%s ack=%d unit=%d time=%d" kind pre i (sid_str a.da_sid) (int_of_n a.da_val)
           (b01 a.da_coil) (b01 a.da_oct) (int_of_n a.da_ack) (int_of_n a.da_unit) (int_of_n a.da_time))) l in
  dacc "pt" "dp" s.s_dpoints; dacc "sg" "ds" s.s_dsignals;
  out "enddump"

(* ---------------------------------------------------------------- main loop *)
let main (step : cfg -> st -> event -> res) =
  let c = ref (build_cfg ()) in
  let s = ref (init !c) and rs = ref rx_init and faulted = ref false in
  let ev e =
    if not !faulted then
      match step !c !s e with
      | Ok s1 -> s := s1
      | Fault -> faulted := true; out "model-fault no-aspect" in      (* the only fault left: accessory mapping without aspects *)
  let a3 t sb ss = ((ni t, ni sb), ni ss) in
  (try while true do
    let line = input_line stdin in
    match split_ws line with
    | [] -> ()
    | "case" :: id :: _ -> out ("case " ^ id)
    | "cfgreset" :: _ -> cfg_reset ()
    | "cfgboard" :: u :: sa :: _ -> boards := { uid = unhex u; secack = (sa = "1"); segs = []; points = []; signals = []; dpoints = []; dsignals = []; periph = []; revs = [] } :: !boards
    | "cfgseg" :: b :: ad :: g :: _ -> let x = board (int_of_string b) in x.segs <- (ni ad, nati g) :: x.segs
    | "cfgpoint" :: b :: num :: idx :: asp :: _ -> let x = board (int_of_string b) in x.points <- { am_num = ni num; am_idx = nati idx; am_aspects = aspects asp } :: x.points
    | "cfgsignal" :: b :: num :: idx :: asp :: _ -> let x = board (int_of_string b) in x.signals <- { am_num = ni num; am_idx = nati idx; am_aspects = aspects asp } :: x.signals
    | "cfgdpoint" :: b :: l :: h :: idx :: _ -> let x = board (int_of_string b) in x.dpoints <- { dm_l = ni l; dm_h = ni h; dm_idx = nati idx } :: x.dpoints
    | "cfgdsignal" :: b :: l :: h :: idx :: _ -> let x = board (int_of_string b) in x.dsignals <- { dm_l = ni l; dm_h = ni h; dm_idx = nati idx } :: x.dsignals
    | "cfgper" :: b :: p0 :: p1 :: idx :: asp :: _ -> let x = board (int_of_string b) in x.periph <- { pm_p0 = ni p0; pm_p1 = ni p1; pm_idx = nati idx; pm_aspects = aspects asp } :: x.periph
    | "cfgrev" :: b :: cv :: idx :: _ -> let x = board (int_of_string b) in x.revs <- { rm_cv = unhex cv; rm_idx = nati idx } :: x.revs
    | "cfgtrain" :: l :: h :: bits :: _ ->
        trains := { tc_l = ni l; tc_h = ni h; tc_bits = (if bits = "-" then [] else List.map ni (String.split_on_char ',' bits)) } :: !trains
    | "cfgcount" :: a :: b :: cc :: d :: e :: f :: g :: _ ->
        counts := (int_of_string a, int_of_string b, int_of_string cc, int_of_string d, int_of_string e, int_of_string f, int_of_string g)
    | "start" :: _ -> c := build_cfg (); s := init !c; rs := rx_init; faulted := false; out "start 0"
    | "stop" :: _ -> out "stopped"
    | "logw" :: _ -> ()
    | "rx" :: h :: _ ->
        let (r1, items) = rx_run !rs (unhex h) in
        rs := r1;
        List.iter (fun it -> match it with
          | Delivered m ->
              (match first_data_index m.m_raw with
               | Some k ->
                   let rec drop k l = if k <= 0 then l else (match l with [] -> [] | _ :: r -> drop (k - 1) r) in
                   ev (EMsg (addr3 m.m_addr, m.m_type, drop (int_of_nat k) m.m_raw))
               | None -> ev (EMsg (addr3 m.m_addr, m.m_type, [])))     (* no data byte: the dispatcher's data_length is 0 *)
          | Dropped -> ()
          | Faulted _ -> if not !faulted then (faulted := true; out "model-fault rx")) items
    | "nodenew" :: t :: sb :: ss :: local :: u :: _ -> ev (ENodeNew (a3 t sb ss, ni local, unhex u))
    | "udrive" :: _ :: _ :: _ :: l :: h :: fm :: ac :: sp :: f1 :: f2 :: f3 :: f4 :: _ ->
        ev (EUserDrive { dr_l = ni l; dr_h = ni h; dr_fmt = ni fm; dr_active = ni ac; dr_speed = ni sp; dr_f1 = ni f1; dr_f2 = ni f2; dr_f3 = ni f3; dr_f4 = ni f4 })
    | "uacc" :: t :: sb :: ss :: l :: h :: d :: tm :: _ -> ev (EUserAcc (a3 t sb ss, ni l, ni h, ni d, ni tm))
    | "dump" :: _ -> if not !faulted then dump !c !s
    | "dumpsnap" :: _ -> if not !faulted then dumpsnap !s
    | "mark" :: r -> out ("mark " ^ String.concat " " r)
    | x :: _ when String.length x > 0 && x.[0] = '#' -> ()
    | x :: _ -> out ("unknown-command " ^ x)
  done with End_of_file -> ());
  flush_out ()

let () =
  match Array.to_list Sys.argv with
  | _ :: "model" :: _ -> main apply
  | _ :: "spec" :: _ -> main spec_apply
  | _ -> prerr_endline "usage: model_driver model|spec"; exit 2
