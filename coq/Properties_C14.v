(* Properties_C14.v — placeholder while the proofs are being written *)
From Coq Require Import List NArith Bool.
From LB Require Import ConfigSpec.
Import ListNotations.
Local Open Scope N_scope.
Example C14_nonvacuous : to_byte [48; 120; 49; 70] = Some 31.
Proof. vm_compute. reflexivity. Qed.
Print Assumptions C14_nonvacuous.
