(* Extract_C18.v — extraction of the generated send functions and of their specification for the C18
   correspondence driver. ExtrOcamlBasic only; no Extract Constant. Compiled by the check in a scratch directory. *)
From Coq Require Import Extraction ExtrOcamlBasic.
From LB Require Import Tables Framing SendLib SendFns SendSpec.
Extraction "model_c18.ml" all_fns fn_sig gen_call spec_call sent_wire compound has_node_address gen_type.
