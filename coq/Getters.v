(* Getters.v — ownership-shape model of src/highlevel/bidib_highlevel_getter.c (C17).

   Every public getter is a function from an abstraction of the library state (the contents of
   bidib_boards, bidib_trains and bidib_track_state, field by field) and its arguments to the
   *shape* of the returned query struct: every scalar member is defined (with its value) or
   undefined, every pointer member is NULL, a fresh heap block (with its contents), a pointer into
   the library state, or undefined. The free functions of bidib_highlevel_getter.c /
   src/state/bidib_state_free.c walk such a shape and fault on anything that is not NULL / fresh.

   The model is faithful to the code after the C17 repairs (query structs zero-initialised, snapshot
   and DCC branches copy every member, index getters return -1 for NULL).
   Scalars are the unsigned little-endian value of the member's bytes. No proofs in this file. *)
From Coq Require Import List NArith Bool String.
Import ListNotations.
Local Open Scope string_scope.
Local Open Scope list_scope.
Local Open Scope N_scope.

Definition str := list N.          (* bytes of a C string, without the terminating NUL *)

(* ------------------------------------------------------------------ shapes *)
Inductive shape :=
| Sc (v : option N)                (* scalar member: Some v = defined, None = never written *)
| PNull | PUndef                   (* pointer member: NULL / never written *)
| PFresh (t : shape)               (* pointer to a block allocated by this call, with contents *)
| PAlias (t : shape)               (* pointer into the library's own state *)
| Str (s : str)                    (* contents of a char block *)
| Arr (l : list shape)             (* contents of an array block *)
| Rec (l : list (string * shape)). (* a struct: member path -> shape *)

Definition sc (n : N) : shape := Sc (Some n).      (* a value the getter computes itself *)
Definition undef : shape := Sc None.
(* a value copied from the library state: the abstraction marks state bytes that were never
   initialised (parser locals that are stored without being assigned) by a value >= 2^64, which no
   member of at most 8 bytes can hold; copying keeps them undefined *)
Definition undef_mark : N := 18446744073709551616.
Definition cp (n : N) : shape := if n <? undef_mark then Sc (Some n) else Sc None.
Definition b2n (b : bool) : N := if b then 1 else 0.
Definition glen {A} (l : list A) : N := N.of_nat (List.length l).
Definition fresh_str (s : str) : shape := PFresh (Str s).

Fixpoint has_undef (s : shape) : bool :=
  match s with
  | Sc None => true | Sc (Some _) => false
  | PNull => false | PUndef => true
  | PFresh t => has_undef t | PAlias t => has_undef t
  | Str _ => false
  | Arr l => existsb has_undef l
  | Rec l => existsb (fun p => has_undef (snd p)) l
  end.

Fixpoint has_alias (s : shape) : bool :=
  match s with
  | Sc _ => false | PNull => false | PUndef => false
  | PFresh t => has_alias t | PAlias _ => true
  | Str _ => false
  | Arr l => existsb has_alias l
  | Rec l => existsb (fun p => has_alias (snd p)) l
  end.

(* what a later reader of the result sees once the library state is [later] (None = after
   bidib_stop, the state is freed; Some now = the state location that held t now shows [now t]):
   fresh blocks keep their contents, aliases show the state *)
Inductive seen := SeenFault | SeenSc (v : option N) | SeenNull | SeenWild | SeenStr (s : str)
                | SeenArr (l : list seen) | SeenRec (l : list (string * seen)).
Fixpoint observe (later : option (shape -> seen)) (s : shape) : seen :=
  match s with
  | Sc v => SeenSc v | PNull => SeenNull | PUndef => SeenWild
  | PFresh t => observe later t
  | PAlias t => match later with None => SeenFault | Some now => now t end
  | Str x => SeenStr x
  | Arr l => SeenArr (map (observe later) l)
  | Rec l => SeenRec (map (fun p => (fst p, observe later (snd p))) l)
  end.

Fixpoint str_eqb (a b : str) : bool :=
  match a, b with
  | [], [] => true
  | x :: a', y :: b' => (x =? y) && str_eqb a' b'
  | _, _ => false
  end.

Fixpoint lookup (n : string) (l : list (string * shape)) : shape :=
  match l with
  | [] => PUndef                      (* a member that does not exist: never a defined value *)
  | (k, v) :: r => if String.eqb k n then v else lookup n r
  end.
Definition fld (n : string) (s : shape) : shape := match s with Rec l => lookup n l | _ => PUndef end.

(* ------------------------------------------------------------------ abstraction of the state *)
Record mapping := { mp_id : str; mp_aspects : list str }.
Record board := { b_id : str; b_connected : bool; b_uid : list N; b_addr : list N; b_features : list (N * N);
                  b_points_board : list mapping; b_points_dcc : list mapping;
                  b_signals_board : list mapping; b_signals_dcc : list mapping;
                  b_peripherals : list mapping; b_segments : list str; b_reversers : list str }.
Record train := { tr_id : str; tr_dcc : list N (* addrl addrh type *); tr_peripherals : list str }.
Record bacc := { ba_id : str; ba_sid : option str; ba_sv : N; ba_exec : N; ba_wait : N }.
Record dacc := { da_id : str; da_sid : option str; da_sv : N; da_coil : N; da_oct : N; da_ack : N; da_tu : N; da_swt : N }.
Record periph := { pe_id : str; pe_sid : option str; pe_sv : N; pe_tu : N; pe_wait : N }.
Record segst := { sg_id : str; sg_occ : N; sg_void : N; sg_freeze : N; sg_nosig : N;
                  sg_pknown : N; sg_pover : N; sg_pcur : N; sg_addrs : list (list N) }.
Record revst := { rv_id : str; rv_sid : option str; rv_sv : N }.
Record trst := { tt_id : str; tt_on : N; tt_orient : N; tt_step : N; tt_fwd : N; tt_ack : N; tt_kmh : N;
                 tt_dec : list N (* the 10 members of t_bidib_train_decoder_state *); tt_pers : list (str * N) }.
Record boost := { bo_id : str; bo_ps : N; bo_pss : N; bo_pknown : N; bo_pover : N; bo_pcur : N;
                  bo_vknown : N; bo_v : N; bo_tknown : N; bo_t : N }.
Record tout := { to_id : str; to_cs : N }.
Record astate := { boards : list board; trains : list train;
                   points_board : list bacc; points_dcc : list dacc; signals_board : list bacc; signals_dcc : list dacc;
                   peripherals : list periph; segments : list segst; reversers : list revst; tstates : list trst;
                   boosters : list boost; touts : list tout }.

Definition st_empty : astate :=
  {| boards := []; trains := []; points_board := []; points_dcc := []; signals_board := []; signals_dcc := [];
     peripherals := []; segments := []; reversers := []; tstates := []; boosters := []; touts := [] |}.

(* ------------------------------------------------------------------ arguments, outcomes *)
Inductive arg := ANull | AStr (s : str) | ARaw (b : list N).
Inductive outcome := Res (s : shape) | Crash.

Inductive getter :=
| GState | GPointStateIndex | GSignalStateIndex | GSegmentStateIndex
| GPointState | GSignalState | GPeripheralState | GSegmentState | GReverserState
| GUniqueid | GNodeaddr | GUniqueidByNodeaddr | GNodeaddrByUniqueid | GBoardId
| GBoards | GBoardsConnected | GBoardConnected | GBoardFeatures
| GBoardPoints | GBoardSignals | GBoardPeripherals | GBoardSegments | GBoardReversers
| GConnectedPoints | GConnectedSignals | GConnectedPeripherals | GConnectedSegments | GConnectedReversers
| GConnectedBoosters | GBoosters | GTrackOutputs | GConnectedTrackOutputs
| GBoosterState | GTrackOutputState | GTrains | GTrainsOnTrack | GTrainPeripherals | GTrainId
| GTrainDccAddr | GTrainState | GTrainPeripheralState | GTrainPosition | GTrainSpeedStep | GTrainSpeedKmh
| GTrainOnTrack | GPointAspects | GSignalAspects | GPeripheralAspects.

Definition all_getters : list getter :=
  [GState; GPointStateIndex; GSignalStateIndex; GSegmentStateIndex; GPointState; GSignalState; GPeripheralState;
   GSegmentState; GReverserState; GUniqueid; GNodeaddr; GUniqueidByNodeaddr; GNodeaddrByUniqueid; GBoardId; GBoards;
   GBoardsConnected; GBoardConnected; GBoardFeatures; GBoardPoints; GBoardSignals; GBoardPeripherals; GBoardSegments;
   GBoardReversers; GConnectedPoints; GConnectedSignals; GConnectedPeripherals; GConnectedSegments; GConnectedReversers;
   GConnectedBoosters; GBoosters; GTrackOutputs; GConnectedTrackOutputs; GBoosterState; GTrackOutputState; GTrains;
   GTrainsOnTrack; GTrainPeripherals; GTrainId; GTrainDccAddr; GTrainState; GTrainPeripheralState; GTrainPosition;
   GTrainSpeedStep; GTrainSpeedKmh; GTrainOnTrack; GPointAspects; GSignalAspects; GPeripheralAspects].

(* ------------------------------------------------------------------ building blocks *)
Definition unknown_str : str := [117; 110; 107; 110; 111; 119; 110].   (* "unknown" *)
Definition sid_copy (o : option str) : shape := fresh_str (match o with Some s => s | None => unknown_str end).

(* {0, NULL} when there is nothing to list; otherwise malloc'ed array of strdup'ed ids *)
Definition idlist (lenname arrname : string) (ids : list str) : shape :=
  match ids with
  | [] => Rec [(lenname, sc 0); (arrname, PNull)]
  | _ => Rec [(lenname, sc (glen ids)); (arrname, PFresh (Arr (map fresh_str ids)))]
  end.
(* the paths that malloc even for zero elements (train peripherals, aspects) *)
Definition idlist_always (ids : list str) : shape :=
  Rec [("length", sc (glen ids)); ("ids", PFresh (Arr (map fresh_str ids)))].
Definition idlist_none : shape := Rec [("length", sc 0); ("ids", PNull)].

Definition nth0 (l : list N) (i : nat) : N := nth i l 0.
Definition raw_eqb (n : nat) (a b : list N) : bool :=
  forallb (fun i => nth0 a i =? nth0 b i) (seq 0 n).

Definition find_board (st : astate) (s : str) := find (fun b => str_eqb s (b_id b)) (boards st).
Definition find_board_uid (st : astate) (u : list N) := find (fun b => raw_eqb 7 u (b_uid b)) (boards st).
Definition find_board_addr (st : astate) (a : list N) :=
  find (fun b => b_connected b && raw_eqb 3 (b_addr b) a) (boards st).

Definition pfx (p : string) (l : list (string * shape)) : list (string * shape) :=
  map (fun kv => (String.append p (fst kv), snd kv)) l.

(* member lists of the *_state_data structs as the full copies write them *)
Definition bacc_data (a : bacc) : list (string * shape) :=
  [("state_id", sid_copy (ba_sid a)); ("state_value", cp (ba_sv a));
   ("execution_state", cp (ba_exec a)); ("wait_details", cp (ba_wait a))].
Definition dacc_data (a : dacc) : list (string * shape) :=
  [("state_id", sid_copy (da_sid a)); ("state_value", cp (da_sv a)); ("coil_on", cp (da_coil a));
   ("output_controls_timing", cp (da_oct a)); ("ack", cp (da_ack a)); ("time_unit", cp (da_tu a));
   ("switch_time", cp (da_swt a))].
Definition per_data (p : periph) : list (string * shape) :=
  [("state_id", sid_copy (pe_sid p)); ("state_value", cp (pe_sv p)); ("time_unit", cp (pe_tu p)); ("wait", cp (pe_wait p))].
Definition rev_data (r : revst) : list (string * shape) :=
  [("state_id", sid_copy (rv_sid r)); ("state_value", cp (rv_sv r))].
Definition dcc_addr_shape (d : list N) : shape :=
  Rec [("addrl", cp (nth0 d 0)); ("addrh", cp (nth0 d 1)); ("type", cp (nth0 d 2))].
Definition seg_data (s : segst) : list (string * shape) :=
  [("occupied", cp (sg_occ s)); ("confidence.conf_void", cp (sg_void s)); ("confidence.freeze", cp (sg_freeze s));
   ("confidence.nosignal", cp (sg_nosig s)); ("power_consumption.known", cp (sg_pknown s));
   ("power_consumption.overcurrent", cp (sg_pover s)); ("power_consumption.current", cp (sg_pcur s));
   ("dcc_address_cnt", sc (glen (sg_addrs s))); ("dcc_addresses", PFresh (Arr (map dcc_addr_shape (sg_addrs s))))].
Definition dec_names : list string :=
  ["decoder_state.signal_quality_known"; "decoder_state.signal_quality"; "decoder_state.temp_known";
   "decoder_state.temp_celsius"; "decoder_state.energy_storage_known"; "decoder_state.energy_storage";
   "decoder_state.container2_storage_known"; "decoder_state.container2_storage";
   "decoder_state.container3_storage_known"; "decoder_state.container3_storage"].
Definition dec_data (d : list N) : list (string * shape) :=
  map (fun ni => (fst ni, cp (nth0 d (snd ni)))) (combine dec_names (seq 0 10)).
Definition tper_shape (p : str * N) : shape := Rec [("id", fresh_str (fst p)); ("state", cp (snd p))].
Definition trs_data (t : trst) : list (string * shape) :=
  [("on_track", cp (tt_on t)); ("orientation", cp (tt_orient t)); ("set_speed_step", cp (tt_step t));
   ("set_is_forwards", cp (tt_fwd t)); ("ack", cp (tt_ack t)); ("detected_kmh_speed", cp (tt_kmh t));
   ("peripheral_cnt", sc (glen (tt_pers t))); ("peripherals", PFresh (Arr (map tper_shape (tt_pers t))))]
  ++ dec_data (tt_dec t).
(* booster data as bidib_get_booster_state and bidib_get_state_boosters copy it *)
Definition boo_data (b : boost) : list (string * shape) :=
  [("power_state", cp (bo_ps b)); ("power_state_simple", cp (bo_pss b)); ("power_consumption.known", cp (bo_pknown b));
   ("power_consumption.overcurrent", cp (bo_pover b)); ("power_consumption.current", cp (bo_pcur b));
   ("voltage_known", cp (bo_vknown b)); ("voltage", cp (bo_v b)); ("temp_known", cp (bo_tknown b));
   ("temp_celsius", cp (bo_t b))].
(* what "= { .flag = false }" leaves in the members nobody assigns afterwards: 0 / NULL *)
Definition zero_of (l : list (string * shape)) : list (string * shape) :=
  map (fun kv => (fst kv, match snd kv with Sc _ => sc 0 | _ => PNull end)) l.

(* ------------------------------------------------------------------ bidib_get_state *)
Definition el (id : str) (data : list (string * shape)) : shape := Rec (("id", fresh_str id) :: pfx "data." data).
Definition snapshot (st : astate) : shape :=
  Rec [("points_board_count", sc (glen (points_board st)));
       ("points_board", PFresh (Arr (map (fun a => el (ba_id a) (bacc_data a)) (points_board st))));
       ("points_dcc_count", sc (glen (points_dcc st)));
       ("points_dcc", PFresh (Arr (map (fun a => el (da_id a) (dacc_data a)) (points_dcc st))));
       ("signals_board_count", sc (glen (signals_board st)));
       ("signals_board", PFresh (Arr (map (fun a => el (ba_id a) (bacc_data a)) (signals_board st))));
       ("signals_dcc_count", sc (glen (signals_dcc st)));
       ("signals_dcc", PFresh (Arr (map (fun a => el (da_id a) (dacc_data a)) (signals_dcc st))));
       ("peripherals_count", sc (glen (peripherals st)));
       ("peripherals", PFresh (Arr (map (fun p => el (pe_id p) (per_data p)) (peripherals st))));
       ("segments_count", sc (glen (segments st)));
       ("segments", PFresh (Arr (map (fun s => el (sg_id s) (seg_data s)) (segments st))));
       ("reversers_count", sc (glen (reversers st)));
       ("reversers", PFresh (Arr (map (fun r => el (rv_id r) (rev_data r)) (reversers st))));
       ("trains_count", sc (glen (tstates st)));
       ("trains", PFresh (Arr (map (fun t => el (tt_id t) (trs_data t)) (tstates st))));
       ("booster_count", sc (glen (boosters st)));
       ("booster", PFresh (Arr (map (fun b => el (bo_id b) (boo_data b)) (boosters st))));
       ("track_outputs_count", sc (glen (touts st)));
       ("track_outputs", PFresh (Arr (map (fun t => Rec [("id", fresh_str (to_id t)); ("cs_state", cp (to_cs t))]) (touts st))))].

(* ------------------------------------------------------------------ single-entity state getters *)
Definition uacc_unknown : shape :=      (* { .known = false }: everything else zero-initialised *)
  Rec (("known", sc 0) :: ("type", sc 0) :: pfx "board."
       [("state_id", PNull); ("state_value", sc 0); ("execution_state", sc 0); ("wait_details", sc 0)]).
Definition uacc_board (a : bacc) : shape :=
  Rec (("known", sc 1) :: ("type", sc 0) :: pfx "board." (bacc_data a)).
Definition uacc_dcc (a : dacc) : shape :=
  Rec (("known", sc 1) :: ("type", sc 1) :: pfx "dcc." (dacc_data a)).

Definition get_accessory_state (bl : list bacc) (dl : list dacc) (a : arg) : shape :=
  match a with
  | AStr s =>
    match find (fun x => str_eqb (ba_id x) s) bl with
    | Some x => uacc_board x
    | None => match find (fun x => str_eqb (da_id x) s) dl with
              | Some x => uacc_dcc x
              | None => uacc_unknown
              end
    end
  | _ => uacc_unknown
  end.

(* "t_x_query query = { .flag = false };" + assignments only when found *)
Definition flagged (flag : string) (found : option (list (string * shape))) (template : list (string * shape)) : shape :=
  match found with
  | Some data => Rec ((flag, sc 1) :: data)
  | None => Rec ((flag, sc 0) :: zero_of template)
  end.

Definition per_template := per_data {| pe_id := []; pe_sid := None; pe_sv := 0; pe_tu := 0; pe_wait := 0 |}.
Definition rev_template := rev_data {| rv_id := []; rv_sid := None; rv_sv := 0 |}.
Definition boo_template := boo_data {| bo_id := []; bo_ps := 0; bo_pss := 0; bo_pknown := 0; bo_pover := 0; bo_pcur := 0;
                                       bo_vknown := 0; bo_v := 0; bo_tknown := 0; bo_t := 0 |}.
Definition seg_template := seg_data {| sg_id := []; sg_occ := 0; sg_void := 0; sg_freeze := 0; sg_nosig := 0;
                                       sg_pknown := 0; sg_pover := 0; sg_pcur := 0; sg_addrs := [] |}.
Definition trs_template := trs_data {| tt_id := []; tt_on := 0; tt_orient := 0; tt_step := 0; tt_fwd := 0; tt_ack := 0;
                                       tt_kmh := 0; tt_dec := []; tt_pers := [] |}.
Definition arg_str (a : arg) : option str := match a with AStr s => Some s | _ => None end.

Definition get_peripheral_state (st : astate) (a : arg) : shape :=
  flagged "available"
    (match arg_str a with Some s => option_map (fun p => pfx "data." (per_data p)) (find (fun p => str_eqb (pe_id p) s) (peripherals st)) | None => None end)
    (pfx "data." per_template).
Definition get_reverser_state (st : astate) (a : arg) : shape :=
  flagged "available"
    (match arg_str a with Some s => option_map (fun r => pfx "data." (rev_data r)) (find (fun r => str_eqb (rv_id r) s) (reversers st)) | None => None end)
    (pfx "data." rev_template).
Definition get_booster_state (st : astate) (a : arg) : shape :=
  flagged "known"
    (match arg_str a with Some s => option_map (fun b => pfx "data." (boo_data b)) (find (fun b => str_eqb s (bo_id b)) (boosters st)) | None => None end)
    (pfx "data." boo_template).
Definition get_track_output_state (st : astate) (a : arg) : shape :=
  flagged "known"
    (match arg_str a with Some s => option_map (fun t => [("cs_state", cp (to_cs t))]) (find (fun t => str_eqb (to_id t) s) (touts st)) | None => None end)
    [("cs_state", sc 0)].
Definition get_segment_state (st : astate) (a : arg) : shape :=
  match match arg_str a with Some s => find (fun x => str_eqb (sg_id x) s) (segments st) | None => None end with
  | Some x => Rec (("known", sc 1) :: pfx "data." (seg_data x))
  | None => Rec (("known", sc 0) :: zero_of (pfx "data." seg_template))
  end.
Definition find_tstate (st : astate) (s : str) := find (fun t => str_eqb s (tt_id t)) (tstates st).
Definition find_train (st : astate) (s : str) := find (fun t => str_eqb s (tr_id t)) (trains st).
Definition get_train_state (st : astate) (a : arg) : shape :=
  match match arg_str a with Some s => find_tstate st s | None => None end with
  | Some t => Rec (("known", sc 1) :: pfx "data." (trs_data t))
  | None => Rec (("known", sc 0) :: zero_of (pfx "data." trs_template))
  end.

(* ------------------------------------------------------------------ board / train configuration getters *)
Definition uid_names : list string :=
  ["unique_id.class_id"; "unique_id.class_id_ext"; "unique_id.vendor_id"; "unique_id.product_id1";
   "unique_id.product_id2"; "unique_id.product_id3"; "unique_id.product_id4"].
Definition uid_fields (u : option (list N)) : list (string * shape) :=
  map (fun ni => (fst ni, match u with Some l => cp (nth0 l (snd ni)) | None => sc 0 end)) (combine uid_names (seq 0 7)).
Definition addr_names : list string := ["address.top"; "address.sub"; "address.subsub"].
Definition addr_fields (u : option (list N)) : list (string * shape) :=
  map (fun ni => (fst ni, match u with Some l => cp (nth0 l (snd ni)) | None => sc 0 end)) (combine addr_names (seq 0 3)).
Definition dccq_names : list string := ["dcc_address.addrl"; "dcc_address.addrh"; "dcc_address.type"].
Definition dccq_fields (u : option (list N)) : list (string * shape) :=
  map (fun ni => (fst ni, match u with Some l => cp (nth0 l (snd ni)) | None => sc 0 end)) (combine dccq_names (seq 0 3)).

Definition get_uniqueid (st : astate) (a : arg) : shape :=
  match match arg_str a with Some s => find_board st s | None => None end with
  | Some b => if nth0 (b_uid b) 0 =? 255 then Rec (("known", sc 0) :: uid_fields None)
              else Rec (("known", sc 1) :: uid_fields (Some (b_uid b)))
  | None => Rec (("known", sc 0) :: uid_fields None)
  end.
Definition arg_raw (a : arg) : list N := match a with ARaw b => b | _ => [] end.
Definition get_uniqueid_by_nodeaddr (st : astate) (a : arg) : shape :=
  match find_board_addr st (arg_raw a) with
  | Some b => Rec (("known", sc 1) :: uid_fields (Some (b_uid b)))
  | None => Rec (("known", sc 0) :: uid_fields None)
  end.
Definition get_nodeaddr (st : astate) (a : arg) : shape :=
  match match arg_str a with Some s => find_board st s | None => None end with
  | Some b => if b_connected b then Rec (("known_and_connected", sc 1) :: addr_fields (Some (b_addr b)))
              else Rec (("known_and_connected", sc 0) :: addr_fields None)
  | None => Rec (("known_and_connected", sc 0) :: addr_fields None)
  end.
(* like bidib_get_nodeaddr: known_and_connected only for a connected board *)
Definition get_nodeaddr_by_uniqueid (st : astate) (a : arg) : shape :=
  match find_board_uid st (arg_raw a) with
  | Some b => if b_connected b then Rec (("known_and_connected", sc 1) :: addr_fields (Some (b_addr b)))
              else Rec (("known_and_connected", sc 0) :: addr_fields None)
  | None => Rec (("known_and_connected", sc 0) :: addr_fields None)
  end.
Definition idq (o : option str) : shape :=
  match o with Some s => Rec [("known", sc 1); ("id", fresh_str s)] | None => Rec [("known", sc 0); ("id", PNull)] end.
Definition get_board_id (st : astate) (a : arg) : shape := idq (option_map b_id (find_board_uid st (arg_raw a))).
Definition get_train_id (st : astate) (a : arg) : shape :=
  idq (option_map tr_id (find (fun t => (nth0 (tr_dcc t) 0 =? nth0 (arg_raw a) 0) && (nth0 (tr_dcc t) 1 =? nth0 (arg_raw a) 1)) (trains st))).
Definition get_train_dcc_addr (st : astate) (a : arg) : shape :=
  match match arg_str a with Some s => find_train st s | None => None end with
  | Some t => Rec (("known", sc 1) :: dccq_fields (Some (tr_dcc t)))
  | None => Rec (("known", sc 0) :: dccq_fields None)
  end.

Definition get_board_features (st : astate) (a : arg) : shape :=
  match match arg_str a with Some s => find_board st s | None => None end with
  | Some b => match b_features b with
              | [] => Rec [("length", sc 0); ("features", PNull)]
              | fs => Rec [("length", sc (glen fs));
                           ("features", PFresh (Arr (map (fun f => Rec [("number", cp (fst f)); ("value", cp (snd f))]) fs)))]
              end
  | None => Rec [("length", sc 0); ("features", PNull)]
  end.
Definition board_list (st : astate) (a : arg) (f : board -> list str) : shape :=
  match match arg_str a with Some s => find_board st s | None => None end with
  | Some b => idlist "length" "ids" (f b)
  | None => idlist_none
  end.
Definition mids (l : list mapping) : list str := map mp_id l.
Definition connected_list (st : astate) (f : board -> list str) : shape :=
  idlist "length" "ids" (flat_map f (filter b_connected (boards st))).
Definition class_bit (b : board) (k : N) : bool := N.testbit (nth0 (b_uid b) 0) k.

Definition get_aspects (maps1 maps2 : list mapping) (a : arg) : shape :=
  match arg_str a with
  | Some s => match find (fun m => str_eqb (mp_id m) s) maps1 with
              | Some m => idlist_always (mp_aspects m)
              | None => match find (fun m => str_eqb (mp_id m) s) maps2 with
                        | Some m => idlist_always (mp_aspects m)
                        | None => idlist_none
                        end
              end
  | None => idlist_none
  end.

Definition bool_res (b : bool) : shape := Rec [("result", sc (b2n b))].
Definition max_size_t : N := 18446744073709551615.
Fixpoint index_of (s : str) (ids : list str) (i : N) : N :=
  match ids with
  | [] => max_size_t
  | x :: r => if str_eqb x s then i else index_of s r (i + 1)
  end.
(* NULL: return -1 before anything is compared *)
Definition get_index (ids : list str) (a : arg) : outcome :=
  match a with
  | AStr s => Res (Rec [("result", sc (index_of s ids 0))])
  | _ => Res (Rec [("result", sc max_size_t)])
  end.

(* one list entry per (segment, matching address); orientation from the last match *)
Definition pos_matches (st : astate) (t : train) : list (str * N) :=
  flat_map (fun sg => map (fun d => (sg_id sg, nth0 d 2))
                          (filter (fun d => (nth0 (tr_dcc t) 1 =? nth0 d 1) && (nth0 (tr_dcc t) 0 =? nth0 d 0)) (sg_addrs sg)))
           (segments st).
Definition get_train_position (st : astate) (a : arg) : shape :=
  let none := Rec [("length", sc 0); ("segments", PNull); ("orientation_is_left", sc 1)] in
  match arg_str a with
  | Some s => match find_tstate st s, find_train st s with
              | Some _, Some t =>
                match pos_matches st t with
                | [] => none
                | ms => Rec [("length", sc (glen ms)); ("segments", PFresh (Arr (map (fun m => fresh_str (fst m)) ms)));
                             ("orientation_is_left", sc (b2n (snd (last ms ([], 0)) =? 0)))]
                end
              | _, _ => none
              end
  | None => none
  end.
Definition get_train_peripheral_state (st : astate) (a1 a2 : arg) : shape :=
  let none := Rec [("available", sc 0); ("state", sc 0)] in
  match arg_str a1, arg_str a2 with
  | Some t, Some p => match find_tstate st t with
                      | Some ts => match find (fun x => str_eqb p (fst x)) (tt_pers ts) with
                                   | Some x => Rec [("available", sc 1); ("state", cp (snd x))]
                                   | None => none
                                   end
                      | None => none
                      end
  | _, _ => none
  end.
Definition on_track_state (st : astate) (a : arg) : option trst :=
  match arg_str a with
  | Some s => match find_tstate st s with Some t => if tt_on t =? 0 then None else Some t | None => None end
  | None => None
  end.

(* ------------------------------------------------------------------ the API *)
Definition call (g : getter) (a1 a2 : arg) (st : astate) : outcome :=
  match g with
  | GState => Res (snapshot st)
  | GPointStateIndex => get_index (map ba_id (points_board st)) a1
  | GSignalStateIndex => get_index (map ba_id (signals_board st)) a1
  | GSegmentStateIndex => get_index (map sg_id (segments st)) a1
  | GPointState => Res (get_accessory_state (points_board st) (points_dcc st) a1)
  | GSignalState => Res (get_accessory_state (signals_board st) (signals_dcc st) a1)
  | GPeripheralState => Res (get_peripheral_state st a1)
  | GSegmentState => Res (get_segment_state st a1)
  | GReverserState => Res (get_reverser_state st a1)
  | GUniqueid => Res (get_uniqueid st a1)
  | GNodeaddr => Res (get_nodeaddr st a1)
  | GUniqueidByNodeaddr => Res (get_uniqueid_by_nodeaddr st a1)
  | GNodeaddrByUniqueid => Res (get_nodeaddr_by_uniqueid st a1)
  | GBoardId => Res (get_board_id st a1)
  | GBoards => Res (idlist "length" "ids" (map b_id (boards st)))
  | GBoardsConnected => Res (idlist "length" "ids" (map b_id (filter b_connected (boards st))))
  | GBoardConnected => Res (bool_res (match match arg_str a1 with Some s => find_board st s | None => None end with
                                      | Some b => b_connected b | None => false end))
  | GBoardFeatures => Res (get_board_features st a1)
  | GBoardPoints => Res (board_list st a1 (fun b => mids (b_points_board b) ++ mids (b_points_dcc b)))
  | GBoardSignals => Res (board_list st a1 (fun b => mids (b_signals_board b) ++ mids (b_signals_dcc b)))
  | GBoardPeripherals => Res (board_list st a1 (fun b => mids (b_peripherals b)))
  | GBoardSegments => Res (board_list st a1 b_segments)
  | GBoardReversers => Res (board_list st a1 b_reversers)
  | GConnectedPoints => Res (connected_list st (fun b => mids (b_points_board b) ++ mids (b_points_dcc b)))
  | GConnectedSignals => Res (connected_list st (fun b => mids (b_signals_board b) ++ mids (b_signals_dcc b)))
  | GConnectedPeripherals => Res (connected_list st (fun b => mids (b_peripherals b)))
  | GConnectedSegments => Res (connected_list st b_segments)
  | GConnectedReversers => Res (connected_list st b_reversers)
  | GConnectedBoosters => Res (idlist "length" "ids" (map b_id (filter (fun b => b_connected b && class_bit b 1) (boards st))))
  | GBoosters => Res (idlist "length" "ids" (map bo_id (boosters st)))
  | GTrackOutputs => Res (idlist "length" "ids" (map to_id (touts st)))
  | GConnectedTrackOutputs => Res (idlist "length" "ids" (map b_id (filter (fun b => b_connected b && class_bit b 4) (boards st))))
  | GBoosterState => Res (get_booster_state st a1)
  | GTrackOutputState => Res (get_track_output_state st a1)
  | GTrains => Res (idlist "length" "ids" (map tr_id (trains st)))
  | GTrainsOnTrack => Res (idlist "length" "ids" (map tt_id (filter (fun t => negb (tt_on t =? 0)) (tstates st))))
  | GTrainPeripherals => Res (match match arg_str a1 with Some s => find_train st s | None => None end with
                              | Some t => idlist_always (tr_peripherals t) | None => idlist_none end)
  | GTrainId => Res (get_train_id st a1)
  | GTrainDccAddr => Res (get_train_dcc_addr st a1)
  | GTrainState => Res (get_train_state st a1)
  | GTrainPeripheralState => Res (get_train_peripheral_state st a1 a2)
  | GTrainPosition => Res (get_train_position st a1)
  | GTrainSpeedStep => Res (match on_track_state st a1 with
                            | Some t => Rec [("known_and_avail", sc 1); ("speed_step", cp (tt_step t)); ("is_forwards", cp (tt_fwd t))]
                            | None => Rec [("known_and_avail", sc 0); ("speed_step", sc 0); ("is_forwards", sc 1)] end)
  | GTrainSpeedKmh => Res (match on_track_state st a1 with
                           | Some t => Rec [("known_and_avail", sc 1); ("speed_kmh", cp (tt_kmh t))]
                           | None => Rec [("known_and_avail", sc 0); ("speed_kmh", sc 0)] end)
  | GTrainOnTrack => Res (bool_res (match on_track_state st a1 with Some _ => true | None => false end))
  | GPointAspects => Res (get_aspects (flat_map b_points_board (boards st)) (flat_map b_points_dcc (boards st)) a1)
  | GSignalAspects => Res (get_aspects (flat_map b_signals_board (boards st)) (flat_map b_signals_dcc (boards st)) a1)
  | GPeripheralAspects => Res (get_aspects (flat_map b_peripherals (boards st)) [] a1)
  end.

(* ------------------------------------------------------------------ free functions *)
Inductive fres := FOk | FFault.
Definition fand (a b : fres) : fres := match a with FOk => b | FFault => FFault end.
Fixpoint fall (l : list fres) : fres := match l with [] => FOk | x :: r => fand x (fall r) end.
(* if (p != NULL) free(p): fine for NULL and for a block of this result; anything else is handed to free() *)
Definition free_ptr (s : shape) : fres := match s with PNull => FOk | PFresh _ => FOk | _ => FFault end.
(* if (arr != NULL) { for i < cnt: if (arr[i].f != NULL) free(arr[i].f); free(arr); } *)
Definition free_arr (cnt arr : shape) (elem : shape -> fres) : fres :=
  match arr with
  | PNull => FOk
  | PFresh (Arr l) => match cnt with
                      | Sc (Some n) => if n <=? glen l then fall (map elem (firstn (N.to_nat n) l)) else FFault
                      | _ => FFault
                      end
  | _ => FFault
  end.
(* the loops of bidib_free_track_state run over the count without a NULL test on the array *)
Definition free_arr_nonnull (cnt arr : shape) (elem : shape -> fres) : fres :=
  match arr with PNull => match cnt with Sc (Some 0) => FOk | _ => FFault end | _ => free_arr cnt arr elem end.
Definition free_el_sid (e : shape) : fres := fand (free_ptr (fld "id" e)) (free_ptr (fld "data.state_id" e)).
Definition free_trs_data (p : string) (e : shape) : fres :=
  free_arr (fld (String.append p "peripheral_cnt") e) (fld (String.append p "peripherals") e) (fun x => free_ptr (fld "id" x)).

Definition free_track_state (s : shape) : fres :=
  fall [free_arr_nonnull (fld "points_board_count" s) (fld "points_board" s) free_el_sid;
        free_arr_nonnull (fld "points_dcc_count" s) (fld "points_dcc" s) free_el_sid;
        free_arr_nonnull (fld "signals_board_count" s) (fld "signals_board" s) free_el_sid;
        free_arr_nonnull (fld "signals_dcc_count" s) (fld "signals_dcc" s) free_el_sid;
        free_arr_nonnull (fld "peripherals_count" s) (fld "peripherals" s) free_el_sid;
        free_arr_nonnull (fld "reversers_count" s) (fld "reversers" s) free_el_sid;
        free_arr_nonnull (fld "segments_count" s) (fld "segments" s)
          (fun e => fand (free_ptr (fld "id" e)) (free_ptr (fld "data.dcc_addresses" e)));
        free_arr_nonnull (fld "trains_count" s) (fld "trains" s)
          (fun e => fand (free_ptr (fld "id" e)) (free_trs_data "data." e));
        free_arr_nonnull (fld "booster_count" s) (fld "booster" s) (fun e => free_ptr (fld "id" e));
        free_arr_nonnull (fld "track_outputs_count" s) (fld "track_outputs" s) (fun e => free_ptr (fld "id" e))].

Inductive rtype := RTrackState | RIdList | RIdQuery | RFeatures | RUnifiedAcc | RPeripheral | RSegment | RReverser
                 | RTrainState | RPosition | RNoFree.
Definition rtype_of (g : getter) : rtype :=
  match g with
  | GState => RTrackState
  | GPointState | GSignalState => RUnifiedAcc
  | GPeripheralState => RPeripheral | GSegmentState => RSegment | GReverserState => RReverser
  | GBoardId | GTrainId => RIdQuery
  | GBoardFeatures => RFeatures
  | GTrainState => RTrainState | GTrainPosition => RPosition
  | GBoards | GBoardsConnected | GBoardPoints | GBoardSignals | GBoardPeripherals | GBoardSegments | GBoardReversers
  | GConnectedPoints | GConnectedSignals | GConnectedPeripherals | GConnectedSegments | GConnectedReversers
  | GConnectedBoosters | GBoosters | GTrackOutputs | GConnectedTrackOutputs | GTrains | GTrainsOnTrack
  | GTrainPeripherals | GPointAspects | GSignalAspects | GPeripheralAspects => RIdList
  | _ => RNoFree
  end.
Definition free_query (t : rtype) (s : shape) : fres :=
  match t with
  | RTrackState => free_track_state s
  | RIdList => free_arr (fld "length" s) (fld "ids" s) free_ptr
  | RIdQuery => free_ptr (fld "id" s)
  | RFeatures => free_ptr (fld "features" s)
  | RUnifiedAcc => match fld "type" s with
                   | Sc (Some 0) => free_ptr (fld "board.state_id" s)
                   | Sc (Some _) => free_ptr (fld "dcc.state_id" s)
                   | _ => FFault
                   end
  | RPeripheral | RReverser => free_ptr (fld "data.state_id" s)
  | RSegment => free_ptr (fld "data.dcc_addresses" s)
  | RTrainState => free_trs_data "data." s
  | RPosition => free_arr (fld "length" s) (fld "segments" s) free_ptr
  | RNoFree => FOk
  end.

(* ------------------------------------------------------------------ specification side *)
(* the abstraction carries no never-initialised state member *)
Definition sdef (n : N) : bool := n <? undef_mark.
Definition all_def (l : list N) : bool := forallb sdef l.
Definition board_def (b : board) : bool :=
  all_def (b_uid b) && all_def (b_addr b) && forallb (fun f => sdef (fst f) && sdef (snd f)) (b_features b).
Definition train_def (t : train) : bool := all_def (tr_dcc t).
Definition bacc_def (a : bacc) : bool := sdef (ba_sv a) && sdef (ba_exec a) && sdef (ba_wait a).
Definition dacc_def (a : dacc) : bool :=
  sdef (da_sv a) && sdef (da_coil a) && sdef (da_oct a) && sdef (da_ack a) && sdef (da_tu a) && sdef (da_swt a).
Definition per_def (p : periph) : bool := sdef (pe_sv p) && sdef (pe_tu p) && sdef (pe_wait p).
Definition rev_def (r : revst) : bool := sdef (rv_sv r).
Definition seg_def (s : segst) : bool :=
  sdef (sg_occ s) && sdef (sg_void s) && sdef (sg_freeze s) && sdef (sg_nosig s) && sdef (sg_pknown s) && sdef (sg_pover s)
  && sdef (sg_pcur s) && forallb all_def (sg_addrs s).
Definition trst_def (t : trst) : bool :=
  sdef (tt_on t) && sdef (tt_orient t) && sdef (tt_step t) && sdef (tt_fwd t) && sdef (tt_ack t) && sdef (tt_kmh t)
  && all_def (tt_dec t) && forallb (fun p => sdef (snd p)) (tt_pers t).
Definition boost_def (b : boost) : bool :=
  sdef (bo_ps b) && sdef (bo_pss b) && sdef (bo_pknown b) && sdef (bo_pover b) && sdef (bo_pcur b) && sdef (bo_vknown b)
  && sdef (bo_v b) && sdef (bo_tknown b) && sdef (bo_t b).
Definition tout_def (t : tout) : bool := sdef (to_cs t).
Definition state_defined (st : astate) : bool :=
  forallb board_def (boards st) && forallb train_def (trains st) && forallb bacc_def (points_board st)
  && forallb dacc_def (points_dcc st) && forallb bacc_def (signals_board st) && forallb dacc_def (signals_dcc st)
  && forallb per_def (peripherals st) && forallb seg_def (segments st) && forallb rev_def (reversers st)
  && forallb trst_def (tstates st) && forallb boost_def (boosters st) && forallb tout_def (touts st).

(* snapshot entries of one category: (id, element shape) *)
Inductive cat := CPointBoard | CPointDcc | CSignalBoard | CSignalDcc | CPeripheral | CSegment | CReverser | CTrain | CBooster | CTrackOutput.
Definition all_cats := [CPointBoard; CPointDcc; CSignalBoard; CSignalDcc; CPeripheral; CSegment; CReverser; CTrain; CBooster; CTrackOutput].
Definition cat_array (c : cat) : string :=
  match c with CPointBoard => "points_board" | CPointDcc => "points_dcc" | CSignalBoard => "signals_board" | CSignalDcc => "signals_dcc"
             | CPeripheral => "peripherals" | CSegment => "segments" | CReverser => "reversers" | CTrain => "trains"
             | CBooster => "booster" | CTrackOutput => "track_outputs" end.
Definition cat_single (c : cat) : getter :=
  match c with CPointBoard | CPointDcc => GPointState | CSignalBoard | CSignalDcc => GSignalState | CPeripheral => GPeripheralState
             | CSegment => GSegmentState | CReverser => GReverserState | CTrain => GTrainState | CBooster => GBoosterState
             | CTrackOutput => GTrackOutputState end.
(* member-path prefix of the payload in the snapshot element / in the single getter's result *)
Definition cat_prefix_snap (c : cat) : string := match c with CTrackOutput => "cs_" | _ => "data." end.
Definition cat_prefix_single (c : cat) : string :=
  match c with CPointBoard | CSignalBoard => "board." | CPointDcc | CSignalDcc => "dcc." | CTrackOutput => "cs_" | _ => "data." end.
Definition cat_ids (c : cat) (st : astate) : list str :=
  match c with
  | CPointBoard => map ba_id (points_board st) | CPointDcc => map da_id (points_dcc st)
  | CSignalBoard => map ba_id (signals_board st) | CSignalDcc => map da_id (signals_dcc st)
  | CPeripheral => map pe_id (peripherals st) | CSegment => map sg_id (segments st) | CReverser => map rv_id (reversers st)
  | CTrain => map tt_id (tstates st) | CBooster => map bo_id (boosters st) | CTrackOutput => map to_id (touts st)
  end.
Definition arr_elems (s : shape) : list shape := match s with PFresh (Arr l) => l | _ => [] end.
Definition rec_fields (s : shape) : list (string * shape) := match s with Rec l => l | _ => [] end.
Fixpoint strip (p : string) (l : list (string * shape)) : list (string * shape) :=
  match l with
  | [] => []
  | (k, v) :: r => if String.prefix p k then (substring (String.length p) (String.length k - String.length p) k, v) :: strip p r
                   else strip p r
  end.
Fixpoint shape_eqb (a b : shape) {struct a} : bool :=
  match a, b with
  | Sc (Some x), Sc (Some y) => x =? y
  | Sc None, Sc None => true
  | PNull, PNull => true | PUndef, PUndef => true
  | PFresh x, PFresh y => shape_eqb x y
  | PAlias x, PAlias y => shape_eqb x y
  | Str x, Str y => str_eqb x y
  | Arr x, Arr y => (fix go (l1 l2 : list shape) : bool :=
                       match l1, l2 with [] , [] => true | s1 :: r1, s2 :: r2 => shape_eqb s1 s2 && go r1 r2 | _, _ => false end) x y
  | Rec x, Rec y => (fix go (l1 l2 : list (string * shape)) : bool :=
                       match l1, l2 with [] , [] => true
                       | (k1, s1) :: r1, (k2, s2) :: r2 => String.eqb k1 k2 && shape_eqb s1 s2 && go r1 r2 | _, _ => false end) x y
  | _, _ => false
  end.
(* members of the snapshot entry whose value differs from the single getter's (or is missing there) *)
Definition entry_mismatches (c : cat) (entry single : shape) : list string :=
  let sf := strip (cat_prefix_single c) (rec_fields single) in
  map fst (filter (fun kv => negb (shape_eqb (snd kv) (lookup (fst kv) sf))) (strip (cat_prefix_snap c) (rec_fields entry))).
Definition snapshot_mismatches (st : astate) : list (cat * str * string) :=
  flat_map (fun c =>
    flat_map (fun e =>
      match fld "id" e with
      | PFresh (Str id) => match call (cat_single c) (AStr id) ANull st with
                           | Res single => map (fun m => (c, id, m)) (entry_mismatches c e single)
                           | Crash => [(c, id, "crash")]
                           end
      | _ => [(c, [], "id")]
      end) (arr_elems (fld (cat_array c) (snapshot st)))) all_cats.

(* ids are unique per lookup domain (what the parser enforces) *)
Definition ids_unique (st : astate) : Prop :=
  NoDup (map ba_id (points_board st) ++ map da_id (points_dcc st)) /\
  NoDup (map ba_id (signals_board st) ++ map da_id (signals_dcc st)) /\
  NoDup (map pe_id (peripherals st)) /\ NoDup (map sg_id (segments st)) /\ NoDup (map rv_id (reversers st)) /\
  NoDup (map tt_id (tstates st)) /\ NoDup (map bo_id (boosters st)) /\ NoDup (map to_id (touts st)).
(* ------------------------------------------------------------------ small concrete states for the witnesses *)
Definition ex_board : board :=
  {| b_id := [98; 49]; b_connected := false; b_uid := [218; 0; 13; 104; 0; 1; 238]; b_addr := [0; 0; 0]; b_features := [(1, 0)];
     b_points_board := [{| mp_id := [112; 49]; mp_aspects := [[110]; [114]] |}]; b_points_dcc := [{| mp_id := [112; 50]; mp_aspects := [[110]] |}];
     b_signals_board := []; b_signals_dcc := [{| mp_id := [115; 50]; mp_aspects := [] |}];
     b_peripherals := [{| mp_id := [108; 49]; mp_aspects := [[97]] |}]; b_segments := [[115; 101; 103]]; b_reversers := [[114; 118]] |}.
Definition ex_state : astate :=
  {| boards := [ex_board];
     trains := [{| tr_id := [116; 49]; tr_dcc := [35; 1; 201]; tr_peripherals := [[108; 105]] |}];
     points_board := [{| ba_id := [112; 49]; ba_sid := Some [110]; ba_sv := 1; ba_exec := 2; ba_wait := 0 |}];
     points_dcc := [{| da_id := [112; 50]; da_sid := None; da_sv := 0; da_coil := 1; da_oct := 1; da_ack := 4; da_tu := 0; da_swt := 0 |}];
     signals_board := [];
     signals_dcc := [{| da_id := [115; 50]; da_sid := None; da_sv := 0; da_coil := 1; da_oct := 1; da_ack := 4; da_tu := 0; da_swt := 0 |}];
     peripherals := [{| pe_id := [108; 49]; pe_sid := None; pe_sv := 0; pe_tu := 0; pe_wait := 0 |}];
     segments := [{| sg_id := [115; 101; 103]; sg_occ := 1; sg_void := 0; sg_freeze := 0; sg_nosig := 0; sg_pknown := 0; sg_pover := 0;
                     sg_pcur := 0; sg_addrs := [[35; 1; 0]] |}];
     reversers := [{| rv_id := [114; 118]; rv_sid := None; rv_sv := 2 |}];
     tstates := [{| tt_id := [116; 49]; tt_on := 1; tt_orient := 0; tt_step := 3; tt_fwd := 1; tt_ack := 4; tt_kmh := 0;
                    tt_dec := [0; 0; 0; 0; 0; 0; 0; 0; 0; 0]; tt_pers := [([108; 105], 1)] |}];
     boosters := [{| bo_id := [98; 49]; bo_ps := 0; bo_pss := 1; bo_pknown := 0; bo_pover := 0; bo_pcur := 0; bo_vknown := 0; bo_v := 0;
                     bo_tknown := 1; bo_t := 40 |}];
     touts := [{| to_id := [98; 49]; to_cs := 0 |}] |}.
