From Coq Require Import Extraction ExtrOcamlBasic List NArith.
From LB Require Import Tables Framing Rx DispatchTab Dispatch.
Extraction "model_c06.ml" rx_init rx_run route queues_init q_pop q_msg q_err q_int.
