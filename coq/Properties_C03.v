(* Properties_C03.v — C03: per-node response budget; deferred messages FIFO, never stranded.
   Statements only. tab_run is the node-table half of the library for an arbitrary event history
   (sends, uplink messages, clock changes, flushes, capacity changes); every prefix of a history is
   a history, so each theorem speaks about the state after every prefix. *)
From Coq Require Import List NArith Bool.
From LB Require Import Tables Framing NodeFlow NodeFlowProofs NoStrandProofs BudgetSpec BudgetProofs.
Import ListNotations.
Local Open Scope N_scope.

(* the library's counter equals the sum of the worst-case response sizes of the requests it still
   lists as outstanding, and never exceeds the limit - for every node, after every history *)
Theorem C03_budget : forall es so now0,
  let '(t, _, _, _, _) := tab_run [] so now0 es in
  forall a, n_used (get t a) = sumsz (n_resp (get t a)) /\ n_used (get t a) <= response_limit.
Proof. exact (fun es so now0 => tab_run_ok es [] so now0 tab_ok_nil). Qed.
Print Assumptions C03_budget.

(* The same in the property's own accounting (BudgetSpec.v, independent of the library's counter):
   per node, the requests transmitted to it with their transmission time; an uplink message removes the
   oldest live request if it is one of its answers; a request is live for 2 seconds. Along every history
   with a monotone clock the worst-case response sizes of the live outstanding requests of every node sum
   to at most the library's counter (the library only ever over-counts: lazy expiry), hence to at most 48. *)
Theorem C03_budget_spec : forall es so now0, clock_mono now0 es = true ->
  let '(t, now, spec) := spec_run [] so now0 es (fun _ => []) in
  forall a, outstanding_sum now (spec a) <= n_used (get t a) /\ n_used (get t a) <= response_limit.
Proof. exact budget_spec. Qed.
Print Assumptions C03_budget_spec.

Theorem C03_limit_is_48 : response_limit = 48 /\ expiry_secs = 2.
Proof. exact (conj eq_refl eq_refl). Qed.

(* requests whose 2-second expiry has passed are only ever over-counted by the library:
   the live outstanding requests (the property's accounting) sum to at most the counter *)
Theorem C03_budget_live : forall es so now0,
  let '(t, _, now, _, _) := tab_run [] so now0 es in
  forall a, live_sum now (get t a) <= response_limit.
Proof.
  exact (fun es so now0 =>
    match tab_run [] so now0 es as r return
      (let '(t, _, _, _, _) := r in tab_ok t) -> (let '(t, _, now, _, _) := r in forall a, live_sum now (get t a) <= response_limit)
    with (t, _, now, _, _) => fun H a => live_sum_le now (get t a) (H a) end (tab_run_ok es [] so now0 tab_ok_nil)).
Qed.
Print Assumptions C03_budget_live.

(* FIFO, exactly once: for every node, what has been handed to the transmit buffer followed by what
   is still held equals what was submitted, in submission order - no loss, duplication, reordering *)
Theorem C03_fifo_once : forall es so now0, forallb (fun e => negb (is_reset e)) es = true ->
  let '(t, _, _, log, _) := tab_run [] so now0 es in
  forall a, sent a log ++ heldm t a = submitted a log.
Proof. exact (fun es so now0 H => tab_run_fifo es [] so now0 H). Qed.
Print Assumptions C03_fifo_once.

(* whenever the held queue of a node is retried (after a matching answer, after a stall is lifted),
   it is drained until it is empty, the node is blocked by a stall, or the head does not fit *)
Theorem C03_retry_drains : forall t a now,
  let t' := fst (try_queued t a now) in
  n_held (get t' a) = [] \/ ~ unblocked t' a \/ head_blocked_by_budget t' a.
Proof. exact try_queued_post. Qed.
Print Assumptions C03_retry_drains.

(* Never stranded, for every history in which no outstanding request expires (the clock does not
   move): after every event, a node that still holds a message and has no stalled ancestor-or-self is
   limited by its budget - the oldest held message does not fit. Together with the refutation below
   (which needs the clock to move) this delimits the defect exactly. *)
Theorem C03_no_strand_event_except : forall es so now0, forallb no_clock es = true ->
  let '(t, _, _, _, _) := tab_run [] so now0 es in
  forall a, n_held (get t a) <> [] -> unblocked t a -> head_blocked_by_budget t a.
Proof. exact no_strand_const_clock. Qed.
Print Assumptions C03_no_strand_event_except.

(* ... and more generally after EVERY history, moving clock included, in which no outstanding request
   reaches the expiry age: at each clock event every outstanding request is younger than 2 s at the new
   time (young_run, executable). These are exactly the histories outside the known finding below. *)
Theorem C03_no_strand_without_expiry : forall es so now0, young_run [] so now0 es = true ->
  let '(t, _, _, _, _) := tab_run [] so now0 es in
  forall a, n_held (get t a) <> [] -> unblocked t a -> head_blocked_by_budget t a.
Proof. exact no_strand_without_expiry. Qed.
Print Assumptions C03_no_strand_without_expiry.

(* non-vacuous: a history whose clock moves (requests answered within a second, new ones sent later,
   a message deferred and released) satisfies young_run; the refutation witness below does not *)
Example C03_without_expiry_nonvacuous :
  young_run [] true 0
    [FTime 1000; FSend (1,0,0) 6 []; FSend (1,0,0) 6 []; FSend (1,0,0) 6 []; FSend (1,0,0) 6 []; FSend (1,0,0) 6 [];
     FSend (1,0,0) 6 []; FSend (1,0,0) 5 []; FTime 1001; FUp [1] 133 0; FUp [1] 133 0; FUp [1] 133 0; FUp [1] 133 0; FUp [1] 133 0; FUp [1] 133 0;
     FTime 1002; FSend (1,0,0) 6 []; FUp [1] 132 0; FTime 1003; FUp [1] 133 0] = true /\
  young_run [] true 0 [FTime 1000; FSend (1,0,0) 6 []; FTime 1005; FUp [1] 161 0] = false.
Proof. vm_compute. split; reflexivity. Qed.

(* REFUTED on the faithful model (known finding strand.lazy-expiry): a history after which a held
   message fits the budget of live requests and nothing is stalled, yet it is still held.
   6 x SYS_GET_SW_VERSION (7 bytes each), 1 x SYS_GET_UNIQUE_ID (11) deferred, clock +5 s, two
   spontaneous MSG_BM_FREE from the node. *)
Definition c03_witness : list fev :=
  [FTime 1000; FSend (1,0,0) 6 []; FSend (1,0,0) 6 []; FSend (1,0,0) 6 []; FSend (1,0,0) 6 [];
   FSend (1,0,0) 6 []; FSend (1,0,0) 6 []; FSend (1,0,0) 5 []; FTime 1005;
   FUp [1] 161 0; FUp [1] 161 0].
Theorem C03_no_strand_event_refuted :
  exists es, let '(t, _, now, _, _) := tab_run [] true 0 es in exists a, strandedb t now a = true.
Proof. exists c03_witness. vm_compute. exists [1]. reflexivity. Qed.
Print Assumptions C03_no_strand_event_refuted.

(* non-vacuity: a history with a deferral that is released by the matching answer *)
Example C03_budget_spec_nonvacuous :
  let es := [FTime 1000; FSend (1,0,0) 22 [1]; FSend (1,0,0) 5 []; FTime 1001; FUp [1] 132 0; FTime 1003] in
  clock_mono 0 es = true /\
  let '(t, now, spec) := spec_run [] true 0 es (fun _ => []) in
  outstanding_sum now (spec [1]) = 0 /\ n_used (get t [1]) = 43.
Proof. vm_compute. repeat split. Qed.

Example C03_nonvacuous :
  let es := [FTime 1000; FSend (1,0,0) 22 [1]; FSend (1,0,0) 23 [2]; FUp [1] 147 0] in
  let '(t, _, _, log, _) := tab_run [] true 0 es in
  length (sent [1] log) = 2%nat /\ heldm t [1] = [] /\ n_used (get t [1]) = 32.
Proof. vm_compute. repeat split. Qed.
