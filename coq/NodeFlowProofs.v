(* NodeFlowProofs.v — invariants of NodeFlow.v for C03 / C04 / C05. *)
From Coq Require Import List NArith Bool Arith Lia.
From LB Require Import Tables Framing NodeFlow.
Import ListNotations.
Local Open Scope N_scope.

(* ------------------------------------------------------------------ addresses, lookup/store *)
Lemma addr_eqb_spec a b : reflect (a = b) (addr_eqb a b).
Proof.
  revert b. induction a as [|x a IH]; intros [|y b]; cbn; try (constructor; congruence).
  destruct (N.eqb_spec x y) as [->|Hn]; cbn.
  - destruct (IH b) as [->|Hn]; constructor; congruence.
  - constructor. congruence.
Qed.

Lemma addr_eqb_refl a : addr_eqb a a = true.
Proof. destruct (addr_eqb_spec a a); congruence. Qed.

Lemma lookup_store_same t a v : lookup (store t a v) a = Some v.
Proof.
  induction t as [|[k w] r IH]; cbn.
  - rewrite addr_eqb_refl. reflexivity.
  - destruct (addr_eqb k a) eqn:E; cbn; rewrite E; [reflexivity|exact IH].
Qed.

Lemma lookup_store_other t a b v : a <> b -> lookup (store t a v) b = lookup t b.
Proof.
  intros Hn. induction t as [|[k w] r IH]; cbn.
  - destruct (addr_eqb_spec a b); [congruence|reflexivity].
  - destruct (addr_eqb_spec k a) as [->|Hka]; cbn.
    + destruct (addr_eqb_spec a b); [congruence|reflexivity].
    + destruct (addr_eqb k b); [reflexivity|exact IH].
Qed.

Lemma get_store_same t a v : get (store t a v) a = v.
Proof. unfold get. rewrite lookup_store_same. reflexivity. Qed.

Lemma get_store_other t a b v : a <> b -> get (store t a v) b = get t b.
Proof. intros H. unfold get. rewrite lookup_store_other by exact H. reflexivity. Qed.

Lemma get_ensure t a b : get (ensure t a) b = get t b.
Proof.
  unfold ensure. destruct (lookup t a) eqn:E; [reflexivity|].
  destruct (addr_eqb_spec a b) as [->|Hn].
  - rewrite get_store_same. unfold get. rewrite E. reflexivity.
  - apply get_store_other. exact Hn.
Qed.

Lemma lookup_ensure_same t a : lookup (ensure t a) a = Some (get t a).
Proof.
  unfold ensure, get. destruct (lookup t a) eqn:E; [exact E|]. apply lookup_store_same.
Qed.

Lemma is_stalled_get t p : is_stalled t p = n_stall (get t p).
Proof. unfold is_stalled, get. destruct (lookup t p); reflexivity. Qed.

Lemma lookup_get t a v : lookup t a = Some v -> get t a = v.
Proof. unfold get. intros ->. reflexivity. Qed.

(* ------------------------------------------------------------------ "same except" relations *)
(* t' agrees with t on the flow-control fields of every node *)
Definition same_flow (v v' : node) : Prop :=
  n_used v' = n_used v /\ n_resp v' = n_resp v /\ n_held v' = n_held v.
Definition same_ctl (v v' : node) : Prop :=
  n_stall v' = n_stall v /\ n_sseq v' = n_sseq v /\ n_rseq v' = n_rseq v.

Lemma same_flow_refl v : same_flow v v. Proof. repeat split. Qed.
Lemma same_ctl_refl v : same_ctl v v. Proof. repeat split. Qed.
Lemma same_flow_trans a b c : same_flow a b -> same_flow b c -> same_flow a c.
Proof. intros (A&B&C) (D&E&F). repeat split; congruence. Qed.
Lemma same_ctl_trans a b c : same_ctl a b -> same_ctl b c -> same_ctl a c.
Proof. intros (A&B&C) (D&E&F). repeat split; congruence. Qed.

(* ------------------------------------------------------------------ stall_ready *)
Definition unblocked (t : table) (a : addr) : Prop :=
  forall p, In p (ancestors a) -> n_stall (get t p) = false.

Lemma find_none_iff {X} (f : X -> bool) l : find f l = None <-> forall x, In x l -> f x = false.
Proof.
  induction l as [|y l IH]; cbn; [tauto|]. destruct (f y) eqn:E.
  - split; [discriminate|]. intros H. specialize (H y (or_introl eq_refl)). congruence.
  - rewrite IH. split; [intros H x [<-|Hx]; auto | intros H x Hx; apply H; auto].
Qed.

Lemma stall_ready_spec t a :
  let '(t', r) := stall_ready t a in
  (forall b, same_flow (get t b) (get t' b) /\ same_ctl (get t b) (get t' b)) /\
  (r = true <-> unblocked t a) /\ (r = true -> t' = t).
Proof.
  unfold stall_ready. destruct (find (is_stalled t) (ancestors a)) as [p|] eqn:E.
  - assert (Hnb : ~ unblocked t a).
    { intros Hu. apply find_some in E as [Hin Hs]. rewrite is_stalled_get in Hs.
      rewrite (Hu p Hin) in Hs. discriminate. }
    destruct (existsb (addr_eqb a) (n_waiters (get t p))).
    + split; [intros b; split; [apply same_flow_refl|apply same_ctl_refl]|].
      split; [split; [discriminate|tauto]|discriminate].
    + split; [|split; [split; [discriminate|tauto]|discriminate]].
      intros b. destruct (addr_eqb_spec p b) as [->|Hn].
      * rewrite get_store_same. split; repeat split.
      * rewrite get_store_other by exact Hn. split; [apply same_flow_refl|apply same_ctl_refl].
  - split; [intros b; split; [apply same_flow_refl|apply same_ctl_refl]|].
    split; [|reflexivity]. split; [intros _|reflexivity].
    intros p Hin. rewrite <- is_stalled_get. rewrite find_none_iff in E. apply E. exact Hin.
Qed.

(* ------------------------------------------------------------------ budget invariant (C03) *)
Fixpoint sumsz (q : list (N * N)) : N :=
  match q with [] => 0 | e :: r => resp_size (fst e) + sumsz r end.

Lemma sumsz_app q1 q2 : sumsz (q1 ++ q2) = sumsz q1 + sumsz q2.
Proof. induction q1 as [|e q IH]; cbn [sumsz app]; [reflexivity|]. rewrite IH. lia. Qed.

Definition node_ok (v : node) : Prop := n_used v = sumsz (n_resp v) /\ n_used v <= response_limit.
Definition tab_ok (t : table) : Prop := forall b, node_ok (get t b).

Lemma node_ok_budget v v' : n_used v' = n_used v -> n_resp v' = n_resp v -> node_ok v -> node_ok v'.
Proof. intros A B [D E]. unfold node_ok. rewrite A, B. auto. Qed.
Lemma node_ok_same v v' : same_flow v v' -> node_ok v -> node_ok v'.
Proof. intros (A&B&C). apply node_ok_budget; assumption. Qed.

Lemma new_node_ok : node_ok new_node.
Proof. unfold node_ok, new_node; cbn. split; [reflexivity|]. vm_compute. discriminate. Qed.

Lemma tab_ok_nil : tab_ok [].
Proof. intros b. unfold get; cbn. apply new_node_ok. Qed.

Lemma tab_ok_store t a v : tab_ok t -> node_ok v -> tab_ok (store t a v).
Proof.
  intros Ht Hv b. destruct (addr_eqb_spec a b) as [->|Hn].
  - rewrite get_store_same. exact Hv.
  - rewrite get_store_other by exact Hn. apply Ht.
Qed.

Lemma tab_ok_ensure t a : tab_ok t -> tab_ok (ensure t a).
Proof. intros Ht b. rewrite get_ensure. apply Ht. Qed.

Lemma tab_ok_stall_ready t a : tab_ok t -> tab_ok (fst (stall_ready t a)).
Proof.
  intros Ht. pose proof (stall_ready_spec t a) as H. destruct (stall_ready t a) as [t' r].
  destruct H as (Hs & _). intros b. cbn [fst]. eapply node_ok_same; [apply Hs|apply Ht].
Qed.

Lemma add_response_ok v ty now :
  node_ok v -> n_used v + resp_size ty <= response_limit -> node_ok (add_response v ty now).
Proof.
  intros [A B] Hfit. unfold add_response. destruct (0 <? resp_size ty); [|split; assumption].
  unfold node_ok, with_flow; cbn [n_used n_resp]. rewrite sumsz_app. cbn. split; [lia|exact Hfit].
Qed.

Lemma add_response_held v ty now : n_held (add_response v ty now) = n_held v.
Proof. unfold add_response. destruct (0 <? resp_size ty); reflexivity. Qed.
Lemma add_response_ctl v ty now : same_ctl v (add_response v ty now).
Proof. unfold add_response. destruct (0 <? resp_size ty); repeat split. Qed.

Lemma try_send_ok t a ty m now : tab_ok t -> tab_ok (fst (try_send t a ty m now)).
Proof.
  intros Ht. unfold try_send.
  pose proof (tab_ok_stall_ready (ensure t a) a (tab_ok_ensure t a Ht)) as H2.
  destruct (stall_ready (ensure t a) a) as [t2 ready]. cbn [fst] in H2.
  destruct (ready && match n_held (get t2 a) with [] => true | _ => false end &&
            (n_used (get t2 a) + resp_size ty <=? response_limit)) eqn:E; cbn [fst].
  - apply andb_true_iff in E as [_ E]. apply N.leb_le in E.
    apply tab_ok_store; [exact H2|]. apply add_response_ok; [apply H2|exact E].
  - apply tab_ok_store; [exact H2|]. eapply node_ok_budget; [| |apply (H2 a)]; reflexivity.
Qed.

Lemma try_queued_loop_ok fuel : forall t a now acc,
  tab_ok t -> tab_ok (fst (try_queued_loop fuel t a now acc)).
Proof.
  induction fuel as [|f IH]; intros t a now acc Ht; cbn [try_queued_loop]; [exact Ht|].
  pose proof (tab_ok_stall_ready t a Ht) as H1.
  destruct (stall_ready t a) as [t1 ready]. cbn [fst] in H1.
  destruct ready; [|exact H1].
  destruct (n_held (get t1 a)) as [|[ty m] rest] eqn:Eh; [exact H1|].
  destruct (n_used (get t1 a) + resp_size ty <=? response_limit) eqn:E; [|exact H1].
  apply N.leb_le in E. apply IH. apply tab_ok_store; [exact H1|].
  apply add_response_ok; [|exact E].
  eapply node_ok_budget; [| |apply (H1 a)]; reflexivity.
Qed.

Lemma try_queued_ok t a now : tab_ok t -> tab_ok (fst (try_queued t a now)).
Proof.
  intros Ht. unfold try_queued.
  pose proof (try_queued_loop_ok (S (length (n_held (get t a)))) t a now [] Ht) as H.
  destruct (try_queued_loop _ t a now []) as [t1 ms]. exact H.
Qed.

Lemma pop_resp_ok v : node_ok v -> node_ok (pop_resp v).
Proof.
  intros H. unfold pop_resp. destruct (n_resp v) as [|[ty c] rest] eqn:E; [exact H|].
  destruct H as [A B]. unfold node_ok, with_flow; cbn [n_used n_resp]. rewrite E in A.
  cbn [sumsz fst] in A. split; lia.
Qed.

Lemma upd_loop_ok fuel : forall i v rty now, node_ok v -> node_ok (fst (upd_loop fuel i v rty now)).
Proof.
  induction fuel as [|f IH]; intros i v rty now Hv; cbn [upd_loop]; [exact Hv|].
  destruct (n_resp v) as [|[ty c] rest] eqn:E; [exact Hv|].
  destruct (i <=? info_cnt ty); [|exact Hv].
  destruct (info_at ty i =? rty); [apply pop_resp_ok; exact Hv|].
  destruct (expiry_secs <=? now - c).
  - destruct rest; [apply pop_resp_ok; exact Hv|]. apply IH. apply pop_resp_ok. exact Hv.
  - apply IH. exact Hv.
Qed.

Lemma on_update_ok t a rty now : tab_ok t -> tab_ok (fst (on_update t a rty now)).
Proof.
  intros Ht. unfold on_update. destruct (lookup t a) as [v|] eqn:El; [|exact Ht].
  destruct (n_resp v) eqn:Er; [exact Ht|].
  pose proof (upd_loop_ok 8 2 v rty now) as Hu.
  destruct (upd_loop 8 2 v rty now) as [v1 matched]. cbn [fst] in Hu.
  assert (Hv : node_ok v) by (rewrite <- (lookup_get t a v El); apply Ht).
  destruct matched.
  - apply try_queued_ok. apply tab_ok_store; [exact Ht|apply Hu; exact Hv].
  - cbn [fst]. apply tab_ok_store; [exact Ht|apply Hu; exact Hv].
Qed.

Lemma release_waiters_ok ws : forall t now acc, tab_ok t -> tab_ok (fst (release_waiters ws t now acc)).
Proof.
  induction ws as [|w r IH]; intros t now acc Ht; cbn [release_waiters]; [exact Ht|].
  destruct (lookup t w); [|apply IH; exact Ht].
  pose proof (try_queued_ok t w now Ht) as H. destruct (try_queued t w now) as [t1 o].
  apply IH. exact H.
Qed.

Lemma on_stall_ok t a st now : tab_ok t -> tab_ok (fst (on_stall t a st now)).
Proof.
  intros Ht. unfold on_stall. pose proof (tab_ok_ensure t a Ht) as H1.
  destruct (st =? 0).
  - apply release_waiters_ok. apply tab_ok_store; [exact H1|].
    eapply node_ok_same; [|apply (H1 a)]. repeat split.
  - cbn [fst]. apply tab_ok_store; [exact H1|]. eapply node_ok_same; [|apply (H1 a)]. repeat split.
Qed.

Lemma alloc_sseq_ok t a : tab_ok t -> tab_ok (fst (alloc_sseq t a)).
Proof.
  intros Ht. unfold alloc_sseq. cbn [fst]. pose proof (tab_ok_ensure t a Ht) as H1.
  apply tab_ok_store; [exact H1|]. eapply node_ok_same; [|apply (H1 a)]. repeat split.
Qed.

Lemma tab_step_ok t so now e : tab_ok t ->
  let '(t1, _, _, _, _) := tab_step t so now e in tab_ok t1.
Proof.
  intros Ht. destruct e as [a ty data|a rty last|n| |c|b|]; cbn [tab_step]; try exact Ht.
  - unfold submit_tab.
    assert (H1 : tab_ok (fst (if so then alloc_sseq t (canon a) else (t, 0)))).
    { destruct so; [apply alloc_sseq_ok; exact Ht|exact Ht]. }
    destruct (if so then alloc_sseq t (canon a) else (t, 0)) as [t1 sq]. cbn [fst] in H1.
    destruct (encode_msg a sq ty data) as [m|]; [|exact Ht].
    pose proof (try_send_ok t1 (canon a) ty m now H1) as H2.
    destruct (try_send t1 (canon a) ty m now) as [t2 ok]. exact H2.
  - unfold uplink_tab. pose proof (on_update_ok t a rty now Ht) as H1.
    destruct (on_update t a rty now) as [t1 g1]. cbn [fst] in H1.
    destruct (rty =? MSG_STALL).
    + pose proof (on_stall_ok t1 a last now H1) as H2. destruct (on_stall t1 a last now) as [t2 g2]. exact H2.
    + exact H1.
  - apply tab_ok_nil.
Qed.

Lemma tab_run_ok es : forall t so now, tab_ok t ->
  let '(t1, _, _, _, _) := tab_run t so now es in tab_ok t1.
Proof.
  induction es as [|e r IH]; intros t so now Ht; cbn [tab_run]; [exact Ht|].
  pose proof (tab_step_ok t so now e Ht) as H1.
  destruct (tab_step t so now e) as [[[[t1 s1] n1] g1] o1].
  specialize (IH t1 s1 n1 H1). destruct (tab_run t1 s1 n1 r) as [[[[t2 s2] n2] g2] o2]. exact IH.
Qed.

(* ------------------------------------------------------------------ effect on held queues and control fields *)
Definition heldm (t : table) (a : addr) : list (list N) := map snd (n_held (get t a)).
Definition grp_of (a : addr) (g : group) : list (list N) := if addr_eqb a (fst g) then map snd (snd g) else [].
Definition grps_of (a : addr) (gs : list group) : list (list N) := flat_map (grp_of a) gs.

Definition ctl_same (t t' : table) : Prop := forall b, same_ctl (get t b) (get t' b).
Lemma ctl_same_refl t : ctl_same t t. Proof. intros b; apply same_ctl_refl. Qed.
Lemma ctl_same_trans t1 t2 t3 : ctl_same t1 t2 -> ctl_same t2 t3 -> ctl_same t1 t3.
Proof. intros A B b. eapply same_ctl_trans; [apply A|apply B]. Qed.

Lemma ctl_same_ensure t a : ctl_same t (ensure t a).
Proof. intros b. rewrite get_ensure. apply same_ctl_refl. Qed.

Lemma ctl_same_store t a v : same_ctl (get t a) v -> ctl_same t (store t a v).
Proof.
  intros H b. destruct (addr_eqb_spec a b) as [->|Hn].
  - rewrite get_store_same. exact H.
  - rewrite get_store_other by exact Hn. apply same_ctl_refl.
Qed.

Lemma unblocked_ctl t t' a : ctl_same t t' -> unblocked t a -> unblocked t' a.
Proof. intros H Hu p Hin. destruct (H p) as (A & _). rewrite A. apply Hu. exact Hin. Qed.

Lemma ctl_same_sym t t' : ctl_same t t' -> ctl_same t' t.
Proof. intros H b. destruct (H b) as (A&B&C). repeat split; congruence. Qed.

(* try_send *)
Lemma try_send_spec t a ty m now :
  let '(t', ok) := try_send t a ty m now in
  ctl_same t t' /\
  (forall b, b <> a -> heldm t' b = heldm t b) /\
  (ok = true -> unblocked t a /\ heldm t a = [] /\ heldm t' a = []) /\
  (ok = false -> heldm t' a = heldm t a ++ [m]).
Proof.
  unfold try_send.
  pose proof (stall_ready_spec (ensure t a) a) as Hs.
  destruct (stall_ready (ensure t a) a) as [t2 ready]. destruct Hs as (Hsame & Hready & _).
  assert (Hc2 : ctl_same t t2).
  { intros b. destruct (Hsame b) as [_ C]. rewrite get_ensure in C. exact C. }
  assert (Hh2 : forall b, heldm t2 b = heldm t b).
  { intros b. destruct (Hsame b) as [(_&_&F) _]. rewrite get_ensure in F. unfold heldm. rewrite F. reflexivity. }
  destruct (ready && match n_held (get t2 a) with [] => true | _ => false end &&
            (n_used (get t2 a) + resp_size ty <=? response_limit)) eqn:E.
  - apply andb_true_iff in E as [E _]. apply andb_true_iff in E as [Er Eh].
    split; [|split; [|split; [|discriminate]]].
    + eapply ctl_same_trans; [exact Hc2|]. apply ctl_same_store. apply add_response_ctl.
    + intros b Hb. unfold heldm. rewrite get_store_other by congruence. apply Hh2.
    + intros _. split; [|split].
      * apply (unblocked_ctl (ensure t a) t); [apply ctl_same_sym, ctl_same_ensure|]. apply Hready. exact Er.
      * rewrite <- Hh2. unfold heldm. destruct (n_held (get t2 a)); [reflexivity|discriminate].
      * unfold heldm. rewrite get_store_same, add_response_held. destruct (n_held (get t2 a)); [reflexivity|discriminate].
  - split; [|split; [|split; [discriminate|]]].
    + eapply ctl_same_trans; [exact Hc2|]. apply ctl_same_store. repeat split.
    + intros b Hb. unfold heldm. rewrite get_store_other by congruence. apply Hh2.
    + intros _. unfold heldm. rewrite get_store_same. cbn [with_flow n_held]. rewrite map_app.
      cbn [map snd]. f_equal. apply Hh2.
Qed.

(* try_queued_loop *)
Lemma try_queued_loop_spec fuel : forall t a now acc,
  let '(t', ms) := try_queued_loop fuel t a now acc in
  ctl_same t t' /\
  (forall b, b <> a -> heldm t' b = heldm t b) /\
  (exists rel, ms = acc ++ rel /\ heldm t a = map snd rel ++ heldm t' a /\ (rel <> [] -> unblocked t a)).
Proof.
  induction fuel as [|f IH]; intros t a now acc; cbn [try_queued_loop].
  - split; [apply ctl_same_refl|]. split; [reflexivity|]. exists []. rewrite app_nil_r.
    split; [reflexivity|]. split; [reflexivity|]. intros H; congruence.
  - pose proof (stall_ready_spec t a) as Hs. destruct (stall_ready t a) as [t1 ready].
    destruct Hs as (Hsame & Hready & _).
    assert (Hc1 : ctl_same t t1) by (intros b; apply Hsame).
    assert (Hh1 : forall b, heldm t1 b = heldm t b).
    { intros b. destruct (Hsame b) as [(_&_&F) _]. unfold heldm. rewrite F. reflexivity. }
    assert (Hstop : ctl_same t t1 /\ (forall b, b <> a -> heldm t1 b = heldm t b) /\
              (exists rel, acc = acc ++ rel /\ heldm t a = map snd rel ++ heldm t1 a /\ (rel <> [] -> unblocked t a))).
    { split; [exact Hc1|]. split; [intros; apply Hh1|]. exists []. rewrite app_nil_r, Hh1.
      split; [reflexivity|]. split; [reflexivity|]. intros H; congruence. }
    destruct ready; [|exact Hstop].
    destruct (n_held (get t1 a)) as [|[ty m] rest] eqn:Eh; [exact Hstop|].
    destruct (n_used (get t1 a) + resp_size ty <=? response_limit) eqn:E; [|exact Hstop].
    set (v1 := add_response (with_flow (get t1 a) (n_used (get t1 a)) (n_resp (get t1 a)) rest) ty now).
    specialize (IH (store t1 a v1) a now (acc ++ [(ty, m)])).
    destruct (try_queued_loop f (store t1 a v1) a now (acc ++ [(ty, m)])) as [t' ms].
    destruct IH as (Hc & Hh & rel & Hms & Hheld & Hub).
    assert (Hcs : ctl_same t1 (store t1 a v1)).
    { apply ctl_same_store. unfold v1. eapply same_ctl_trans; [|apply add_response_ctl]. repeat split. }
    split; [eapply ctl_same_trans; [exact Hc1|]; eapply ctl_same_trans; [exact Hcs|exact Hc]|].
    split.
    + intros b Hb. rewrite Hh by exact Hb. unfold heldm. rewrite get_store_other by congruence. apply Hh1.
    + exists ((ty, m) :: rel). split; [rewrite Hms, <- app_assoc; reflexivity|]. split.
      * rewrite <- Hh1. unfold heldm at 1. rewrite Eh. cbn [map snd app]. f_equal.
        rewrite <- Hheld. unfold heldm. rewrite get_store_same. unfold v1. rewrite add_response_held. reflexivity.
      * intros _. apply Hready. reflexivity.
Qed.

Lemma try_queued_spec t a now :
  let '(t', gs) := try_queued t a now in
  ctl_same t t' /\
  (forall b, grps_of b gs ++ heldm t' b = heldm t b) /\
  (forall g, In g gs -> snd g <> [] -> unblocked t (fst g)).
Proof.
  unfold try_queued. pose proof (try_queued_loop_spec (S (length (n_held (get t a)))) t a now []) as H.
  destruct (try_queued_loop _ t a now []) as [t1 ms]. destruct H as (Hc & Hh & rel & Hms & Hheld & Hub).
  cbn [app] in Hms. subst ms. split; [exact Hc|]. split.
  - intros b. unfold grps_of. cbn [flat_map]. rewrite app_nil_r.
    unfold grp_of; cbn [fst snd]. destruct (addr_eqb_spec b a) as [->|Hn]; [symmetry; exact Hheld|]. cbn [app]. apply Hh. exact Hn.
  - intros g [<-|[]] Hne. cbn [fst snd] in *. apply Hub. exact Hne.
Qed.

Lemma pop_resp_ctl v : same_ctl v (pop_resp v) /\ n_held (pop_resp v) = n_held v.
Proof. unfold pop_resp. destruct (n_resp v) as [|[ty c] r]; repeat split. Qed.

Lemma upd_loop_ctl fuel : forall i v rty now,
  same_ctl v (fst (upd_loop fuel i v rty now)) /\ n_held (fst (upd_loop fuel i v rty now)) = n_held v.
Proof.
  induction fuel as [|f IH]; intros i v rty now; cbn [upd_loop]; [split; [apply same_ctl_refl|reflexivity]|].
  destruct (n_resp v) as [|[ty c] rest] eqn:E; [split; [apply same_ctl_refl|reflexivity]|].
  destruct (i <=? info_cnt ty); [|split; [apply same_ctl_refl|reflexivity]].
  destruct (info_at ty i =? rty); [apply pop_resp_ctl|].
  destruct (expiry_secs <=? now - c).
  - destruct rest; [apply pop_resp_ctl|].
    destruct (IH (i + 1) (pop_resp v) rty now) as [A B]. destruct (pop_resp_ctl v) as [C D].
    split; [eapply same_ctl_trans; [exact C|exact A]|congruence].
  - apply IH.
Qed.

(* the stall notice type answers no request: complete enumeration over the generated table *)
Definition row_has_no_stall (row : list N) : bool :=
  forallb (fun i => negb (nth i row 0 =? MSG_STALL)) [2; 3; 4; 5; 6; 7]%nat.
Lemma rows_no_stall_b : forallb row_has_no_stall response_info = true.
Proof. vm_compute. reflexivity. Qed.
Lemma rows_cnt_b : forallb (fun row => nth 0 row 0 <=? 4) response_info = true.
Proof. vm_compute. reflexivity. Qed.

Lemma info_row_cases ty : info_row ty = [] \/ In (info_row ty) response_info.
Proof.
  unfold info_row. destruct (Nat.lt_ge_cases (N.to_nat ty) (length response_info)) as [H|H].
  - right. apply nth_In. exact H.
  - left. apply nth_overflow. exact H.
Qed.

Lemma stall_not_answer ty i : 2 <= i -> i <= info_cnt ty -> info_at ty i <> MSG_STALL.
Proof.
  intros H2 Hc. unfold info_cnt, info_at in *. destruct (info_row_cases ty) as [E|Hin].
  - rewrite E in Hc. cbn in Hc. lia.
  - pose proof rows_no_stall_b as Hb. rewrite forallb_forall in Hb. specialize (Hb _ Hin).
    pose proof rows_cnt_b as Hcb. rewrite forallb_forall in Hcb. specialize (Hcb _ Hin). apply N.leb_le in Hcb.
    unfold row_has_no_stall in Hb. rewrite forallb_forall in Hb.
    assert (Hi : In (N.to_nat i) [2; 3; 4; 5; 6; 7]%nat).
    { assert (i = 2 \/ i = 3 \/ i = 4) as [->|[->| ->]] by lia; cbn; auto. }
    specialize (Hb _ Hi). apply negb_true_iff in Hb. apply N.eqb_neq in Hb. exact Hb.
Qed.

Lemma upd_loop_stall_nomatch fuel : forall i v now, 2 <= i ->
  snd (upd_loop fuel i v MSG_STALL now) = false.
Proof.
  induction fuel as [|f IH]; intros i v now Hi; cbn [upd_loop]; [reflexivity|].
  destruct (n_resp v) as [|[ty c] rest] eqn:E; [reflexivity|].
  destruct (i <=? info_cnt ty) eqn:Ec; [|reflexivity]. apply N.leb_le in Ec.
  destruct (info_at ty i =? MSG_STALL) eqn:Em.
  - apply N.eqb_eq in Em. exfalso. exact (stall_not_answer ty i Hi Ec Em).
  - destruct (expiry_secs <=? now - c).
    + destruct rest; [reflexivity|]. apply IH. lia.
    + apply IH. lia.
Qed.

Lemma on_update_spec t a rty now :
  let '(t', gs) := on_update t a rty now in
  ctl_same t t' /\
  (forall b, grps_of b gs ++ heldm t' b = heldm t b) /\
  (forall g, In g gs -> snd g <> [] -> unblocked t' (fst g)) /\
  (rty = MSG_STALL -> gs = []).
Proof.
  unfold on_update. destruct (lookup t a) as [v|] eqn:El.
  2:{ split; [apply ctl_same_refl|]. split; [reflexivity|]. split; [intros g []|reflexivity]. }
  destruct (n_resp v) eqn:Er.
  { split; [apply ctl_same_refl|]. split; [reflexivity|]. split; [intros g []|reflexivity]. }
  pose proof (upd_loop_ctl 8 2 v rty now) as Hu.
  pose proof (fun now => upd_loop_stall_nomatch 8 2 v now) as Hns.
  destruct (upd_loop 8 2 v rty now) as [v1 matched] eqn:Eu. cbn [fst] in Hu. destruct Hu as [Hc1 Hh1].
  assert (Hgv : get t a = v) by (apply lookup_get; exact El).
  assert (Hcs : ctl_same t (store t a v1)) by (apply ctl_same_store; rewrite Hgv; exact Hc1).
  assert (Hhs : forall b, heldm (store t a v1) b = heldm t b).
  { intros b. unfold heldm. destruct (addr_eqb_spec a b) as [->|Hn].
    - rewrite get_store_same, Hgv, Hh1. reflexivity.
    - rewrite get_store_other by exact Hn. reflexivity. }
  destruct matched.
  - pose proof (try_queued_spec (store t a v1) a now) as Hq.
    destruct (try_queued (store t a v1) a now) as [t' gs]. destruct Hq as (Hc & Hh & Hub).
    split; [eapply ctl_same_trans; [exact Hcs|exact Hc]|]. split; [intros b; rewrite Hh; apply Hhs|].
    split.
    + intros g Hin Hne. apply (unblocked_ctl (store t a v1) t'); [exact Hc|]. apply Hub; assumption.
    + intros ->. specialize (Hns now ltac:(lia)). rewrite Eu in Hns. discriminate.
  - split; [exact Hcs|]. split; [intros b; cbn; apply Hhs|]. split; [intros g []|reflexivity].
Qed.

Lemma release_waiters_spec ws : forall t now acc,
  let '(t', gs) := release_waiters ws t now acc in
  ctl_same t t' /\
  (exists more, gs = acc ++ more /\
     (forall b, grps_of b more ++ heldm t' b = heldm t b) /\
     (forall g, In g more -> snd g <> [] -> unblocked t' (fst g))).
Proof.
  induction ws as [|w r IH]; intros t now acc; cbn [release_waiters].
  - split; [apply ctl_same_refl|]. exists []. rewrite app_nil_r. split; [reflexivity|]. split; [reflexivity|intros g []].
  - destruct (lookup t w); [|apply IH].
    pose proof (try_queued_spec t w now) as Hq. destruct (try_queued t w now) as [t1 o].
    destruct Hq as (Hc1 & Hh1 & Hub1).
    specialize (IH t1 now (acc ++ o)). destruct (release_waiters r t1 now (acc ++ o)) as [t' gs].
    destruct IH as (Hc & more & Hgs & Hh & Hub).
    split; [eapply ctl_same_trans; [exact Hc1|exact Hc]|].
    exists (o ++ more). split; [rewrite Hgs, app_assoc; reflexivity|]. split.
    + intros b. unfold grps_of. rewrite flat_map_app, <- app_assoc. fold (grps_of b more). rewrite Hh. apply Hh1.
    + intros g Hin Hne. apply in_app_or in Hin as [Hin|Hin].
      * apply (unblocked_ctl t t'); [eapply ctl_same_trans; [exact Hc1|exact Hc]|]. apply Hub1; assumption.
      * apply Hub; assumption.
Qed.

(* ------------------------------------------------------------------ on_stall, alloc_sseq *)
Definition stall_set (t : table) (a : addr) (v : bool) (t' : table) : Prop :=
  forall b, n_stall (get t' b) = (if addr_eqb a b then v else n_stall (get t b)) /\
            n_sseq (get t' b) = n_sseq (get t b).

Lemma on_stall_spec t a st now :
  let '(t', gs) := on_stall t a st now in
  stall_set t a (negb (st =? 0)) t' /\
  (forall b, grps_of b gs ++ heldm t' b = heldm t b) /\
  (forall g, In g gs -> snd g <> [] -> unblocked t' (fst g)).
Proof.
  unfold on_stall. destruct (st =? 0) eqn:Es; cbn [negb].
  - set (t1 := ensure t a).
    set (t2 := store t1 a (with_waiters (with_stall (get t1 a) false) [])).
    pose proof (release_waiters_spec (n_waiters (get t1 a)) t2 now []) as Hr.
    destruct (release_waiters (n_waiters (get t1 a)) t2 now []) as [t' gs].
    destruct Hr as (Hc & more & Hgs & Hh & Hub). cbn [app] in Hgs. subst gs.
    assert (H2 : forall b, n_stall (get t2 b) = (if addr_eqb a b then false else n_stall (get t b)) /\
                           n_sseq (get t2 b) = n_sseq (get t b) /\ heldm t2 b = heldm t b).
    { intros b. unfold t2, heldm. destruct (addr_eqb_spec a b) as [->|Hn].
      - rewrite get_store_same. unfold t1. rewrite get_ensure. repeat split.
      - rewrite get_store_other by exact Hn. unfold t1. rewrite get_ensure. repeat split. }
    split; [|split].
    + intros b. destruct (Hc b) as (A & B & _). destruct (H2 b) as (C & D & _). split; congruence.
    + intros b. rewrite Hh. apply H2.
    + exact Hub.
  - split; [|split; [|intros g []]].
    + intros b. destruct (addr_eqb_spec a b) as [->|Hn].
      * rewrite get_store_same. rewrite get_ensure. split; reflexivity.
      * rewrite get_store_other by exact Hn. rewrite get_ensure. split; reflexivity.
    + intros b. cbn [grps_of flat_map app]. unfold heldm. destruct (addr_eqb_spec a b) as [->|Hn].
      * rewrite get_store_same, get_ensure. reflexivity.
      * rewrite get_store_other by exact Hn. rewrite get_ensure. reflexivity.
Qed.

Lemma on_stall_held_nostall t a st now : st <> 0 ->
  forall b, heldm (fst (on_stall t a st now)) b = heldm t b.
Proof.
  intros Hs b. unfold on_stall. apply N.eqb_neq in Hs. rewrite Hs. cbn [fst]. unfold heldm.
  destruct (addr_eqb_spec a b) as [->|Hn].
  - rewrite get_store_same, get_ensure. reflexivity.
  - rewrite get_store_other by exact Hn. rewrite get_ensure. reflexivity.
Qed.

Lemma alloc_sseq_spec t a :
  let '(t', sq) := alloc_sseq t a in
  sq = n_sseq (get t a) /\
  (forall b, n_stall (get t' b) = n_stall (get t b) /\ heldm t' b = heldm t b /\
             n_sseq (get t' b) = (if addr_eqb a b then seq_next (n_sseq (get t b)) else n_sseq (get t b))).
Proof.
  unfold alloc_sseq. rewrite get_ensure. split; [reflexivity|]. intros b. unfold heldm.
  destruct (addr_eqb_spec a b) as [->|Hn].
  - rewrite get_store_same, ?get_ensure. repeat split.
  - rewrite get_store_other by exact Hn. rewrite ?get_ensure. repeat split.
Qed.

(* ------------------------------------------------------------------ per-step specification *)
Definition stall_spec_step (f : list N -> bool) (e : fev) : list N -> bool :=
  match e with
  | FUp a rty last =>
      if rty =? MSG_STALL then (fun b => if addr_eqb a b then negb (last =? 0) else f b) else f
  | FReset => fun _ => false
  | _ => f
  end.

Definition sub_of (a : list N) (g : gout) : list (list N) :=
  match g with GSubmitted b _ m _ => if addr_eqb a b then [m] else [] | GReleased _ => [] end.
Definition sent_of (a : list N) (g : gout) : list (list N) :=
  match g with
  | GSubmitted b _ m ok => if ok && addr_eqb a b then [m] else []
  | GReleased g => grp_of a g
  end.
Definition submitted (a : list N) (log : list gout) := flat_map (sub_of a) log.
Definition sent (a : list N) (log : list gout) := flat_map (sent_of a) log.

(* destinations that actually received something in this step *)
Definition emitted_to (a : list N) (g : gout) : Prop :=
  match g with
  | GSubmitted b _ _ ok => ok = true /\ b = a
  | GReleased (b, ms) => ms <> [] /\ b = a
  end.

Definition is_reset (e : fev) : bool := match e with FReset => true | _ => false end.

Lemma sent_released a gs : sent a (map GReleased gs) = grps_of a gs.
Proof. unfold sent, grps_of. induction gs as [|g r IH]; cbn; [reflexivity|]. rewrite IH. reflexivity. Qed.
Lemma submitted_released a gs : submitted a (map GReleased gs) = [].
Proof. unfold submitted. induction gs as [|g r IH]; cbn; auto. Qed.

Definition stall_agrees (t : table) (f : list N -> bool) : Prop := forall b, n_stall (get t b) = f b.

Lemma tab_step_spec t so now e f :
  stall_agrees t f ->
  let '(t', so', now', gouts, ops) := tab_step t so now e in
  stall_agrees t' (stall_spec_step f e) /\
  (is_reset e = false -> forall a, sent a gouts ++ heldm t' a = heldm t a ++ submitted a gouts) /\
  (forall g a, In g gouts -> emitted_to a g -> unblocked t' a).
Proof.
  intros Hf. destruct e as [a3 ty data|a rty last|n| |c|b|]; cbn [tab_step stall_spec_step is_reset].
  - (* FSend *)
    unfold submit_tab.
    assert (H1 : exists t1 sq, (if so then alloc_sseq t (canon a3) else (t, 0)) = (t1, sq) /\
                 forall b, n_stall (get t1 b) = n_stall (get t b) /\ heldm t1 b = heldm t b).
    { destruct so.
      - pose proof (alloc_sseq_spec t (canon a3)) as H. destruct (alloc_sseq t (canon a3)) as [t1 sq].
        exists t1, sq. split; [reflexivity|]. intros b. destruct H as [_ H]. destruct (H b) as (A & B & _). auto.
      - exists t, 0. split; [reflexivity|]. auto. }
    destruct H1 as (t1 & sq & -> & H1).
    destruct (encode_msg a3 sq ty data) as [m|].
    2:{ split; [exact Hf|]. split; [intros _ a; cbn; rewrite app_nil_r; reflexivity|intros g a []]. }
    pose proof (try_send_spec t1 (canon a3) ty m now) as Hs.
    destruct (try_send t1 (canon a3) ty m now) as [t2 ok]. destruct Hs as (Hc & Hoth & Hok & Hno).
    split; [|split].
    + intros b. destruct (Hc b) as (A & _). rewrite A. destruct (H1 b) as [B _]. rewrite B. apply Hf.
    + intros _ a. unfold sent, submitted. cbn [flat_map sent_of sub_of]. rewrite !app_nil_r.
      destruct (addr_eqb_spec a (canon a3)) as [->|Hn].
      * destruct ok; cbn [andb].
        -- destruct (Hok eq_refl) as (_ & Hh & Hh'). rewrite Hh'. destruct (H1 (canon a3)) as [_ B]. rewrite <- B, Hh. reflexivity.
        -- cbn [app]. rewrite (Hno eq_refl). destruct (H1 (canon a3)) as [_ B]. rewrite B. reflexivity.
      * rewrite andb_false_r. cbn [app]. rewrite app_nil_r. rewrite Hoth by exact Hn. apply H1.
    + intros g a [<-|[]] [-> <-]. destruct (Hok eq_refl) as (Hu & _).
      apply (unblocked_ctl t1 t2); [exact Hc|]. exact Hu.
  - (* FUp *)
    unfold uplink_tab.
    pose proof (on_update_spec t a rty now) as Hu. destruct (on_update t a rty now) as [t1 g1].
    destruct Hu as (Hc1 & Hh1 & Hub1 & Hst1).
    destruct (rty =? MSG_STALL) eqn:Er.
    + apply N.eqb_eq in Er. specialize (Hst1 Er). subst g1.
      pose proof (on_stall_spec t1 a last now) as Hs. destruct (on_stall t1 a last now) as [t2 g2].
      destruct Hs as (Hset & Hh2 & Hub2). cbn [app].
      split; [|split].
      * intros b. destruct (Hset b) as [A _]. rewrite A. destruct (addr_eqb a b); [reflexivity|].
        destruct (Hc1 b) as (B & _). rewrite B. apply Hf.
      * intros _ b. rewrite sent_released, submitted_released, app_nil_r, Hh2.
        specialize (Hh1 b). cbn in Hh1. exact Hh1.
      * intros g b Hin Hem. apply in_map_iff in Hin as ([b' ms] & <- & Hin). cbn in Hem. destruct Hem as [Hne <-].
        apply (Hub2 (b', ms) Hin Hne).
    + rewrite app_nil_r. split; [|split].
      * intros b. destruct (Hc1 b) as (B & _). rewrite B. apply Hf.
      * intros _ b. rewrite sent_released, submitted_released, app_nil_r. apply Hh1.
      * intros g b Hin Hem. apply in_map_iff in Hin as ([b' ms] & <- & Hin). cbn in Hem. destruct Hem as [Hne <-].
        apply (Hub1 (b', ms) Hin Hne).
  - split; [exact Hf|]. split; [intros _ a; cbn; rewrite app_nil_r; reflexivity|intros g a []].
  - split; [exact Hf|]. split; [intros _ a; cbn; rewrite app_nil_r; reflexivity|intros g a []].
  - split; [exact Hf|]. split; [intros _ a; cbn; rewrite app_nil_r; reflexivity|intros g a []].
  - split; [exact Hf|]. split; [intros _ a; cbn; rewrite app_nil_r; reflexivity|intros g a []].
  - split; [intros b; unfold get; reflexivity|]. split; [discriminate|intros g a []].
Qed.

(* ------------------------------------------------------------------ traces *)
(* per-event record: the event, the ghost outputs of that step *)
Fixpoint tab_trace (t : table) (so : bool) (now : N) (es : list fev) : list (fev * list gout) :=
  match es with
  | [] => []
  | e :: r => let '(t1, s1, n1, g, _) := tab_step t so now e in (e, g) :: tab_trace t1 s1 n1 r
  end.

Definition final_tab (t : table) (so : bool) (now : N) (es : list fev) : table :=
  let '(t1, _, _, _, _) := tab_run t so now es in t1.

Lemma tab_run_log t so now es :
  let '(_, _, _, log, _) := tab_run t so now es in log = flat_map snd (tab_trace t so now es).
Proof.
  revert t so now. induction es as [|e r IH]; intros t so now; cbn [tab_run tab_trace]; [reflexivity|].
  destruct (tab_step t so now e) as [[[[t1 s1] n1] g1] o1].
  specialize (IH t1 s1 n1). destruct (tab_run t1 s1 n1 r) as [[[[t2 s2] n2] g2] o2].
  cbn [flat_map snd]. rewrite IH. reflexivity.
Qed.

Fixpoint stall_spec (f : list N -> bool) (es : list fev) : list N -> bool :=
  match es with [] => f | e :: r => stall_spec (stall_spec_step f e) r end.

(* FIFO / exactly once: at every moment, for every node, what was transmitted followed by what is
   still held is exactly what was submitted, in order *)
Lemma tab_run_fifo es : forall t so now, forallb (fun e => negb (is_reset e)) es = true ->
  let '(t', _, _, log, _) := tab_run t so now es in
  forall a, sent a log ++ heldm t' a = heldm t a ++ submitted a log.
Proof.
  induction es as [|e r IH]; intros t so now Hnr; cbn [tab_run].
  - intros a. cbn. rewrite app_nil_r. reflexivity.
  - cbn [forallb] in Hnr. apply andb_true_iff in Hnr as [He Hr]. apply negb_true_iff in He.
    pose proof (tab_step_spec t so now e (fun b => n_stall (get t b)) (fun b => eq_refl)) as Hs.
    destruct (tab_step t so now e) as [[[[t1 s1] n1] g1] o1]. destruct Hs as (_ & Hfifo & _).
    specialize (IH t1 s1 n1 Hr). destruct (tab_run t1 s1 n1 r) as [[[[t2 s2] n2] g2] o2].
    intros a. unfold sent, submitted in *. rewrite !flat_map_app.
    rewrite <- app_assoc, IH, app_assoc, (Hfifo He a), <- app_assoc. reflexivity.
Qed.

(* nothing is emitted towards a node that has a stalled ancestor-or-self (incl. the interface)
   according to the stall notices processed so far *)
Lemma tab_trace_blocked es : forall t so now f, stall_agrees t f ->
  forall k e gs, nth_error (tab_trace t so now es) k = Some (e, gs) ->
  forall g a, In g gs -> emitted_to a g ->
  forall p, In p (ancestors a) -> stall_spec f (firstn (S k) es) p = false.
Proof.
  induction es as [|e0 r IH]; intros t so now f Hf k e gs Hn; [destruct k; discriminate|].
  cbn [tab_trace] in Hn.
  pose proof (tab_step_spec t so now e0 f Hf) as Hs.
  destruct (tab_step t so now e0) as [[[[t1 s1] n1] g1] o1]. destruct Hs as (Hf1 & _ & Hub).
  destruct k as [|k].
  - cbn in Hn. injection Hn as <- <-. intros g a Hin Hem p Hp.
    cbn [firstn stall_spec]. rewrite <- (Hf1 p). apply (Hub g a Hin Hem p Hp).
  - cbn [nth_error] in Hn. intros g a Hin Hem p Hp.
    change (firstn (S (S k)) (e0 :: r)) with (e0 :: firstn (S k) r). cbn [stall_spec].
    eapply IH; eauto.
Qed.

(* ------------------------------------------------------------------ sequence numbers (C05) *)
Fixpoint consecutive_from (s : N) (l : list N) : Prop :=
  match l with [] => True | x :: r => x = s /\ consecutive_from (seq_next s) r end.

Fixpoint seq_iter (k : nat) (s : N) : N := match k with O => s | S k' => seq_iter k' (seq_next s) end.

Lemma consecutive_app s l1 l2 :
  consecutive_from s l1 -> consecutive_from (seq_iter (length l1) s) l2 -> consecutive_from s (l1 ++ l2).
Proof.
  revert s. induction l1 as [|x r IH]; intros s H1 H2; cbn in *; [exact H2|].
  destruct H1 as [-> H1]. split; [reflexivity|]. apply IH; assumption.
Qed.

Lemma seq_iter_app k1 k2 s : seq_iter (k1 + k2) s = seq_iter k2 (seq_iter k1 s).
Proof. revert s. induction k1 as [|k IH]; intros s; cbn; [reflexivity|apply IH]. Qed.

Definition sub_seqs (a : list N) (log : list gout) : list N :=
  flat_map (fun g => match g with GSubmitted b sq _ _ => if addr_eqb a b then [sq] else [] | _ => [] end) log.

Lemma seq_next_range s : 1 <= s <= 255 -> 1 <= seq_next s <= 255.
Proof. intros H. unfold seq_next. destruct (s =? 255) eqn:E; [lia|]. apply N.eqb_neq in E. lia. Qed.

Lemma seq_next_inj s1 s2 : 1 <= s1 <= 255 -> 1 <= s2 <= 255 -> seq_next s1 = seq_next s2 -> s1 = s2.
Proof.
  unfold seq_next. intros H1 H2 H. destruct (N.eqb_spec s1 255) as [E1|E1]; destruct (N.eqb_spec s2 255) as [E2|E2]; lia.
Qed.

Lemma seq_next_surj s : 1 <= s <= 255 -> exists p, 1 <= p <= 255 /\ seq_next p = s.
Proof.
  intros H. destruct (N.eq_dec s 1) as [->|Hn].
  - exists 255. split; [lia|reflexivity].
  - exists (s - 1). split; [lia|]. unfold seq_next. destruct (N.eqb_spec (s - 1) 255) as [E|E]; lia.
Qed.

Lemma uplink_tab_sseq t a rty last now b :
  n_sseq (get (fst (uplink_tab t a rty last now)) b) = n_sseq (get t b).
Proof.
  unfold uplink_tab. pose proof (on_update_spec t a rty now) as Hu.
  destruct (on_update t a rty now) as [t1 g1]. destruct Hu as (Hc1 & _).
  destruct (rty =? MSG_STALL).
  - pose proof (on_stall_spec t1 a last now) as Hs. destruct (on_stall t1 a last now) as [t2 g2].
    destruct Hs as (Hset & _). cbn [fst]. destruct (Hset b) as [_ A]. rewrite A. destruct (Hc1 b) as (_ & B & _). exact B.
  - cbn [fst]. destruct (Hc1 b) as (_ & B & _). exact B.
Qed.

Definition plain (e : fev) : bool :=
  match e with FReset => false | FSeqOn _ => false | _ => true end.

(* with numbering on and no reset: the sequence numbers given to the messages submitted to a node
   are consecutive, starting from the node's current counter *)
Lemma tab_run_seq es : forall t now, forallb plain es = true ->
  let '(t', _, _, log, _) := tab_run t true now es in
  forall a, consecutive_from (n_sseq (get t a)) (sub_seqs a log) /\
            n_sseq (get t' a) = seq_iter (length (sub_seqs a log)) (n_sseq (get t a)).
Proof.
  induction es as [|e r IH]; intros t now Hp; cbn [tab_run].
  - intros a. cbn. auto.
  - cbn [forallb] in Hp. apply andb_true_iff in Hp as [He Hr].
    assert (Hstep : let '(t1, s1, n1, g1, _) := tab_step t true now e in
              s1 = true /\ forall a, consecutive_from (n_sseq (get t a)) (sub_seqs a g1) /\
                        n_sseq (get t1 a) = seq_iter (length (sub_seqs a g1)) (n_sseq (get t a))).
    { destruct e as [a3 ty data|a rty last|n| |c|b|]; cbn [tab_step]; try discriminate;
        try (split; [reflexivity|]; intros a; cbn; auto).
      - unfold submit_tab. pose proof (alloc_sseq_spec t (canon a3)) as Ha.
        destruct (alloc_sseq t (canon a3)) as [t1 sq]. destruct Ha as [-> Ha].
        destruct (encode_msg a3 (n_sseq (get t (canon a3))) ty data) as [m|].
        2:{ split; [reflexivity|]. intros a. cbn. auto. }
        pose proof (try_send_spec t1 (canon a3) ty m now) as Hs.
        destruct (try_send t1 (canon a3) ty m now) as [t2 ok]. destruct Hs as (Hc & _).
        split; [reflexivity|]. intros a. unfold sub_seqs. cbn [flat_map]. rewrite app_nil_r.
        destruct (Hc a) as (_ & B & _). destruct (Ha a) as (_ & _ & C). rewrite B, C.
        destruct (addr_eqb_spec a (canon a3)) as [->|Hn].
        + rewrite addr_eqb_refl. cbn. auto.
        + destruct (addr_eqb_spec (canon a3) a); [congruence|]. cbn. auto.
      - pose proof (uplink_tab_sseq t a rty last now) as Hq.
        destruct (uplink_tab t a rty last now) as [t1 gs]. cbn [fst] in Hq.
        split; [reflexivity|]. intros b. rewrite Hq.
        assert (E : sub_seqs b (map GReleased gs) = []).
        { unfold sub_seqs. clear. induction gs; cbn; auto. }
        rewrite E. cbn. auto. }
    destruct (tab_step t true now e) as [[[[t1 s1] n1] g1] o1]. destruct Hstep as [-> Hstep].
    specialize (IH t1 n1 Hr). destruct (tab_run t1 true n1 r) as [[[[t2 s2] n2] g2] o2].
    intros a. destruct (Hstep a) as [A B]. destruct (IH a) as [C D].
    unfold sub_seqs in *. rewrite flat_map_app. split.
    + apply consecutive_app; [exact A|]. rewrite <- B. exact C.
    + rewrite app_length, seq_iter_app, <- B. exact D.
Qed.

(* the sequence number is stored at its place in the message *)
Lemma encode_msg_seq a3 sq ty data m : encode_msg a3 sq ty data = Some m ->
  nth (S (length (addr_bytes a3))) m 0 = sq /\ nth (S (S (length (addr_bytes a3)))) m 0 = ty.
Proof.
  unfold encode_msg. destruct (255 <? _); [discriminate|]. intros H. injection H as <-.
  cbn [nth]. split.
  - rewrite app_nth2 by lia. rewrite Nat.sub_diag. reflexivity.
  - rewrite app_nth2 by lia. replace (S (length (addr_bytes a3)) - length (addr_bytes a3))%nat with 1%nat by lia. reflexivity.
Qed.

(* ------------------------------------------------------------------ retry post-condition (no strand, local form) *)
Definition head_blocked_by_budget (t : table) (a : list N) : Prop :=
  exists ty m rest, n_held (get t a) = (ty, m) :: rest /\ response_limit < n_used (get t a) + resp_size ty.

Lemma try_queued_loop_post fuel : forall t a now acc,
  (length (n_held (get t a)) < fuel)%nat ->
  let t' := fst (try_queued_loop fuel t a now acc) in
  n_held (get t' a) = [] \/ ~ unblocked t' a \/ head_blocked_by_budget t' a.
Proof.
  induction fuel as [|f IH]; intros t a now acc Hlen; [lia|]. cbn [try_queued_loop].
  pose proof (stall_ready_spec t a) as Hs. destruct (stall_ready t a) as [t1 ready].
  destruct Hs as (Hsame & Hready & Heq).
  destruct ready.
  - specialize (Heq eq_refl). subst t1.
    destruct (n_held (get t a)) as [|[ty m] rest] eqn:Eh; [left; cbn [fst]; exact Eh|].
    destruct (n_used (get t a) + resp_size ty <=? response_limit) eqn:E.
    + apply IH. rewrite get_store_same, add_response_held. cbn [with_flow n_held]. cbn in Hlen. lia.
    + apply N.leb_gt in E. right. right. cbn [fst]. exists ty, m, rest. split; [exact Eh|exact E].
  - right. left. cbn [fst]. intros Hu. 
    assert (Hu0 : unblocked t a).
    { intros p Hp. destruct (Hsame p) as [_ (A & _)]. rewrite <- A. apply Hu. exact Hp. }
    apply Hready in Hu0. discriminate.
Qed.

Lemma try_queued_post t a now :
  let t' := fst (try_queued t a now) in
  n_held (get t' a) = [] \/ ~ unblocked t' a \/ head_blocked_by_budget t' a.
Proof.
  unfold try_queued.
  pose proof (try_queued_loop_post (S (length (n_held (get t a)))) t a now [] (Nat.lt_succ_diag_r _)) as H.
  destruct (try_queued_loop _ t a now []) as [t1 ms]. exact H.
Qed.

(* executable form of "stranded": held, not blocked, and the head fits once expired requests are discounted *)
Definition live_sum (now : N) (v : node) : N :=
  sumsz (filter (fun e => now - snd e <? expiry_secs) (n_resp v)).
Definition strandedb (t : table) (now : N) (a : list N) : bool :=
  match n_held (get t a) with
  | [] => false
  | (ty, _) :: _ => forallb (fun p => negb (n_stall (get t p))) (ancestors a) &&
                    (live_sum now (get t a) + resp_size ty <=? response_limit)
  end.

Lemma sumsz_filter_le f q : sumsz (filter f q) <= sumsz q.
Proof. induction q as [|e r IH]; cbn [filter sumsz]; [lia|]. destruct (f e); cbn [sumsz]; lia. Qed.

Lemma live_sum_le now v : node_ok v -> live_sum now v <= response_limit.
Proof. intros [A B]. unfold live_sum. pose proof (sumsz_filter_le (fun e => now - snd e <? expiry_secs) (n_resp v)). lia. Qed.

Lemma plain_no_reset es : forallb plain es = true -> forallb (fun e => negb (is_reset e)) es = true.
Proof.
  intros H. rewrite forallb_forall in *. intros e He. specialize (H e He). destruct e; cbn in *; congruence.
Qed.

Lemma submit_off t a3 ty data now t1 sq m ok :
  submit_tab t false a3 ty data now = Some (t1, sq, m, ok) -> sq = 0.
Proof.
  unfold submit_tab. destruct (encode_msg a3 0 ty data); [|discriminate].
  destruct (try_send t (canon a3) ty l now). intros H. injection H as _ <- _ _. reflexivity.
Qed.

Lemma ancestors_self (a : list N) : a <> [] -> In a (ancestors a).
Proof.
  intros Hne. unfold ancestors. apply in_or_app. left. destruct a as [|x r]; [congruence|].
  cbn [length walk_list]. left. exact (firstn_all (x :: r)).
Qed.

Lemma ancestors_root (a : list N) : In [] (ancestors a).
Proof. unfold ancestors. apply in_or_app. right. left. reflexivity. Qed.
