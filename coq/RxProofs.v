(* RxProofs.v — lemmas about Rx.v (C02; reused by C12). *)
From Coq Require Import List NArith Bool Arith Lia.
From LB Require Import Tables Framing FramingProofs NodeFlow Rx.
Import ListNotations.
Local Open Scope N_scope.

Definition rx_with (buf : list N) (crc : N) : rxs :=
  {| r_synced := true; r_buf := buf; r_esc := false; r_crc := crc; r_ovf := false |}.

Lemma rx_run_app s a b :
  rx_run s (a ++ b) = let '(s1, o1) := rx_run s a in let '(s2, o2) := rx_run s1 b in (s2, o1 ++ o2).
Proof.
  revert s. induction a as [|x a IH]; intros s; cbn [app rx_run].
  - destruct (rx_run s b). reflexivity.
  - destruct (rx_byte s x) as [s1 o]. rewrite IH. destruct (rx_run s1 a) as [s2 o2].
    destruct (rx_run s2 b) as [s3 o3]. rewrite app_assoc. reflexivity.
Qed.

Lemma special_xor_not_special b : is_special b = true ->
  (N.lxor b 32 =? pkt_magic) = false /\ (N.lxor b 32 =? pkt_escape) = false.
Proof. intros H. apply is_special_cases in H as [-> | ->]; split; reflexivity. Qed.

Definition rx_esc (buf : list N) (crc : N) : rxs :=
  {| r_synced := true; r_buf := buf; r_esc := true; r_crc := crc; r_ovf := false |}.

Lemma rx_byte_escape buf crc : rx_byte (rx_with buf crc) pkt_escape = (rx_esc buf crc, RxNone).
Proof. reflexivity. Qed.

Lemma rx_byte_data_esc buf crc d : (d =? pkt_magic) = false -> (d =? pkt_escape) = false ->
  nlen buf < rx_buf_size ->
  rx_byte (rx_esc buf crc) d = (rx_with (buf ++ [N.lxor d 32]) (crc_step crc (N.lxor d 32)), RxNone).
Proof.
  intros E1 E2 Hlen. apply N.leb_gt in Hlen. unfold rx_byte, rx_esc. cbn [r_synced r_buf r_esc r_crc r_ovf negb].
  rewrite E1, E2, Hlen. reflexivity.
Qed.

Lemma rx_byte_data buf crc d : (d =? pkt_magic) = false -> (d =? pkt_escape) = false ->
  nlen buf < rx_buf_size ->
  rx_byte (rx_with buf crc) d = (rx_with (buf ++ [d]) (crc_step crc d), RxNone).
Proof.
  intros E1 E2 Hlen. apply N.leb_gt in Hlen. unfold rx_byte, rx_with. cbn [r_synced r_buf r_esc r_crc r_ovf negb].
  rewrite E1, E2, Hlen. reflexivity.
Qed.

(* one unescaped byte pushed through its escaped image *)
Lemma rx_run_esc_byte buf crc b : nlen buf < rx_buf_size ->
  rx_run (rx_with buf crc) (esc_byte b) = (rx_with (buf ++ [b]) (crc_step crc b), []).
Proof.
  intros Hlen. unfold esc_byte. destruct (is_special b) eqn:E.
  - destruct (special_xor_not_special b E) as [E1 E2].
    cbn [rx_run]. rewrite rx_byte_escape, (rx_byte_data_esc buf crc _ E1 E2 Hlen).
    rewrite N.lxor_assoc, N.lxor_nilpotent, N.lxor_0_r. reflexivity.
  - unfold is_special in E. apply orb_false_iff in E as [E1 E2].
    cbn [rx_run]. rewrite (rx_byte_data buf crc b E1 E2 Hlen). reflexivity.
Qed.

Lemma rx_run_escape u : forall buf crc, nlen buf + nlen u <= rx_buf_size ->
  rx_run (rx_with buf crc) (escape u) = (rx_with (buf ++ u) (fold_left crc_step u crc), []).
Proof.
  induction u as [|b u IH]; intros buf crc Hlen.
  - cbn. rewrite app_nil_r. reflexivity.
  - unfold escape. cbn [flat_map]. rewrite rx_run_app.
    assert (H1 : nlen buf < rx_buf_size) by (unfold nlen in *; cbn [length] in Hlen; lia).
    rewrite (rx_run_esc_byte buf crc b H1). fold (escape u).
    rewrite IH by (rewrite nlen_app; unfold nlen in *; cbn [length] in *; lia).
    cbn [fold_left app]. rewrite <- app_assoc. reflexivity.
Qed.

Lemma rx_fresh_is : rx_fresh = rx_with [] 0. Proof. reflexivity. Qed.

(* a delimiter in the clean state is ignored; from the unsynchronised state it synchronises *)
Lemma rx_magic_fresh : rx_byte rx_fresh pkt_magic = (rx_fresh, RxNone).
Proof. reflexivity. Qed.
Lemma rx_magic_init : rx_byte rx_init pkt_magic = (rx_fresh, RxNone).
Proof. reflexivity. Qed.

(* whatever the (synchronised) state, a delimiter leaves the receiver in the clean state *)
Lemma rx_magic_resync s : r_synced s = true -> fst (rx_byte s pkt_magic) = rx_fresh.
Proof.
  intros Hs. unfold rx_byte. rewrite Hs. cbn [negb]. rewrite N.eqb_refl.
  destruct (r_buf s); reflexivity.
Qed.

(* a complete segment: unescaped content u (payload ++ crc), then the closing delimiter *)
Lemma rx_segment u : u <> [] -> nlen u <= rx_buf_size ->
  rx_run rx_fresh (escape u ++ [pkt_magic]) =
  (rx_fresh, if crc8 u =? 0 then deliver_packet (removelast u) else [Dropped]).
Proof.
  intros Hne Hlen. rewrite rx_run_app, rx_fresh_is, rx_run_escape by (cbn; exact Hlen).
  cbn [app rx_run]. unfold rx_byte. cbn [rx_with r_synced r_buf r_crc r_ovf negb]. rewrite N.eqb_refl.
  destruct u as [|x u']; [congruence|]. fold (crc8 (x :: u')).
  destruct (crc8 (x :: u') =? 0); cbn [app]; rewrite ?app_nil_r; reflexivity.
Qed.

Lemma rx_frame p : p <> [] -> nlen p < rx_buf_size ->
  rx_run rx_fresh (frame p) = (rx_fresh, deliver_packet p).
Proof.
  intros Hne Hlen. unfold frame. cbn [rx_run]. rewrite rx_magic_fresh.
  rewrite app_assoc, <- escape_single, <- escape_app.
  rewrite rx_segment.
  - rewrite crc8_self. cbn [N.eqb]. rewrite removelast_last. reflexivity.
  - destruct p; discriminate.
  - rewrite nlen_app. unfold nlen in *. cbn [length]. lia.
Qed.

Lemma rx_bad_crc u : u <> [] -> nlen u <= rx_buf_size -> crc8 u <> 0 ->
  rx_run rx_fresh (pkt_magic :: escape u ++ [pkt_magic]) = (rx_fresh, [Dropped]).
Proof.
  intros Hne Hlen Hcrc. cbn [rx_run]. rewrite rx_magic_fresh, rx_segment by assumption.
  apply N.eqb_neq in Hcrc. rewrite Hcrc. reflexivity.
Qed.

(* bytes without a delimiter never deliver or drop anything *)
Lemma rx_no_magic_silent x : ~ In pkt_magic x -> forall s, snd (rx_run s x) = [].
Proof.
  induction x as [|b x IH]; intros Hn s; cbn [rx_run]; [reflexivity|].
  assert (Hb : (b =? pkt_magic) = false) by (apply N.eqb_neq; intro; apply Hn; left; congruence).
  assert (Ho : snd (rx_byte s b) = RxNone).
  { unfold rx_byte. rewrite Hb. destruct (negb (r_synced s)); cbn; [reflexivity|].
    destruct (b =? pkt_escape); cbn; [reflexivity|]. destruct (rx_buf_size <=? nlen (r_buf s)); reflexivity. }
  destruct (rx_byte s b) as [s1 o]. cbn [snd] in Ho. subst o.
  specialize (IH (fun H => Hn (or_intror H)) s1). destruct (rx_run s1 x) as [s2 rest]. cbn [snd] in *. rewrite IH. reflexivity.
Qed.

(* ------------------------------------------------------------------ field extraction *)
Lemma addr_bytes_shape a3 : exists pre, addr_bytes a3 = pre ++ [0] /\ pre = canon a3 /\
  Forall (fun b => b <> 0) pre /\ (length pre <= 3)%nat.
Proof.
  destruct a3 as [[t s] ss]. unfold addr_bytes, canon.
  destruct (N.eqb_spec t 0); [exists []; repeat split; auto|].
  destruct (N.eqb_spec s 0); [exists [t]; repeat split; auto|].
  destruct (N.eqb_spec ss 0); [exists [t; s]; repeat split; auto|].
  exists [t; s; ss]. repeat split; auto.
Qed.

Lemma zero_from_skip pre : Forall (fun b => b <> 0) pre -> forall fuel hd post i site,
  (length pre < fuel)%nat -> i = length hd ->
  zero_from fuel (hd ++ pre ++ 0 :: post) i site = inr (i + length pre)%nat.
Proof.
  induction pre as [|b pre IH]; intros Hnz fuel hd post i site Hf Hi.
  - destruct fuel; [cbn in Hf; lia|]. cbn [zero_from app]. subst i.
    rewrite nth_error_app2 by lia. rewrite Nat.sub_diag. cbn. f_equal. lia.
  - inversion Hnz as [|? ? Hb Hr]; subst. destruct fuel; [cbn in Hf; lia|]. cbn [zero_from].
    rewrite nth_error_app2 by lia. rewrite Nat.sub_diag. cbn [nth_error app].
    apply N.eqb_neq in Hb. rewrite Hb.
    replace (hd ++ b :: pre ++ 0 :: post) with ((hd ++ [b]) ++ pre ++ 0 :: post) by (rewrite <- app_assoc; reflexivity).
    rewrite (IH Hr fuel (hd ++ [b]) post (S (length hd)) site); [f_equal; cbn; lia|cbn in Hf; lia|rewrite app_length; cbn; lia].
Qed.

Lemma parse_encode a3 sq ty data m : encode_msg a3 sq ty data = Some m ->
  parse_msg (nlen m) m = inr {| m_addr := canon a3; m_seq := sq; m_type := ty; m_raw := m |}.
Proof.
  unfold encode_msg. destruct (255 <? _) eqn:E; [discriminate|]. intros H. injection H as <-.
  destruct (addr_bytes_shape a3) as (pre & Hab & Hpre & Hnz & Hlen). rewrite Hab.
  set (l0 := nlen data + nlen (pre ++ [0]) + 3 - 1).
  unfold parse_msg. rewrite N.eqb_refl. cbn [negb].
  change (l0 :: (pre ++ [0]) ++ [sq; ty] ++ data) with ([l0] ++ (pre ++ [0]) ++ [sq; ty] ++ data).
  rewrite <- (app_assoc pre [0]). cbn [app].
  change (l0 :: pre ++ 0 :: sq :: ty :: data) with ([l0] ++ pre ++ 0 :: sq :: ty :: data).
  rewrite (zero_from_skip pre Hnz _ [l0] (sq :: ty :: data) 1%nat 1); [|rewrite !app_length; cbn; lia|reflexivity].
  assert (Hk : forall k, nth_error ([l0] ++ pre ++ 0 :: sq :: ty :: data) (1 + length pre + k) =
                         nth_error (0 :: sq :: ty :: data) k).
  { intros k. rewrite nth_error_app2 by (cbn; lia). cbn [length].
    rewrite nth_error_app2 by lia. f_equal. lia. }
  unfold rd. rewrite (Hk 2%nat), (Hk 1%nat). cbn [nth_error].
  destruct (4 <? 1 + length pre)%nat eqn:E4; [apply Nat.ltb_lt in E4; lia|].
  f_equal. f_equal. cbn [app skipn]. rewrite Hpre.
  replace (1 + length (canon a3) - 1)%nat with (length (canon a3)) by lia.
  rewrite <- Hpre. rewrite firstn_app, Nat.sub_diag, firstn_all. cbn [firstn]. rewrite app_nil_r. reflexivity.
Qed.

Lemma addr_end_skip pre : Forall (fun b => b <> 0) pre -> forall fuel hd post i,
  (length pre < fuel)%nat -> i = length hd ->
  addr_end fuel (hd ++ pre ++ 0 :: post) i = (i + length pre)%nat.
Proof.
  induction pre as [|b pre IH]; intros Hnz fuel hd post i Hf Hi.
  - destruct fuel; [cbn in Hf; lia|]. cbn [addr_end app]. subst i.
    rewrite nth_error_app2 by lia. rewrite Nat.sub_diag. cbn. lia.
  - inversion Hnz as [|? ? Hb Hr]; subst. destruct fuel; [cbn in Hf; lia|]. cbn [addr_end].
    rewrite nth_error_app2 by lia. rewrite Nat.sub_diag. cbn [nth_error app].
    apply N.eqb_neq in Hb. rewrite Hb.
    replace (hd ++ b :: pre ++ 0 :: post) with ((hd ++ [b]) ++ pre ++ 0 :: post) by (rewrite <- app_assoc; reflexivity).
    rewrite (IH Hr fuel (hd ++ [b]) post (S (length hd))); [cbn; lia|cbn in Hf; lia|rewrite app_length; cbn; lia].
Qed.

Lemma valid_encode a3 sq ty data m : encode_msg a3 sq ty data = Some m -> valid_msg (nlen m) m = true.
Proof.
  unfold encode_msg. destruct (255 <? _) eqn:E; [discriminate|]. intros H. injection H as <-.
  destruct (addr_bytes_shape a3) as (pre & Hab & Hpre & Hnz & Hlen). rewrite Hab.
  set (l0 := nlen data + nlen (pre ++ [0]) + 3 - 1).
  unfold valid_msg. rewrite N.eqb_refl. cbn [andb].
  change (l0 :: (pre ++ [0]) ++ [sq; ty] ++ data) with ([l0] ++ (pre ++ [0]) ++ [sq; ty] ++ data).
  rewrite <- (app_assoc pre [0]). cbn [app].
  change (l0 :: pre ++ 0 :: sq :: ty :: data) with ([l0] ++ pre ++ 0 :: sq :: ty :: data).
  rewrite (addr_end_skip pre Hnz _ [l0] (sq :: ty :: data) 1%nat); [|rewrite !app_length; cbn; lia|reflexivity].
  apply andb_true_iff. split; [apply Nat.leb_le; lia|].
  apply Nat.ltb_lt. rewrite !app_length. cbn [length]. lia.
Qed.

(* ------------------------------------------------------------------ splitting a payload *)
Lemma split_packet_concat (l : list (list N)) : wf_msgs l -> forall fuel,
  (length (concat l) <= fuel)%nat ->
  split_packet fuel (concat l) = map (fun m => (nlen m, m)) l.
Proof.
  induction l as [|m r IH]; intros Hwf fuel Hf.
  - cbn. destruct fuel; reflexivity.
  - inversion Hwf as [|? ? Hm Hr]; subst.
    destruct m as [|l0 m']; [discriminate|]. cbn in Hm. apply N.eqb_eq in Hm.
    destruct fuel as [|f]; [cbn in Hf; lia|].
    cbn [concat app split_packet map].
    assert (Hn : S (N.to_nat l0) = length (l0 :: m')) by (cbn; unfold nlen in Hm; lia).
    rewrite Hn. change (l0 :: m' ++ concat r) with ((l0 :: m') ++ concat r).
    rewrite firstn_app, Nat.sub_diag, firstn_all. cbn [firstn]. rewrite app_nil_r.
    rewrite skipn_app, Nat.sub_diag, skipn_all. cbn [skipn app].
    f_equal.
    + f_equal. unfold nlen in *. cbn [length]. lia.
    + apply IH; [exact Hr|]. cbn in Hf. rewrite app_length in Hf. lia.
Qed.

(* messages as the library's own sender builds them *)
Definition built (m : list N) : Prop := exists a3 sq ty data, encode_msg a3 sq ty data = Some m.

Definition fields (m : list N) : option rmsg :=
  match parse_msg (nlen m) m with inr x => Some x | inl _ => None end.

Lemma parse_all_built l : Forall built l ->
  exists xs, parse_all (map (fun m => (nlen m, m)) l) = (xs, None) /\ map m_raw xs = l /\
             Forall2 (fun m x => fields m = Some x) l xs.
Proof.
  induction 1 as [|m r (a3 & sq & ty & data & Hm) _ (xs & IH1 & IH2 & IH3)].
  - exists []. repeat split; constructor.
  - pose proof (parse_encode a3 sq ty data m Hm) as Hp.
    eexists (_ :: xs). cbn [map parse_all]. rewrite (valid_encode a3 sq ty data m Hm), Hp, IH1. split; [reflexivity|]. split.
    + cbn. rewrite IH2. reflexivity.
    + constructor; [unfold fields; rewrite Hp; reflexivity|exact IH3].
Qed.

Lemma built_wf m : built m -> wf_msg m = true.
Proof. intros (a3 & sq & ty & data & H). eapply encode_msg_wf; eauto. Qed.

Lemma deliver_built (p : list (list N)) : Forall built p ->
  exists xs, deliver_packet (concat p) = map Delivered xs /\ map m_raw xs = p /\
             Forall2 (fun m x => fields m = Some x) p xs.
Proof.
  intros Hb. unfold deliver_packet.
  rewrite split_packet_concat; [|eapply Forall_impl; [|exact Hb]; apply built_wf|lia].
  destruct (parse_all_built p Hb) as (xs & H1 & H2 & H3). rewrite H1. exists xs.
  rewrite app_nil_r. auto.
Qed.

(* ------------------------------------------------------------------ stream of frames *)
Definition raws (items : list rx_item) : list (list N) :=
  flat_map (fun it => match it with Delivered m => [m_raw m] | _ => [] end) items.
Definition all_delivered (items : list rx_item) : Prop :=
  Forall (fun it => match it with Delivered _ => True | _ => False end) items.

Lemma raws_map_delivered xs : raws (map Delivered xs) = map m_raw xs.
Proof. unfold raws. induction xs; cbn; congruence. Qed.
Lemma all_delivered_map xs : all_delivered (map Delivered xs).
Proof. unfold all_delivered. induction xs; constructor; auto. Qed.

Lemma rx_frames (ps : list (list (list N))) :
  Forall (fun p => p <> [] /\ Forall built p /\ nlen (concat p) < rx_buf_size) ps ->
  exists items, rx_run rx_fresh (flat_map (fun p => frame (concat p)) ps) = (rx_fresh, items) /\
                raws items = concat ps /\ all_delivered items.
Proof.
  induction ps as [|p r IH]; intros H.
  - exists []. repeat split. constructor.
  - inversion H as [|? ? (Hne & Hb & Hlen) Hr]; subst. destruct (IH Hr) as (items & Hrun & Hraw & Hall).
    destruct (deliver_built p Hb) as (xs & Hd & Hx & _).
    cbn [flat_map]. rewrite rx_run_app, rx_frame; [|intro E; apply concat_nil_nonempty in E; [congruence|apply wf_nonempty; eapply Forall_impl; [|exact Hb]; apply built_wf]|exact Hlen].
    rewrite Hrun. exists (deliver_packet (concat p) ++ items). split; [reflexivity|].
    rewrite Hd. split.
    + unfold raws in *. rewrite flat_map_app. fold (raws (map Delivered xs)). rewrite raws_map_delivered, Hx.
      cbn [concat]. f_equal. exact Hraw.
    + apply Forall_app. split; [apply all_delivered_map|exact Hall].
Qed.

(* ------------------------------------------------------------------ the library's receiver decodes its own sender *)
Lemma rx_init_magic x : rx_run rx_init (pkt_magic :: x) = rx_run rx_fresh (pkt_magic :: x).
Proof. cbn [rx_run]. rewrite rx_magic_init, rx_magic_fresh. reflexivity. Qed.

Lemma built_len m : built m -> nlen m <= 255.
Proof.
  intros (a3 & sq & ty & data & H). unfold encode_msg in H.
  destruct (255 <? nlen data + nlen (addr_bytes a3) + 3) eqn:E; [discriminate|]. apply N.ltb_ge in E.
  injection H as <-. unfold nlen in *. cbn [length]. rewrite !app_length in *. cbn [length] in *. lia.
Qed.

Definition ops_built (ops : list op) : Prop :=
  Forall (fun o => match o with Add m => built m | SetCap c => c <= 255 | Flush => True end) ops.

Lemma ops_built_wf ops : ops_built ops -> ops_wf ops.
Proof. intros H. eapply Forall_impl; [|exact H]. intros [m| |c]; auto. apply built_wf. Qed.

Lemma ops_built_added ops : ops_built ops -> Forall built (added ops).
Proof.
  induction ops as [|o r IH]; intros H; [constructor|]. inversion H as [|? ? Ho Hr]; subst.
  unfold added. cbn [flat_map]. apply Forall_app. split; [|apply IH; exact Hr]. destruct o; try constructor; auto.
Qed.

Lemma caps_of_le ops : ops_built ops -> Forall (fun c => c <= 255) (caps_of ops).
Proof.
  intros H. unfold caps_of. constructor; [vm_compute; discriminate|].
  induction ops as [|o r IH]; [constructor|]. inversion H as [|? ? Ho Hr]; subst. cbn [flat_map].
  apply Forall_app. split; [|apply IH; exact Hr]. destruct o as [m| |c]; try constructor; [|constructor].
  destruct (c <=? 64); [lia|exact Ho].
Qed.

Lemma c02_roundtrip ops : ops_built ops ->
  exists s items, rx_run rx_init (wire (snd (tx_run tx_init (ops ++ [Flush])))) = (s, items) /\
                  raws items = added ops /\ all_delivered items.
Proof.
  intros Hb. pose proof (ops_built_wf ops Hb) as Hwf.
  destruct (c01_wire ops Hwf) as (Hw & Hc & Hp). cbv zeta in *.
  pose proof (c01_caps_real (ops ++ [Flush])) as Hcaps.
  set (ps := snd (tx_run tx_init (ops ++ [Flush]))) in *.
  assert (Hle : Forall (fun c => c <= 255) (caps_of (ops ++ [Flush]))).
  { apply caps_of_le. apply Forall_app. split; [exact Hb|]. constructor; [exact I|constructor]. }
  pose proof (ops_built_added ops Hb) as Hba. rewrite <- Hc in Hba.
  assert (Hall : Forall (fun p => p <> [] /\ Forall built p /\ nlen (concat p) < rx_buf_size) (map snd ps)).
  { rewrite Forall_forall. intros p Hin. apply in_map_iff in Hin as (q & <- & Hq).
    rewrite Forall_forall in Hp, Hcaps, Hle. destruct (Hp q Hq) as (Hne & Hnm & Hcap & _).
    assert (Hbq : Forall built (snd q)).
    { rewrite Forall_concat_iff in Hba. rewrite Forall_forall in Hba. apply Hba. apply in_map. exact Hq. }
    split; [exact Hne|]. split; [exact Hbq|].
    destruct (snd q) as [|m1 [|m2 r]] eqn:Eq; [congruence| |].
    - cbn [concat]. rewrite app_nil_r. inversion Hbq as [|? ? Hm1 _]; subst.
      pose proof (built_len m1 Hm1). change rx_buf_size with 256. lia.
    - assert (H2 : (2 <= length (m1 :: m2 :: r))%nat) by (cbn; lia).
      specialize (Hcap H2). specialize (Hle _ (Hcaps q Hq)). change rx_buf_size with 256. lia. }
  destruct (rx_frames (map snd ps) Hall) as (items & Hrun & Hraw & Hdel).
  assert (E : wire ps = flat_map (fun p => frame (concat p)) (map snd ps)).
  { rewrite Hw. clear. induction ps; cbn; congruence. }
  rewrite E, <- Hc, <- Hraw. clear E Hall Hba Hraw Hc Hw Hp Hcaps.
  destruct (map snd ps) as [|p0 r0].
  - cbn in *. injection Hrun as <-. exists rx_init, []. repeat split. constructor.
  - cbn [flat_map] in *. unfold frame at 1. unfold frame at 1 in Hrun. cbn [app] in *. rewrite rx_init_magic.
    exists rx_fresh, items. split; [exact Hrun|]. split; [reflexivity|exact Hdel].
Qed.
