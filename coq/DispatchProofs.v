(* DispatchProofs.v — lemmas for C06. *)
From Coq Require Import List NArith Bool Arith Lia.
From LB Require Import Tables Framing FramingProofs Rx DispatchTab AccessTab Dispatch.
Import ListNotations.
Local Open Scope N_scope.

(* ---- README table versus the generated dispatch table: complete enumeration of the 256 codes ---- *)
Definition mem (x : N) (l : list N) : bool := existsb (N.eqb x) l.

Definition readme_agrees_at (ty : N) : bool :=
  (* README "Error queue" unconditional <-> always error queue *)
  Bool.eqb (mem ty readme_errq) (match dispatch_class ty with KErrQ => true | _ => false end) &&
  (* README "only in case of an error" <-> conditional error queue *)
  Bool.eqb (mem ty readme_errq_cond) (match dispatch_class ty with KCondErrQ => true | _ => false end) &&
  (* README "Message queue" -> message queue *)
  (if mem ty readme_msgq then match dispatch_class ty with KMsgQ => true | _ => false end else true) &&
  (* the five startup types and only they go to the internal queue *)
  Bool.eqb (mem ty [MSG_SYS_MAGIC; MSG_NODETAB_COUNT; MSG_NODETAB; MSG_FEATURE_COUNT; MSG_FEATURE])
           (match dispatch_class ty with KInternQ => true | _ => false end) &&
  (* codes bidib_messages.h does not define go to the message queue *)
  (if mem ty known_uplink then true else match dispatch_class ty with KMsgQ => true | _ => false end).

Lemma readme_agrees_b : forallb readme_agrees_at bytes256 = true.
Proof. vm_compute. reflexivity. Qed.

Lemma readme_agrees ty : ty < 256 -> readme_agrees_at ty = true.
Proof. intros H. pose proof readme_agrees_b as Hb. rewrite forallb_forall in Hb. apply Hb. apply bytes256_complete. exact H. Qed.

(* MSG_VENDOR is consumed by state tracking (reverser states) and, since /repo cbb7961, no longer listed by the README *)
Lemma vendor_consumed : mem MSG_VENDOR readme_msgq = false /\ dispatch_class MSG_VENDOR = KConsumed.
Proof. vm_compute. split; reflexivity. Qed.

Lemma readme_lists_disjoint :
  forallb (fun ty => negb (mem ty readme_errq && mem ty readme_msgq) && negb (mem ty readme_errq_cond && mem ty readme_msgq)
                     && negb (mem ty readme_errq && mem ty readme_errq_cond)) bytes256 = true.
Proof. vm_compute. reflexivity. Qed.

(* debug mode: everything except the stall notice goes to the message queue *)
Lemma debug_all_msgq ty data : ty <> MSG_STALL -> dest_of true ty data = ToMsgQ.
Proof. intros H. unfold dest_of. apply N.eqb_neq in H. rewrite H. reflexivity. Qed.

Lemma stall_consumed debug data : dest_of debug MSG_STALL data = ToState.
Proof. destruct debug; vm_compute; reflexivity. Qed.

(* the dispatcher's guard: in normal mode a message with fewer data bytes than the generated minimum of its type
   reaches no queue and no state handler; a message with enough data bytes is never dropped *)
Lemma short_dropped ty data : (length data < min_data_len ty)%nat -> dest_of false ty data = ToDropped.
Proof. intros H. unfold dest_of. cbn [andb]. apply Nat.ltb_lt in H. rewrite H. reflexivity. Qed.

Lemma long_not_dropped debug ty data : (min_data_len ty <= length data)%nat -> dest_of debug ty data <> ToDropped.
Proof.
  intros H. unfold dest_of. destruct (debug && negb (ty =? MSG_STALL)); [discriminate|].
  apply Nat.ltb_ge in H. rewrite H. destruct (dispatch_class ty); try discriminate. destruct (error_variant ty data); discriminate.
Qed.

(* ---- a message is appended to at most one queue, and is the received bytes ---- *)
Lemma route_one debug qs m :
  let qs' := route debug qs m in
  match dest_of debug (m_type m) (msg_data (m_raw m)) with
  | ToMsgQ => q_msg qs' = q_add (q_msg qs) (m_raw m) /\ q_err qs' = q_err qs /\ q_int qs' = q_int qs
  | ToErrQ => q_err qs' = q_add (q_err qs) (m_raw m) /\ q_msg qs' = q_msg qs /\ q_int qs' = q_int qs
  | ToInternQ => q_int qs' = q_add (q_int qs) (m_raw m) /\ q_msg qs' = q_msg qs /\ q_err qs' = q_err qs
  | ToState | ToDropped => qs' = qs
  end.
Proof. unfold route. destruct (dest_of debug (m_type m) (msg_data (m_raw m))); cbn; auto. Qed.

(* ---- bounded FIFO refinement ---- *)
Lemma q_add_spec q m : nlen q <= queue_size ->
  nlen (q_add q m) <= queue_size /\
  exists dropped, q ++ [m] = dropped ++ q_add q m /\ (length dropped <= 1)%nat /\
                  (dropped <> [] -> nlen q = queue_size).
Proof.
  intros Hl. unfold q_add. destruct (N.eqb_spec (nlen q) queue_size) as [E|E].
  - destruct q as [|x r]; [vm_compute in E; discriminate|]. cbn [tl]. split.
    + rewrite nlen_app. unfold nlen in *. cbn [length] in *. lia.
    + exists [x]. split; [reflexivity|]. split; [cbn; lia|]. intros _. exact E.
  - split; [rewrite nlen_app; unfold nlen in *; cbn [length]; lia|].
    exists []. split; [reflexivity|]. split; [cbn; lia|congruence].
Qed.

(* invariant over any add/pop history: the queue is the tail of everything added after removing a
   prefix (popped or discarded on overflow); what was popped is a subsequence of that prefix in order *)
Inductive sublist {X} : list X -> list X -> Prop :=
| sub_nil : sublist [] []
| sub_skip x l1 l2 : sublist l1 l2 -> sublist l1 (x :: l2)
| sub_take x l1 l2 : sublist l1 l2 -> sublist (x :: l1) (x :: l2).

Lemma sublist_refl {X} (l : list X) : sublist l l.
Proof. induction l as [|x l IH]; [constructor|apply sub_take; exact IH]. Qed.
Lemma sublist_app {X} (a b c d : list X) : sublist a b -> sublist c d -> sublist (a ++ c) (b ++ d).
Proof. induction 1 as [|x l1 l2 H IH|x l1 l2 H IH]; cbn; intros Hc; [exact Hc|apply sub_skip; auto|apply sub_take; auto]. Qed.
Lemma sublist_nil_l {X} (l : list X) : sublist [] l.
Proof. induction l as [|x l IH]; [constructor|apply sub_skip; exact IH]. Qed.

Lemma q_run_refines ops : forall q gone popped0,
  nlen q <= queue_size -> sublist popped0 gone ->
  let '(q', popped) := q_run q ops in
  nlen q' <= queue_size /\
  exists gone', gone ++ q ++ q_added ops = gone' ++ q' /\ sublist (popped0 ++ popped) gone'.
Proof.
  induction ops as [|o r IH]; intros q gone popped0 Hl Hs; cbn [q_run].
  - split; [exact Hl|]. exists gone. cbn. rewrite !app_nil_r. auto.
  - destruct o as [m|]; cbn [q_step].
    + destruct (q_add_spec q m Hl) as (Hl1 & dropped & Hd & _ & _).
      specialize (IH (q_add q m) (gone ++ dropped) popped0 Hl1).
      destruct (q_run (q_add q m) r) as [q' popped].
      destruct IH as (Hl' & gone' & Hg & Hsub).
      { rewrite <- (app_nil_r popped0). apply sublist_app; [exact Hs|apply sublist_nil_l]. }
      split; [exact Hl'|]. exists gone'. split; [|cbn [app]; exact Hsub].
      rewrite <- Hg. unfold q_added. cbn [flat_map]. fold (q_added r).
      change ([m] ++ q_added r) with ([m] ++ q_added r).
      rewrite <- (app_assoc gone dropped). f_equal.
      rewrite (app_assoc dropped), <- Hd, <- app_assoc. reflexivity.
    + destruct q as [|x q1]; cbn [q_pop].
      * specialize (IH [] gone popped0 Hl Hs). destruct (q_run [] r) as [q' popped].
        destruct IH as (Hl' & gone' & Hg & Hsub). split; [exact Hl'|]. exists gone'. cbn [app] in *. auto.
      * assert (Hl1 : nlen q1 <= queue_size) by (unfold nlen in *; cbn [length] in Hl; lia).
        specialize (IH q1 (gone ++ [x]) (popped0 ++ [x]) Hl1 (sublist_app _ _ _ _ Hs (sublist_refl [x]))).
        destruct (q_run q1 r) as [q' popped]. destruct IH as (Hl' & gone' & Hg & Hsub).
        split; [exact Hl'|]. exists gone'. split.
        -- rewrite <- Hg. unfold q_added. cbn [flat_map app]. rewrite <- !app_assoc. reflexivity.
        -- cbn [app]. rewrite <- app_assoc in Hsub. exact Hsub.
Qed.

(* pops come out oldest first: two consecutive pops return consecutive elements of the queue *)
Lemma q_pop_head q m r : q = m :: r -> q_pop q = (Some m, r).
Proof. intros ->. reflexivity. Qed.
