(* Properties_C04.v — C04: nothing is sent into a stalled subtree; held traffic resumes in order.
   "Reaches the wire" is formalised at the library's linearisation point, the hand-over to the packet
   buffer (the harness flushes before delivering a stall notice so both orders coincide). *)
From Coq Require Import List NArith Bool.
From LB Require Import Tables Framing NodeFlow NodeFlowProofs NoStrandProofs.
Import ListNotations.
Local Open Scope N_scope.

(* For every history and every step k of it: whatever is handed to the transmit buffer in step k is
   addressed to a node none of whose ancestors-or-self (the interface included) is stalled according
   to the stall notices processed up to and including step k. *)
Theorem C04_blocked : forall es so now0 k e gs,
  nth_error (tab_trace [] so now0 es) k = Some (e, gs) ->
  forall g a, In g gs -> emitted_to a g ->
  forall p, In p (ancestors a) -> stall_spec (fun _ => false) (firstn (S k) es) p = false.
Proof.
  exact (fun es so now0 k e gs H => tab_trace_blocked es [] so now0 (fun _ => false) (fun b => eq_refl) k e gs H).
Qed.
Print Assumptions C04_blocked.

(* the nodes consulted are the address itself, its proper prefixes and the interface *)
Theorem C04_self_consulted : forall a : list N, a <> [] -> In a (ancestors a).
Proof. exact ancestors_self. Qed.

Theorem C04_root_consulted : forall a : list N, In [] (ancestors a).
Proof. exact ancestors_root. Qed.

(* a stall notice is no answer to any request, so it releases nothing by itself *)
Theorem C04_stall_is_no_answer : forall ty i, 2 <= i -> i <= info_cnt ty -> info_at ty i <> MSG_STALL.
Proof. exact stall_not_answer. Qed.
Print Assumptions C04_stall_is_no_answer.

(* retained traffic: also with stall notices in the history, transmitted ++ held = submitted, per node,
   in submission order, exactly once *)
Theorem C04_retained_in_order : forall es so now0, forallb (fun e => negb (is_reset e)) es = true ->
  let '(t, _, _, log, _) := tab_run [] so now0 es in
  forall a, sent a log ++ heldm t a = submitted a log.
Proof. exact (fun es so now0 H => tab_run_fifo es [] so now0 H). Qed.
Print Assumptions C04_retained_in_order.

(* resume: after any history (nested stalls in any order, repeated notices, unstall without stall,
   several nodes; constant clock, i.e. budget freed by answers only), a node whose stalls have all been
   lifted holds a message only if the response budget of C03 does not admit its oldest held message:
   everything else submitted meanwhile has been handed to the transmit buffer (in order, once, by
   C04_retained_in_order) *)
Theorem C04_resume : forall es so now0, forallb no_clock es = true ->
  let '(t, _, _, _, _) := tab_run [] so now0 es in
  forall a, n_held (get t a) <> [] -> unblocked t a -> head_blocked_by_budget t a.
Proof. exact no_strand_const_clock. Qed.
Print Assumptions C04_resume.

(* the invariant behind it: a node with held traffic that is not limited by its budget is registered
   in the waiter list of a stalled ancestor-or-self, whatever the order in which stalls are set and lifted *)
Theorem C04_waiters : forall es so now0, forallb no_clock es = true ->
  let '(t, _, _, _, _) := tab_run [] so now0 es in
  forall a, n_held (get t a) <> [] -> head_blocked_by_budget t a \/ registered t a.
Proof. exact (fun es so now0 H => tab_run_ns es [] so now0 H NS_nil (CT_nil now0)). Qed.
Print Assumptions C04_waiters.

(* non-vacuity: node [1] stalls, traffic to [1;2] is held while [2] is served, and released on unstall *)
Example C04_nonvacuous :
  let es := [FUp [1] MSG_STALL 1; FSend (1,2,0) 7 [9]; FSend (2,0,0) 7 [8]; FUp [1] MSG_STALL 0] in
  let '(t, _, _, log, _) := tab_run [] true 0 es in
  length (sent [1;2] log) = 1%nat /\ length (sent [2] log) = 1%nat /\ heldm t [1;2] = [] /\
  map (fun x => length (snd x)) (tab_trace [] true 0 es) = [0; 1; 1; 1]%nat.
Proof. vm_compute. repeat split. Qed.
