(* Properties_C05.v — C05: per-node sequence numbers are consecutive in wire order. *)
From Coq Require Import List NArith Bool.
From LB Require Import Tables Framing NodeFlow NodeFlowProofs MicroStep MicroProofs.
Import ListNotations.
Local Open Scope N_scope.

(* Every history of atomic submissions (application threads and the receiver thread serialised by the
   send-order mutex), uplink messages, clock changes, flushes: the numbers given to the messages
   submitted to a node are 1, 2, ..., 255, 1, ... in submission order; by C03_fifo_once the messages
   reach the buffer in submission order, each carrying its number at the sequence position. *)
Theorem C05_seq_single : forall es now0, forallb plain es = true ->
  let '(t, _, _, log, _) := tab_run [] true now0 es in
  forall a, consecutive_from 1 (sub_seqs a log) /\ sent a log ++ heldm t a = submitted a log.
Proof.
  exact (fun es now0 H =>
    match tab_run [] true now0 es as r return
       (let '(t', _, _, log, _) := r in forall a, consecutive_from (n_sseq (get [] a)) (sub_seqs a log) /\
            n_sseq (get t' a) = seq_iter (length (sub_seqs a log)) (n_sseq (get [] a))) ->
       (let '(t', _, _, log, _) := r in forall a, sent a log ++ heldm t' a = heldm [] a ++ submitted a log) ->
       (let '(t, _, _, log, _) := r in forall a, consecutive_from 1 (sub_seqs a log) /\ sent a log ++ heldm t a = submitted a log)
    with (t, _, _, log, _) => fun H1 H2 a => conj (proj1 (H1 a)) (H2 a) end
    (tab_run_seq es [] now0 H)
    (tab_run_fifo es [] true now0 (plain_no_reset es H))).
Qed.
Print Assumptions C05_seq_single.

(* Every lock-granularity schedule: any number of application/internal threads submit messages (one
   submission in flight at a time: the send-order mutex, a lock fact checked on the generated lock
   programs), each submission being three separately locked steps - allocate the number, ask the node
   table, append to the packet buffer - and the receiver thread may process whole uplink messages
   (answers, stall notices, releasing deferred traffic) between any two of these steps. For every such
   schedule and every node, the sequence numbers of the messages handed to the packet buffer are
   1, 2, ..., 255, 1, ... in buffer (= wire) order. *)
Theorem C05_seq_all_schedules : forall ss s out, micro_run ms_init ss = Some (s, out) ->
  forall a, consecutive_from 1 (map (msg_seq a) (to_node a out)).
Proof. exact seq_all_schedules. Qed.
Print Assumptions C05_seq_all_schedules.

(* non-vacuity of the schedule theorem: the receiver releases a deferred message between the
   allocation and the admission of the next submission *)
Example C05_schedule_nonvacuous :
  let ss := [MBegin (1,0,0) 22 [1]; MAdmit; MBuffer; MBegin (1,0,0) 23 [2]; MAdmit; MBuffer;
             MBegin (1,0,0) 7 [3]; MUp [1] 147 0; MAdmit; MUp [1] 147 0; MBuffer] in
  match micro_run ms_init ss with
  | Some (_, out) => map (msg_seq [1]) (to_node [1] out) = [1; 2; 3]
  | None => False
  end.
Proof. vm_compute. reflexivity. Qed.

Theorem C05_seq_in_message : forall a3 sq ty data m, encode_msg a3 sq ty data = Some m ->
  nth (S (length (addr_bytes a3))) m 0 = sq /\ nth (S (S (length (addr_bytes a3)))) m 0 = ty.
Proof. exact encode_msg_seq. Qed.
Print Assumptions C05_seq_in_message.

(* 255 is followed by 1; the successor is a bijection on 1..255 (0 is never produced) *)
Theorem C05_seq_wrap :
  seq_next 255 = 1 /\
  (forall s, 1 <= s <= 255 -> 1 <= seq_next s <= 255) /\
  (forall s1 s2, 1 <= s1 <= 255 -> 1 <= s2 <= 255 -> seq_next s1 = seq_next s2 -> s1 = s2) /\
  (forall s, 1 <= s <= 255 -> exists p, 1 <= p <= 255 /\ seq_next p = s).
Proof. exact (conj eq_refl (conj seq_next_range (conj seq_next_inj seq_next_surj))). Qed.
Print Assumptions C05_seq_wrap.

(* numbering restarts at 1 after the table reset of a system reset; 0 only while numbering is off *)
Theorem C05_restart_and_off : forall t so now a3 ty data,
  (let '(t1, _, _, _, _) := tab_step t so now FReset in forall a, n_sseq (get t1 a) = 1) /\
  (forall t1 sq m ok, submit_tab t false a3 ty data now = Some (t1, sq, m, ok) -> sq = 0).
Proof.
  exact (fun t so now a3 ty data => conj (fun a => eq_refl) (submit_off t a3 ty data now)).
Qed.
Print Assumptions C05_restart_and_off.

Example C05_nonvacuous :
  let es := map (fun _ => FSend (1,0,0) 3 [1]) (seq 0 300) in
  let '(t, _, _, log, _) := tab_run [] true 0 es in
  nth 254 (sub_seqs [1] log) 0 = 255 /\ nth 255 (sub_seqs [1] log) 0 = 1 /\ length (sent [1] log) = 300%nat.
Proof. vm_compute. repeat split. Qed.
