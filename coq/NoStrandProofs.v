(* NoStrandProofs.v — the "never stranded" / "resume" invariant of NodeFlow.v (C03, C04):
   in histories in which no outstanding request expires (the clock does not move), after every event
   every node with a held message is limited by its response budget or is registered as a waiter of a
   stalled ancestor-or-self (hence blocked). *)
From Coq Require Import List NArith Bool Arith Lia.
From LB Require Import Tables Framing NodeFlow NodeFlowProofs.
Import ListNotations.
Local Open Scope N_scope.

Definition registered (t : table) (a : list N) : Prop :=
  exists p, In p (ancestors a) /\ n_stall (get t p) = true /\ In a (n_waiters (get t p)).

Definition NSnode (t : table) (a : list N) : Prop :=
  n_held (get t a) <> [] -> head_blocked_by_budget t a \/ registered t a.
Definition NS (t : table) : Prop := forall a, NSnode t a.

(* stall flags equal, waiter lists only grow *)
Definition wmono (t t' : table) : Prop :=
  forall p, n_stall (get t' p) = n_stall (get t p) /\ incl (n_waiters (get t p)) (n_waiters (get t' p)).

Lemma wmono_refl t : wmono t t. Proof. intros p. split; [reflexivity|apply incl_refl]. Qed.
Lemma wmono_trans t1 t2 t3 : wmono t1 t2 -> wmono t2 t3 -> wmono t1 t3.
Proof. intros A B p. destruct (A p) as [A1 A2], (B p) as [B1 B2]. split; [congruence|eapply incl_tran; eauto]. Qed.

Lemma registered_mono t t' a : wmono t t' -> registered t a -> registered t' a.
Proof. intros Hm (p & Hin & Hs & Hw). exists p. destruct (Hm p) as [A B]. split; [exact Hin|]. split; [congruence|apply B; exact Hw]. Qed.

Lemma registered_blocked t a : registered t a -> ~ unblocked t a.
Proof. intros (p & Hin & Hs & _) Hu. rewrite (Hu p Hin) in Hs. discriminate. Qed.

Lemma hbb_same t t' a : same_flow (get t a) (get t' a) -> head_blocked_by_budget t a -> head_blocked_by_budget t' a.
Proof. intros (A & B & C) (ty & m & rest & Hh & Hb). exists ty, m, rest. rewrite C, A. auto. Qed.

Lemma NSnode_mono t t' a : wmono t t' -> same_flow (get t a) (get t' a) -> NSnode t a -> NSnode t' a.
Proof.
  intros Hm Hf Hn Hh. destruct Hf as (A & B & C). rewrite C in Hh. destruct (Hn Hh) as [Hb|Hr].
  - left. eapply hbb_same; [|exact Hb]. repeat split; assumption.
  - right. eapply registered_mono; eauto.
Qed.

(* wmono through the primitive table updates *)
Lemma wmono_ensure t a : wmono t (ensure t a).
Proof. intros p. rewrite get_ensure. split; [reflexivity|apply incl_refl]. Qed.

Lemma wmono_store t a v : n_stall v = n_stall (get t a) -> incl (n_waiters (get t a)) (n_waiters v) -> wmono t (store t a v).
Proof.
  intros Hs Hw p. destruct (addr_eqb_spec a p) as [->|Hn].
  - rewrite get_store_same. auto.
  - rewrite get_store_other by exact Hn. split; [reflexivity|apply incl_refl].
Qed.

Lemma add_response_w v ty now : n_stall (add_response v ty now) = n_stall v /\ n_waiters (add_response v ty now) = n_waiters v.
Proof. unfold add_response. destruct (0 <? resp_size ty); split; reflexivity. Qed.

(* ---- stall_ready ---- *)
Lemma stall_ready_ns t a :
  let '(t', r) := stall_ready t a in
  wmono t t' /\ (forall b, same_flow (get t b) (get t' b)) /\ (r = true <-> unblocked t a) /\ (r = true -> t' = t) /\
  (r = false -> registered t' a).
Proof.
  pose proof (stall_ready_spec t a) as H. unfold stall_ready in *.
  destruct (find (is_stalled t) (ancestors a)) as [p|] eqn:E.
  - apply find_some in E as [Hin Hs]. rewrite is_stalled_get in Hs.
    destruct (existsb (addr_eqb a) (n_waiters (get t p))) eqn:Ex.
    + destruct H as (Hsame & Hr & Heq). split; [apply wmono_refl|]. split; [intros b; apply Hsame|]. split; [exact Hr|]. split; [exact Heq|].
      intros _. exists p. split; [exact Hin|]. split; [exact Hs|].
      apply existsb_exists in Ex as (x & Hx & Ex). destruct (addr_eqb_spec a x); [subst; exact Hx|discriminate].
    + destruct H as (Hsame & Hr & Heq). split; [|split; [intros b; apply Hsame|split; [exact Hr|split; [exact Heq|]]]].
      * apply wmono_store; [reflexivity|]. cbn [with_waiters n_waiters]. apply incl_appl, incl_refl.
      * intros _. exists p. split; [exact Hin|]. rewrite get_store_same. cbn [with_waiters n_stall n_waiters].
        split; [exact Hs|]. apply in_or_app. right. left. reflexivity.
  - destruct H as (Hsame & Hr & Heq). split; [apply wmono_refl|]. split; [intros b; apply Hsame|]. split; [exact Hr|]. split; [exact Heq|discriminate].
Qed.

(* ---- try_send ---- *)
Lemma try_send_ns t a ty m now : NS t -> NS (fst (try_send t a ty m now)) /\ wmono t (fst (try_send t a ty m now)).
Proof.
  intros Hns. unfold try_send.
  pose proof (stall_ready_ns (ensure t a) a) as Hs.
  destruct (stall_ready (ensure t a) a) as [t2 ready]. destruct Hs as (Hm2 & Hf2 & Hr & _ & Hreg).
  assert (Hm02 : wmono t t2) by (eapply wmono_trans; [apply wmono_ensure|exact Hm2]).
  assert (Hf02 : forall b, same_flow (get t b) (get t2 b)) by (intros b; specialize (Hf2 b); rewrite get_ensure in Hf2; exact Hf2).
  assert (Hns2 : NS t2) by (intros b; eapply NSnode_mono; [exact Hm02|apply Hf02|apply Hns]).
  destruct (ready && match n_held (get t2 a) with [] => true | _ => false end &&
            (n_used (get t2 a) + resp_size ty <=? response_limit)) eqn:E; cbn [fst].
  - (* admitted: held stays empty *)
    apply andb_true_iff in E as [E _]. apply andb_true_iff in E as [_ Eh].
    assert (Hm3 : wmono t2 (store t2 a (add_response (get t2 a) ty now))).
    { destruct (add_response_w (get t2 a) ty now) as [A B]. apply wmono_store; [exact A|rewrite B; apply incl_refl]. }
    split; [|eapply wmono_trans; eauto].
    intros b. destruct (addr_eqb_spec a b) as [<-|Hn].
    + intros Hh. rewrite get_store_same, add_response_held in Hh. destruct (n_held (get t2 a)); [congruence|discriminate].
    + eapply NSnode_mono; [exact Hm3| |apply Hns2]. rewrite get_store_other by exact Hn. apply same_flow_refl.
  - (* deferred *)
    set (v' := with_flow (get t2 a) (n_used (get t2 a)) (n_resp (get t2 a)) (n_held (get t2 a) ++ [(ty, m)])).
    assert (Hm3 : wmono t2 (store t2 a v')) by (apply wmono_store; [reflexivity|apply incl_refl]).
    split; [|eapply wmono_trans; eauto].
    intros b. destruct (addr_eqb_spec a b) as [<-|Hn].
    + intros _. destruct (n_held (get t2 a)) as [|[ty0 m0] rest] eqn:Eh.
      * (* was empty: deferred because not ready or does not fit *)
        destruct ready.
        -- cbn [andb] in E. apply N.leb_gt in E. left. exists ty, m, []. rewrite get_store_same. unfold v'. cbn [with_flow n_held n_used].
           split; [reflexivity|exact E].
        -- right. eapply registered_mono; [exact Hm3|]. apply Hreg. reflexivity.
      * (* head unchanged *)
        assert (Hne : n_held (get t2 a) <> []) by (rewrite Eh; discriminate).
        destruct (Hns2 a Hne) as [(ty1 & m1 & r1 & Hh1 & Hb1)|Hr1].
        -- left. rewrite Eh in Hh1. injection Hh1 as <- <- <-. exists ty0, m0, (rest ++ [(ty, m)]). rewrite get_store_same. unfold v'. cbn [with_flow n_held n_used]. auto.
        -- right. eapply registered_mono; eauto.
    + eapply NSnode_mono; [exact Hm3| |apply Hns2]. rewrite get_store_other by exact Hn. apply same_flow_refl.
Qed.

(* ---- try_queued ---- *)
Lemma try_queued_loop_ns fuel : forall t a now acc,
  (length (n_held (get t a)) < fuel)%nat ->
  let t' := fst (try_queued_loop fuel t a now acc) in
  wmono t t' /\ (forall b, b <> a -> same_flow (get t b) (get t' b)) /\ NSnode t' a.
Proof.
  induction fuel as [|f IH]; intros t a now acc Hlen; [lia|]. cbn [try_queued_loop].
  pose proof (stall_ready_ns t a) as Hs. destruct (stall_ready t a) as [t1 ready].
  destruct Hs as (Hm1 & Hf1 & Hr & Heq & Hreg).
  destruct ready.
  - specialize (Heq eq_refl). subst t1.
    destruct (n_held (get t a)) as [|[ty m] rest] eqn:Eh.
    + cbn [fst]. split; [apply wmono_refl|]. split; [intros; apply same_flow_refl|]. intros Hh. congruence.
    + destruct (n_used (get t a) + resp_size ty <=? response_limit) eqn:E.
      * set (v1 := add_response (with_flow (get t a) (n_used (get t a)) (n_resp (get t a)) rest) ty now).
        assert (Hm2 : wmono t (store t a v1)).
        { unfold v1. destruct (add_response_w (with_flow (get t a) (n_used (get t a)) (n_resp (get t a)) rest) ty now) as [A B].
          apply wmono_store; [rewrite A; reflexivity|rewrite B; apply incl_refl]. }
        specialize (IH (store t a v1) a now (acc ++ [(ty, m)])).
        destruct IH as (Hm3 & Hf3 & Hn3).
        { rewrite get_store_same. unfold v1. rewrite add_response_held. cbn [with_flow n_held]. cbn in Hlen. lia. }
        split; [eapply wmono_trans; eauto|]. split; [|exact Hn3].
        intros b Hb. eapply same_flow_trans; [|apply Hf3; exact Hb]. rewrite get_store_other by congruence. apply same_flow_refl.
      * apply N.leb_gt in E. cbn [fst]. split; [apply wmono_refl|]. split; [intros; apply same_flow_refl|].
        intros _. left. exists ty, m, rest. auto.
  - cbn [fst]. split; [exact Hm1|]. split; [intros b _; apply Hf1|]. intros _. right. apply Hreg. reflexivity.
Qed.

Lemma try_queued_ns t a now :
  let t' := fst (try_queued t a now) in
  wmono t t' /\ (forall b, b <> a -> same_flow (get t b) (get t' b)) /\ NSnode t' a.
Proof.
  unfold try_queued.
  pose proof (try_queued_loop_ns (S (length (n_held (get t a)))) t a now [] (Nat.lt_succ_diag_r _)) as H.
  destruct (try_queued_loop _ t a now []) as [t1 ms]. exact H.
Qed.

Lemma try_queued_keeps_NS t a now : NS t -> NS (fst (try_queued t a now)).
Proof.
  intros Hns. destruct (try_queued_ns t a now) as (Hm & Hf & Hn). intros b.
  destruct (addr_eqb_spec b a) as [->|Hb]; [exact Hn|]. eapply NSnode_mono; [exact Hm|apply Hf; exact Hb|apply Hns].
Qed.

(* ---- creation times: as long as every outstanding request is younger than the expiry time, no
        request ever expires (a constant clock is the special case) ---- *)
Definition young (now c : N) : Prop := now - c < expiry_secs.
Definition CT (t : table) (now : N) : Prop := forall a e, In e (n_resp (get t a)) -> young now (snd e).

Lemma young_now now : young now now.
Proof. unfold young. rewrite N.sub_diag. reflexivity. Qed.

Lemma upd_loop_noexp fuel : forall i v rty now, (forall e, In e (n_resp v) -> young now (snd e)) ->
  upd_loop fuel i v rty now = (v, false) \/ upd_loop fuel i v rty now = (pop_resp v, true).
Proof.
  induction fuel as [|f IH]; intros i v rty now Hct; cbn [upd_loop]; [left; reflexivity|].
  destruct (n_resp v) as [|[ty c] rest] eqn:E; [left; reflexivity|].
  destruct (i <=? info_cnt ty); [|left; reflexivity].
  destruct (info_at ty i =? rty); [right; reflexivity|].
  assert (Hy : young now c) by (apply (Hct (ty, c)); try rewrite E; left; reflexivity).
  assert (Hx : (expiry_secs <=? now - c) = false) by (apply N.leb_gt; exact Hy).
  rewrite Hx. apply IH. rewrite E. exact Hct.
Qed.

Lemma CT_store t a v now : CT t now -> (forall e, In e (n_resp v) -> young now (snd e)) -> CT (store t a v) now.
Proof.
  intros Hc Hv b e. destruct (addr_eqb_spec a b) as [->|Hn].
  - rewrite get_store_same. apply Hv.
  - rewrite get_store_other by exact Hn. apply Hc.
Qed.

Lemma CT_same t t' now : (forall b, n_resp (get t' b) = n_resp (get t b)) -> CT t now -> CT t' now.
Proof. intros H Hc b e. rewrite H. apply Hc. Qed.

Definition RO (now : N) (v : node) : Prop := forall e, In e (n_resp v) -> young now (snd e).
Lemma CT_RO t now : CT t now <-> forall a, RO now (get t a).
Proof. unfold CT, RO. split; intros H a; apply H. Qed.

Lemma RO_new now : RO now new_node. Proof. intros e []. Qed.
Lemma RO_add v ty now : RO now v -> RO now (add_response v ty now).
Proof.
  intros H. unfold add_response. destruct (0 <? resp_size ty); [|exact H].
  intros e Hin. cbn [with_flow n_resp] in Hin. apply in_app_or in Hin as [Hin|[<-|[]]]; [apply H; exact Hin|apply young_now].
Qed.
Lemma RO_pop v now : RO now v -> RO now (pop_resp v).
Proof.
  intros H. unfold pop_resp. destruct (n_resp v) as [|[ty c] rest] eqn:E; [exact H|].
  intros e Hin. cbn [with_flow n_resp] in Hin. apply H. rewrite E. right. exact Hin.
Qed.
Lemma RO_resp_eq v v' now : n_resp v' = n_resp v -> RO now v -> RO now v'.
Proof. intros E H e. rewrite E. apply H. Qed.

Lemma CT_nil now : CT [] now. Proof. intros a e. unfold get; cbn. intros []. Qed.
Lemma CT_ensure t a now : CT t now -> CT (ensure t a) now.
Proof. intros H b e. rewrite get_ensure. apply H. Qed.
Lemma CT_store' t a v now : CT t now -> RO now v -> CT (store t a v) now.
Proof. intros H Hv. apply CT_store; assumption. Qed.

Lemma CT_stall_ready t a now : CT t now -> CT (fst (stall_ready t a)) now.
Proof.
  intros H. pose proof (stall_ready_ns t a) as Hs. destruct (stall_ready t a) as [t' r]. destruct Hs as (_ & Hf & _).
  cbn [fst]. intros b e. destruct (Hf b) as (_ & B & _). rewrite B. apply H.
Qed.

Lemma CT_try_send t a ty m now : CT t now -> CT (fst (try_send t a ty m now)) now.
Proof.
  intros H. unfold try_send. pose proof (CT_stall_ready (ensure t a) a now (CT_ensure t a now H)) as H2.
  destruct (stall_ready (ensure t a) a) as [t2 ready]. cbn [fst] in H2.
  destruct (ready && _ && _); cbn [fst]; apply CT_store'; try exact H2.
  - apply RO_add. apply CT_RO. exact H2.
  - eapply RO_resp_eq; [|apply CT_RO; exact H2]. reflexivity.
Qed.

Lemma CT_try_queued_loop fuel : forall t a now acc, CT t now -> CT (fst (try_queued_loop fuel t a now acc)) now.
Proof.
  induction fuel as [|f IH]; intros t a now acc H; cbn [try_queued_loop]; [exact H|].
  pose proof (CT_stall_ready t a now H) as H1. destruct (stall_ready t a) as [t1 ready]. cbn [fst] in H1.
  destruct ready; [|exact H1]. destruct (n_held (get t1 a)) as [|[ty m] rest]; [exact H1|].
  destruct (n_used (get t1 a) + resp_size ty <=? response_limit); [|exact H1].
  apply IH. apply CT_store'; [exact H1|]. apply RO_add. eapply RO_resp_eq; [|apply CT_RO; exact H1]. reflexivity.
Qed.

Lemma CT_try_queued t a now : CT t now -> CT (fst (try_queued t a now)) now.
Proof.
  intros H. unfold try_queued. pose proof (CT_try_queued_loop (S (length (n_held (get t a)))) t a now [] H) as H1.
  destruct (try_queued_loop _ t a now []) as [t1 ms]. exact H1.
Qed.

(* ---- on_update without expiry ---- *)
Lemma on_update_ns t a rty now : NS t -> CT t now ->
  NS (fst (on_update t a rty now)) /\ CT (fst (on_update t a rty now)) now.
Proof.
  intros Hns Hct. unfold on_update. destruct (lookup t a) as [v|] eqn:El; [|split; assumption].
  destruct (n_resp v) as [|e0 l0] eqn:Er; [split; assumption|].
  assert (Hgv : get t a = v) by (apply lookup_get; exact El).
  assert (Hro : RO now v) by (rewrite <- Hgv; apply CT_RO; exact Hct).
  destruct (upd_loop_noexp 8 2 v rty now Hro) as [E|E]; rewrite E.
  - (* nothing changed *)
    assert (Hsame : forall b, get (store t a v) b = get t b).
    { intros b. destruct (addr_eqb_spec a b) as [<-|Hn]; [rewrite get_store_same; symmetry; exact Hgv|apply get_store_other; exact Hn]. }
    cbn [fst]. split.
    + intros b. eapply NSnode_mono; [| |apply Hns].
      * intros p. rewrite Hsame. split; [reflexivity|apply incl_refl].
      * rewrite Hsame. apply same_flow_refl.
    + intros b e. rewrite Hsame. apply Hct.
  - (* matched: the head is popped and the held queue retried *)
    set (t1 := store t a (pop_resp v)).
    assert (Hm1 : wmono t t1).
    { apply wmono_store; rewrite Hgv; destruct (pop_resp_ctl v) as [(A & _) _]; [exact A|].
      unfold pop_resp. destruct (n_resp v) as [|[ty c] r]; apply incl_refl. }
    assert (Hct1 : CT t1 now) by (apply CT_store'; [exact Hct|apply RO_pop; exact Hro]).
    split; [|apply CT_try_queued; exact Hct1].
    destruct (try_queued_ns t1 a now) as (Hm & Hf & Hn). intros b.
    destruct (addr_eqb_spec b a) as [->|Hb]; [exact Hn|].
    eapply NSnode_mono; [eapply wmono_trans; [exact Hm1|exact Hm]| |apply Hns].
    eapply same_flow_trans; [|apply Hf; exact Hb]. unfold t1. rewrite get_store_other by congruence. apply same_flow_refl.
Qed.

(* ---- release_waiters: every registered waiter is retried ---- *)
Lemma release_waiters_ns ws : forall t now acc,
  (forall b, n_held (get t b) <> [] -> head_blocked_by_budget t b \/ registered t b \/ In b ws) -> CT t now ->
  NS (fst (release_waiters ws t now acc)) /\ CT (fst (release_waiters ws t now acc)) now.
Proof.
  induction ws as [|w r IH]; intros t now acc Hinv Hct; cbn [release_waiters].
  - split; [|exact Hct]. intros b Hh. destruct (Hinv b Hh) as [H|[H|[]]]; auto.
  - destruct (lookup t w) as [vw|] eqn:El.
    + pose proof (try_queued_ns t w now) as Hq. pose proof (CT_try_queued t w now Hct) as Hc1.
      destruct (try_queued t w now) as [t1 o]. cbn [fst] in Hq, Hc1. destruct Hq as (Hm & Hf & Hn).
      apply IH; [|exact Hc1]. intros b Hh.
      destruct (addr_eqb_spec b w) as [->|Hb].
      * destruct (Hn Hh) as [H|H]; auto.
      * destruct (Hf b Hb) as (A & B & C). rewrite C in Hh. destruct (Hinv b Hh) as [H|[H|[H|H]]].
        -- left. eapply hbb_same; [|exact H]. repeat split; assumption.
        -- right. left. eapply registered_mono; eauto.
        -- congruence.
        -- right. right. exact H.
    + apply IH; [|exact Hct]. intros b Hh. destruct (Hinv b Hh) as [H|[H|[H|H]]]; auto.
      exfalso. subst w. unfold get in Hh. rewrite El in Hh. cbn in Hh. congruence.
Qed.

(* ---- on_stall ---- *)
Lemma on_stall_ns t a st now : NS t -> CT t now ->
  NS (fst (on_stall t a st now)) /\ CT (fst (on_stall t a st now)) now.
Proof.
  intros Hns Hct. unfold on_stall. set (t1 := ensure t a).
  assert (Hct1 : CT t1 now) by (apply CT_ensure; exact Hct).
  destruct (st =? 0).
  - set (v2 := with_waiters (with_stall (get t1 a) false) []).
    set (t2 := store t1 a v2).
    assert (Hct2 : CT t2 now).
    { apply CT_store'; [exact Hct1|]. eapply RO_resp_eq; [|apply CT_RO; exact Hct1]. reflexivity. }
    apply release_waiters_ns; [|exact Hct2].
    intros b Hh.
    assert (Hfb : same_flow (get t b) (get t2 b)).
    { unfold t2. destruct (addr_eqb_spec a b) as [<-|Hn].
      - rewrite get_store_same. unfold v2, t1. rewrite get_ensure. repeat split.
      - rewrite get_store_other by exact Hn. unfold t1. rewrite get_ensure. apply same_flow_refl. }
    destruct Hfb as (A & B & C). rewrite C in Hh. destruct (Hns b Hh) as [H|(p & Hin & Hs & Hw)].
    + left. eapply hbb_same; [|exact H]. repeat split; assumption.
    + destruct (addr_eqb_spec a p) as [<-|Hn].
      * right. right. unfold t1. rewrite get_ensure. exact Hw.
      * right. left. exists p. split; [exact Hin|]. unfold t2. rewrite get_store_other by exact Hn. unfold t1. rewrite get_ensure. auto.
  - cbn [fst]. set (v2 := with_stall (get t1 a) true).
    split.
    + intros b Hh.
      assert (Hfb : same_flow (get t b) (get (store t1 a v2) b)).
      { destruct (addr_eqb_spec a b) as [<-|Hn].
        - rewrite get_store_same. unfold v2, t1. rewrite get_ensure. repeat split.
        - rewrite get_store_other by exact Hn. unfold t1. rewrite get_ensure. apply same_flow_refl. }
      destruct Hfb as (A & B & C). rewrite C in Hh. destruct (Hns b Hh) as [H|(p & Hin & Hs & Hw)].
      * left. eapply hbb_same; [|exact H]. repeat split; assumption.
      * right. exists p. split; [exact Hin|]. destruct (addr_eqb_spec a p) as [<-|Hn].
        -- rewrite get_store_same. unfold v2, t1. cbn [with_stall n_stall n_waiters]. rewrite get_ensure. auto.
        -- rewrite get_store_other by exact Hn. unfold t1. rewrite get_ensure. auto.
    + apply CT_store'; [exact Hct1|]. eapply RO_resp_eq; [|apply CT_RO; exact Hct1]. reflexivity.
Qed.

(* ---- steps and histories with a constant clock ---- *)
Lemma alloc_sseq_ns t a now : NS t -> CT t now -> NS (fst (alloc_sseq t a)) /\ CT (fst (alloc_sseq t a)) now.
Proof.
  intros Hns Hct. unfold alloc_sseq. cbn [fst]. set (t1 := ensure t a).
  set (v := with_sseq (get t1 a) (seq_next (n_sseq (get t1 a)))).
  assert (Hsame : forall b, same_flow (get t b) (get (store t1 a v) b) /\
                            n_stall (get (store t1 a v) b) = n_stall (get t b) /\ n_waiters (get (store t1 a v) b) = n_waiters (get t b)).
  { intros b. destruct (addr_eqb_spec a b) as [<-|Hn].
    - rewrite get_store_same. unfold v, t1. rewrite get_ensure. repeat split.
    - rewrite get_store_other by exact Hn. unfold t1. rewrite get_ensure. repeat split. }
  split.
  - intros b. eapply NSnode_mono; [|apply Hsame|apply Hns].
    intros p. destruct (Hsame p) as (_ & A & B). split; [exact A|rewrite B; apply incl_refl].
  - intros b e. destruct (Hsame b) as ((_ & B & _) & _). rewrite B. apply Hct.
Qed.

Definition no_clock (e : fev) : bool := match e with FTime _ => false | _ => true end.

Lemma tab_step_ns t so now e : no_clock e = true -> NS t -> CT t now ->
  let '(t1, _, now1, _, _) := tab_step t so now e in NS t1 /\ CT t1 now1 /\ now1 = now.
Proof.
  intros Hnc Hns Hct. destruct e as [a3 ty data|a rty last|n| |c|b|]; cbn [tab_step]; try discriminate; try (split; [exact Hns|split; [exact Hct|reflexivity]]).
  - unfold submit_tab.
    assert (H1 : NS (fst (if so then alloc_sseq t (canon a3) else (t, 0))) /\ CT (fst (if so then alloc_sseq t (canon a3) else (t, 0))) now).
    { destruct so; [apply alloc_sseq_ns; assumption|split; assumption]. }
    destruct (if so then alloc_sseq t (canon a3) else (t, 0)) as [t1 sq]. cbn [fst] in H1. destruct H1 as [Hns1 Hct1].
    destruct (encode_msg a3 sq ty data) as [m|]; [|split; [exact Hns|split; [exact Hct|reflexivity]]].
    pose proof (try_send_ns t1 (canon a3) ty m now Hns1) as [Hns2 _]. pose proof (CT_try_send t1 (canon a3) ty m now Hct1) as Hct2.
    destruct (try_send t1 (canon a3) ty m now) as [t2 ok]. cbn [fst] in *. auto.
  - unfold uplink_tab. pose proof (on_update_ns t a rty now Hns Hct) as [Hns1 Hct1].
    destruct (on_update t a rty now) as [t1 g1]. cbn [fst] in *.
    destruct (rty =? MSG_STALL).
    + pose proof (on_stall_ns t1 a last now Hns1 Hct1) as [Hns2 Hct2]. destruct (on_stall t1 a last now) as [t2 g2]. cbn [fst] in *. auto.
    + auto.
  - split; [|split; [apply CT_nil|reflexivity]]. intros a Hh. unfold get in Hh; cbn in Hh. congruence.
Qed.

Lemma tab_run_ns es : forall t so now, forallb no_clock es = true -> NS t -> CT t now ->
  let '(t1, _, _, _, _) := tab_run t so now es in NS t1.
Proof.
  induction es as [|e r IH]; intros t so now Hnc Hns Hct; cbn [tab_run]; [exact Hns|].
  cbn [forallb] in Hnc. apply andb_true_iff in Hnc as [He Hr].
  pose proof (tab_step_ns t so now e He Hns Hct) as H1.
  destruct (tab_step t so now e) as [[[[t1 s1] n1] g1] o1]. destruct H1 as (Hns1 & Hct1 & ->).
  specialize (IH t1 s1 now Hr Hns1 Hct1). destruct (tab_run t1 s1 now r) as [[[[t2 s2] n2] g2] o2]. exact IH.
Qed.

(* ---- histories with a moving clock in which no request reaches the expiry age ---- *)
Definition all_youngb (t : table) (n : N) : bool :=
  forallb (fun kv : addr * node => forallb (fun e : N * N => n - snd e <? expiry_secs) (n_resp (snd kv))) t.

Lemma lookup_in t a v : lookup t a = Some v -> exists k, In (k, v) t.
Proof.
  induction t as [|[k w] r IH]; cbn [lookup]; [discriminate|].
  destruct (addr_eqb k a).
  - intros E. injection E as <-. exists k. left. reflexivity.
  - intros E. destruct (IH E) as [k' Hk]. exists k'. right. exact Hk.
Qed.

Lemma all_youngb_CT t n : all_youngb t n = true -> CT t n.
Proof.
  intros H a e Hin. unfold get in Hin. destruct (lookup t a) as [v|] eqn:E; [|destruct Hin].
  destruct (lookup_in t a v E) as [k Hk]. unfold all_youngb in H. rewrite forallb_forall in H.
  specialize (H (k, v) Hk). cbn [snd] in H. rewrite forallb_forall in H. specialize (H e Hin).
  apply N.ltb_lt in H. exact H.
Qed.

(* at every clock event all outstanding requests are still younger than the expiry time at the new time *)
Fixpoint young_run (t : table) (so : bool) (now : N) (es : list fev) : bool :=
  match es with
  | [] => true
  | e :: r => (match e with FTime n => all_youngb t n | _ => true end) &&
              (let '(t1, s1, n1, _, _) := tab_step t so now e in young_run t1 s1 n1 r)
  end.

Lemma tab_step_ns_gen t so now e : (forall n, e = FTime n -> CT t n) -> NS t -> CT t now ->
  let '(t1, _, now1, _, _) := tab_step t so now e in NS t1 /\ CT t1 now1.
Proof.
  intros Hf Hns Hct. destruct (no_clock e) eqn:E.
  - pose proof (tab_step_ns t so now e E Hns Hct) as H.
    destruct (tab_step t so now e) as [[[[t1 s1] n1] g1] o1]. destruct H as (A & B & ->). split; assumption.
  - destruct e as [a3 ty data|a rty last|n| |c|b|]; try discriminate. cbn [tab_step]. split; [exact Hns|apply Hf; reflexivity].
Qed.

Lemma tab_run_ns_young es : forall t so now, young_run t so now es = true -> NS t -> CT t now ->
  let '(t1, _, _, _, _) := tab_run t so now es in NS t1.
Proof.
  induction es as [|e r IH]; intros t so now Hy Hns Hct; cbn [tab_run]; [exact Hns|].
  cbn [young_run] in Hy. apply andb_true_iff in Hy as [He Hr].
  assert (Hf : forall n, e = FTime n -> CT t n).
  { intros n ->. apply all_youngb_CT. exact He. }
  pose proof (tab_step_ns_gen t so now e Hf Hns Hct) as H1.
  destruct (tab_step t so now e) as [[[[t1 s1] n1] g1] o1]. destruct H1 as (Hns1 & Hct1).
  specialize (IH t1 s1 n1 Hr Hns1 Hct1). destruct (tab_run t1 s1 n1 r) as [[[[t2 s2] n2] g2] o2]. exact IH.
Qed.

(* a history without clock events is one without expiry *)
Lemma no_clock_young es : forall t so now, forallb no_clock es = true -> young_run t so now es = true.
Proof.
  induction es as [|e r IH]; intros t so now H; cbn [young_run]; [reflexivity|].
  cbn [forallb] in H. apply andb_true_iff in H as [He Hr].
  destruct (tab_step t so now e) as [[[[t1 s1] n1] g1] o1]. rewrite (IH t1 s1 n1 Hr).
  destruct e; try discriminate; reflexivity.
Qed.

Lemma NS_nil : NS [].
Proof. intros a Hh. unfold get in Hh; cbn in Hh. congruence. Qed.

(* The never-stranded / resume theorem: after any history with a constant clock, a node that holds a
   message and has no stalled ancestor-or-self is limited by its response budget. *)
Theorem no_strand_const_clock es so now0 : forallb no_clock es = true ->
  let '(t, _, _, _, _) := tab_run [] so now0 es in
  forall a, n_held (get t a) <> [] -> unblocked t a -> head_blocked_by_budget t a.
Proof.
  intros Hnc. pose proof (tab_run_ns es [] so now0 Hnc NS_nil (CT_nil now0)) as H.
  destruct (tab_run [] so now0 es) as [[[[t s] n] g] o]. intros a Hh Hu.
  destruct (H a Hh) as [Hb|Hr]; [exact Hb|]. exfalso. exact (registered_blocked t a Hr Hu).
Qed.

(* The same for every history in which no request reaches the expiry age (the clock may move): exactly
   the histories outside the known finding strand.lazy-expiry. *)
Theorem no_strand_without_expiry es so now0 : young_run [] so now0 es = true ->
  let '(t, _, _, _, _) := tab_run [] so now0 es in
  forall a, n_held (get t a) <> [] -> unblocked t a -> head_blocked_by_budget t a.
Proof.
  intros Hy. pose proof (tab_run_ns_young es [] so now0 Hy NS_nil (CT_nil now0)) as H.
  destruct (tab_run [] so now0 es) as [[[[t s] n] g] o]. intros a Hh Hu.
  destruct (H a Hh) as [Hb|Hr]; [exact Hb|]. exfalso. exact (registered_blocked t a Hr Hu).
Qed.
