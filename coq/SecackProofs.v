(* SecackProofs.v — lemmas for C19. *)
From Coq Require Import List NArith Bool Arith Lia.
From LB Require Import Tables Framing FramingProofs NodeFlow Rx Link Dispatch Secack.
Import ListNotations.
Local Open Scope N_scope.

(* the mirror message types expect no response: they are deferred only by a non-empty held queue or a stall *)
Lemma mirror_types_free :
  resp_size MSG_BM_MIRROR_OCC = 0 /\ resp_size MSG_BM_MIRROR_FREE = 0 /\
  resp_size MSG_BM_MIRROR_MULTIPLE = 0 /\ resp_size MSG_BM_MIRROR_POSITION = 0.
Proof. vm_compute. repeat split. Qed.

Lemma mirror_occ data : mirror_of MSG_BM_OCC data = mirror_spec MSG_BM_OCC data.
Proof. reflexivity. Qed.
Lemma mirror_free data : mirror_of MSG_BM_FREE data = mirror_spec MSG_BM_FREE data.
Proof. reflexivity. Qed.

(* a well-formed multiple report: base and size multiples of 8, size 8..128, bitmap of size/8 bytes *)
Definition multiple_ok (data : list N) : Prop :=
  exists base size bits, data = base :: size :: bits /\ base mod 8 = 0 /\ size mod 8 = 0 /\ 8 <= size <= 128 /\
                         N.to_nat (size / 8) = length bits.

Lemma mirror_multiple data : multiple_ok data ->
  mirror_of MSG_BM_MULTIPLE data = mirror_spec MSG_BM_MULTIPLE data /\
  mirror_spec MSG_BM_MULTIPLE data = Some (MSG_BM_MIRROR_MULTIPLE, data).
Proof.
  intros (base & size & bits & -> & Hb & Hs & Hr & Hl). unfold mirror_of, mirror_spec.
  change (MSG_BM_MULTIPLE =? MSG_BM_OCC) with false. change (MSG_BM_MULTIPLE =? MSG_BM_FREE) with false.
  rewrite N.eqb_refl. cbn [nth skipn].
  apply N.eqb_eq in Hb. apply N.eqb_eq in Hs. rewrite Hb, Hs.
  assert (H1 : (size <? 8) = false) by (apply N.ltb_ge; lia).
  assert (H2 : (128 <? size) = false) by (apply N.ltb_ge; lia). rewrite H1, H2. cbn [negb orb].
  rewrite Hl, firstn_all. cbn [app].
  replace (2 + length bits)%nat with (length (base :: size :: bits)) by reflexivity. rewrite firstn_all. auto.
Qed.

(* position reports: the mirror carries the five payload bytes of the report (since /repo fix of
   bidib_send_msg_bm_mirror_position; before, three of them) *)
Lemma mirror_position data : (5 <= length data)%nat ->
  mirror_of MSG_BM_POSITION data = mirror_spec MSG_BM_POSITION data /\
  mirror_spec MSG_BM_POSITION data = Some (MSG_BM_MIRROR_POSITION, firstn 5 data).
Proof.
  intros H. split; [|reflexivity].
  destruct data as [|a [|b [|c [|d [|e r]]]]]; cbn [length] in H; try lia. reflexivity.
Qed.

(* no mirror for any other message type, and none for boards without the feature *)
Lemma mirror_only_four ty data : mirror_of ty data <> None ->
  ty = MSG_BM_OCC \/ ty = MSG_BM_FREE \/ ty = MSG_BM_MULTIPLE \/ ty = MSG_BM_POSITION.
Proof.
  unfold mirror_of. destruct (N.eqb_spec ty MSG_BM_OCC); [auto|]. destruct (N.eqb_spec ty MSG_BM_FREE); [auto|].
  destruct (N.eqb_spec ty MSG_BM_MULTIPLE); [auto|]. destruct (N.eqb_spec ty MSG_BM_POSITION); [auto|]. congruence.
Qed.

(* without the feature (or for an unknown / disconnected sender) handle_msg submits nothing of its own:
   its output is that of the node-table update alone *)
Lemma no_mirror_without_feature w m :
  m_type m <> MSG_NODE_NEW -> m_type m <> MSG_NODE_LOST -> secack_at (w_boards w) (m_addr m) = false ->
  handle_msg w m = ({| w_boards := w_boards w;
                       w_flow := fst (flow_step (w_flow w) (FUp (m_addr m) (m_type m) (last_byte (m_raw m)))) |},
                    snd (flow_step (w_flow w) (FUp (m_addr m) (m_type m) (last_byte (m_raw m))))).
Proof.
  intros Hn Hl Hs. unfold handle_msg. destruct (flow_step (w_flow w) _) as [f1 p1].
  apply N.eqb_neq in Hn. apply N.eqb_neq in Hl. rewrite Hn, Hl, Hs. reflexivity.
Qed.

(* with the feature: exactly one submission (the mirror) followed by a flush *)
Lemma mirror_once w m ty d :
  m_type m <> MSG_NODE_NEW -> m_type m <> MSG_NODE_LOST -> secack_at (w_boards w) (m_addr m) = true ->
  mirror_of (m_type m) (msg_data (m_raw m)) = Some (ty, d) ->
  let f1 := fst (flow_step (w_flow w) (FUp (m_addr m) (m_type m) (last_byte (m_raw m)))) in
  fst (handle_msg w m) = {| w_boards := w_boards w;
                            w_flow := fst (flow_run f1 [FSend (addr3_of (m_addr m)) ty d; FFlush]) |}.
Proof.
  intros Hn Hl Hs Hm. unfold handle_msg. destruct (flow_step (w_flow w) _) as [f1 p1]. cbn [fst].
  apply N.eqb_neq in Hn. apply N.eqb_neq in Hl. rewrite Hn, Hl, Hs, Hm. destruct (flow_run f1 _) as [f2 p2]. reflexivity.
Qed.

(* after a loss notice the board with that unique id (the first one, which is the one every lookup by unique id finds) is
   disconnected, so it is not the sender of later reports from its former address, whoever logs in there *)
Lemma lost_go_first lost uid iface l :
  match find (fun b => list_eqb (sb_uid b) uid) (lost_go lost uid iface l false) with
  | Some b => sb_conn b = false
  | None => True
  end.
Proof.
  induction l as [|x r IH]; [exact I|]. cbn [lost_go negb andb].
  destruct (list_eqb (sb_uid x) uid) eqn:E.
  - cbn [find]. destruct (iface && _); cbn [set_conn sb_uid sb_conn]; rewrite E; reflexivity.
  - cbn [orb find]. destruct (iface && _); cbn [set_conn sb_uid]; rewrite E; exact IH.
Qed.

Lemma node_lost_first_disconnected bs announcer local uid :
  match find (fun b => list_eqb (sb_uid b) uid) (node_lost bs announcer local uid) with
  | Some b => sb_conn b = false
  | None => True
  end.
Proof. apply lost_go_first. Qed.
