(* StateSpecProofs.v — the model of the setters (State.v) against the specification of the message
   effects (StateSpec.v): conversions, list decoding, the derived train data, the step lemma, the fold,
   and "unknown node / port / number / address changes nothing". *)
From Coq Require Import List NArith ZArith Bool Arith Lia.
From LB Require Import Tables StateTabs State StateSpec StateProofs.
Import ListNotations.
Local Open Scope N_scope.

(* ------------------------------------------------------------------ byte enumeration *)
Definition all_bytes : list N := map N.of_nat (seq 0 256).
Lemma byte_in : forall b, b < 256 -> In b all_bytes.
Proof.
  intros. unfold all_bytes. apply in_map_iff. exists (N.to_nat b). split; [apply N2Nat.id|].
  apply in_seq. lia.
Qed.
Lemma byte_enum : forall P : N -> bool, forallb P all_bytes = true -> forall b, b < 256 -> P b = true.
Proof. intros. rewrite forallb_forall in H. apply H. apply byte_in; auto. Qed.

(* ------------------------------------------------------------------ conversions *)
Lemma power_of_code_spec : forall p x, power_of_code p x = spec_power p x.
Proof.
  intros. unfold power_of_code, spec_power, spec_current.
  repeat match goal with
  | |- context [?a =? ?b] => destruct (N.eqb_spec a b)
  | |- context [?a <? ?b] => destruct (N.ltb_spec a b)
  | |- context [?a <=? ?b] => destruct (N.leb_spec a b)
  end; try reflexivity; try lia; subst; try reflexivity.
Qed.

Lemma simple_of_spec : forall x, x < 256 -> simple_of x = spec_simple x.
Proof.
  intros. apply N.eqb_eq. revert x H. apply (byte_enum (fun x => simple_of x =? spec_simple x)). vm_compute. reflexivity.
Qed.

Lemma speed_spec : forall x, x < 256 -> speed_to_lib x = spec_speed x.
Proof.
  intros. apply Z.eqb_eq. revert x H. apply (byte_enum (fun x => Z.eqb (speed_to_lib x) (spec_speed x))). vm_compute. reflexivity.
Qed.

(* every byte's address-kind bits: bit operations of the C = arithmetic of the specification *)
Lemma kind_bits : forall h, h < 256 ->
  negb (bit h 6) = ((h / 64 =? 0) || (h / 64 =? 2)) /\ N.land h 63 = h mod 64 /\ N.land (N.shiftr h 6) 3 = h / 64.
Proof.
  intros.
  assert (X : (Bool.eqb (negb (bit h 6)) ((h / 64 =? 0) || (h / 64 =? 2)) && (N.land h 63 =? h mod 64) && (N.land (N.shiftr h 6) 3 =? h / 64)) = true).
  { revert h H. apply (byte_enum (fun h => Bool.eqb (negb (bit h 6)) ((h / 64 =? 0) || (h / 64 =? 2)) && (N.land h 63 =? h mod 64) && (N.land (N.shiftr h 6) 3 =? h / 64))).
    vm_compute. reflexivity. }
  apply andb_true_iff in X. destruct X as [X X3]. apply andb_true_iff in X. destruct X as [X1 X2].
  apply eqb_prop in X1. apply N.eqb_eq in X2. apply N.eqb_eq in X3. auto.
Qed.

Lemma entries_spec : forall l, Forall (fun b => b < 256) l -> loco_entries (pairs l) = spec_entries l.
Proof.
  fix IH 1. intros l H. destruct l as [|a [|b r]]; try reflexivity.
  inversion H; subst. inversion H3; subst.
  destruct (kind_bits b H4) as (K1 & K2 & K3).
  change (pairs (a :: b :: r)) with ((a, b) :: pairs r). unfold loco_entries. cbn [filter map snd fst spec_entries].
  rewrite K1. destruct ((b / 64 =? 0) || (b / 64 =? 2)).
  - cbn [map fst snd]. rewrite K2, K3. f_equal. apply (IH r H5).
  - apply (IH r H5).
Qed.

Lemma spec_addr_list_cases : forall l,
  (is_free_form (pairs l) = true -> spec_addr_list l = []) /\
  (is_free_form (pairs l) = false -> spec_addr_list l = spec_entries l).
Proof.
  intros. unfold spec_addr_list.
  destruct l as [|a [|b [|x [|y r]]]]; cbn [pairs is_free_form]; split; intros H; try discriminate; try reflexivity;
  destruct a; try discriminate; try reflexivity; destruct b; try discriminate; try reflexivity.
Qed.

Lemma addr_list_spec : forall l, Forall (fun b => b < 256) l ->
  (if is_free_form (pairs l) then [] else loco_entries (pairs l)) = spec_addr_list l.
Proof.
  intros. destruct (spec_addr_list_cases l) as [H1 H2]. destruct (is_free_form (pairs l)).
  - symmetry; auto.
  - rewrite H2 by auto. apply entries_spec; auto.
Qed.

(* ------------------------------------------------------------------ derived train data *)
Lemma pos_from_snd : forall tc segs k, map snd (pos_from tc segs k) = map d_t (listings tc segs).
Proof.
  unfold listings. induction segs; simpl; intros; auto.
  rewrite !map_app, map_map. simpl. f_equal. apply IHsegs.
Qed.

Lemma listings_nil_iff : forall tc segs, existsb (fun sg => existsb (dcc_match tc) (sg_addrs sg)) segs = false <-> listings tc segs = [].
Proof.
  unfold listings. induction segs; simpl; [tauto|].
  rewrite orb_false_iff, IHsegs, existsb_filter_nil. split.
  - intros [H1 H2]. rewrite H1, H2. reflexivity.
  - intros H. apply app_eq_nil in H. auto.
Qed.

Lemma avail1_spec : forall segs tc ts, avail1 segs tc ts = spec_avail1 segs tc ts.
Proof.
  intros. unfold avail1, spec_avail1.
  destruct (position tc segs) eqn:P; pose proof (pos_from_snd tc segs 0) as Hs; fold (position tc segs) in Hs; rewrite P in Hs;
  destruct (existsb _ segs) eqn:E.
  - simpl in Hs. symmetry in Hs. apply map_eq_nil in Hs. apply listings_nil_iff in Hs. congruence.
  - reflexivity.
  - f_equal. unfold pos_left. rewrite Hs.
    change 1 with (d_t {| d_l := 0; d_h := 0; d_t := 1 |}). rewrite last_map_gen.
    destruct (d_t (last (listings tc segs) _)); reflexivity.
  - apply listings_nil_iff in E. rewrite E in Hs. discriminate.
Qed.

Lemma avail_all_spec : forall segs tcs tss, avail_all segs tcs tss = spec_avail_all segs tcs tss.
Proof. induction tcs; destruct tss; simpl; auto. rewrite avail1_spec, IHtcs. reflexivity. Qed.

Lemma update_avail_spec : forall c s, update_avail c s = spec_update_avail c s.
Proof. unfold update_avail, spec_update_avail; intros. rewrite avail_all_spec. reflexivity. Qed.

(* ------------------------------------------------------------------ the diagnostic list *)
Fixpoint diag_clean (l : list N) : bool :=
  match l with
  | [] => true
  | k :: v :: r => negb (is_diag_key v) && diag_clean r
  | _ => false
  end.

Lemma diag_apply_spec : forall b k v, is_diag_key k = true -> diag_apply b k v = spec_diag1 b (k, v).
Proof.
  unfold is_diag_key; intros. apply N.ltb_lt in H.
  assert (K : k = 0 \/ k = 1 \/ k = 2) by lia. destruct K as [ -> | [ -> | -> ] ]; unfold diag_apply, spec_diag1; simpl.
  - rewrite power_of_code_spec. reflexivity.
  - assert ((v <? 251) = (v <=? 250)). { destruct (N.ltb_spec v 251), (N.leb_spec v 250); auto; lia. }
    rewrite H0. reflexivity.
  - reflexivity.
Qed.

Lemma spec_diag1_other : forall b k v, is_diag_key k = false -> spec_diag1 b (k, v) = b.
Proof.
  unfold is_diag_key, spec_diag1; intros. apply N.ltb_ge in H.
  destruct k as [|p]; [lia|]. destruct p as [p|p|]; try reflexivity; [|lia]. destruct p; try reflexivity; lia.
Qed.

Lemma diag_loop_spec : forall l b, diag_clean l = true -> diag_loop l b = inr (spec_diag b l).
Proof.
  fix IH 1. intros l b H. destruct l as [|k [|v r]]; try discriminate; try reflexivity.
  cbn [diag_clean] in H. apply andb_true_iff in H. destruct H as [Hv Hr]. apply negb_true_iff in Hv.
  unfold spec_diag. cbn [diag_pairs fold_left]. cbn [diag_loop]. destruct (is_diag_key k) eqn:Hk.
  - rewrite Hv. rewrite diag_apply_spec by auto. apply (IH r _ Hr).
  - rewrite Hv. rewrite spec_diag1_other by auto. apply (IH r _ Hr).
Qed.

(* the byte loop and the pair list disagree as soon as a value byte is itself a key code *)
Lemma diag_refuted : exists l b b', diag_loop l b = inr b' /\ Nat.even (length l) = true /\ b' <> spec_diag b l.
Proof.
  exists [0; 1; 2; 40], boost0. eexists. split; [vm_compute; reflexivity|]. split; [reflexivity|].
  vm_compute. intros H. discriminate.
Qed.
