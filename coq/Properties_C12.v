(* Properties_C12.v — C12: no received byte stream causes out-of-bounds access, a crash or a stuck receiver.
   Theorems cover the framing layer completely (byte loop, packet buffer, CRC, packet split, field
   extraction: every memory access of the model carries its bound, faults are explicit values) and the
   dispatcher's fixed-offset reads (generated table) for sufficiently long messages; the remaining
   dispatcher/setter reads are observed under ASan (partial, see DESIGN.md). *)
From Coq Require Import List NArith Bool Arith.
From LB Require Import Tables Framing FramingProofs NodeFlow Rx RxProofs RxSafety AccessTab AccessModel AccessProofs.
Import ListNotations.
Local Open Scope N_scope.

(* for every byte stream and every starting state the packet buffer index stays within its 256 bytes *)
Theorem C12_packet_buffer_never_overrun : forall bytes s,
  nlen (r_buf s) <= rx_buf_size -> nlen (r_buf (fst (rx_run s bytes))) <= rx_buf_size.
Proof. exact rx_run_bound. Qed.
Print Assumptions C12_packet_buffer_never_overrun.

(* a message that passed the receiver's validation is parsed with every read inside its heap copy
   and the address written inside the 4-byte address buffer *)
Theorem C12_extraction_in_bounds : forall alloc m, valid_msg alloc m = true -> exists x, parse_msg alloc m = inr x.
Proof. exact valid_parse_ok. Qed.
Print Assumptions C12_extraction_in_bounds.

(* no byte stream whatsoever - noise, truncated or oversized packets, CRC-valid packets with
   inconsistent length fields, unterminated or over-deep address stacks - produces a fault in the
   framing layer *)
Theorem C12_framing_never_faults : forall bytes s, no_fault (snd (rx_run s bytes)).
Proof. exact rx_run_no_fault. Qed.
Print Assumptions C12_framing_never_faults.

(* not stuck: from any state, a delimiter followed by a well-formed packet delivers that packet *)
Theorem C12_live : forall s p, p <> [] -> nlen p < rx_buf_size ->
  exists pre, rx_run s (pkt_magic :: frame p) = (rx_fresh, pre ++ deliver_packet p).
Proof. exact rx_live. Qed.
Print Assumptions C12_live.

(* dispatcher, partial: a message carrying at least min_data_len(type) data bytes has every
   fixed-offset read message[data_index + k] of its handler inside the message *)
Theorem C12_fixed_offsets_partial : forall a3 sq ty data m,
  encode_msg a3 sq ty data = Some m -> data <> [] -> (min_data_len ty <= length data)%nat ->
  fixed_reads_ok m ty = true.
Proof. exact fixed_reads_long_enough. Qed.
Print Assumptions C12_fixed_offsets_partial.

Example C12_nonvacuous :
  valid_msg 5 [4; 0; 1; 135; 9] = true /\ valid_msg 1 [0] = false /\ valid_msg 9 [8; 1; 2; 3; 4; 0; 1; 2; 3] = false /\
  min_data_len MSG_NODE_NEW = 9%nat /\ min_data_len MSG_BM_DYN_STATE = 5%nat /\
  snd (rx_run rx_init (254 :: repeat 65 300 ++ [254])) = [Dropped].
Proof. vm_compute. repeat split. Qed.
