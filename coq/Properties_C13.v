(* Properties_C13.v - C13: start with arbitrary config files terminates with 0 or 1, never crashes or hangs.
   Statements only.  What is THEOREM here is about the model coq/ConfigSpec.v, i.e. about documents that keep
   the documented key layout (any scalar contents, any duplicates, any list lengths); parse3 is a total Gallina
   function (structural recursion over the document: Coq's guard checker is its termination proof), and its
   result type separates  Ok (start returns 0) / Rej (start returns 1) / Flt site (memory fault of the C).
   What is RUNTIME OBSERVATION (checks/C13.py, ASan/UBSan/LSan, forked children, watchdog): every document that
   leaves the key layout (deleted / duplicated / reordered / renamed keys, wrong node kinds, truncation, byte
   noise, missing files), the released locks and memory after a rejected start, and the restart.  Theorem names
   carry _partial for that reason. *)
From Coq Require Import List NArith Bool.
From LB Require Import ConfigSpec ConfigSpecProofs ConfigExamples.
Import ListNotations.
Local Open Scope N_scope.

(* no layout-following document, whatever its scalars, duplicates and list lengths, reaches a memory fault
   (the uninitialised segment `length` that refuted this was repaired in /repo) *)
Theorem C13_no_fault_partial : forall d k, parse3 d <> Flt k.
Proof. exact no_fault. Qed.
Print Assumptions C13_no_fault_partial.

(* ... so every such document ends in 0 or 1 *)
Theorem C13_zero_or_one_partial : forall d, parse3 d = Rej \/ exists s, parse3 d = Ok s.
Proof.
  exact (fun d => match parse3 d as r return (forall k, r <> Flt k) -> r = Rej \/ (exists s, r = Ok s) with
                  | Ok s => fun _ => or_intror (ex_intro _ s eq_refl)
                  | Rej => fun _ => or_introl eq_refl
                  | Flt k => fun F => False_ind _ (F k eq_refl)
                  end (no_fault d)).
Qed.
Print Assumptions C13_zero_or_one_partial.

(* the verdict is decided entry by entry in document order: the first failing entry decides, later text is never looked at *)
Theorem C13_first_failure_decides_partial : forall d l1 x l2,
  steps d = l1 ++ x :: l2 -> (forall s, is_ok (run_step s x) = false) -> accept d = false.
Proof. exact (fun d l1 x l2 E H => reject_local x d (eq_ind_r (fun l => In x l) (in_elt x l1 l2) E) H). Qed.
Print Assumptions C13_first_failure_decides_partial.

(* the former fault witness (a segment with a malformed address) is now a plain rejection *)
Example C13_nonvacuous : parse3 ex_doc <> Rej /\ parse3 ex_bad_segment_address = Rej.
Proof. vm_compute. repeat split. discriminate. Qed.
Print Assumptions C13_nonvacuous.
