(* SendLib.v — the small vocabulary into which translator/gen_sendfns.py translates the bodies of
   the public bidib_send_* constructors of src/lowlevel/*.c (hand-written; no proofs here).

   C values: every integer expression of the constructors is evaluated in C `int` (the uint8_t
   operands are promoted), which is modelled by Z; a conversion to uint8_t is an explicit `mod 256`
   emitted by the translator exactly where the clang AST has an integral cast (or a store to a
   uint8_t object). Memory: a local array is a list of cells, `None` = never written
   (indeterminate); a caller buffer is the list of its bytes, an access outside it is a fault.
   Faults are values (never a default byte), so no theorem can hold for the wrong reason. *)
From Coq Require Import List ZArith NArith Bool.
From LB Require Import Tables Framing.
Import ListNotations.
Local Open Scope Z_scope.

Inductive fault :=
| BufRead (buf : nat) (idx : Z)   (* read of caller buffer number buf at an index outside [0, length) *)
| VlaSize (n : Z)                 (* variable-length array declared with size <= 0 *)
| VlaWrite (idx : Z)              (* store outside a local array *)
| VlaRead (len : Z).              (* bidib_buffer_message_with_data asked to copy more bytes than the array holds *)

Inductive res (A : Type) := Ok (a : A) | Err (f : fault).
Arguments Ok {A} a.
Arguments Err {A} f.

Definition bind {A B} (r : res A) (k : A -> res B) : res B :=
  match r with Ok a => k a | Err f => Err f end.
Notation "x <- e ;; k" := (bind e (fun x => k)) (at level 61, e at next level, right associativity).

Definition addr := (Z * Z * Z)%type.

(* what a call hands to bidib_buffer_message_with(out)_data *)
Inductive verdict :=
| Rejected                                                (* early return: nothing submitted *)
| Sent (a : addr) (ty : Z) (data : list Z)                (* one message *)
| SentIndet (a : addr) (ty : Z) (data : list (option Z)). (* one message, some data bytes never written *)
Definition outcome := res verdict.

Definition vtype (v : verdict) : option Z :=
  match v with Rejected => None | Sent _ ty _ | SentIndet _ ty _ => Some ty end.
Definition vaddr (v : verdict) : option addr :=
  match v with Rejected => None | Sent a _ _ | SentIndet a _ _ => Some a end.
Definition vlen (v : verdict) : option Z :=
  match v with Rejected => None | Sent _ _ d => Some (Z.of_nat (length d)) | SentIndet _ _ d => Some (Z.of_nat (length d)) end.

(* ---- caller buffers ---- *)
Definition buf_get (k : nat) (b : list Z) (i : Z) : res Z :=
  if i <? 0 then Err (BufRead k i)
  else match nth_error b (Z.to_nat i) with Some v => Ok v | None => Err (BufRead k i) end.

(* ---- local arrays ---- *)
Definition vla := list (option Z).
Definition vla_new (n : Z) : res vla :=
  if n <=? 0 then Err (VlaSize n) else Ok (repeat None (Z.to_nat n)).
Definition vla_lit (l : list Z) : vla := map Some l.

Fixpoint set_nth {A} (l : list A) (n : nat) (v : A) : option (list A) :=
  match l, n with
  | [], _ => None
  | _ :: r, O => Some (v :: r)
  | x :: r, S m => option_map (cons x) (set_nth r m v)
  end.
Definition vla_set (a : vla) (i : Z) (v : Z) : res vla :=
  if i <? 0 then Err (VlaWrite i)
  else match set_nth a (Z.to_nat i) (Some v) with Some a' => Ok a' | None => Err (VlaWrite i) end.

(* ---- for (int i = 0; i < n; i++) body ---- (n is loop-invariant: checked by the translator) *)
Fixpoint for_from {S} (fuel : nat) (i : Z) (body : Z -> S -> res S) (s : S) : res S :=
  match fuel with
  | O => Ok s
  | Datatypes.S k => match body i s with Ok s' => for_from k (i + 1) body s' | Err f => Err f end
  end.
Definition for_loop {S} (n : Z) (body : Z -> S -> res S) (s : S) : res S :=
  for_from (Z.to_nat n) 0 body s.

(* ---- the final call ---- *)
Fixpoint all_some (l : list (option Z)) : option (list Z) :=
  match l with
  | [] => Some []
  | Some v :: r => option_map (cons v) (all_some r)
  | None :: _ => None
  end.

Definition zlen {A} (l : list A) : Z := Z.of_nat (length l).

(* bidib_buffer_message_with_data(addr_stack, ty, len, d, action_id): reads d[0..len) *)
Definition send_with_data (a : addr) (ty len : Z) (d : vla) : outcome :=
  if zlen d <? len then Err (VlaRead len)
  else let part := firstn (Z.to_nat len) d in
       match all_some part with
       | Some l => Ok (Sent a ty l)
       | None => Ok (SentIndet a ty part)
       end.
Definition send_without_data (a : addr) (ty : Z) : outcome := Ok (Sent a ty []).

(* ---- uniform argument access for the dispatchers ---- *)
Definition argz (sc : list Z) (n : nat) : Z := nth n sc 0.
Definition argb (bufs : list (list Z)) (n : nat) : list Z := nth n bufs [].

Definition byte (z : Z) : Prop := 0 <= z < 256.
Definition byteb (z : Z) : bool := (0 <=? z) && (z <? 256).

(* ---- bridge to the transmission layer (Framing): what the message looks like on the way to the
   send buffer. seq is the sequence number the transmission layer inserts (C05). ---- *)
Definition addrN (a : addr) : addr3 := let '(t, s, ss) := a in (Z.to_N t, Z.to_N s, Z.to_N ss).
Definition depth (a : addr) : Z := Z.of_N (nlen (addr_bytes (addrN a))) - 1.
Definition msg_of (a : addr) (seq : N) (ty : Z) (data : list Z) : option (list N) :=
  encode_msg (addrN a) seq (Z.to_N ty) (map Z.to_N data).
(* the length byte bidib_buffer_message_with_data computes (uint8_t arithmetic) *)
Definition length_byte (a : addr) (data : list Z) : Z := (zlen data + depth a + 4 - 1) mod 256.

(* wire bytes of one accepted call followed by bidib_flush(), sequence numbers off *)
Definition sent_wire (a : addr) (ty : Z) (data : list Z) : list (list N) :=
  match msg_of a 0%N ty data with
  | None => []
  | Some m => let '(s1, p1) := tx_step tx_init (Add m) in
              let '(_, p2) := tx_step s1 Flush in wire_chunks (p1 ++ p2)
  end.
