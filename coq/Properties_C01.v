(* Properties_C01.v — C01: downlink bytes are well-formed packets carrying each message once.
   Statements only; every proof is `exact <lemma>`. *)
From Coq Require Import List NArith Bool.
From LB Require Import Tables Framing FramingProofs Interleave.
Import ListNotations.
Local Open Scope N_scope.

(* For every sequence of add/flush/set-capacity operations on well-formed messages, after a final
   flush the bytes given to the write callback are exactly the frames of a partition of the added
   messages (in order, none torn, duplicated or dropped); every packet is non-empty; a packet with
   two or more messages fits the capacity in force when its last message was added. *)
Theorem C01_wire : forall ops, ops_wf ops ->
  let ps := snd (tx_run tx_init (ops ++ [Flush])) in
  wire ps = flat_map (fun p => frame (concat (snd p))) ps /\
  concat (map snd ps) = added ops /\
  Forall (fun p => snd p <> [] /\ Forall (fun m => m <> []) (snd p) /\
                   ((2 <= length (snd p))%nat -> nlen (concat (snd p)) <= fst p) /\ 64 <= fst p) ps.
Proof. exact c01_wire. Qed.
Print Assumptions C01_wire.

(* the capacity attached to a packet is the default or a value announced by a SetCap *)
Theorem C01_capacity_real : forall ops,
  Forall (fun p => In (fst p) (caps_of ops)) (snd (tx_run tx_init ops)).
Proof. exact c01_caps_real. Qed.
Print Assumptions C01_capacity_real.

(* the independent reference decoder recovers exactly the added messages from the wire *)
Theorem C01_decodes : forall ops, ops_wf ops ->
  ref_decode (wire (snd (tx_run tx_init (ops ++ [Flush])))) = Some (added ops).
Proof. exact c01_decodes. Qed.
Print Assumptions C01_decodes.

(* no delimiter inside a frame body; specials are emitted as 0xFD, b xor 0x20 - also for the CRC *)
Theorem C01_escape_clean : forall p,
  ~ In pkt_magic (escape p ++ esc_byte (crc8 p)) /\
  escape p = flat_map (fun b => if (b =? 254) || (b =? 253) then [253; N.lxor b 32] else [b]) p /\
  unescape (escape p ++ esc_byte (crc8 p)) = Some (p ++ [crc8 p]) /\
  crc8 (p ++ [crc8 p]) = 0.
Proof.
  exact (fun p => conj (fun H => match in_app_or _ _ _ H with
                                 | or_introl a => escape_no_magic _ a
                                 | or_intror b => esc_byte_no_magic _ b end)
               (conj (escape_spec p)
               (conj (eq_trans (f_equal (fun x => unescape (escape p ++ x)) (eq_sym (escape_single (crc8 p))))
                               (eq_trans (f_equal unescape (eq_sym (escape_app p [crc8 p]))) (unescape_escape _)))
                     (crc8_self p)))).
Qed.
Print Assumptions C01_escape_clean.

(* the staged writer: for every staging size A >= 8 the concatenation of the chunks is the frame and
   no chunk exceeds A bytes (A = 312 in the code, from Tables) *)
Theorem C01_chunking : forall A buf, buf <> [] -> 8 <= A ->
  concat (flush_chunks A buf) = frame buf /\ Forall (fun c => nlen c <= A) (flush_chunks A buf).
Proof. exact (fun A buf Hne HA => conj (flush_chunks_concat A buf Hne) (flush_chunks_bound A buf HA)). Qed.
Print Assumptions C01_chunking.

Theorem C01_aux_size_ok : 8 <= tx_aux_size.
Proof. vm_compute. discriminate. Qed.

(* the generated CRC table is the reflected 0x8C polynomial, init 0, and T[0] = 0 *)
Theorem C01_crc_table : (forall x, x < 256 -> nth (N.to_nat x) crc_table 0 = crc_ref_byte x) /\
                        nth 0 crc_table 0 = 0 /\ length crc_table = 256%nat.
Proof. exact (conj crc_table_is_poly (conj crc_table_0 crc_table_length)). Qed.
Print Assumptions C01_crc_table.

(* message layout produces well-formed messages whenever the uint8 length does not wrap *)
Theorem C01_layout : forall a seq ty data m, encode_msg a seq ty data = Some m -> wf_msg m = true.
Proof. exact encode_msg_wf. Qed.
Print Assumptions C01_layout.

(* every interleaving of threads issuing well-formed operations is itself a well-formed operation
   list, hence satisfies C01_wire / C01_decodes (atomicity of the three operations is the lock fact
   established under C10/C11) *)
Theorem C01_interleavings : forall (threads : list (list op)) l,
  Forall ops_wf threads -> interleaving threads l ->
  ref_decode (wire (snd (tx_run tx_init (l ++ [Flush])))) = Some (added l).
Proof.
  exact (fun threads l HF Hil => c01_decodes l (interleaving_Forall _ threads l Hil HF)).
Qed.
Print Assumptions C01_interleavings.

(* non-vacuity: a concrete history with an escaped payload byte, an escaped CRC and a capacity flush *)
Example C01_nonvacuous :
  let ops := [Add [3; 0; 1; 254]; Add [4; 0; 1; 7; 111]; SetCap 100; Add [3; 0; 2; 253]] in
  ops_wf ops /\ wire (snd (tx_run tx_init (ops ++ [Flush]))) <> [] /\
  crc8 [4; 0; 1; 7; 111] = 254.
Proof.
  cbv zeta. split; [repeat constructor|]. split; [vm_compute; discriminate|vm_compute; reflexivity].
Qed.
