(* LockQueues.v — the receiver-filled queues are guarded on every entry that runs while the receiver thread is alive. *)
From Coq Require Import List Arith Bool.
From LB Require Import LockLang LockCfg LockSem.
Import ListNotations.

(* the queues the receiver thread fills are used under their own mutex on every path of every public function but the two
   start functions, which create the queues before any thread exists (so also of those documented as not thread-safe:
   bidib_send_sys_reset, bidib_stop, ...) and of every thread main: the
   receiver runs alongside whatever the application calls (C06, C10) *)
Definition queue_guard (g : nat) : option nat :=
  if existsb (Nat.eqb g) queue_globals then guard g else None.
Lemma all_entries_queue_lockset :
  forallb (check_entry rank queue_guard body call_depth) (running_entries ++ thread_mains) = true.
Proof. vm_compute. reflexivity. Qed.


Lemma queue_paths_ok p :
  (exists f, In f (running_entries ++ thread_mains) /\ run_call body call_depth [] f p) ->
  acts_ok rank queue_guard [] p = Some [].
Proof.
  intros (f & Hin & Hr). pose proof all_entries_queue_lockset as Hb. rewrite forallb_forall in Hb.
  eapply check_entry_sound; [apply Hb; exact Hin|exact Hr].
Qed.

(* every access to one of the receiver-filled queues, on every path of every public function and thread main,
   is made with the queue's own mutex held (exclusively for a write) *)
Theorem queue_access_guarded f p pre g wr l rest :
  In f (running_entries ++ thread_mains) -> run_call body call_depth [] f p ->
  p = pre ++ AAcc g wr :: rest -> In g queue_globals -> guard g = Some l ->
  exists H w, acts_ok rank queue_guard [] pre = Some H /\ In (l, w) H /\ (wr = true -> w = true).
Proof.
  intros Hin Hr -> Hq Hg. eapply acts_ok_access; [apply queue_paths_ok; exists f; split; eassumption|].
  unfold queue_guard. replace (existsb (Nat.eqb g) queue_globals) with true; [exact Hg|].
  symmetry. apply existsb_exists. exists g. split; [exact Hq|apply Nat.eqb_refl].
Qed.

