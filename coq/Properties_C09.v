(* Properties_C09.v — C09: high-level commands emit exactly the configured messages, or nothing (return 1).
   [cmd w c] is the executable model (HighLevel.v) of the setters of src/highlevel/bidib_highlevel_setter.c with the
   low-level senders and optimistic state updates they call; [w] holds the parsed configuration, the boards'
   connection state / node addresses and the tracked state; the result is [Done ret messages w'] or [Fault site]
   (a NULL dereference / out-of-bounds access of the C).  [wfb] is what the config parser establishes. *)
From Coq Require Import List NArith ZArith Bool.
From LB Require Import Tables HighLevel HighLevelProofs.
Import ListNotations.
Local Open Scope N_scope.

(* ---- speed-step encoding: complete enumeration of -126..126 x both remembered directions ---- *)
Theorem C09_speed : forall (s : Z) (prev_fwd : bool), (-126 <= s <= 126)%Z ->
  let fwd := if (s =? 0)%Z then prev_fwd else (0 <? s)%Z in
  let b := lib_to_dcc (byte (Z.abs_N s)) fwd in
  b = (if fwd then 128 else 0) + Z.abs_N s + (if (s =? 0)%Z then 0 else 1) /\
  b < 256 /\ dcc_to_lib b = s /\ (128 <=? b) = fwd.
Proof. exact speed_encoding. Qed.
Print Assumptions C09_speed.

(* every DCC speed byte decodes into -126..126; all but the two stop codes (0, 1) are the image of their decoding *)
Theorem C09_speed_back : forall b, b < 256 ->
  (-126 <= dcc_to_lib b <= 126)%Z /\
  (1 < N.land b 127 -> lib_to_dcc (byte (Z.abs_N (dcc_to_lib b))) (128 <=? b) = b) /\
  (N.land b 127 <= 1 -> dcc_to_lib b = 0%Z).
Proof. exact dcc_back. Qed.
Print Assumptions C09_speed_back.

(* ---- bad commands: whenever a command answers 1, nothing was submitted and nothing changed ---- *)
Theorem C09_bad_silent : forall w c m w', wfb w = true -> cmd w c = Done 1 m w' -> m = [] /\ w' = w.
Proof. exact cmd_ret1_silent. Qed.
Print Assumptions C09_bad_silent.

(* ... and a command is answered with 0 only if it names configured equipment on a connected board of the right
   class, a defined aspect, a speed in range (contrapositive: unknown id / disconnected board / undefined aspect /
   out-of-range speed => not 0).  [accepted] is what the code checks; it is weaker than the property text in the
   points listed under the _refuted theorems below, hence _partial. *)
Theorem C09_bad_partial : forall w c m w', cmd w c = Done 0 m w' -> accepted w c.
Proof. exact cmd_ret0_accepted. Qed.
Print Assumptions C09_bad_partial.

(* ---- good commands: exactly the configured message, to the owning board's current address ---- *)
Theorem C09_ok_board_accessory_except : forall (point : bool) w b m a, wfb w = true ->
  In b (w_boards w) -> In m (if point then b_pts b else b_sigs b) -> In a (ba_aspects m) -> b_conn b = true ->
  ba_num m <= 127 -> as_val a <= 127 ->
  cmd w (if point then SwitchPoint (ba_id m) (as_id a) else SetSignal (ba_id m) (as_id a)) =
  Done 0 [(b_addr b, MSG_ACCESSORY_SET, [ba_num m; as_val a])] w.
Proof. exact board_accessory_cmd_ok. Qed.
Print Assumptions C09_ok_board_accessory_except.

Theorem C09_ok_board_accessory_refuted :
  wfb wit_world = true /\
  cmd wit_world (SwitchPoint 2 1) = Done 0 [] wit_world /\ accepted wit_world (SwitchPoint 2 1) /\
  cmd wit_world (SwitchPoint 3 1) = Done 0 [] wit_world /\ accepted wit_world (SwitchPoint 3 1).
Proof.
  exact (conj (proj1 wit_world_wf)
        (conj wit_accessory_number (conj (cmd_ret0_accepted _ _ _ _ wit_accessory_number)
        (conj wit_accessory_aspect (cmd_ret0_accepted _ _ _ _ wit_accessory_aspect))))).
Qed.
Print Assumptions C09_ok_board_accessory_refuted.

Theorem C09_ok_peripheral : forall w b m a, wfb w = true ->
  In b (w_boards w) -> In m (b_pers b) -> In a (pe_aspects m) -> b_conn b = true ->
  cmd w (SetPeripheral (pe_id m) (as_id a)) = Done 0 [(b_addr b, MSG_LC_OUTPUT, [pe_port0 m; pe_port1 m; as_val a])] w.
Proof. exact peripheral_ok. Qed.
Print Assumptions C09_ok_peripheral.

Theorem C09_ok_booster : forall w b on, wfb w = true -> In b (w_boards w) -> b_conn b = true -> is_booster b = true ->
  cmd w (SetBooster (b_id b) on) = Done 0 [(b_addr b, if on then MSG_BOOST_ON else MSG_BOOST_OFF, [1])] w.
Proof. exact booster_ok. Qed.
Print Assumptions C09_ok_booster.

Theorem C09_ok_track_output_except : forall w b s, wfb w = true -> In b (w_boards w) -> b_conn b = true ->
  is_track_output b = true -> cs_state_ok s = true ->
  cmd w (SetTrackOutput (b_id b) s) = Done 0 [(b_addr b, MSG_CS_SET_STATE, [s])] w.
Proof. exact track_output_ok. Qed.
Print Assumptions C09_ok_track_output_except.

Theorem C09_ok_track_output_refuted : cmd wit_world (SetTrackOutput 1 5) = Done 0 [] wit_world.
Proof. exact wit_track_output_state. Qed.
Print Assumptions C09_ok_track_output_refuted.

Theorem C09_ok_track_output_all : forall w s, cs_state_ok s = true ->
  cmd w (SetTrackOutputAll s) =
  Done 0 (map (fun b => (b_addr b, MSG_CS_SET_STATE, [s])) (filter (fun b => is_track_output b && b_conn b) (w_boards w))) w.
Proof. exact track_output_all_ok. Qed.
Print Assumptions C09_ok_track_output_all.

(* ---- function bits: the recorded defects ---- *)
Theorem C09_functions_refuted :
  (exists w', cmd wit_world (SetTrainPeripheral 7 8 2 1) = Done 0 [((0, 0, 0), MSG_CS_DRIVE, [35; 1; 3; 2; 0; 2; 0; 0; 0])] w' /\
              tracked wit_world 7 9 = Some 0 /\ tracked w' 7 8 = Some 0 /\ tracked w' 7 9 = Some 1) /\
  cmd wit_world (SetTrainPeripheral 7 8 255 1) = Done 0 [] wit_world /\
  cmd wit_world (SetTrainPeripheral 7 10 1 1) = Done 0 [] wit_world.
Proof. exact (conj wit_function_state2 (conj wit_function_state255 wit_function_bit6)). Qed.
Print Assumptions C09_functions_refuted.

(* ---- optimistic update goes to the wrong train when a configured DCC address has high bits in addrh ---- *)
Theorem C09_speed_state_refuted : exists w',
  cmd wit_world (SetTrainSpeed 12 7 1) = Done 0 [((0, 0, 0), MSG_CS_DRIVE, [35; 65; 2; 1; 136; 0; 0; 0; 0])] w' /\
  tracked_speed w' 12 = Some (0%Z, true) /\ tracked_speed wit_world 7 = Some (0%Z, true) /\ tracked_speed w' 7 = Some (7%Z, true).
Proof. exact wit_dcc_addrh. Qed.
Print Assumptions C09_speed_state_refuted.

(* ---- a reverser request is sent to whatever connected board is named, owner or not ---- *)
Theorem C09_reverser_refuted : exists w',
  cmd wit_world (RequestReverser 5 6) = Done 0 [((3, 0, 0), MSG_VENDOR_GET, [5; 51; 48; 48; 53; 49])] w'.
Proof. exact wit_reverser_board. Qed.
Print Assumptions C09_reverser_refuted.

Example C09_nonvacuous :
  wfb wit_world = true /\ conn_addrs_distinct (w_boards wit_world) = true /\
  exists w1 w2,
    cmd wit_world (SetTrainSpeed 7 (-5) 1) = Done 0 [((0, 0, 0), MSG_CS_DRIVE, [35; 1; 3; 1; 6; 0; 0; 0; 0])] w1 /\
    cmd w1 (SetTrainSpeed 7 0 1) = Done 0 [((0, 0, 0), MSG_CS_DRIVE, [35; 1; 3; 1; 0; 0; 0; 0; 0])] w2 /\
    tracked_speed w2 7 = Some (0%Z, false) /\
    cmd w2 (SwitchPoint 4 1) = cmd w2 (SwitchPoint 4 1) /\
    cmd wit_world (SwitchPoint 9999 1) = Done 1 [] wit_world.
Proof. split; [exact (proj1 wit_world_wf)|]. split; [exact (proj2 wit_world_wf)|]. eexists; eexists. vm_compute. repeat split; reflexivity. Qed.
