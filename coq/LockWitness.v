(* LockWitness.v — a verified path generator for the lock language: given a list of branch choices it
   produces one concrete path (action list) of a function of the generated table, and every path it
   produces is a path of the semantics (LockLang.run_call). Used only for non-vacuity examples: the
   theorems about "every path" talk about real paths with real write accesses. *)
From Coq Require Import List Arith Bool PeanoNat.
From LB Require Import LockLang.
Import ListNotations.

Section Gen.
Variable body : nat -> option stmt.

(* choices are consumed left to right (If: true = first branch; Loop: true = one iteration, false = none;
   IfP with unknown parameter: like If); an exhausted list answers false *)
Definition pop (ch : list bool) : bool * list bool := match ch with [] => (false, []) | b :: r => (b, r) end.

Fixpoint gen_stmt (call : list (option bool) -> nat -> list bool -> option (list act * list bool))
                  (penv : list (option bool)) (s : stmt) (ch : list bool) : option (list act * exit * list bool) :=
  match s with
  | Skip => Some ([], XNorm, ch)
  | Acq l w => Some ([AAcq l w], XNorm, ch)
  | Rel l => Some ([ARel l], XNorm, ch)
  | Access g wr => Some ([AAcc g wr], XNorm, ch)
  | Call f args => match call args f ch with Some (p, ch') => Some (p, XNorm, ch') | None => None end
  | Seq a b =>
      match gen_stmt call penv a ch with
      | Some (p, XNorm, ch1) =>
          match gen_stmt call penv b ch1 with Some (q, k, ch2) => Some (p ++ q, k, ch2) | None => None end
      | other => other
      end
  | If a b => let (c, ch1) := pop ch in if c then gen_stmt call penv a ch1 else gen_stmt call penv b ch1
  | IfP i a b =>
      match nth i penv None with
      | Some true => gen_stmt call penv a ch
      | Some false => gen_stmt call penv b ch
      | None => let (c, ch1) := pop ch in if c then gen_stmt call penv a ch1 else gen_stmt call penv b ch1
      end
  | Loop b =>
      let (c, ch1) := pop ch in
      if c then match gen_stmt call penv b ch1 with
                | Some (p, XRet, ch2) => Some (p, XRet, ch2)
                | Some (p, _, ch2) => Some (p, XNorm, ch2)
                | None => None
                end
      else Some ([], XNorm, ch1)
  | Catch a => match gen_stmt call penv a ch with Some (p, XBrk, ch1) => Some (p, XNorm, ch1) | other => other end
  | Return => Some ([], XRet, ch)
  | Break => Some ([], XBrk, ch)
  | Continue => Some ([], XCont, ch)
  end.

Fixpoint gen_call (fuel : nat) (args : list (option bool)) (f : nat) (ch : list bool) : option (list act * list bool) :=
  match fuel with
  | O => None
  | S fu =>
      match body f with
      | None => None
      | Some s =>
          match gen_stmt (gen_call fu) args s ch with
          | Some (p, XNorm, ch') | Some (p, XRet, ch') => Some (p, ch')
          | _ => None
          end
      end
  end.

Lemma gen_stmt_sound call (callr : list (option bool) -> nat -> list act -> Prop) penv :
  (forall args f ch p ch', call args f ch = Some (p, ch') -> callr args f p) ->
  forall s ch p k ch', gen_stmt call penv s ch = Some (p, k, ch') -> run_stmt callr penv s p k.
Proof.
  intros Hc. induction s as [ | l w | l | g wr | f args | a IHa b IHb | a IHa b IHb | i a IHa b IHb | b IHb | a IHa | | | ];
    intros ch p k ch' E; cbn [gen_stmt] in E.
  - injection E as <- <- _. constructor.
  - injection E as <- <- _. constructor.
  - injection E as <- <- _. constructor.
  - injection E as <- <- _. constructor.
  - destruct (call args f ch) as [[q c1]|] eqn:Ec; [|discriminate]. injection E as <- <- _. constructor. eapply Hc. exact Ec.
  - destruct (gen_stmt call penv a ch) as [[[q ka] c1]|] eqn:Ea; [|discriminate].
    destruct ka.
    + destruct (gen_stmt call penv b c1) as [[[q2 kb] c2]|] eqn:Eb; [|discriminate]. injection E as <- <- _.
      eapply r_seq2; [eapply IHa; exact Ea|eapply IHb; exact Eb].
    + injection E as <- <- _. apply r_seq1; [eapply IHa; exact Ea|discriminate].
    + injection E as <- <- _. apply r_seq1; [eapply IHa; exact Ea|discriminate].
    + injection E as <- <- _. apply r_seq1; [eapply IHa; exact Ea|discriminate].
  - destruct (pop ch) as [c c1]. destruct c; [apply r_ifl; eapply IHa; exact E|apply r_ifr; eapply IHb; exact E].
  - destruct (nth i penv None) as [[|]|] eqn:En.
    + apply r_ifpl; [congruence|eapply IHa; exact E].
    + apply r_ifpr; [congruence|eapply IHb; exact E].
    + destruct (pop ch) as [c c1]. destruct c; [apply r_ifpl; [congruence|eapply IHa; exact E]|apply r_ifpr; [congruence|eapply IHb; exact E]].
  - destruct (pop ch) as [c c1]. destruct c.
    + destruct (gen_stmt call penv b c1) as [[[q kb] c2]|] eqn:Eb; [|discriminate].
      destruct kb; injection E as <- <- _.
      * rewrite <- (app_nil_r q). eapply r_loop_next; [eapply IHb; exact Eb|left; reflexivity|apply r_loop0].
      * apply r_loop_brk. eapply IHb; exact Eb.
      * rewrite <- (app_nil_r q). eapply r_loop_next; [eapply IHb; exact Eb|right; reflexivity|apply r_loop0].
      * apply r_loop_ret. eapply IHb; exact Eb.
    + injection E as <- <- _. apply r_loop0.
  - destruct (gen_stmt call penv a ch) as [[[q ka] c1]|] eqn:Ea; [|discriminate].
    destruct ka; injection E as <- <- _.
    + apply r_catch; [eapply IHa; exact Ea|discriminate].
    + apply r_catch_brk. eapply IHa; exact Ea.
    + apply r_catch; [eapply IHa; exact Ea|discriminate].
    + apply r_catch; [eapply IHa; exact Ea|discriminate].
  - injection E as <- <- _. constructor.
  - injection E as <- <- _. constructor.
  - injection E as <- <- _. constructor.
Qed.

Lemma gen_call_sound fuel : forall args f ch p ch', gen_call fuel args f ch = Some (p, ch') -> run_call body fuel args f p.
Proof.
  induction fuel as [|fu IH]; intros args f ch p ch' E; [discriminate|].
  cbn [gen_call] in E. cbn [run_call]. destruct (body f) as [s|] eqn:Eb; [|discriminate].
  destruct (gen_stmt (gen_call fu) args s ch) as [[[q k] c1]|] eqn:Es; [|discriminate].
  exists s, k. split; [reflexivity|].
  destruct k; try discriminate; injection E as <- _; (split; [eapply gen_stmt_sound; [exact IH|exact Es]|]); auto.
Qed.

(* ---- search: the first choice list (of a fixed length) whose path contains a given action ---- *)
Fixpoint choice_lists (n : nat) : list (list bool) :=
  match n with
  | O => [[]]
  | S m => map (cons true) (choice_lists m) ++ map (cons false) (choice_lists m)
  end.

Fixpoint split_at (a : act) (p : list act) : option (list act * list act) :=
  match p with
  | [] => None
  | x :: r => if act_eqb x a then Some ([], r)
              else match split_at a r with Some (pre, rest) => Some (x :: pre, rest) | None => None end
  end.

Lemma act_eqb_eq x y : act_eqb x y = true -> x = y.
Proof.
  destruct x, y; cbn; try discriminate; intros E.
  - apply andb_true_iff in E as [E1 E2]. apply Nat.eqb_eq in E1. apply Bool.eqb_prop in E2. subst. reflexivity.
  - apply Nat.eqb_eq in E. subst. reflexivity.
  - apply andb_true_iff in E as [E1 E2]. apply Nat.eqb_eq in E1. apply Bool.eqb_prop in E2. subst. reflexivity.
Qed.

Lemma split_at_sound a p pre rest : split_at a p = Some (pre, rest) -> p = pre ++ a :: rest.
Proof.
  revert pre. induction p as [|x r IH]; intros pre E; cbn in E; [discriminate|].
  destruct (act_eqb x a) eqn:Ex.
  - injection E as <- <-. apply act_eqb_eq in Ex. subst. reflexivity.
  - destruct (split_at a r) as [[pre' rest']|]; [|discriminate]. injection E as <- <-.
    cbn. f_equal. apply IH. reflexivity.
Qed.

Fixpoint first_some {A B} (f : A -> option B) (xs : list A) : option B :=
  match xs with [] => None | x :: r => match f x with Some y => Some y | None => first_some f r end end.

Lemma first_some_sound {A B} (f : A -> option B) xs y : first_some f xs = Some y -> exists x, f x = Some y.
Proof.
  induction xs as [|x r IH]; cbn; [discriminate|]. destruct (f x) eqn:E; [intros [= <-]; exists x; exact E|exact IH].
Qed.

Definition witness (fuel nchoices : nat) (f : nat) (a : act) : option (list act * list act) :=
  first_some (fun ch => match gen_call fuel [] f ch with Some (p, _) => split_at a p | None => None end) (choice_lists nchoices).

Lemma witness_sound fuel n f a pre rest : witness fuel n f a = Some (pre, rest) -> run_call body fuel [] f (pre ++ a :: rest).
Proof.
  intros E. apply first_some_sound in E as (ch & E). destruct (gen_call fuel [] f ch) as [[p c1]|] eqn:Eg; [|discriminate].
  apply split_at_sound in E. subst p. eapply gen_call_sound. exact Eg.
Qed.

End Gen.
