(* RxSafety.v — memory-safety facts of the receive path model (C12): the fault values of Rx.v are
   unreachable. *)
From Coq Require Import List NArith Bool Arith Lia.
From LB Require Import Tables Framing FramingProofs NodeFlow Rx RxProofs.
Import ListNotations.
Local Open Scope N_scope.

(* the packet buffer: a byte is stored only at an index below rx_buf_size, for every stream *)
Lemma rx_byte_bound s b : nlen (r_buf s) <= rx_buf_size -> nlen (r_buf (fst (rx_byte s b))) <= rx_buf_size.
Proof.
  intros H. unfold rx_byte. destruct (negb (r_synced s)).
  - destruct (b =? pkt_magic); cbn; [vm_compute; discriminate|exact H].
  - destruct (b =? pkt_magic).
    + destruct (r_buf s); cbn; vm_compute; discriminate.
    + destruct (b =? pkt_escape); [exact H|].
      destruct (rx_buf_size <=? nlen (r_buf s)) eqn:E; cbn [fst r_buf]; [exact H|].
      apply N.leb_gt in E. rewrite nlen_app. unfold nlen in *. cbn [length]. lia.
Qed.

Lemma rx_run_bound bytes : forall s, nlen (r_buf s) <= rx_buf_size -> nlen (r_buf (fst (rx_run s bytes))) <= rx_buf_size.
Proof.
  induction bytes as [|b r IH]; intros s H; [exact H|]. cbn [rx_run].
  pose proof (rx_byte_bound s b H) as H1. destruct (rx_byte s b) as [s1 o]. cbn [fst] in H1.
  specialize (IH s1 H1). destruct (rx_run s1 r) as [s2 rest]. exact IH.
Qed.

Lemma rx_byte_never_faults s b : match snd (rx_byte s b) with RxFault _ => False | _ => True end.
Proof.
  unfold rx_byte. destruct (negb (r_synced s)); [cbn; exact I|].
  destruct (b =? pkt_magic).
  - destruct (r_buf s); cbn; [exact I|]. destruct (r_ovf s); [exact I|]. destruct (r_crc s =? 0); exact I.
  - destruct (b =? pkt_escape); [cbn; exact I|]. destruct (rx_buf_size <=? nlen (r_buf s)); cbn; exact I.
Qed.

(* field extraction of a validated message stays inside the copy and inside the 4-byte address buffer *)
Lemma zero_from_addr_end m site : forall fuel i,
  (addr_end fuel m i < length m)%nat -> (addr_end fuel m i < i + fuel)%nat ->
  zero_from fuel m i site = inr (addr_end fuel m i).
Proof.
  induction fuel as [|f IH]; intros i H1 H2; [cbn in H2; lia|].
  cbn [addr_end zero_from] in *. destruct (nth_error m i) as [v|] eqn:E.
  - destruct (v =? 0); [reflexivity|]. apply IH; [exact H1|lia].
  - apply nth_error_None in E. lia.
Qed.

Lemma addr_end_ge m : forall fuel i, (i <= addr_end fuel m i)%nat.
Proof.
  induction fuel as [|f IH]; intros i; cbn; [lia|]. destruct (nth_error m i) as [v|]; [|lia].
  destruct (v =? 0); [lia|]. specialize (IH (S i)). lia.
Qed.

Lemma valid_parse_ok alloc m : valid_msg alloc m = true -> exists x, parse_msg alloc m = inr x.
Proof.
  unfold valid_msg. intros H. apply andb_true_iff in H as [H H3]. apply andb_true_iff in H as [H1 H2].
  apply Nat.leb_le in H2. apply Nat.ltb_lt in H3.
  unfold parse_msg. rewrite H1. cbn [negb].
  set (e := addr_end (length m) m 1) in *.
  rewrite (zero_from_addr_end m 1 (length m) 1%nat); fold e; [|lia|lia].
  unfold rd. destruct (nth_error m (e + 2)) as [ty|] eqn:E2; [|apply nth_error_None in E2; lia].
  destruct (4 <? e)%nat eqn:E4; [apply Nat.ltb_lt in E4; lia|].
  destruct (nth_error m (e + 1)) as [sq|] eqn:E1; [|apply nth_error_None in E1; lia].
  eexists. reflexivity.
Qed.

Definition no_fault (items : list rx_item) : Prop :=
  Forall (fun it => match it with Faulted _ => False | _ => True end) items.

Lemma parse_all_no_fault ps : match snd (parse_all ps) with Some (StopFault _) => False | _ => True end.
Proof.
  induction ps as [|[a m] r IH]; cbn [parse_all snd]; [exact I|].
  destruct (valid_msg a m) eqn:Ev; [|exact I].
  destruct (valid_parse_ok a m Ev) as (x & ->). destruct (parse_all r) as [xs f]. exact IH.
Qed.

Lemma deliver_no_fault p : no_fault (deliver_packet p).
Proof.
  unfold deliver_packet, no_fault. pose proof (parse_all_no_fault (split_packet (length p) p)) as H.
  destruct (parse_all (split_packet (length p) p)) as [ms f]. cbn [snd] in H.
  apply Forall_app. split.
  - induction ms; constructor; auto.
  - destruct f as [[x|]|]; [contradiction| |]; repeat constructor.
Qed.

(* no byte stream whatsoever makes the framing layer read or write outside its buffers *)
Lemma rx_run_no_fault bytes : forall s, no_fault (snd (rx_run s bytes)).
Proof.
  induction bytes as [|b r IH]; intros s; [constructor|]. cbn [rx_run].
  pose proof (rx_byte_never_faults s b) as Hb. destruct (rx_byte s b) as [s1 o]. cbn [snd] in Hb.
  specialize (IH s1). destruct (rx_run s1 r) as [s2 rest]. cbn [snd] in *.
  apply Forall_app. split; [|exact IH].
  destruct o; try contradiction; try (repeat constructor). apply deliver_no_fault.
Qed.

(* liveness: after any stream, a delimiter brings every state to the clean state, so the next
   well-formed packet is delivered *)
Lemma rx_magic_always_fresh s : fst (rx_byte s pkt_magic) = rx_fresh.
Proof.
  unfold rx_byte. destruct (r_synced s) eqn:E; cbn [negb].
  - rewrite N.eqb_refl. destruct (r_buf s); reflexivity.
  - rewrite N.eqb_refl. reflexivity.
Qed.

Lemma rx_live s p : p <> [] -> nlen p < rx_buf_size ->
  exists pre, rx_run s (pkt_magic :: frame p) = (rx_fresh, pre ++ deliver_packet p).
Proof.
  intros Hne Hlen. cbn [rx_run]. pose proof (rx_magic_always_fresh s) as Hf.
  destruct (rx_byte s pkt_magic) as [s1 o]. cbn [fst] in Hf. subst s1.
  rewrite (rx_frame p Hne Hlen). eexists. reflexivity.
Qed.
