(* Properties_C10.v — C10: the documented thread-safe API is race-free under concurrent use.
   Partial: what is proved is the lock discipline at lock granularity (see DESIGN.md): every access
   to a guarded global and every guarded call happens while the guard is held, on every path of every
   thread-safe public function and of the three internal threads. *)
From Coq Require Import List Arith Bool.
From LB Require Import LockLang LockCfg LockProofs LockSem LockExcl.
Import ListNotations.

Definition threadsafe_path (p : list act) : Prop :=
  exists f, In f (threadsafe_entries ++ thread_mains) /\ run_call body call_depth [] f p.

(* lockset: replaying any path against the lock rules never fails: every guarded access (track state
   arrays, board/train tables, node table, the three uplink queues, the packet buffer and its staging
   buffer, the write callback, the action-id counter, the three steps of a submission) holds its guard *)
Theorem C10_lockset_partial : forall p, threadsafe_path p -> acts_ok rank guard [] p = Some [].
Proof. exact threadsafe_paths_ok. Qed.
Print Assumptions C10_lockset_partial.

(* a guarded access can only be the next action of a thread that holds the guard *)
Theorem C10_access_holds_guard : forall H g l p,
  guard g = Some l -> acts_ok rank guard H (AAcc g :: p) <> None -> In l H.
Proof. exact access_needs_guard. Qed.
Print Assumptions C10_access_holds_guard.

(* the invariant survives every interleaving, so the above holds at every reachable point *)
Theorem C10_invariant_all_schedules : forall (tps : list (list (list act))) c,
  Forall (Forall threadsafe_path) tps -> reach rank guard (map fresh_thread tps) c -> Inv rank guard c.
Proof. exact threadsafe_inv. Qed.
Print Assumptions C10_invariant_all_schedules.

(* mutual exclusion, all schedules: in every configuration reachable by any interleaving of threads
   running thread-safe API calls and the internal threads (mutexes/write locks exclusive, read locks
   shared), two different threads are never both about to access data guarded by the same mutex
   (a lock the source only ever takes exclusively): no data race on mutex-guarded state *)
Theorem C10_mutual_exclusion : forall (tps : list (list (list act))) pre t mid t' post l g g' p p',
  Forall (Forall threadsafe_path) tps ->
  reach rank guard (map fresh_thread tps) (pre ++ t :: mid ++ t' :: post) ->
  excl_only l = true -> guard g = Some l -> guard g' = Some l ->
  th_prog t = AAcc g :: p -> th_prog t' = AAcc g' :: p' -> False.
Proof. exact mutex_mutual_exclusion. Qed.
Print Assumptions C10_mutual_exclusion.

(* at most one exclusive holder per lock, and an exclusive holder excludes every other holder
   (rwlocks included), in every reachable configuration *)
Theorem C10_exclusive_holder : forall c c', Inv rank guard c -> Excl c -> reach rank guard c c' -> Excl c'.
Proof. exact (Excl_reach rank guard). Qed.
Print Assumptions C10_exclusive_holder.

Example C10_guards_nonvacuous :
  length (filter (fun g => match g with Some _ => true | None => false end) guard_tab) = length guard_tab /\
  (10 <= length guard_tab) /\ (100 <= length threadsafe_entries) /\ (10 <= length mutex_ids).
Proof. vm_compute. repeat split; repeat constructor. Qed.
