(* Properties_C10.v — C10: the documented thread-safe API is race-free under concurrent use.
   Partial: what is proved is the lock discipline at lock granularity (see DESIGN.md): every access
   to a guarded global and every guarded call happens while the guard is held - and every WRITE to
   data guarded by one of the two rwlocks happens while the write lock is held -, on every path of
   every thread-safe public function and of the three internal threads; hence, under every schedule,
   a writer of guarded data excludes every other reader and writer of data with the same guard.
   Atomicity: hold intervals of one lock, one of them exclusive, never overlap in any execution trace
   (C10_critical_sections_serialised); the read-modify-write commands on a train keep everything between reading
   and storing the tracked state inside one exclusive hold of bidib_trains_rwlock, so they are serialised against
   each other and against the receiver's message handling (C10_rmw_serialised).
   LockCfg.v (every function of src/**/*.c as a lock program, each access with its read/write mode) is
   regenerated from the source on every run by translator/gen_lockcfg.py. *)
From Coq Require Import List Arith Bool.
From LB Require Import LockLang LockCfg LockProofs LockSem LockExcl LockTrace LockAtomic LockAtomicC10.
Import ListNotations.

Definition threadsafe_path (p : list act) : Prop :=
  exists f, In f (threadsafe_entries ++ thread_mains) /\ run_call body call_depth [] f p.

(* lockset: replaying any path against the lock rules never fails: every guarded access (track state
   arrays, board/train tables, node table, the three uplink queues, the packet buffer and its staging
   buffer, the write callback, the action-id counter, the three steps of a submission) holds its guard,
   in exclusive mode when the access is a write *)
Theorem C10_lockset_partial : forall p, threadsafe_path p -> acts_ok rank guard [] p = Some [].
Proof. exact threadsafe_paths_ok. Qed.
Print Assumptions C10_lockset_partial.

(* a guarded access can only be the next action of a thread that holds the guard *)
Theorem C10_access_holds_guard : forall H g wr l p,
  guard g = Some l -> acts_ok rank guard H (AAcc g wr :: p) <> None -> In l (locks_of H).
Proof. exact access_needs_guard. Qed.
Print Assumptions C10_access_holds_guard.

(* static, for every thread-safe public function and every thread main: at every access on every path
   the guard is among the locks held at that point, and at every WRITE access it is held exclusively
   (mutex, or the rwlock taken with pthread_rwlock_wrlock; a read lock is not enough) *)
Theorem C10_writes_hold_exclusive : forall p pre g wr l rest,
  threadsafe_path p -> p = pre ++ AAcc g wr :: rest -> guard g = Some l ->
  exists H w, acts_ok rank guard [] pre = Some H /\ In (l, w) H /\ (wr = true -> w = true).
Proof. exact threadsafe_writes_exclusive. Qed.
Print Assumptions C10_writes_hold_exclusive.

(* the invariant survives every interleaving, so the above holds at every reachable point *)
Theorem C10_invariant_all_schedules : forall (tps : list (list (list act))) c,
  Forall (Forall threadsafe_path) tps -> reach rank guard (map fresh_thread tps) c -> Inv rank guard c.
Proof. exact threadsafe_inv. Qed.
Print Assumptions C10_invariant_all_schedules.

(* reader/writer exclusion, all schedules: in every configuration reachable by any interleaving of any
   number of threads running thread-safe API calls and the internal threads (mutexes/write locks
   exclusive, read locks shared), if one thread is about to perform a WRITE access to data guarded by
   lock l, no other thread is about to perform ANY access (read or write) to data guarded by l *)
Theorem C10_reader_writer_exclusion : forall (tps : list (list (list act))) pre t mid t' post l g g' wr wr' p p',
  Forall (Forall threadsafe_path) tps ->
  reach rank guard (map fresh_thread tps) (pre ++ t :: mid ++ t' :: post) ->
  guard g = Some l -> guard g' = Some l ->
  th_prog t = AAcc g wr :: p -> th_prog t' = AAcc g' wr' :: p' ->
  wr = true \/ wr' = true -> False.
Proof. exact threadsafe_rw_exclusion. Qed.
Print Assumptions C10_reader_writer_exclusion.

(* mutual exclusion, all schedules: two different threads are never both about to access (in any mode)
   data guarded by the same mutex (a lock the source only ever takes exclusively): no data race on
   mutex-guarded state *)
Theorem C10_mutual_exclusion : forall (tps : list (list (list act))) pre t mid t' post l g g' wr wr' p p',
  Forall (Forall threadsafe_path) tps ->
  reach rank guard (map fresh_thread tps) (pre ++ t :: mid ++ t' :: post) ->
  excl_only l = true -> guard g = Some l -> guard g' = Some l ->
  th_prog t = AAcc g wr :: p -> th_prog t' = AAcc g' wr' :: p' -> False.
Proof. exact mutex_mutual_exclusion. Qed.
Print Assumptions C10_mutual_exclusion.

(* at most one exclusive holder per lock, and an exclusive holder excludes every other holder
   (rwlocks included), in every reachable configuration *)
Theorem C10_exclusive_holder : forall c c', Excl c -> reach rank guard c c' -> Excl c'.
Proof. exact (Excl_reach rank guard). Qed.
Print Assumptions C10_exclusive_holder.

(* critical sections are serialised (a property of the lock semantics alone): in any execution of any number of
   threads, a hold interval of lock l taken exclusively by thread i (from its AAcq l true to the matching ARel l)
   and a hold interval of l by another thread j (exclusive or shared) do not overlap in the trace *)
Theorem C10_critical_sections_serialised : forall c0 tr c i j l w' p q p' q',
  exec rank guard c0 tr c -> i <> j ->
  hold_interval tr i l true p q -> hold_interval tr j l w' p' q' -> q < p' \/ q' < p.
Proof. exact (critical_sections_serialised rank guard). Qed.
Print Assumptions C10_critical_sections_serialised.

(* read-modify-write commands on a train are serialised. The verified single-hold checker established on the
   regenerated lock programs that on every path of bidib_set_train_peripheral, bidib_set_train_speed,
   bidib_set_calibrated_train_speed and bidib_emergency_stop_train ALL accesses to the train-state table - the read of
   the tracked function bits / speed, and the store of the new ones in bidib_state_cs_drive - lie inside ONE
   EXCLUSIVE hold of bidib_trains_rwlock (c10_rmw_facts), and that the receiver thread's handling of one uplink
   message (MSG_CS_DRIVE* included) and bidib_send_cs_drive touch the train states inside one hold of that lock
   (c10_other_facts). Hence in ANY execution: if thread i's events contain a path W of one of the commands and thread
   j's a path R of any of these functions, then either every train-state access of W precedes every train-state
   access of R in the trace, or every one of R precedes every one of W - no store can fall between another
   command's read and its store (no lost update). *)
Theorem C10_rmw_serialised : forall fw l gw fr xr gr,
  In (fw, l, true, gw) c10_rmw_facts -> In (fr, l, xr, gr) (c10_rmw_facts ++ c10_other_facts) ->
  forall c0 tr c i j bi W ai bj R aj argsw argsr,
  exec rank guard c0 tr c -> i <> j ->
  proj i tr = bi ++ W ++ ai -> proj j tr = bj ++ R ++ aj ->
  run_call body call_depth argsw fw W -> run_call body call_depth argsr fr R ->
  (forall x y k k' a b, ev_at tr i k x a -> length bi <= k < length bi + length W -> is_gs gw a = true ->
                        ev_at tr j k' y b -> length bj <= k' < length bj + length R -> is_gs gr b = true -> x < y) \/
  (forall x y k k' a b, ev_at tr i k x a -> length bi <= k < length bi + length W -> is_gs gw a = true ->
                        ev_at tr j k' y b -> length bj <= k' < length bj + length R -> is_gs gr b = true -> y < x).
Proof. exact c10_rmw_serialised. Qed.
Print Assumptions C10_rmw_serialised.

(* non-vacuity: four commands, all on one lock, all exclusive; a command (the first that takes the lock itself:
   bidib_set_train_peripheral) is REJECTED by the checker once its write lock is replaced by a read lock (what seed
   C10-c does); and (when the translator found
   them: ex_atomic_present) concrete paths of bidib_set_train_peripheral and bidib_set_train_speed with accesses to
   the train-state table and an execution of two threads running them *)
Example C10_rmw_nonvacuous :
  (existsb (fun f => let '(fn, l, _, _) := f in negb (sh_check (body_downgraded fn l) call_depth f)) c10_rmw_facts = true /\
   length c10_rmw_facts = 4 /\ length c10_other_facts = 2 /\
   forallb (fun f => let '(_, l, ex, _) := f in Nat.eqb l (let '(_, l0, _, _) := nth 0 c10_rmw_facts (0, 0, true, []) in l0) && ex) c10_rmw_facts = true) /\
  (ex_atomic_present = true ->
   exists W R tr c, run_call body call_depth [] ex_c10_a W /\ run_call body call_depth [] ex_c10_b R /\
     In (AAcc ex_atomic_global true) W /\ In (AAcc ex_atomic_global true) R /\
     exec rank guard (map fresh_thread [[W]; [R]]) tr c /\ proj 0 tr = [] ++ W ++ [] /\ proj 1 tr = [] ++ R ++ []).
Proof. exact (conj c10_rmw_downgrade_rejected (fun E => proj2 (c10_rmw_example E))). Qed.

Example C10_guards_nonvacuous :
  length (filter (fun g => match g with Some _ => true | None => false end) guard_tab) = length guard_tab /\
  (10 <= length guard_tab) /\ (100 <= length threadsafe_entries) /\ (10 <= length mutex_ids).
Proof. vm_compute. repeat split; repeat constructor. Qed.

(* non-vacuity of the read/write model on the generated table (the witnesses are chosen by the
   translator: normally bidib_state_node_new writing members of a bidib_boards element under
   pthread_rwlock_wrlock(&bidib_boards_rwlock), and a public function reading bidib_boards under rdlock):
   - the witness writer's body takes the write lock and contains a write access to the guarded global;
     the verified checker accepts it, and REJECTS it once its write lock is replaced by a read lock;
   - a concrete path of the writer on which the write happens with the lock held exclusively, and a
     concrete path of a thread-safe public function on which a read happens under the read lock;
   - a configuration reachable from two fresh threads running these paths in which the writer is about
     to write (so the premise of C10_reader_writer_exclusion is satisfiable in reachable states) *)
Example C10_nonvacuous : ex_present = true ->
  (guard ex_global = Some ex_rwlock /\
   (exists s, body ex_writer = Some s /\ mentions (AAcq ex_rwlock true) s = true /\ mentions (AAcc ex_global true) s = true) /\
   check_entry rank guard body call_depth ex_writer = true /\
   check_entry rank guard (body_downgraded ex_writer ex_rwlock) call_depth ex_writer = false /\
   In ex_reader threadsafe_entries /\
   (exists s, body ex_reader = Some s /\ mentions (AAcq ex_rwlock false) s = true /\ mentions (AAcq ex_rwlock true) s = false /\
              mentions (AAcc ex_global false) s = true)) /\
  ((exists pre rest H, run_call body call_depth [] ex_writer (pre ++ AAcc ex_global true :: rest) /\
      acts_ok rank guard [] pre = Some H /\ In (ex_rwlock, true) H) /\
   (exists pre rest H, run_call body call_depth [] ex_reader (pre ++ AAcc ex_global false :: rest) /\
      acts_ok rank guard [] pre = Some H /\ In (ex_rwlock, false) H)) /\
  (exists pw pr H p,
    run_call body call_depth [] ex_writer pw /\ run_call body call_depth [] ex_reader pr /\
    acts_ok rank guard [] pw = Some [] /\ acts_ok rank guard [] pr = Some [] /\
    reach rank guard (map fresh_thread [[pw]; [pr]])
          [ {| th_held := H; th_prog := AAcc ex_global true :: p |}; fresh_thread [pr] ] /\
    In (ex_rwlock, true) H).
Proof. exact (fun E => conj (rw_witness E) (conj (rw_path_witness E) (rw_reachable_witness E))). Qed.
Print Assumptions C10_nonvacuous.

(* every getter result is a state that existed at some instant, at lock granularity: for every public getter and every lock
   guarding tracked state / board / train tables it touches, ALL its accesses to the data under that lock lie inside one hold of
   the lock on every path (facts generated per getter and lock from the source on every run, decided by the verified checker);
   against the read-modify-write commands on a train the reads are ordered wholly before or wholly after the command *)
Theorem C10_getters_single_hold : forall fn l ex gs, In (fn, l, ex, gs) c10_getter_facts ->
  forall args p, run_call body call_depth args fn p -> sh_path l ex gs p.
Proof. exact c10_getter_paths. Qed.
Print Assumptions C10_getters_single_hold.
Theorem C10_getter_vs_rmw : forall fw l gw fr xr gr,
  In (fw, l, true, gw) c10_rmw_facts -> In (fr, l, xr, gr) c10_getter_facts ->
  forall c0 tr c i j bi W ai bj R aj argsw argsr,
  exec rank guard c0 tr c -> i <> j ->
  proj i tr = bi ++ W ++ ai -> proj j tr = bj ++ R ++ aj ->
  run_call body call_depth argsw fw W -> run_call body call_depth argsr fr R ->
  (forall x y k k' a b, ev_at tr i k x a -> length bi <= k < length bi + length W -> is_gs gw a = true ->
                        ev_at tr j k' y b -> length bj <= k' < length bj + length R -> is_gs gr b = true -> x < y) \/
  (forall x y k k' a b, ev_at tr i k x a -> length bi <= k < length bi + length W -> is_gs gw a = true ->
                        ev_at tr j k' y b -> length bj <= k' < length bj + length R -> is_gs gr b = true -> y < x).
Proof. exact c10_getter_vs_rmw. Qed.
Print Assumptions C10_getter_vs_rmw.
Example C10_getters_nonvacuous : (40 <= length c10_getter_facts)%nat.
Proof. vm_compute. repeat constructor. Qed.

