(* Extract_C07.v — extraction of the tracked-state model (C07/C08) together with the receive model
   that turns the fed bytes into messages. ExtrOcamlBasic only; no Extract Constant. Not part of
   _CoqProject: compiled by the check in a scratch directory. *)
From Coq Require Import Extraction ExtrOcamlBasic List NArith ZArith.
From LB Require Import Tables Framing Rx StateTabs State StateSpec.
Extraction "model_c07.ml"
  rx_init rx_run first_data_index
  init apply run_from handle addr3 train_position power_view s8 position
  spec_apply diag_pairs spec_current.
