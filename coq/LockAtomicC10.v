(* LockAtomicC10.v — read-modify-write commands on a train are serialised: the single-hold facts checked
   against the generated lock programs, and the resulting semantic theorem. *)
From Coq Require Import List Arith Bool.
From LB Require Import LockLang LockCfg LockSem LockTrace LockAtomic LockProofs.
Import ListNotations.

(* bidib_set_train_peripheral / bidib_set_train_speed / bidib_set_calibrated_train_speed /
   bidib_emergency_stop_train: on every path, everything between reading the tracked speed / function bits of
   the train and storing the new ones (all accesses to the train-state table) lies inside ONE EXCLUSIVE hold of
   bidib_trains_rwlock; one uplink message on the receiver thread, and bidib_send_cs_drive, touch the train
   states inside one hold of that lock *)
Lemma c10_single_hold : forallb (sh_check body call_depth) (c10_rmw_facts ++ c10_other_facts) = true.
Proof. vm_compute. reflexivity. Qed.

(* Any execution, any number of threads. Thread i's events contain a path W of one of the read-modify-write
   commands; thread j's contain a path R of another such command, of the receiver's handling of one message, or of
   bidib_send_cs_drive. Then, in the trace, all accesses of W to the train states precede all those of R, or all
   those of R precede all those of W: no store of R can fall between W's read and W's store (no lost update). *)
Theorem c10_rmw_serialised fw l gw fr xr gr :
  In (fw, l, true, gw) c10_rmw_facts -> In (fr, l, xr, gr) (c10_rmw_facts ++ c10_other_facts) ->
  forall c0 tr c i j bi W ai bj R aj argsw argsr,
  exec rank guard c0 tr c -> i <> j ->
  proj i tr = bi ++ W ++ ai -> proj j tr = bj ++ R ++ aj ->
  run_call body call_depth argsw fw W -> run_call body call_depth argsr fr R ->
  (forall x y k k' a b, ev_at tr i k x a -> length bi <= k < length bi + length W -> is_gs gw a = true ->
                        ev_at tr j k' y b -> length bj <= k' < length bj + length R -> is_gs gr b = true -> x < y) \/
  (forall x y k k' a b, ev_at tr i k x a -> length bi <= k < length bi + length W -> is_gs gw a = true ->
                        ev_at tr j k' y b -> length bj <= k' < length bj + length R -> is_gs gr b = true -> y < x).
Proof.
  intros Hw Hr c0 tr c i j bi W ai bj R aj argsw argsr He Hij Hpi Hpj HW HR.
  pose proof c10_single_hold as Hf.
  eapply sh_paths_ordered; try eassumption.
  - eapply sh_check_sound; [exact Hf|apply in_or_app; left; exact Hw|exact HW].
  - eapply sh_check_sound; [exact Hf|exact Hr|exact HR].
Qed.

(* the fact is real: with the write lock of a command replaced by a read lock (seed C10-c does this to
   bidib_set_train_peripheral) the checker rejects the command *)
Lemma c10_rmw_downgrade_rejected :
  existsb (fun f => let '(fn, l, _, _) := f in negb (sh_check (body_downgraded fn l) call_depth f)) c10_rmw_facts = true /\
  length c10_rmw_facts = 4 /\ length c10_other_facts = 2 /\
  forallb (fun f => let '(_, l, ex, _) := f in Nat.eqb l (let '(_, l0, _, _) := nth 0 c10_rmw_facts (0, 0, true, []) in l0) && ex) c10_rmw_facts = true.
Proof. vm_compute. repeat split. Qed.

(* a concrete instance from the generated table: a path of bidib_set_train_peripheral and a path of
   bidib_set_train_speed, both with accesses to the train-state table, and an execution of two threads in which they
   run (the premises of c10_rmw_serialised are satisfiable) *)
From LB Require Import LockWitness.
Lemma c10_rmw_example : ex_atomic_present = true ->
  existsb (fun w => let '(fw, lw, _, gw) := w in
     existsb (fun r => let '(fr, lr, _, gr) := r in
        Nat.eqb fw ex_c10_a && Nat.eqb fr ex_c10_b && Nat.eqb lw lr &&
        existsb (Nat.eqb ex_atomic_global) gw && existsb (Nat.eqb ex_atomic_global) gr) c10_rmw_facts) c10_rmw_facts = true /\
  exists W R tr c, run_call body call_depth [] ex_c10_a W /\ run_call body call_depth [] ex_c10_b R /\
    In (AAcc ex_atomic_global true) W /\ In (AAcc ex_atomic_global true) R /\
    exec rank guard (map fresh_thread [[W]; [R]]) tr c /\ proj 0 tr = [] ++ W ++ [] /\ proj 1 tr = [] ++ R ++ [].
Proof.
  intros E. first [discriminate E|clear E].
  split; [vm_compute; reflexivity|].
  destruct (witness body call_depth 12 ex_c10_a (AAcc ex_atomic_global true)) as [[pw rw]|] eqn:Ew; [|vm_compute in Ew; discriminate].
  destruct (witness body call_depth 12 ex_c10_b (AAcc ex_atomic_global true)) as [[pr rr]|] eqn:Er; [|vm_compute in Er; discriminate].
  eapply atomic_example; [exact Ew|exact Er|vm_compute; reflexivity|vm_compute; reflexivity].
Qed.

(* every public getter (name starting with bidib_get_): for every lock guarding tracked state / board / train tables the getter touches, all its
   accesses to the data under that lock lie inside ONE hold of the lock, on every path (facts generated per getter and lock
   from the source; a getter that counts under the lock, releases it and copies under a second hold fails) *)
Lemma c10_getter_single_hold : forallb (sh_check body call_depth) c10_getter_facts = true.
Proof. vm_compute. reflexivity. Qed.

Theorem c10_getter_paths fn l ex gs : In (fn, l, ex, gs) c10_getter_facts ->
  forall args p, run_call body call_depth args fn p -> sh_path l ex gs p.
Proof. intros Hin. eapply sh_check_sound; [exact c10_getter_single_hold|exact Hin]. Qed.

(* a getter against a read-modify-write command on the trains (the writers for which an exclusive single-hold fact exists):
   all the getter's reads of the train states precede all the command's accesses or follow them all *)
Theorem c10_getter_vs_rmw fw l gw fr xr gr :
  In (fw, l, true, gw) c10_rmw_facts -> In (fr, l, xr, gr) c10_getter_facts ->
  forall c0 tr c i j bi W ai bj R aj argsw argsr,
  exec rank guard c0 tr c -> i <> j ->
  proj i tr = bi ++ W ++ ai -> proj j tr = bj ++ R ++ aj ->
  run_call body call_depth argsw fw W -> run_call body call_depth argsr fr R ->
  (forall x y k k' a b, ev_at tr i k x a -> length bi <= k < length bi + length W -> is_gs gw a = true ->
                        ev_at tr j k' y b -> length bj <= k' < length bj + length R -> is_gs gr b = true -> x < y) \/
  (forall x y k k' a b, ev_at tr i k x a -> length bi <= k < length bi + length W -> is_gs gw a = true ->
                        ev_at tr j k' y b -> length bj <= k' < length bj + length R -> is_gs gr b = true -> y < x).
Proof.
  intros Hw Hr c0 tr c i j bi W ai bj R aj argsw argsr He Hij Hpi Hpj HW HR.
  eapply sh_paths_ordered; try eassumption.
  - eapply sh_check_sound; [exact c10_single_hold|apply in_or_app; left; exact Hw|exact HW].
  - eapply sh_check_sound; [exact c10_getter_single_hold|exact Hr|exact HR].
Qed.

