(* Interleave.v — all interleavings of per-thread atomic-step lists. *)
From Coq Require Import List.
Import ListNotations.

Inductive interleaving {A : Type} : list (list A) -> list A -> Prop :=
| il_nil : forall ts, Forall (fun t => t = []) ts -> interleaving ts []
| il_step : forall pre x t post l,
    interleaving (pre ++ t :: post) l -> interleaving (pre ++ (x :: t) :: post) (x :: l).

Lemma interleaving_Forall {A} (P : A -> Prop) ts (l : list A) :
  interleaving ts l -> Forall (Forall P) ts -> Forall P l.
Proof.
  induction 1 as [ts H|pre x t post l Hil IH]; intros HF; [constructor|].
  apply Forall_app in HF as [Hpre Hrest]. inversion Hrest as [|? ? Hxt Hpost]; subst.
  inversion Hxt as [|? ? Hx Ht]; subst. constructor; [exact Hx|].
  apply IH. apply Forall_app. split; [exact Hpre|]. constructor; assumption.
Qed.

