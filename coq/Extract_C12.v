From Coq Require Import Extraction ExtrOcamlBasic List NArith ZArith.
From LB Require Import Tables Framing Rx AccessTab AccessModel Handlers.
Extraction "model_c12.ml" dispatch handle_var extent vendor_h multiple_setter_h multiple_mirror_h multiple_h address_h diag_h data_length data_index min_data.
