(* AccessModel.v — index arithmetic of the dispatcher's fixed-offset reads (C12, dispatcher level).
   The offsets per message type are GENERATED (AccessTab.v). *)
From Coq Require Import List NArith Bool Arith.
From LB Require Import Tables Framing Rx AccessTab.
Import ListNotations.

Definition offsets_of (ty : N) : list nat :=
  match find (fun e => N.eqb (fst e) ty) access_tab with Some (_, (ks, _)) => ks | None => [] end.

Definition min_data_len (ty : N) : nat := fold_right (fun k acc => Nat.max (S k) acc) 0%nat (offsets_of ty).

(* are all fixed-offset reads message[data_index + k] of the handler inside the message copy?
   data_index = -1 when the message has no data bytes *)
Definition fixed_reads_ok (m : list N) (ty : N) : bool :=
  match first_data_index m with
  | Some d => forallb (fun k => (d + k <? length m)%nat) (offsets_of ty)
  | None => forallb (fun k => (1 <=? k)%nat && (k - 1 <? length m)%nat) (offsets_of ty)
  end.
