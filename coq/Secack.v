(* Secack.v — executable model of the secure-acknowledge mirroring in bidib_handle_received_message
   (cases MSG_BM_OCC / FREE / MULTIPLE / POSITION), of the node-new bookkeeping it depends on
   (bidib_state_node_new + MSG_NODE_CHANGED_ACK) and of the four mirror constructors in
   src/lowlevel/bidib_lowlevel_occupancy.c, composed with the node-flow world (budget, stall, buffer). *)
From Coq Require Import List NArith Bool Arith.
From LB Require Import Tables Framing NodeFlow Rx Link Dispatch.
Import ListNotations.
Local Open Scope N_scope.

Record sboard := { sb_uid : list N; sb_secack : bool; sb_conn : bool; sb_addr : list N }.

Fixpoint list_eqb (a b : list N) : bool :=
  match a, b with [], [] => true | x :: a', y :: b' => (x =? y) && list_eqb a' b' | _, _ => false end.

Definition addr3_of (a : list N) : addr3 := (nth 0 a 0, nth 1 a 0, nth 2 a 0).

(* bidib_state_node_new: the board with this unique id becomes connected at announcer ++ [local] *)
Definition extend_addr (a : list N) (local : N) : list N :=
  match a with
  | [] => [local] | [t] => [t; local] | t :: s :: _ => [t; s; local]
  end.

Definition node_new (bs : list sboard) (announcer : list N) (local : N) (uid : list N) : list sboard :=
  let fix go (l : list sboard) (done : bool) :=
    match l with
    | [] => []
    | b :: r => if negb done && list_eqb (sb_uid b) uid
                then {| sb_uid := sb_uid b; sb_secack := sb_secack b; sb_conn := true; sb_addr := extend_addr announcer local |} :: go r true
                else b :: go r done
    end in go bs false.

(* bidib_state_node_lost: the board with this unique id (if configured) is disconnected; for an interface unique id
   (class bit 7) every board beneath announcer ++ [local] is disconnected too; stored addresses are kept *)
Definition strictly_beneath (p a : list N) : bool :=
  Nat.ltb (length p) (length a) && list_eqb p (firstn (length p) a).
Definition set_conn (b : sboard) (c : bool) : sboard :=
  {| sb_uid := sb_uid b; sb_secack := sb_secack b; sb_conn := c; sb_addr := sb_addr b |}.
Fixpoint lost_go (lost uid : list N) (iface : bool) (l : list sboard) (done : bool) : list sboard :=
  match l with
  | [] => []
  | b :: r =>
      let hit := negb done && list_eqb (sb_uid b) uid in
      let b1 := if hit then set_conn b false else b in
      let b2 := if iface && strictly_beneath lost (sb_addr b1) then set_conn b1 false else b1 in
      b2 :: lost_go lost uid iface r (done || hit)
  end.
Definition node_lost (bs : list sboard) (announcer : list N) (local : N) (uid : list N) : list sboard :=
  lost_go (extend_addr announcer local) uid (N.testbit (nth 0 uid 0) 7) bs false.

(* bidib_state_get_board_ref_by_nodeaddr: first connected board with that address *)
Definition board_at (bs : list sboard) (a : list N) : option sboard :=
  find (fun b => sb_conn b && list_eqb (canon (addr3_of (sb_addr b))) a) bs.

Definition secack_at (bs : list sboard) (a : list N) : bool :=
  match board_at bs a with Some b => sb_secack b | None => false end.

(* the mirror the library builds for a report (type, data); None = no mirror is sent *)
Definition mirror_of (ty : N) (data : list N) : option (N * list N) :=
  if ty =? MSG_BM_OCC then Some (MSG_BM_MIRROR_OCC, [nth 0 data 0])
  else if ty =? MSG_BM_FREE then Some (MSG_BM_MIRROR_FREE, [nth 0 data 0])
  else if ty =? MSG_BM_MULTIPLE then
    let mnum := nth 0 data 0 in let size := nth 1 data 0 in
    if negb (mnum mod 8 =? 0) || (size <? 8) || (128 <? size) || negb (size mod 8 =? 0) then None
    else Some (MSG_BM_MIRROR_MULTIPLE, [mnum; size] ++ firstn (N.to_nat (size / 8)) (skipn 2 data))
  else if ty =? MSG_BM_POSITION then
    (* bidib_send_msg_bm_mirror_position: decoder address low/high, type, location low/high *)
    Some (MSG_BM_MIRROR_POSITION, [nth 0 data 0; nth 1 data 0; nth 2 data 0; nth 3 data 0; nth 4 data 0])
  else None.

(* what the specification asks the mirror to carry: the same detector number and payload *)
Definition mirror_spec (ty : N) (data : list N) : option (N * list N) :=
  if ty =? MSG_BM_OCC then Some (MSG_BM_MIRROR_OCC, [nth 0 data 0])
  else if ty =? MSG_BM_FREE then Some (MSG_BM_MIRROR_FREE, [nth 0 data 0])
  else if ty =? MSG_BM_MULTIPLE then Some (MSG_BM_MIRROR_MULTIPLE, firstn (2 + N.to_nat (nth 1 data 0 / 8)) data)
  else if ty =? MSG_BM_POSITION then Some (MSG_BM_MIRROR_POSITION, firstn 5 data)
  else None.

Record sworld := { w_boards : list sboard; w_flow : flow * N }.

(* the receiver's handling of one decoded message in normal mode, as far as C19 is concerned *)
Definition handle_msg (w : sworld) (m : rmsg) : sworld * list (N * packet) :=
  let data := msg_data (m_raw m) in
  let '(f1, p1) := flow_step (w_flow w) (FUp (m_addr m) (m_type m) (last_byte (m_raw m))) in
  if m_type m =? MSG_NODE_NEW then
    let bs := node_new (w_boards w) (m_addr m) (nth 1 data 0) (firstn 7 (skipn 2 data)) in
    let '(f2, p2) := flow_run f1 [FSend (addr3_of (m_addr m)) MSG_NODE_CHANGED_ACK [nth 0 data 0]; FFlush] in
    ({| w_boards := bs; w_flow := f2 |}, p1 ++ p2)
  else if m_type m =? MSG_NODE_LOST then
    let bs := node_lost (w_boards w) (m_addr m) (nth 1 data 0) (firstn 7 (skipn 2 data)) in
    let '(f2, p2) := flow_run f1 [FSend (addr3_of (m_addr m)) MSG_NODE_CHANGED_ACK [nth 0 data 0]; FFlush] in
    ({| w_boards := bs; w_flow := f2 |}, p1 ++ p2)
  else if secack_at (w_boards w) (m_addr m) then
    match mirror_of (m_type m) data with
    | Some (ty, d) =>
        let '(f2, p2) := flow_run f1 [FSend (addr3_of (m_addr m)) ty d; FFlush] in
        ({| w_boards := w_boards w; w_flow := f2 |}, p1 ++ p2)
    | None =>
        if (m_type m =? MSG_BM_MULTIPLE) then
          (* rejected by the constructor's range check: nothing sent, but the flush still happens *)
          let '(f2, p2) := flow_run f1 [FFlush] in ({| w_boards := w_boards w; w_flow := f2 |}, p1 ++ p2)
        else ({| w_boards := w_boards w; w_flow := f1 |}, p1)
    end
  else ({| w_boards := w_boards w; w_flow := f1 |}, p1).

Fixpoint handle_items (w : sworld) (items : list rx_item) : sworld * list (N * packet) :=
  match items with
  | [] => (w, [])
  | Delivered m :: r => let '(w1, p1) := handle_msg w m in let '(w2, p2) := handle_items w1 r in (w2, p1 ++ p2)
  | _ :: r => handle_items w r
  end.
